"""
C06, UNCHANGED library -- borderline: values, user-defined marks and identities all survive, but a
rejected single-element insertion (and a rejected list assignment) re-homes item configurations
that are part of the live configuration: their back-pointers (_key, _container) are rewritten
before the operation is refused, so the public item_ref_path() of an untouched item changes.
"""
import os
import sys
import tempfile

os.environ["HOME"] = tempfile.mkdtemp(prefix="c06-home-")
sys.path.insert(0, os.getcwd())

from cincoconfig import IntField, ListField, Schema, item_ref_path, validator  # noqa: E402

item = Schema()
item.x = IntField(default=1)
item.y = IntField(default=5)


@validator(item)
def x_below_y(cfg):
    if cfg.x >= cfg.y:
        raise ValueError("x must be below y")


schema = Schema()
schema.a = ListField(item)
schema.b = ListField(item)
cfg = schema()
cfg.a = [{"x": 1}, {"x": 2}]
cfg.b = []

problems = []

# 1. an item of list a that has become invalid (field assignments do not run schema validators)
#    is offered to list b and refused
second = cfg.a[1]
second.x = 9
before = (item_ref_path(second), second._container is cfg.a)
try:
    cfg.b.append(second)
except ValueError as err:
    after = (item_ref_path(second), second._container is cfg.a)
    if after != before:
        problems.append(
            "cfg.b.append(cfg.a[1]) raised (%s); the item is still cfg.a[1] and not in b (len(b)=%d) "
            "but (path, container is a) went %r -> %r" % (err, len(cfg.b), before, after)
        )

# 2. a rejected assignment of a whole list that mentions a held item at another position
first = cfg.a[0]
before = (item_ref_path(first), first._container is cfg.a)
try:
    cfg.a = [{"x": 3}, first, {"x": "bad"}]
except ValueError as err:
    after = (item_ref_path(first), first._container is cfg.a)
    if after != before:
        problems.append(
            "cfg.a = [new, cfg.a[0], bad] raised (%s); cfg.a is unchanged (cfg.a[0] is first: %s) "
            "but (path, container is a) went %r -> %r" % (err, cfg.a[0] is first, before, after)
        )

if problems:
    print("UNCHANGED LIBRARY: a rejected list operation rewrote the back-pointers of live item configurations")
    for p in problems:
        print(" -", p)
    sys.exit(1)
print("ok")
sys.exit(0)
