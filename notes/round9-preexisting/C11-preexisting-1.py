"""
Pre-existing (unchanged tree): item configurations inserted into a configuration list through the
"same configuration, same item field" fast paths are not validated.

C11: "items of configuration lists are held to the same rule when they are loaded or inserted".
append / insert / slice assignment / extend(plain list) of an item that violates its schema validator
raise; extend(proxy), += proxy and the assignment of one list field's proxy to ANOTHER list field with
the same item schema take the items over without running anything.
"""
import os
import sys
import tempfile

os.environ["HOME"] = tempfile.mkdtemp(prefix="c11-pre1-home-")
sys.path.insert(0, os.getcwd())

from cincoconfig import Schema, ValidationError, validator  # noqa: E402
from cincoconfig.fields import IntField, ListField  # noqa: E402

item = Schema()
item.lo = IntField(default=0)
item.hi = IntField(default=10)
calls = []


@validator(item)
def ordered(cfg):
    calls.append((cfg.lo, cfg.hi))
    if cfg.lo > cfg.hi:
        raise ValueError("lo > hi")


root = Schema()
root.a = ListField(item)
root.b = ListField(item, default=lambda: [])


def fresh():
    cfg = root()
    cfg.load_tree({"a": [{"lo": 1, "hi": 2}]})
    cfg.a[0].lo = 50  # accepted by the field; the schema validator is not run on a plain assignment
    return cfg


problems = []
for label, op in (
    ("a.append(a[0])", lambda c: c.a.append(c.a[0])),
    ("a.insert(0, a[0])", lambda c: c.a.insert(0, c.a[0])),
    ("a[:] = a", lambda c: c.a.__setitem__(slice(None), c.a)),
    ("a.extend(list(a))", lambda c: c.a.extend(list(c.a))),
    ("a.extend(a)", lambda c: c.a.extend(c.a)),
    ("a += a", lambda c: c.a.__iadd__(c.a)),
    ("b = a  (another list field, same item schema)", lambda c: setattr(c, "b", c.a)),
    ("b.extend(a)", lambda c: c.b.extend(c.a)),
):
    cfg = fresh()
    del calls[:]
    try:
        op(cfg)
    except ValidationError as err:
        print("refused : %-50s %s" % (label, err))
    else:
        print("ACCEPTED: %-50s validator calls: %r, len(a)=%d, len(b)=%d" % (label, calls, len(cfg.a), len(cfg.b)))
        problems.append(label)

if problems:
    print("C11 violated on the unchanged tree: an item with lo > hi was inserted without validation by:")
    for label in problems:
        print("  -", label)
    sys.exit(1)
print("ok")
sys.exit(0)
