"""Pre-existing (HEAD): ChallengeField accepts a DigestValue made with another algorithm unchanged, but the on-disk
form has no algorithm and to_python tags the value with the field's own: the value read back is unequal and its
challenge() fails for the right plaintext."""
import os
import sys
import tempfile

os.environ["HOME"] = tempfile.mkdtemp(prefix="c05-home-")
sys.path.insert(0, os.getcwd())

import hashlib  # noqa: E402

from cincoconfig import ChallengeField, Schema  # noqa: E402
from cincoconfig.fields import DigestValue  # noqa: E402

schema = Schema()
schema.password = ChallengeField("md5")
cfg = schema()
field = schema._fields["password"]
accepted = field.validate(cfg, DigestValue.create("pw", hashlib.sha256))
accepted.challenge("pw")
back = field.to_python(cfg, field.to_basic(cfg, accepted))
try:
    back.challenge("pw")
    challenge = "passes"
except ValueError:
    challenge = "fails"
if back != accepted:
    print("C05 violated on the unchanged tree: accepted sha256 digest comes back tagged %s, equal=%s, challenge('pw') %s"
          % (back.algorithm.__name__, back == accepted, challenge))
    sys.exit(1)
print("ok")
