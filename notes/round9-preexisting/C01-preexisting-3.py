import os
import sys
import tempfile

os.environ["HOME"] = tempfile.mkdtemp(prefix="c01-home-")
sys.path.insert(0, os.getcwd())

# Assigning the configuration held by one slot to another slot of the same config type adopts
# the very object: both slots (or two configurations) then share it, so a later accepted
# assignment to one field changes another field as well.
from cincoconfig import Schema, IntField, make_type  # noqa: E402

inner = Schema()
inner.x = IntField(default=1)
Inner = make_type(inner, "Inner")
schema = Schema()
schema.a = Inner
schema.b = Inner
cfg = schema()
other = schema()
cfg.a = cfg.b          # accepted
other.a = cfg.a        # accepted
before = (cfg.b.x, cfg.a.x)
other.a.x = 7          # an assignment to other.a.x only
bad = []
if cfg.b.x != before[0]:
    bad.append("other.a.x = 7 changed cfg.b.x from %r to %r" % (before[0], cfg.b.x))
if cfg.a.x != before[1]:
    bad.append("other.a.x = 7 changed cfg.a.x from %r to %r" % (before[1], cfg.a.x))
if cfg.a._parent is not cfg:
    bad.append("cfg.a no longer belongs to cfg (its parent is the other configuration)")
if bad:
    print("C01 ('the assignment changes no other field') violated on the unchanged library: adopted sub-configurations are shared")
    for line in bad:
        print("  -", line)
    sys.exit(1)
print("ok")
sys.exit(0)
