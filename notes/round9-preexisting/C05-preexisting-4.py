"""Pre-existing (HEAD): an untyped ListField (no item field, or AnyField) accepts a tuple and returns it unchanged;
its on-disk form is a list, which reads back as a list: (1, 2) != [1, 2]."""
import os
import sys
import tempfile

os.environ["HOME"] = tempfile.mkdtemp(prefix="c05-home-")
sys.path.insert(0, os.getcwd())

from cincoconfig import AnyField, ListField, Schema  # noqa: E402

schema = Schema()
schema.plain = ListField()
schema.anyitems = ListField(AnyField())
cfg = schema()
bad = []
for name in ("plain", "anyitems"):
    field = schema._fields[name]
    accepted = field.validate(cfg, (1, 2))
    back = field.to_python(cfg, field.to_basic(cfg, accepted))
    if back != accepted:
        bad.append("%s: accepted %r, to_python(to_basic(v)) = %r" % (name, accepted, back))
if bad:
    print("C05 violated on the unchanged tree: on-disk encoding is not invertible")
    print("\n".join("  " + b for b in bad))
    sys.exit(1)
print("ok")
