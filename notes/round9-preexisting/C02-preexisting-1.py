"""
Pre-existing (unchanged library): a configuration that PASSES validation cannot be loaded back.

A sub-configuration whose feature flag is off is not validated (Schema._validate returns early),
so a required field in it may legitimately be unset (None) or a required list may be empty. Such a
state is saved as  name: null / [] , and load_tree() -> _set_value() -> Field.validate() rejects
the null / empty value with "value is required" without looking at the feature flag. The document
the library wrote for a valid state is refused by the library, in every format.
"""
import os
import sys
import tempfile

os.environ["HOME"] = tempfile.mkdtemp(prefix="c02-home-")
sys.path.insert(0, os.getcwd())

from cincoconfig import FeatureFlagField, IntField, ListField, Schema, StringField  # noqa: E402


def main():
    schema = Schema()
    schema.tls.enabled = FeatureFlagField(default=False)
    schema.tls.cert = StringField(required=True)          # no default: unset while TLS is off
    schema.tls.ciphers = ListField(StringField(), required=True, default=lambda: [])
    schema.port = IntField(default=8080)

    cfg = schema()
    cfg.port = 9090
    errors = cfg.validate(collect_errors=True)
    if errors:
        print("unexpected: the state does not validate:", errors)
        return 0  # not the situation this script is about
    cfg.validate()  # passes: the feature is disabled

    failures = []
    for fmt in ("json", "yaml", "bson", "xml", "pickle"):
        content = cfg.dumps(fmt)
        fresh = schema()
        try:
            fresh.loads(content, fmt)
        except Exception as exc:  # pylint: disable=broad-except
            failures.append("%s: %s: %s" % (fmt, type(exc).__name__, exc))
            continue
        if fresh.to_tree() != cfg.to_tree():
            failures.append("%s: differs: %r vs %r" % (fmt, cfg.to_tree(), fresh.to_tree()))

    if failures:
        print("C02 violated on the unchanged tree: a valid state (feature flag off, required "
              "field unset) is saved but cannot be loaded:")
        print("   saved tree:", cfg.to_tree())
        for msg in failures:
            print(" -", msg)
        return 1
    print("ok")
    return 0


if __name__ == "__main__":
    sys.exit(main())
