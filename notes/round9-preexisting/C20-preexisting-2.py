"""C20 on the UNCHANGED tree: instance methods that are not plain functions with a leading config parameter.

get_method_annotation reads inspect.getfullargspec(field.method) and overwrites the FIRST entry with
'self'.  getfullargspec does not drop the bound argument of a bound method / callable object, and the first
entry may be '*args' - so the stub's parameters differ from those of the bound function:

 * bound method of a helper object  run(self, cfg, job)   -> stub 'def run(self, cfg, job)'   (cfg is extra)
 * callable object  __call__(self, cfg, job)              -> the same
 * def handler(*args, **kwargs) (an undecorated wrapper)  -> stub 'def handler(self, **kwargs)' (*args lost)
"""
import os
import sys
import tempfile

os.environ["HOME"] = tempfile.mkdtemp(prefix="c20-home-")
sys.path.insert(0, os.getcwd())

import ast

from cincoconfig import InstanceMethodField, Schema, StringField, generate_stub


class Runner:
    def run(self, cfg, job: str, *, dry: bool = False) -> str:
        return "%s:%s:%s" % (cfg.name, job, dry)

    def __call__(self, cfg, job: str) -> str:
        return "%s/%s" % (cfg.name, job)


def passthrough(*args, **kwargs):
    return (len(args), sorted(kwargs))


runner = Runner()
schema = Schema()
schema.name = StringField(default="n")
schema.run = InstanceMethodField(runner.run)          # bound method
schema.call = InstanceMethodField(runner)             # callable object
schema.passthrough = InstanceMethodField(passthrough)

cfg = schema()
# all three work as instance methods of the configuration:
assert cfg.run("j", dry=True) == "n:j:True"
assert cfg.call("j") == "n/j"
assert cfg.passthrough(1, 2, k=3) == (3, ["k"])

stub = generate_stub(schema, "Thing")
cls = ast.parse(stub).body[0]
methods = {n.name: n for n in cls.body if isinstance(n, ast.FunctionDef)}


def shape(node):
    a = node.args
    return (
        [x.arg for x in a.posonlyargs + a.args][1:],  # without self
        a.vararg.arg if a.vararg else None,
        [x.arg for x in a.kwonlyargs],
        a.kwarg.arg if a.kwarg else None,
    )


expected = {
    "run": (["job"], None, ["dry"], None),
    "call": (["job"], None, [], None),
    "passthrough": ([], "args", [], "kwargs"),
}
problems = []
for name, want in expected.items():
    got = shape(methods[name])
    if got != want:
        problems.append("%s: bound function takes %r, the stub declares %r" % (name, want, got))

if problems:
    print("C20 VIOLATED on the unchanged tree")
    for problem in problems:
        print(" -", problem)
    print(stub)
    sys.exit(1)
print("ok")
sys.exit(0)
