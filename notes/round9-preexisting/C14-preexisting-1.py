"""Pre-existing (unchanged tree): ListField and DictField are bound to an environment variable by
the naming rule like every field (field.env is a name), and Config.load_tree honours the binding
(it skips the document's value when the variable is set) -- but their own __setdefault__ never
looks at the variable. So with the variable set and non-empty:
  * the value after construction is the declared default, not the validated variable, and
    construction does not fail although the variable is invalid for the field
    (validate('a,b') raises 'value is not a list' / 'value is not a dict object');
  * every later document is ignored for that key.
The field ends up with neither the variable nor the document: stuck at its default.
"""
import os
import sys
import tempfile

os.environ["HOME"] = tempfile.mkdtemp(prefix="c14-home-")
sys.path.insert(0, os.getcwd())

from cincoconfig import (  # noqa: E402
    DictField,
    IntField,
    ListField,
    Schema,
    StringField,
    ValidationError,
)

os.environ["SVC_HOSTS"] = "a,b"
os.environ["SVC_LABELS"] = "x=1"
os.environ["SVC_RAW"] = "r"
os.environ["SVC_PORT"] = "9"

schema = Schema(env="SVC")
schema.port = IntField(default=1)
schema.hosts = ListField(StringField(), default=lambda: ["localhost"])
schema.labels = DictField(StringField(), StringField(), default=lambda: {"k": "v"})
schema.raw = ListField()  # untyped, no default

problems = []
for key in ("hosts", "labels", "raw"):
    field = schema._fields[key]
    if field.env != "SVC_" + key.upper():
        print("unexpected: %s is not bound (%r)" % (key, field.env))
        sys.exit(0)
    try:
        field.validate(None, os.environ[field.env])
    except Exception as exc:  # the variable is invalid for the field
        invalid = str(exc)
    else:
        invalid = None
    try:
        cfg = schema()
    except ValidationError:
        continue  # what the property asks for when the variable is invalid
    value = cfg[key]
    if invalid is not None:
        problems.append(
            "%s: variable %s=%r is invalid (%s) but construction succeeded with %r"
            % (key, field.env, os.environ[field.env], invalid, value)
        )

cfg = schema()
before = {k: cfg[k] for k in ("port", "hosts", "labels", "raw")}
cfg.load_tree({"port": 2, "hosts": ["h1", "h2"], "labels": {"a": "b"}, "raw": [1, 2]})
after = {k: cfg[k] for k in ("port", "hosts", "labels", "raw")}
if after["port"] != 9:
    problems.append("control field port: %r" % (after["port"],))
for key in ("hosts", "labels", "raw"):
    if after[key] == before[key]:
        problems.append(
            "%s: the document value was skipped because %s is set, although the variable was "
            "never applied: value stays %r" % (key, schema._fields[key].env, after[key])
        )

if problems:
    print("C14 violated on the unchanged tree (container fields bound to a variable):")
    for line in problems:
        print("  - " + line)
    sys.exit(1)
print("ok")
