"""C09, unchanged tree: a DigestValue made with another offered algorithm is accepted by a
ChallengeField (as default or by assignment) and verifies in memory, but after save/load the same
salt and digest are bound to the FIELD's algorithm, so the challenge that succeeded now fails.
(Borderline: the library never refuses or converts the foreign digest value.)"""
import os
import sys
import tempfile

os.environ["HOME"] = tempfile.mkdtemp(prefix="c09-home-")
sys.path.insert(0, os.getcwd())

import hashlib  # noqa: E402

from cincoconfig import ChallengeField, Schema  # noqa: E402
from cincoconfig.fields import DigestValue  # noqa: E402


def verifies(value, secret):
    try:
        value.challenge(secret)
    except ValueError:
        return False
    return True


problems = []
stored = DigestValue.create("migrated-secret", hashlib.sha1)  # e.g. taken over from an older schema

schema = Schema()
schema.as_default = ChallengeField("sha256", default=stored)
schema.assigned = ChallengeField("sha512")
cfg = schema()
cfg.assigned = stored

for key in ("as_default", "assigned"):
    if not verifies(cfg[key], "migrated-secret"):
        problems.append("%s: does not verify before saving" % key)

for fmt in ("json", "yaml", "xml", "pickle", "bson"):
    again = schema()
    again.loads(cfg.dumps(format=fmt), format=fmt)
    for key in ("as_default", "assigned"):
        same = again[key].salt == cfg[key].salt and again[key].digest == cfg[key].digest
        if verifies(cfg[key], "migrated-secret") and not verifies(again[key], "migrated-secret"):
            problems.append(
                "%s/%s: salt and digest %s, but the secret that verified before the save no longer "
                "verifies after the load (algorithm %s -> %s)"
                % (fmt, key, "unchanged" if same else "CHANGED", cfg[key].algorithm.__name__, again[key].algorithm.__name__)
            )

if problems:
    print("C09 violated on the unchanged tree (%d findings); first ones:" % len(problems))
    for line in problems[:6]:
        print(" -", line)
    sys.exit(1)
print("ok")
sys.exit(0)
