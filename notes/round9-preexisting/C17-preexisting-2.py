"""
Unchanged tree: a typed ListField whose default is given as a TUPLE hands out the raw tuple.

ListField._validate accepts tuples (cfg.ports = (80, "443") becomes the typed list [80, 443]) and the
default of a field is documented to be deep-copied for tuples too, but ListField.__setdefault__ wraps
only `list` defaults into a ListProxy.  With default=(80, "443") the configuration's value is the
tuple (80, '443'): not a list, items not normalised, no append / extend / +=, and
reset_value() brings the tuple back after a typed list had been assigned.
"""
import os
import sys
import tempfile

os.environ["HOME"] = tempfile.mkdtemp(prefix="c17-home-")
sys.path.insert(0, os.getcwd())

from cincoconfig import IntField, ListField, Schema  # noqa: E402
from cincoconfig.support import reset_value  # noqa: E402

schema = Schema()
schema.ports = ListField(IntField(), default=(80, "443"))
schema.same = ListField(IntField(), default=[80, "443"])
cfg = schema()

problems = []
if type(cfg.same).__name__ != "ListProxy" or list(cfg.same) != [80, 443]:
    problems.append("list default: %r" % (cfg.same,))
if type(cfg.ports).__name__ != "ListProxy" or list(cfg.ports) != [80, 443]:
    problems.append(
        "tuple default: the value is %s %r, expected the typed list [80, 443]"
        % (type(cfg.ports).__name__, cfg.ports)
    )
try:
    cfg.ports.append("8080")
except AttributeError as exc:
    problems.append("cfg.ports.append(...) -> AttributeError: %s" % exc)

cfg.ports = (80, "443")
if type(cfg.ports).__name__ != "ListProxy" or list(cfg.ports) != [80, 443]:
    problems.append("assigned tuple: %r" % (cfg.ports,))
reset_value(cfg, "ports")
if type(cfg.ports).__name__ != "ListProxy":
    problems.append("after reset_value(): the value is again %s %r" % (type(cfg.ports).__name__, cfg.ports))

if problems:
    print("unchanged tree: a tuple default of a typed ListField is not a typed, validated list")
    for line in problems:
        print("  -", line)
    sys.exit(1)
print("ok")
sys.exit(0)
