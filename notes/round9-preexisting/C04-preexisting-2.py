"""C04 on the UNCHANGED tree / XML: a key (or root tag) containing a colon is an XML Name by the
Name production of XML 1.0, but the encoder's own pretty printer (a namespace-aware parser) chokes
on it: dumps raises ExpatError 'unbound prefix' ('a:b') or 'not well-formed' (':a'). Only relevant
if the property's 'keys that are XML names' is meant to include names with colons."""
import os
import sys
import tempfile

os.environ["HOME"] = tempfile.mkdtemp(prefix="c04-home-")
sys.path.insert(0, os.getcwd())

from cincoconfig.core import ConfigFormat  # noqa: E402

failures = []
for label, tree, options in [
    ("key 'a:b'", {"a:b": 1}, {}),
    ("key ':a'", {"x": {":a": 1}}, {}),
    ("root_tag 'app:config'", {"a": 1}, {"root_tag": "app:config"}),
]:
    fmt = ConfigFormat.get("xml", **options)
    try:
        back = fmt.loads(None, fmt.dumps(None, tree))
    except Exception as err:  # pylint: disable=broad-except
        failures.append("xml: %s: %s: %s" % (label, type(err).__name__, err))
        continue
    if back != tree:
        failures.append("xml: %s: came back as %r" % (label, back))
if failures:
    print("C04 (XML names with a colon) on the unchanged tree:")
    for line in failures:
        print("  -", line)
    sys.exit(1)
print("ok")
sys.exit(0)
