"""Pre-existing (HEAD): fields derived from StringField check min_len/max_len/regex/choices on the INPUT spelling
and then return a canonical / resolved spelling, so an accepted result can be rejected when validated again."""
import os
import sys
import tempfile

os.environ["HOME"] = tempfile.mkdtemp(prefix="c05-home-")
sys.path.insert(0, os.getcwd())

from cincoconfig import FilenameField, IPv4NetworkField, Schema  # noqa: E402

schema = Schema()
schema.net_len = IPv4NetworkField(max_len=10)
schema.net_choice = IPv4NetworkField(choices=["10.0.0.0/255.0.0.0"])
schema.fname = FilenameField(startdir="/tmp/some/long/dir", max_len=8)
cfg = schema()
bad = []
for name, value in (("net_len", "10.0.0.0"), ("net_choice", "10.0.0.0/255.0.0.0"), ("fname", "a.txt")):
    field = schema._fields[name]
    first = field.validate(cfg, value)
    try:
        second = field.validate(cfg, first)
    except ValueError as exc:
        bad.append("%s: validate(%r) -> %r, validating that result again is rejected: %s" % (name, value, first, exc))
    else:
        if second != first:
            bad.append("%s: %r -> %r -> %r" % (name, value, first, second))
if bad:
    print("C05 violated on the unchanged tree: validation is not idempotent")
    print("\n".join("  " + b for b in bad))
    sys.exit(1)
print("ok")
