"""Unchanged tree: under a mask, configurations held in a TUPLE by an untyped field are not rendered at all.

Config._render_nested walks a held list/tuple only when the field rendered it as a list; an AnyField / dynamic key /
DictField() value returns the held tuple itself, so the Config objects stay in the masked tree as objects and the
YAML and pickle documents carry their sensitive values in clear (the same configurations in a list are masked).
"""
import os
import sys
import tempfile

os.environ["HOME"] = tempfile.mkdtemp(prefix="c10-home-")
sys.path.insert(0, os.getcwd())

from cincoconfig import AnyField, Schema, StringField  # noqa: E402

item = Schema()
item.name = StringField(default="n")
item.pw = StringField(sensitive=True, default="TOPSECRET")

schema = Schema(dynamic=True)
schema.pair = AnyField()
cfg = schema()
cfg.pair = (item(), item())
cfg.groups = {"a": (item(),)}  # dynamic key

problems = []
tree = cfg.to_tree(sensitive_mask="*")
if not isinstance(tree["pair"][0], dict):
    problems.append("to_tree(sensitive_mask='*')['pair'][0] is %r, not a masked tree" % (tree["pair"][0],))
for fmt in ("yaml", "pickle"):
    if b"TOPSECRET" in cfg.dumps(fmt, sensitive_mask="*"):
        problems.append("dumps(%r, sensitive_mask='*') contains the sensitive value in clear" % fmt)
cfg.pair = list(cfg.pair)
if "TOPSECRET" in repr(cfg.to_tree(sensitive_mask="*")["pair"]):
    problems.append("(the list variant leaks too)")
if problems:
    print("C10 VIOLATED on the unchanged tree")
    for line in problems:
        print(" -", line)
    sys.exit(1)
print("ok")
sys.exit(0)
