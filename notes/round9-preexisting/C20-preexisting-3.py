"""C20 on the UNCHANGED tree: a decorated instance method with positional-only parameters.

get_method_annotation takes the parameter list from inspect.getfullargspec(method), which does NOT follow
__wrapped__, but counts the positional-only parameters with inspect.signature(method), which DOES.  For a
method wrapped by an ordinary functools.wraps decorator the list is ['*args', '**kwargs'] while the count
comes from the wrapped function - the '/' is inserted behind '**kwargs' and the stub is not valid Python.
(Without positional-only parameters the stub is valid but declares (self, **kwargs) only.)
"""
import os
import sys
import tempfile

os.environ["HOME"] = tempfile.mkdtemp(prefix="c20-home-")
sys.path.insert(0, os.getcwd())

import ast
import functools

from cincoconfig import Schema, StringField, generate_stub, instance_method


def logged(func):
    @functools.wraps(func)
    def wrapper(*args, **kwargs):
        return func(*args, **kwargs)

    return wrapper


schema = Schema()
schema.name = StringField(default="n")


@instance_method(schema, "greet")
@logged
def greet(cfg, greeting, /, punctuation="!") -> str:
    return "%s %s%s" % (greeting, cfg.name, punctuation)


assert schema().greet("hello") == "hello n!"

stub = generate_stub(schema, "Thing")
try:
    ast.parse(stub)
except SyntaxError as exc:
    print("C20 VIOLATED on the unchanged tree")
    print(" - stub is not valid Python: %s" % exc)
    print(stub)
    sys.exit(1)
print("ok")
sys.exit(0)
