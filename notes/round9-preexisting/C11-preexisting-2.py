"""
Pre-existing (unchanged tree): validator() applied to a config-type field of a schema registers nothing.

`schema.sub = SubType` stores a ConfigTypeField; `validator(schema.sub)` - the documented way to validate
a sub-configuration ("Subconfigs can also be validated by using the decorator on the sub schema") - is
neither a Field nor a Schema for support.validator(), which returns the function and silently drops the
registration.  The same call on a plain sub-schema works.  C11: "every validator registered on a schema or
field was run against the loaded data and passed".
"""
import os
import sys
import tempfile

os.environ["HOME"] = tempfile.mkdtemp(prefix="c11-pre2-home-")
sys.path.insert(0, os.getcwd())

from cincoconfig import Schema, ValidationError, make_type, validator  # noqa: E402
from cincoconfig.fields import IntField  # noqa: E402

sub = Schema()
sub.x = IntField(default=1)
Sub = make_type(sub, "Sub")

root = Schema()
root.typed = Sub  # a config type used as a field
root.plain.x = IntField(default=1)  # a plain sub-schema

seen = []


@validator(root.typed)
def check_typed(cfg):
    seen.append("typed")
    raise ValueError("typed sub-configuration rejected")


@validator(root.plain)
def check_plain(cfg):
    seen.append("plain")


cfg = root()
try:
    cfg.load_tree({"typed": {"x": 2}, "plain": {"x": 2}})
except ValidationError as err:
    print("load raised: %s; validators run: %r" % (err, seen))
    sys.exit(0)

collected = cfg.validate(collect_errors=True)
print("load returned normally; validators run: %r; collecting mode: %r" % (seen, collected))
if "typed" not in seen:
    print("C11 violated on the unchanged tree: the validator registered on the config-type field "
          "root.typed was never run (validator() dropped the registration silently)")
    sys.exit(1)
sys.exit(0)
