"""
Unchanged tree: DictProxy.__eq__ / __ne__ do not answer like dict's.

 * Two typed dicts with the same entries that belong to two configurations (or to two fields) compare
   UNEQUAL (`_is_compatible_proxy` is part of __eq__), whereas the built-in dicts holding the same
   normalised entries compare equal - and typed LISTS in the same situation do compare equal.
   Consequence: two instances of a config type with identical contents are unequal as soon as the
   schema has a typed dict field, so list.index / remove / count / `in` on a list of such items never
   find an equal item.
 * Compared with a mapping that is not a dict (types.MappingProxyType, collections.UserDict) the typed
   dict returns False instead of NotImplemented, so `typed == mapping` is False where `dict == mapping`
   is True, and the comparison is not symmetric (`mapping == typed` is True).
"""
import collections
import os
import sys
import tempfile
import types

os.environ["HOME"] = tempfile.mkdtemp(prefix="c17-home-")
sys.path.insert(0, os.getcwd())

from cincoconfig import DictField, IntField, ListField, Schema, StringField, make_type  # noqa: E402

schema = Schema()
schema.d = DictField(StringField(), IntField())
schema.e = DictField(StringField(), IntField())
schema.lst = ListField(IntField())
one, two = schema(), schema()
one.d = {"a": "1"}
two.d = {"a": 1}
one.e = {"a": 1}
one.lst = [1]
two.lst = ["1"]

problems = []
if dict(one.d) != dict(two.d):
    problems.append("precondition failed: contents differ")
if not (one.lst == two.lst):
    problems.append("typed lists of two configurations with equal items compare unequal")
if not (one.d == two.d) or (one.d != two.d):
    problems.append(
        "typed dicts of two configurations, both %r: == is %r, != is %r (built-in dicts: True, False)"
        % (dict(one.d), one.d == two.d, one.d != two.d)
    )
if not (one.d == one.e):
    problems.append("typed dicts of two fields of one configuration, same entries: == is False")
if not (one.d == one.d.copy()):
    problems.append("a typed dict is unequal to its own copy")

Item = make_type(schema, "Item")
a, b = Item(d={"k": 1}), Item(d={"k": 1})
if not (a == b):
    problems.append("two config-type instances with identical contents (typed dict field) compare unequal")
holder = Schema()
holder.items = ListField(Item)
cfg = holder()
cfg.items = [a]
if b not in cfg.items or cfg.items.count(b) != 1:
    problems.append("`equal_item in typed_list` is False / count is 0 for an item equal by content")

for label, other in (
    ("types.MappingProxyType", types.MappingProxyType({"a": 1})),
    ("collections.UserDict", collections.UserDict({"a": 1})),
):
    typed, builtin, reflected = one.d == other, dict(one.d) == other, other == one.d
    if typed != builtin or typed != reflected:
        problems.append(
            "typed == %s(...) is %r, dict == ... is %r, reflected comparison is %r"
            % (label, typed, builtin, reflected)
        )

if problems:
    print("unchanged tree: DictProxy equality differs from dict equality")
    for line in problems:
        print("  -", line)
    sys.exit(1)
print("ok")
sys.exit(0)
