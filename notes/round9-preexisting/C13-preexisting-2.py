"""Unchanged tree: assigning one configuration's list of item configurations (or its nested
sub-configuration) to another configuration of the same schema does not copy the item
configurations: both configurations hold the very same item objects afterwards (and the items of
`a` now name `b` as their parent). Scalar typed lists ARE rebuilt for the new owner."""
import os
import sys
import tempfile

os.environ["HOME"] = tempfile.mkdtemp(prefix="c13-home-")
sys.path.insert(0, os.getcwd())

import copy  # noqa: E402

from cincoconfig import IntField, ListField, Schema, make_type  # noqa: E402
from cincoconfig.support import asdict  # noqa: E402

item = Schema()
item.x = IntField(default=1)
Item = make_type(item, "Item")

schema = Schema()
schema.items = ListField(item)
schema.typed = ListField(Item)
schema.ports = ListField(IntField())
schema.sub.y = IntField(default=2)

a = schema()
a.items = [{"x": 3}]
a.typed = [Item(x=4)]
a.ports = [80]
a_before = copy.deepcopy(asdict(a))

b = schema()
# operations on b only; a is only read
b.items = a.items
b.typed = a.typed
b.ports = a.ports
b.sub = a.sub
b.items[0].x = 99
b.typed[0].x = 99
b.ports.append(99)
b.sub.y = 99

problems = []
a_after = asdict(a)
for key in a_before:
    if a_before[key] != a_after[key]:
        problems.append("a.%s was %r, is %r after changing b.%s" % (key, a_before[key], a_after[key], key))
if a.items[0]._parent is not a:
    problems.append("a.items[0] names %s as its parent" % ("b" if a.items[0]._parent is b else "?"))

if problems:
    print("C13 (unchanged tree): item / nested configurations are shared after b.<field> = a.<field>")
    for problem in problems:
        print(" -", problem)
    sys.exit(1)

print("ok")
sys.exit(0)
