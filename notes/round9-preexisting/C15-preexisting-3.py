"""Pre-existing 3: two ListFields of one configuration share the item schema. Assigning the value of one
to the other adopts the item configurations without re-linking them (ListProxy.__init__ fast path
compares the item field, not the list field): rejections inside the items of b are named a[i]."""
import os
import sys
import tempfile

os.environ["HOME"] = tempfile.mkdtemp()
sys.path.insert(0, os.getcwd())

from cincoconfig import *  # noqa: E402,F401,F403

failures = []


def expect(label, func, path):
    try:
        func()
    except ValidationError as err:
        if err.ref_path != path or not str(err).startswith(path):
            failures.append("%s: names %r / %r, expected %r" % (label, err.ref_path, str(err), path))
    except Exception as err:  # pylint: disable=broad-except
        failures.append("%s: %s escaped: %s" % (label, type(err).__name__, err))
    else:
        failures.append("%s: value was accepted" % label)


def finish(ok):
    if failures:
        print("C15 violated on the unchanged tree:")
        for line in failures:
            print("  - " + line)
        sys.exit(1)
    print("ok: " + ok)

item = Schema()
item.host = StringField()
item.port = IntField()

schema = Schema()
schema.pool.active = ListField(item)
schema.pool.standby = ListField(item)
cfg = schema()
cfg.pool.active = [{"host": "a", "port": 1}, {"host": "b", "port": 2}]
cfg.pool.standby = cfg.pool.active      # both fields hold the configurations now
cfg.pool.active = []                    # ... and now only 'standby' does

expect("attribute on an item of the second list",
       lambda: setattr(cfg.pool.standby[1], "port", "x"), "pool.standby[1].port")
finish("adopted items are named after the list that holds them")
