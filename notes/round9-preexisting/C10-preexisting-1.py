"""Unchanged tree: a key first set dynamically and later declared sensitive in the schema is rendered in clear.

Config.to_tree merges the field tables as schema fields first, then the configuration's own dynamic fields
(``fields.update(self._fields)``), so the AnyField created for the dynamic key shadows the schema's field of the
same name, although every other lookup (Config._get_field) prefers the schema's field.
"""
import os
import sys
import tempfile

os.environ["HOME"] = tempfile.mkdtemp(prefix="c10-home-")
sys.path.insert(0, os.getcwd())

from cincoconfig import Schema, StringField  # noqa: E402

schema = Schema(dynamic=True)
schema.name = StringField(default="app")
cfg = schema()
cfg.api_token = "hunter2-hunter2"          # not in the schema yet: a dynamic key
schema.api_token = StringField(sensitive=True)  # the schema now declares it, as a sensitive field

field = cfg._get_field("api_token")
tree = cfg.to_tree(sensitive_mask="*")
doc = cfg.dumps("json", sensitive_mask="*").decode()
if "hunter2-hunter2" in repr(tree) or "hunter2-hunter2" in doc:
    print("C10 VIOLATED on the unchanged tree")
    print(" - cfg._get_field('api_token') is %s(sensitive=%r)" % (type(field).__name__, field.sensitive))
    print(" - to_tree(sensitive_mask='*') ->", tree)
    sys.exit(1)
print("ok")
sys.exit(0)
