"""Unchanged tree: cloning a configuration through its tree (b.load_tree(a.to_tree()), the same
through dumps/loads is fine) leaves b sharing containers with a: to_basic() copies untyped lists
and dicts one level deep only and hands an AnyField / Field value out as it is, and to_python()
of an untyped field keeps what it is given. An in-place mutation on b then changes a."""
import os
import sys
import tempfile

os.environ["HOME"] = tempfile.mkdtemp(prefix="c13-home-")
sys.path.insert(0, os.getcwd())

import copy  # noqa: E402

from cincoconfig import DictField, Field, ListField, Schema, StringField  # noqa: E402
from cincoconfig.support import asdict  # noqa: E402

schema = Schema()
schema.matrix = ListField()  # untyped list
schema.quota = DictField()  # untyped dict
schema.any = Field()  # plain field holding a container
schema.labels = DictField(key_field=StringField())  # typed keys, values as they are
schema.rows = ListField(DictField())  # typed list of untyped dicts

a = schema()
a.matrix = [[1], [2]]
a.quota = {"cpu": [1]}
a.any = [1]
a.labels = {"tier": ["x"]}
a.rows = [{"k": [1]}]
a_before = copy.deepcopy(asdict(a))

b = schema()
b.load_tree(a.to_tree())  # operation on b only (a is only read)

# in-place mutations on b only
b.matrix[0].append(99)
b.quota["cpu"].append(99)
b.any.append(99)
b.labels["tier"].append("y")
b.rows[0]["k"].append(99)

a_after = asdict(a)
if a_after != a_before:
    print("C13 (unchanged tree): b.load_tree(a.to_tree()) leaves b sharing containers with a")
    for key in a_before:
        if a_before[key] != a_after[key]:
            print(" - a.%s was %r, is %r after mutating b.%s in place"
                  % (key, a_before[key], a_after[key], key))
    sys.exit(1)

print("ok")
sys.exit(0)
