"""
C19, unchanged library: XML - a string value that holds a carriage return is saved successfully but
loads back changed ("\r" -> "\n", "\r\n" -> "\n").

ElementTree writes "\r" in element text as it is; _prettify() re-parses the document with minidom,
and an XML parser normalises line ends, so the pretty-printed document (the bytes that are saved)
already holds "\n". JSON / YAML / BSON / pickle keep the value.
"""
import os
import sys
import tempfile

os.environ["HOME"] = tempfile.mkdtemp(prefix="c19-home-")
sys.path.insert(0, os.getcwd())

from cincoconfig import ListField, Schema, StringField  # noqa: E402

work = tempfile.mkdtemp(prefix="c19-work-")

schema = Schema()
schema.banner = StringField()
schema.lines = ListField(StringField())

failures = []
for fmt in ("json", "yaml", "bson", "pickle", "xml"):
    cfg = schema()
    cfg.banner = "Welcome\r\nAuthorised users only\r"
    cfg.lines = ["a\rb"]
    path = os.path.join(work, "app." + fmt)
    cfg.save(path, format=fmt)  # succeeds
    loaded = schema()
    loaded.load(path, format=fmt)
    if loaded.to_tree() != cfg.to_tree():
        failures.append("%s: %r loads back as %r" % (fmt, cfg.to_tree(), loaded.to_tree()))

if failures:
    print("C19 VIOLATED on the unchanged tree (successful save does not load back equal):")
    for line in failures:
        print(" -", line)
    sys.exit(1)
print("ok")
sys.exit(0)
