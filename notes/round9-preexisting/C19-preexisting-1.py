"""
C19, unchanged library: a VALID configuration (validate() reports nothing) is saved successfully,
but the file cannot be loaded back.

A section switched off by its FeatureFlagField is not validated, so a required field in it may be
unset (None). to_tree() writes it as null; load_tree() then sets every document entry through
Field.validate(), which applies `required` regardless of the feature flag: "value is required".
"""
import os
import sys
import tempfile

os.environ["HOME"] = tempfile.mkdtemp(prefix="c19-home-")
sys.path.insert(0, os.getcwd())

from cincoconfig import FeatureFlagField, IntField, Schema, StringField  # noqa: E402

work = tempfile.mkdtemp(prefix="c19-work-")

schema = Schema()
schema.port = IntField(default=8080)
schema.ldap.enabled = FeatureFlagField(default=False)
schema.ldap.server = StringField(required=True)  # only needed when the feature is on

cfg = schema()
errors = cfg.validate(collect_errors=True)
assert errors == [], errors  # the configuration is valid: the ldap section is switched off

failures = []
for fmt in ("json", "yaml", "xml", "bson", "pickle"):
    path = os.path.join(work, "app." + fmt)
    cfg.save(path, format=fmt)  # succeeds
    loaded = schema()
    try:
        loaded.load(path, format=fmt)
    except Exception as exc:  # noqa: BLE001
        failures.append("%s: saved file does not load back: %s: %s" % (fmt, type(exc).__name__, exc))
    else:
        if loaded.to_tree() != cfg.to_tree():
            failures.append("%s: loads back as %r" % (fmt, loaded.to_tree()))

if failures:
    print("C19 VIOLATED on the unchanged tree (valid configuration, successful save, no load):")
    for line in failures:
        print(" -", line)
    sys.exit(1)
print("ok")
sys.exit(0)
