"""Pre-existing (HEAD): a SecureField that is not required accepts "" but writes it as null, which reads back as
None: to_python(to_basic("")) != "" (the comment in SecureField._validate only covers required=True)."""
import os
import sys
import tempfile

os.environ["HOME"] = tempfile.mkdtemp(prefix="c05-home-")
sys.path.insert(0, os.getcwd())

from cincoconfig import Schema, SecureField  # noqa: E402

schema = Schema()
schema.secret = SecureField()
cfg = schema()
field = schema._fields["secret"]
accepted = field.validate(cfg, "")
back = field.to_python(cfg, field.to_basic(cfg, accepted))
cfg.secret = ""
other = schema()
other.loads(cfg.dumps(format="json"), format="json")
if back != accepted or other.secret != cfg.secret:
    print("C05 violated on the unchanged tree: accepted %r, to_python(to_basic(v)) = %r, after save/load %r" % (accepted, back, other.secret))
    sys.exit(1)
print("ok")
