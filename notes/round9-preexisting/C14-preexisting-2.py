"""Pre-existing (unchanged tree), borderline for C14: fields added on the fly to a DYNAMIC
configuration are bound by the naming rule (Config._set_value calls AnyField.__setkey__ with the
schema, which has a prefix), after the configuration was built. Such a field never receives its
variable, yet from then on load_tree treats it as bound: the FIRST load of a key stores the
document's value, the SECOND identical call is skipped when the variable happens to be set.
(Same call twice, different effect; the value is neither the variable nor the latest document.)
The property's quantifier speaks of schemas built top-down, so this is outside its letter.
"""
import os
import sys
import tempfile

os.environ["HOME"] = tempfile.mkdtemp(prefix="c14-home-")
sys.path.insert(0, os.getcwd())

from cincoconfig import IntField, Schema  # noqa: E402

os.environ["APP_EXTRA"] = "from-env"

schema = Schema(env="APP", dynamic=True)
schema.port = IntField(default=1)
cfg = schema()

cfg.load_tree({"extra": "doc-1"})
first = cfg.extra
cfg.load_tree({"extra": "doc-2"})
second = cfg.extra
field = cfg._get_field("extra")

if second != "doc-2" and second != "from-env":
    print("dynamic field 'extra' is bound to %r after the first load;" % (field.env,))
    print("  first load  -> %r" % (first,))
    print("  second load -> %r (document value 'doc-2' skipped, variable 'from-env' never applied)" % (second,))
    sys.exit(1)
print("ok")
