"""Pre-existing 1: a config type made from a schema that has a key of its own (Schema(key=...)),
used as a field under another name: the default-constructed sub-configuration keeps the schema key,
so rejections inside it are named after the schema key instead of the field."""
import os
import sys
import tempfile

os.environ["HOME"] = tempfile.mkdtemp()
sys.path.insert(0, os.getcwd())

from cincoconfig import *  # noqa: E402,F401,F403

failures = []


def expect(label, func, path):
    try:
        func()
    except ValidationError as err:
        if err.ref_path != path or not str(err).startswith(path):
            failures.append("%s: names %r / %r, expected %r" % (label, err.ref_path, str(err), path))
    except Exception as err:  # pylint: disable=broad-except
        failures.append("%s: %s escaped: %s" % (label, type(err).__name__, err))
    else:
        failures.append("%s: value was accepted" % label)


def finish(ok):
    if failures:
        print("C15 violated on the unchanged tree:")
        for line in failures:
            print("  - " + line)
        sys.exit(1)
    print("ok: " + ok)

endpoint = Schema(key="endpoint")
endpoint.host = StringField()
endpoint.port = IntField()
Endpoint = make_type(endpoint, "Endpoint")

schema = Schema()
schema.primary = Endpoint
schema.cluster.backup = Endpoint
cfg = schema()

expect("attribute, default-constructed sub-configuration", lambda: setattr(cfg.primary, "port", "x"), "primary.port")
expect("dotted path, depth 3", lambda: cfg.__setitem__("cluster.backup.port", "x"), "cluster.backup.port")
# after a load of a map the sub-configuration is named correctly (control)
expect("tree load (control)", lambda: cfg.load_tree({"primary": {"port": "x"}}), "primary.port")
finish("config types of keyed schemas are named after their field")
