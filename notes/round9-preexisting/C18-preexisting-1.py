"""
C18, UNCHANGED tree (borderline): an include named inside a configuration that is an ITEM OF A LIST
(ListField of a config type or of a schema) is never processed: the include key is validated as a file name and kept, the file is not read, nothing is
merged, and no error is raised.  The same config type used as a plain field of the same schema does
get its include merged.  Whether a configuration held in a list counts as a "nested
sub-configuration" of the property's statement is a matter of reading; Config._process_includes
only walks Schema and ConfigTypeField members.
"""
import json
import os
import sys
import tempfile

os.environ["HOME"] = tempfile.mkdtemp(prefix="c18-home-")
sys.path.insert(0, os.getcwd())

from cincoconfig import Schema, StringField, IncludeField, ListField, make_type  # noqa: E402

work = tempfile.mkdtemp(prefix="c18-pre-")


def write(name, tree):
    path = os.path.join(work, name)
    with open(path, "w") as fp:
        json.dump(tree, fp)
    return path


db = Schema()
db.include = IncludeField(startdir=work)
db.host = StringField(default="localhost")
DbType = make_type(db, "DbType")

schema = Schema()
schema.one = DbType
schema.many = ListField(DbType)
schema.plain = ListField(db)

write("a.json", {"host": "a.example"})
doc = {
    "one": {"include": "a.json"},
    "many": [{"host": "first"}, {"include": "a.json"}],
    "plain": [{"include": "a.json"}],
}
cfg = schema()
cfg.load(write("main.json", doc), format="json")

bad = []
if cfg.one.host != "a.example":
    bad.append("one.host = %r (plain config-type field)" % cfg.one.host)
if cfg.many[1].host != "a.example":
    bad.append("many[1].host = %r, the include file gives 'a.example' (include value kept: %r)"
               % (cfg.many[1].host, cfg.many[1].include))
if cfg.plain[0].host != "a.example":
    bad.append("plain[0].host = %r, the include file gives 'a.example'" % cfg.plain[0].host)

if bad:
    print("FAIL (unchanged tree): include inside a list item is silently not merged")
    for line in bad:
        print("  " + line)
    sys.exit(1)
print("ok")
