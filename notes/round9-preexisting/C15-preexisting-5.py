"""Pre-existing 5: a rejected list operation re-links configurations that stay where they were. ListProxy links
a configuration object to the list BEFORE validating it / the rest of the list; when the operation is
rejected the object is not stored but keeps pointing at the list, so later rejections inside it are
misnamed."""
import os
import sys
import tempfile

os.environ["HOME"] = tempfile.mkdtemp()
sys.path.insert(0, os.getcwd())

from cincoconfig import *  # noqa: E402,F401,F403

failures = []


def expect(label, func, path):
    try:
        func()
    except ValidationError as err:
        if err.ref_path != path or not str(err).startswith(path):
            failures.append("%s: names %r / %r, expected %r" % (label, err.ref_path, str(err), path))
    except Exception as err:  # pylint: disable=broad-except
        failures.append("%s: %s escaped: %s" % (label, type(err).__name__, err))
    else:
        failures.append("%s: value was accepted" % label)


def finish(ok):
    if failures:
        print("C15 violated on the unchanged tree:")
        for line in failures:
            print("  - " + line)
        sys.exit(1)
    print("ok: " + ok)

server = Schema()
server.host = StringField(required=True)
server.port = IntField()
Server = make_type(server, "Server")

schema = Schema()
schema.primary = Server
schema.servers = ListField(Server)
cfg = schema()
cfg.servers = [{"host": "a"}]

# (a) primary has no host yet: appending it to the list is rejected ...
try:
    cfg.servers.append(cfg.primary)
except ValidationError:
    pass
else:
    failures.append("append of an incomplete configuration was accepted")
assert len(cfg.servers) == 1
# ... primary is still only the value of 'primary'
expect("attribute on the sub-configuration after the rejected append",
       lambda: setattr(cfg.primary, "port", "x"), "primary.port")

# (b) a rejected assignment of a new list that mentions an existing item first
other = schema()
other.servers = [{"host": "x"}, {"host": "y"}]
try:
    cfg.servers = [other.servers[1], {"host": "b", "port": "bad"}]
except ValidationError:
    pass
expect("attribute on an item of the other configuration after the rejected assignment",
       lambda: setattr(other.servers[1], "port", "x"), "servers[1].port")
finish("rejected operations leave the links alone")
