"""
UNCHANGED tree: a constructor keyword that names a virtual field with a setter is applied (the
setter runs and assigns the backing field), and then Config.__init__ gives every field that was
not itself named by a keyword its default: the value the setter just assigned is overwritten and
the field is marked 'default' again.  schema(v=5) is therefore not the same as c = schema(); c.v = 5.
"""
import os
import sys
import tempfile

os.environ["HOME"] = tempfile.mkdtemp(prefix="c12-home-")
sys.path.insert(0, os.getcwd())

from cincoconfig import Schema, IntField, VirtualField, is_value_defined  # noqa: E402


def set_half(cfg, value):
    cfg.x = value * 2          # an ordinary, accepted assignment to the backing field


schema = Schema()
schema.x = IntField(default=1)
schema.v = VirtualField(lambda cfg: cfg.x // 2, set_half)

by_assignment = schema()
by_assignment.v = 5
by_keyword = schema(v=5)

problems = []
if (by_assignment.x, is_value_defined(by_assignment, "x")) != (10, True):
    problems.append("assignment route: x=%r defined=%r, expected 10 / True"
                    % (by_assignment.x, is_value_defined(by_assignment, "x")))
if (by_keyword.x, is_value_defined(by_keyword, "x")) != (10, True):
    problems.append("keyword route schema(v=5): x=%r defined=%r, expected 10 / True (the setter's accepted "
                    "assignment was overwritten by the default)"
                    % (by_keyword.x, is_value_defined(by_keyword, "x")))

if problems:
    print("C12 (constructor keywords): a successfully assigned value is lost")
    for line in problems:
        print("  -", line)
    sys.exit(1)
print("ok")
