"""Unchanged tree: virtual fields and instance methods are enumerated, resolve on the schema and
read by dotted path like by attribute, but the membership test answers False for them (they are
not kept in Config._data)."""
import os
import sys
import tempfile

os.environ["HOME"] = tempfile.mkdtemp(prefix="c16-home-")
sys.path.insert(0, os.getcwd())

from cincoconfig import ApplicationModeField, IntField, Schema, VirtualField, get_all_fields, instance_method  # noqa: E402

schema = Schema()
schema.port = IntField(default=80)
schema.sub.double = VirtualField(lambda cfg: 2)
schema.sub.mode = ApplicationModeField(default="production")


@instance_method(schema.sub, "hello")
def hello(cfg):
    return "hello"


config = schema()
problems = []
for path, _, field in get_all_fields(schema):
    value = config[path]  # works for every path
    if path not in config:
        problems.append("%s (%s): config[path] -> %r but `path in config` is False" % (path, type(field).__name__, value))

if problems:
    print("C16 (membership agrees with enumeration and lookup) does not hold on the unchanged tree:")
    for line in problems:
        print("  " + line)
    sys.exit(1)
print("ok")
