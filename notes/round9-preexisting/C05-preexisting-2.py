"""Pre-existing (HEAD): HostnameField(resolve=True, allow_ipv4=False) turns an accepted name into an address
that the same field rejects: validation is not idempotent. Needs "localhost" to resolve (no network)."""
import os
import sys
import tempfile

os.environ["HOME"] = tempfile.mkdtemp(prefix="c05-home-")
sys.path.insert(0, os.getcwd())

import socket  # noqa: E402

from cincoconfig import HostnameField, Schema  # noqa: E402

try:
    socket.gethostbyname("localhost")
except OSError:
    print("skipped: localhost does not resolve here")
    sys.exit(0)
schema = Schema()
schema.host = HostnameField(resolve=True, allow_ipv4=False)
cfg = schema()
first = schema._fields["host"].validate(cfg, "localhost")
try:
    second = schema._fields["host"].validate(cfg, first)
except ValueError as exc:
    print("C05 violated on the unchanged tree: validate('localhost') -> %r, validating the result again: %s" % (first, exc))
    sys.exit(1)
print("ok", first, second)
