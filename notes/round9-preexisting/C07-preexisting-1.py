"""C07, unchanged tree: a KeyFile object created by copying (copy.deepcopy of the KeyFile, or of a
configuration that has its own key file) while a key context is open starts life with the key
bytes and a reference count of 1 although no context was ever opened on it. The count can never
return to 0, so this key object holds key material for good: encrypt() works on it outside any
context, its own sessions never release the key, and it never looks at the key file again
(a replaced or malformed key file is not noticed)."""
import copy
import os
import sys
import tempfile

os.environ["HOME"] = tempfile.mkdtemp(prefix="c07-home-")
sys.path.insert(0, os.getcwd())

from cincoconfig import Schema, SecureField  # noqa: E402
from cincoconfig.encryption import KeyFile  # noqa: E402

problems = []
work = tempfile.mkdtemp(prefix="c07-keys-")
keypath = os.path.join(work, "app.key")
K1 = bytes(range(1, 33))
with open(keypath, "wb") as fp:
    fp.write(K1)


def state(kf):
    return kf._KeyFile__key, kf._KeyFile__refcount


def check(label, dup):
    key, count = state(dup)
    if key is not None or count != 0:
        problems.append("%s: never opened, yet holds key=%s, open contexts=%d"
                        % (label, key.hex() if key else key, count))
    try:
        dup.encrypt(b"x", method="xor")
    except TypeError:
        pass
    else:
        problems.append("%s: encrypt() works with no key context open" % label)
    with dup:
        pass
    key, count = state(dup)
    if key is not None or count != 0:
        problems.append("%s: after its own outermost context closed it still holds key=%s, open contexts=%d"
                        % (label, key.hex() if key else key, count))
    # later session, the key file is malformed now: every open must be rejected
    with open(keypath, "wb") as fp:
        fp.write(K1[:5])
    try:
        with dup:
            used = dup.encrypt(b"\x00" * 32, method="xor").ciphertext
    except Exception:  # noqa: BLE001
        pass
    else:
        problems.append("%s: a 5 byte key file was not rejected, session ran on the stale key %s"
                        % (label, used.hex()))
    with open(keypath, "wb") as fp:
        fp.write(K1)


kf = KeyFile(keypath)
with kf:
    dup = copy.deepcopy(kf)
if state(kf) != (None, 0):
    problems.append("original key file not released")
check("copy of an open KeyFile", dup)

schema = Schema()
schema.token = SecureField(method="xor")
cfg = schema(key_filename=keypath)
cfg.token = "hello"
with cfg._keyfile:
    cfg_copy = copy.deepcopy(cfg)
check("key file of a configuration copied inside a key context", cfg_copy._keyfile)

if problems:
    print("C07 VIOLATED on the unchanged tree (copies of an open key file):")
    for line in problems:
        print("  -", line)
    sys.exit(1)
print("ok")
sys.exit(0)
