import os
import sys
import tempfile

os.environ["HOME"] = tempfile.mkdtemp(prefix="c01-home-")
sys.path.insert(0, os.getcwd())

# StringField's length / pattern checks run on the text as given; IPv4NetworkField and
# FilenameField(startdir=...) then store a different, canonical text, which is not checked again.
from cincoconfig import Schema, IPv4NetworkField, FilenameField, ValidationError  # noqa: E402

schema = Schema()
schema.wide = IPv4NetworkField(min_len=12)                # e.g. to insist on an explicit mask
schema.short = IPv4NetworkField(max_len=8)
schema.masked = IPv4NetworkField(regex=r"^[0-9.]+/[0-9]+\.[0-9.]+$")  # dotted netmask required
schema.name = FilenameField(startdir="/tmp", max_len=5)
cfg = schema()
bad = []


def attempt(key, value, ok, declared):
    try:
        cfg[key] = value
    except ValidationError:
        return
    held = cfg[key]
    if not ok(held):
        bad.append("%s = %r accepted, holds %r (len %d), declared %s" % (key, value, held, len(held), declared))


attempt("wide", "10.0.0.0/255.0.0.0", lambda v: len(v) >= 12, "min_len=12")
attempt("short", "1.2.3.4", lambda v: len(v) <= 8, "max_len=8")
attempt("masked", "10.0.0.0/255.0.0.0", lambda v: "/255." in v, "regex with a dotted netmask")
attempt("name", "a", lambda v: len(v) <= 5, "max_len=5")
if bad:
    print("C01 violated on the unchanged library: the stored canonical text breaks the declared length / pattern")
    for line in bad:
        print("  -", line)
    sys.exit(1)
print("ok")
sys.exit(0)
