"""Unchanged tree: a ROOT schema built with the documented constructor argument key=
(Schema(key="app")) enumerates its fields as 'app.<name>' and its fields report the reference path
'app.<name>', but neither the schema nor its configuration resolves that path: schema['app.port']
silently creates a new empty section 'app' (and a schema 'port' inside it) instead of returning
the field, config['app.port'] raises AttributeError, and 'app.port' in config is False."""
import os
import sys
import tempfile

os.environ["HOME"] = tempfile.mkdtemp(prefix="c16-home-")
sys.path.insert(0, os.getcwd())

from cincoconfig import IntField, Schema, generate_argparse_parser, cmdline_args_override, get_all_fields  # noqa: E402

schema = Schema(key="app")
schema.port = IntField(default=80)
schema.db.host = IntField(default=1)
config = schema()

problems = []
listing = get_all_fields(schema)
fields_before = list(schema._fields)
for path, _, field in listing:
    if field._ref_path != path:
        problems.append("%s: reference path %r" % (path, field._ref_path))
    try:
        value = config[path]
    except Exception as exc:
        problems.append("%s: config[path] raised %s(%s)" % (path, type(exc).__name__, exc))
    if path not in config:
        problems.append("%s: enumerated, but `path in config` is False" % path)
    if schema[path] is not field:
        problems.append("%s: schema[path] is not the enumerated field" % path)
if list(schema._fields) != fields_before:
    problems.append(
        "looking the enumerated paths up changed the schema: fields %r -> %r"
        % (fields_before, list(schema._fields))
    )

schema2 = Schema(key="app")
schema2.port = IntField(default=80)
args = generate_argparse_parser(schema2).parse_args(["--app-port", "81"])
try:
    cmdline_args_override(schema2(), args)
except Exception as exc:
    problems.append("applying --app-port 81 from the generated parser: %s(%s)" % (type(exc).__name__, exc))

if problems:
    print("C16 violated on the unchanged tree (root schema with key=):")
    for line in problems:
        print("  " + line)
    sys.exit(1)
print("ok")
