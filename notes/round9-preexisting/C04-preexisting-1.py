"""C04 on the UNCHANGED tree / BSON: the string '$$__CLASS_NAME__$$' -- as an item of a list, or as
a key of a map -- is encoded but cannot be decoded (the bson package treats it as the marker of a
serialised object, and tests lists for it with `in` as well)."""
import os
import sys
import tempfile

os.environ["HOME"] = tempfile.mkdtemp(prefix="c04-home-")
sys.path.insert(0, os.getcwd())

from cincoconfig.core import ConfigFormat  # noqa: E402

MARK = "$$__CLASS_NAME__$$"
trees = {
    "string value as a list item": {"tags": ["a", MARK]},
    "string as a map key (depth 2)": {"section": {MARK: "x"}},
    "string value of a map key (control: fine)": {"section": {"k": MARK}},
}
failures = []
for label, tree in trees.items():
    for name in ("bson", "json", "yaml", "pickle"):
        fmt = ConfigFormat.get(name)
        try:
            back = fmt.loads(None, fmt.dumps(None, tree))
        except Exception as err:  # pylint: disable=broad-except
            failures.append("%s: %s: %s: %s" % (name, label, type(err).__name__, err))
            continue
        if back != tree:
            failures.append("%s: %s: came back as %r" % (name, label, back))
if failures:
    print("C04 violated on the unchanged tree:")
    for line in failures:
        print("  -", line)
    sys.exit(1)
print("ok")
sys.exit(0)
