"""Pre-existing 2: a document loaded into a sub-configuration (cfg.sub.loads / cfg.sub.load): a rejected
include file is named relative to the sub-configuration, not from the root, while every other
rejection of the same load carries the full path."""
import os
import sys
import tempfile

os.environ["HOME"] = tempfile.mkdtemp()
sys.path.insert(0, os.getcwd())

from cincoconfig import *  # noqa: E402,F401,F403

failures = []


def expect(label, func, path):
    try:
        func()
    except ValidationError as err:
        if err.ref_path != path or not str(err).startswith(path):
            failures.append("%s: names %r / %r, expected %r" % (label, err.ref_path, str(err), path))
    except Exception as err:  # pylint: disable=broad-except
        failures.append("%s: %s escaped: %s" % (label, type(err).__name__, err))
    else:
        failures.append("%s: value was accepted" % label)


def finish(ok):
    if failures:
        print("C15 violated on the unchanged tree:")
        for line in failures:
            print("  - " + line)
        sys.exit(1)
    print("ok: " + ok)

schema = Schema()
schema.app.db.include = IncludeField()
schema.app.db.port = IntField()
cfg = schema()
missing = os.path.join(os.environ["HOME"], "missing.json")

expect("ordinary field, document loaded into cfg.app.db (control)",
       lambda: cfg.app.db.loads('{"port": "x"}', "json"), "app.db.port")
expect("include field, document loaded into the root (control)",
       lambda: cfg.loads('{"app": {"db": {"include": "%s"}}}' % missing, "json"), "app.db.include")
expect("include field, document loaded into cfg.app.db",
       lambda: cfg.app.db.loads('{"include": "%s"}' % missing, "json"), "app.db.include")
expect("include field, document loaded into cfg.app",
       lambda: cfg.app.loads('{"db": {"include": "%s"}}' % missing, "json"), "app.db.include")
finish("include rejections carry the full path")
