"""C03 on the UNCHANGED tree: a key file assigned to a plain sub-configuration is forgotten by load.

Config.load_tree() replaces every sub-configuration by a NEW Config built with field(self)
(Config._set_value, dict branch), which carries no key file.  So with

    cfg.db._key_filename = <sub.key>      # "key-file assignment to a sub-configuration"

the secrets below db are SAVED under sub.key, but a new configuration that names the same key
file for db decrypts them with the root's / the default key file: the load fails (aes) or yields
garbage (xor), ~/.cincokey is created although no configuration should use it, and after the load
the sub-configuration no longer names its key file, so the next save silently switches keys.
(Config types are not affected: the new object gets the key file from its type.)
"""
import os
import sys
import tempfile

TMP = tempfile.mkdtemp(prefix="c03-pre1-")
os.environ["HOME"] = TMP
sys.path.insert(0, os.getcwd())

from cincoconfig import Schema, SecureField, StringField  # noqa: E402

SUB_KEY = os.path.join(TMP, "sub.key")
PLAIN = "db-Secret-plain"


def build():
    schema = Schema()
    schema.name = StringField(default="app")
    schema.db.user = StringField(default="admin")
    schema.db.password = SecureField(method="aes")
    return schema


problems = []
cfg = build()()
cfg.db._key_filename = SUB_KEY
cfg.db.password = PLAIN
out = cfg.dumps("json")
if sorted(os.listdir(TMP)) != ["sub.key"]:
    problems.append("after save: key files %r, expected only sub.key" % sorted(os.listdir(TMP)))

fresh = build()()
fresh.db._key_filename = SUB_KEY  # the same key file, named for the same sub-configuration
try:
    fresh.loads(out, "json")
except Exception as exc:  # pylint: disable=broad-except
    problems.append("load with the same key file fails: %s: %s" % (type(exc).__name__, exc))
else:
    if fresh.db.password != PLAIN:
        problems.append("db.password reloads as %r" % (fresh.db.password,))

if sorted(os.listdir(TMP)) != ["sub.key"]:
    problems.append("after load: key files %r -- the default key file was created/used" % sorted(os.listdir(TMP)))

# also without any secret in the document: the assignment itself does not survive a load
other = build()()
other.db._key_filename = SUB_KEY
other.loads(b'{"db": {"user": "root"}}', "json")
if other.db._key_filename != SUB_KEY:
    problems.append(
        "after loading a document db names key file %r instead of %r: the next save encrypts db.password "
        "under another key file" % (other.db._key_filename, SUB_KEY)
    )

if problems:
    print("C03 VIOLATED on the unchanged tree (%d findings)" % len(problems))
    for line in problems:
        print(" -", line)
    sys.exit(1)
print("ok")
sys.exit(0)
