"""
C19, unchanged library (borderline, the code comments acknowledge it): an empty secret does not
survive a save / load cycle. SecureField.to_basic() stores "" as null, so SecureField(default="")
- or a secret explicitly set to "" - comes back as None: a different value, and for a
SecureField with a non-empty default that was cleared to "" it still comes back as None, not "".
"""
import os
import sys
import tempfile

os.environ["HOME"] = tempfile.mkdtemp(prefix="c19-home-")
sys.path.insert(0, os.getcwd())

from cincoconfig import Schema, SecureField  # noqa: E402

work = tempfile.mkdtemp(prefix="c19-work-")

schema = Schema()
schema.password = SecureField(default="changeme")

cfg = schema()
cfg.password = ""  # the user clears the password
path = os.path.join(work, "app.json")
cfg.save(path, format="json")
loaded = schema()
loaded.load(path, format="json")

if loaded.password != cfg.password:
    print("C19 VIOLATED on the unchanged tree: password was saved as %r and loads back as %r"
          % (cfg.password, loaded.password))
    sys.exit(1)
print("ok")
sys.exit(0)
