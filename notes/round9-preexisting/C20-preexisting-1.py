"""C20 on the UNCHANGED tree: a parameter annotated with a NewType or a TypeVar makes generate_stub raise.

get_annotation_typestr only knows fields, types, strings, None and objects with __origin__/__args__;
typing.NewType(...) and typing.TypeVar(...) objects are none of these.  For a RETURN annotation the
TypeError is swallowed (get_retval_annotation), for a PARAMETER annotation it escapes, so no stub at all
is produced for a schema with such a method.
"""
import os
import sys
import tempfile

os.environ["HOME"] = tempfile.mkdtemp(prefix="c20-home-")
sys.path.insert(0, os.getcwd())

import ast
import typing

from cincoconfig import Schema, StringField, generate_stub, instance_method

UserId = typing.NewType("UserId", int)
T = typing.TypeVar("T")

problems = []


def build(annotation):
    schema = Schema()
    schema.name = StringField()

    def lookup(cfg, key, fallback=None):
        return fallback

    lookup.__annotations__ = {"key": annotation}
    instance_method(schema, "lookup")(lookup)
    return schema


for label, annotation in (("NewType", UserId), ("TypeVar", T), ("typing.AnyStr", typing.AnyStr)):
    try:
        stub = generate_stub(build(annotation), "Thing")
        ast.parse(stub)
    except Exception as exc:  # pylint: disable=broad-except
        problems.append("parameter annotated with a %s: generate_stub raised %s: %s" % (label, type(exc).__name__, exc))

if problems:
    print("C20 VIOLATED on the unchanged tree")
    for problem in problems:
        print(" -", problem)
    sys.exit(1)
print("ok")
sys.exit(0)
