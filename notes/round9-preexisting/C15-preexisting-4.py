"""Pre-existing 4 (may overlap the open finding about containers inside containers): configurations in a
list of lists lose the name of the field and the outer index."""
import os
import sys
import tempfile

os.environ["HOME"] = tempfile.mkdtemp()
sys.path.insert(0, os.getcwd())

from cincoconfig import *  # noqa: E402,F401,F403

failures = []


def expect(label, func, path):
    try:
        func()
    except ValidationError as err:
        if err.ref_path != path or not str(err).startswith(path):
            failures.append("%s: names %r / %r, expected %r" % (label, err.ref_path, str(err), path))
    except Exception as err:  # pylint: disable=broad-except
        failures.append("%s: %s escaped: %s" % (label, type(err).__name__, err))
    else:
        failures.append("%s: value was accepted" % label)


def finish(ok):
    if failures:
        print("C15 violated on the unchanged tree:")
        for line in failures:
            print("  - " + line)
        sys.exit(1)
    print("ok: " + ok)

cell = Schema()
cell.value = IntField()
schema = Schema()
schema.grid.rows = ListField(ListField(cell))
cfg = schema()

expect("tree load", lambda: cfg.load_tree({"grid": {"rows": [[{"value": 1}], [{"value": 1}, {"value": "x"}]]}}),
       "grid.rows[1][1].value")
cfg.grid.rows = [[{"value": 1}], [{"value": 1}, {"value": 2}]]
expect("attribute", lambda: setattr(cfg.grid.rows[1][1], "value", "x"), "grid.rows[1][1].value")
finish("configurations in nested lists are named")
