"""Unchanged tree: the YAML document renders NON-sensitive fields differently with a mask than without one.

Two untyped fields holding the same list object: without a mask AnyField.to_basic returns that object for both keys
and PyYAML writes an anchor and an alias (&id001 / *id001); with any mask Config._render_nested rebuilds every list,
the two keys get two lists and the document spells both out.  The property promises that all non-sensitive fields
are rendered exactly as without a mask, in tree and document output of every format.
"""
import os
import sys
import tempfile

os.environ["HOME"] = tempfile.mkdtemp(prefix="c10-home-")
sys.path.insert(0, os.getcwd())

from cincoconfig import AnyField, Schema, StringField  # noqa: E402

schema = Schema()
schema.primary = AnyField()
schema.fallback = AnyField()
schema.pw = StringField(sensitive=True, default="x")
cfg = schema()
hosts = ["h1", "h2"]
cfg.primary = hosts
cfg.fallback = hosts


def without_pw(doc):
    return [line for line in doc.decode().splitlines() if not line.startswith("pw:")]


plain = without_pw(cfg.dumps("yaml"))
masked = without_pw(cfg.dumps("yaml", sensitive_mask="*"))
if plain != masked:
    print("C10 VIOLATED on the unchanged tree: non-sensitive part of the YAML document differs")
    print(" - without a mask:", plain)
    print(" - with mask '*' :", masked)
    sys.exit(1)
print("ok")
sys.exit(0)
