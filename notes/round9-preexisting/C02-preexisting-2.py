"""
Pre-existing (unchanged library), ARGUABLE / by documented design: a configuration with an
IncludeField that is set does not load back exactly. The saved document holds the whole
configuration AND the include path; on load the included file is read again and its values
overwrite the saved ones ("values defined in the included file will overwrite values in the base
tree"). IncludeField is a built-in persistent field, so the literal statement of C02 is violated
for any state in which a value also defined by the included file was changed afterwards.
"""
import json
import os
import sys
import tempfile

os.environ["HOME"] = tempfile.mkdtemp(prefix="c02-home-")
sys.path.insert(0, os.getcwd())

from cincoconfig import IncludeField, IntField, Schema  # noqa: E402


def main():
    workdir = tempfile.mkdtemp(prefix="c02-inc-")
    inc = os.path.join(workdir, "site.json")
    with open(inc, "w") as fp:
        json.dump({"workers": 1}, fp)

    schema = Schema()
    schema.include = IncludeField()
    schema.workers = IntField(default=0)

    cfg = schema()
    cfg.include = inc
    cfg.workers = 2
    cfg.validate()

    fresh = schema()
    fresh.loads(cfg.dumps("json"), "json")
    if fresh.to_tree() != cfg.to_tree():
        print("C02 (literal reading) violated on the unchanged tree: include file wins over the "
              "saved value\n   saved:    %r\n   reloaded: %r" % (cfg.to_tree(), fresh.to_tree()))
        return 1
    print("ok")
    return 0


if __name__ == "__main__":
    sys.exit(main())
