import os
import sys
import tempfile

os.environ["HOME"] = tempfile.mkdtemp(prefix="c01-home-")
sys.path.insert(0, os.getcwd())

# FloatField bounds are tested with "num < min" / "num > max", which are both False for NaN:
# a bounded float field (alone or as item / value field) accepts and holds NaN.
from cincoconfig import Schema, FloatField, ListField, DictField, StringField, ValidationError  # noqa: E402

schema = Schema()
schema.ratio = FloatField(min=0, max=1, default=0.5)
schema.weights = ListField(FloatField(min=0, max=1))
schema.named = DictField(StringField(), FloatField(min=0))
cfg = schema()
bad = []
for label, action in (
    ("ratio = float('nan')", lambda: setattr(cfg, "ratio", float("nan"))),
    ("ratio = 'nan'", lambda: setattr(cfg, "ratio", "nan")),
    ("weights = [0.5, 'NaN']", lambda: setattr(cfg, "weights", [0.5, "NaN"])),
    ("load_tree named={'k': 'nan'}", lambda: cfg.load_tree({"named": {"k": "nan"}})),
):
    try:
        action()
    except ValidationError:
        continue
    held = [cfg.ratio] + list(cfg.weights or []) + list((cfg.named or {}).values())
    for value in held:
        if not (0 <= value <= 1):
            bad.append("%s accepted: the configuration holds %r, declared bounds min=0 (max=1)" % (label, value))
            break
if bad:
    print("C01 violated on the unchanged library: a bounded FloatField holds NaN")
    for line in bad:
        print("  -", line)
    sys.exit(1)
print("ok")
sys.exit(0)
