"""
Pre-existing (unchanged tree): a constructor keyword that names a VirtualField with a setter is accepted,
the setter runs and assigns the fields behind it - and then Config.__init__ sets the DEFAULTS of all
fields not named by a keyword, overwriting what the setter stored. The keyword is silently lost, while
the same assignment by attribute works.
"""
import os
import sys
import tempfile

os.environ["HOME"] = tempfile.mkdtemp(prefix="c01-home-")
sys.path.insert(0, os.getcwd())

from cincoconfig import HostnameField, PortField, Schema, VirtualField  # noqa: E402


def set_endpoint(cfg, value):
    host, _, port = value.partition(":")
    cfg.host = host
    cfg.port = port


schema = Schema()
schema.host = HostnameField(default="localhost")
schema.port = PortField(default=80)
schema.endpoint = VirtualField(lambda cfg: "%s:%s" % (cfg.host, cfg.port), set_endpoint)

by_attr = schema()
by_attr.endpoint = "example.com:8080"
by_keyword = schema(endpoint="example.com:8080")

print("assigned by attribute  :", by_attr.endpoint, by_attr.host, by_attr.port)
print("constructor keyword    :", by_keyword.endpoint, by_keyword.host, by_keyword.port)
if by_keyword.endpoint != "example.com:8080":
    print("C01: schema(endpoint='example.com:8080') was accepted but reads back %r" % by_keyword.endpoint)
    sys.exit(1)
print("ok")
