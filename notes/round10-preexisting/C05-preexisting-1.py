"""IPv4NetworkField: the inherited StringField options (choices, min_len, max_len, regex) are checked
on the spelling that was typed, then the result is canonicalised -- the accepted result is rejected
when validated again (validation not idempotent; cfg.validate() fails after a successful set)."""
import os, sys, tempfile
os.environ["HOME"] = tempfile.mkdtemp(prefix="c05-pre-")
sys.path.insert(0, os.getcwd())
from cincoconfig import *  # noqa
bad = []

schema = Schema()
schema.a = IPv4NetworkField(choices=["10.0.0.0/255.0.0.0"])
schema.b = IPv4NetworkField(min_len=12)
schema.c = IPv4NetworkField(regex=r"^10\.0\.0\.0/255")
cfg = schema()
for key in ("a", "b", "c"):
    field = schema._fields[key]
    first = field.validate(cfg, "10.0.0.0/255.0.0.0")
    try:
        second = field.validate(cfg, first)
        if second != first:
            bad.append("%s: %r -> %r" % (key, first, second))
    except ValueError as err:
        bad.append("%s: '10.0.0.0/255.0.0.0' accepted as %r, validating that again: %s" % (key, first, err))
cfg.a = "10.0.0.0/255.0.0.0"
try:
    cfg.validate()
except ValidationError as err:
    bad.append("cfg.a assigned fine, cfg.validate() then fails: %s" % err)

if bad:
    print("C05 already violated on the unchanged tree:")
    for line in bad:
        print("  - " + line)
    sys.exit(1)
print("ok")
sys.exit(0)

