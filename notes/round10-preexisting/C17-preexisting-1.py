"""
Pre-existing (unchanged HEAD): a ListField whose item field is an AnyField WITH a validator (or
with required=True) is not a typed list at all: ListField._validate / __setdefault__ /
to_python return the plain list for any AnyField item field, so the item validator is never run -
neither on assignment nor on append / extend / += .  The same AnyField used as the key or value
field of a DictField IS applied to every entry, and any other Field with the same validator is
applied to list items.
"""
import os
import sys
import tempfile

os.environ["HOME"] = tempfile.mkdtemp(prefix="c17-pre1-")
sys.path.insert(0, os.getcwd())

from cincoconfig import Schema, Field, ListField, DictField  # noqa: E402
from cincoconfig.core import AnyField  # noqa: E402


def upper(cfg, value):
    return str(value).upper()


schema = Schema()
schema.any_items = ListField(AnyField(validator=upper), default=lambda: [])
schema.field_items = ListField(Field(validator=upper), default=lambda: [])
schema.any_values = DictField(value_field=AnyField(validator=upper), default=lambda: {})
cfg = schema()

cfg.any_items = ["a"]
cfg.any_items.append("b")
cfg.any_items += ["c"]
cfg.field_items = ["a"]
cfg.field_items.append("b")
cfg.field_items += ["c"]
cfg.any_values["k"] = "a"

print("ListField(Field(validator=upper))    ->", type(cfg.field_items).__name__, list(cfg.field_items))
print("DictField(value_field=AnyField(...)) ->", type(cfg.any_values).__name__, dict(cfg.any_values))
print("ListField(AnyField(validator=upper)) ->", type(cfg.any_items).__name__, list(cfg.any_items))

if list(cfg.any_items) != ["A", "B", "C"]:
    print("C17 violated on HEAD: the AnyField item validator was never applied to the list items")
    sys.exit(1)
sys.exit(0)
