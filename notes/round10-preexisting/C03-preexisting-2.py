"""
Pre-existing (unchanged tree): a REFUSED list assignment leaves the items that were accepted before
the offending one linked to the refusing configuration.  Those items still sit in the list of their
original configuration, but from then on their secrets are encrypted with the OTHER configuration's
key file: the original configuration saves a document that its own key file cannot decrypt.
"""
import os
import sys
import tempfile

os.environ["HOME"] = tempfile.mkdtemp(prefix="c03-home-")
sys.path.insert(0, os.getcwd())

from cincoconfig import ListField, Schema, SecureField, StringField, ValidationError  # noqa: E402

work = tempfile.mkdtemp(prefix="c03-work-")
KEY_A = os.path.join(work, "a.key")
KEY_B = os.path.join(work, "b.key")
file_a = os.path.join(work, "a.json")
SECRET = "hook-sécret-1"

hook = Schema()
hook.url = StringField(required=True)
hook.token = SecureField()

schema = Schema()
schema.hooks = ListField(hook, default=lambda: [])

a = schema(key_filename=KEY_A)
b = schema(key_filename=KEY_B)
a.hooks.append({"url": "https://one", "token": SECRET})
good = a.hooks[0]
bad = hook()  # url is required and missing

problems = []
try:
    b.hooks = [good, bad]  # refused as a whole: 'bad' is not valid
except ValidationError as err:
    print("assignment to b.hooks refused (expected): %s" % err)
else:
    problems.append("assignment was not refused")

if len(b.hooks) != 0 or list(a.hooks) != [good]:
    problems.append("the refused assignment changed a list")
if good._key_filename != KEY_A:
    problems.append(
        "the item still held by a.hooks now uses key file %s instead of %s" % (good._key_filename, KEY_A)
    )

a.save(file_a, format="json")
if os.path.exists(KEY_B):
    problems.append("saving configuration a created/used configuration b's key file %s" % KEY_B)

a2 = schema(key_filename=KEY_A)  # new object, a's key file
try:
    a2.load(file_a, format="json")
    if a2.hooks[0].token != SECRET:
        problems.append("token read back as %r" % a2.hooks[0].token)
except Exception as err:
    problems.append("a's document cannot be loaded with a's key file: %s" % err)

if problems:
    print("C03 VIOLATED on the unchanged tree:")
    for p in problems:
        print("  - " + p)
    sys.exit(1)
print("ok")
sys.exit(0)
