"""
Pre-existing (unchanged HEAD): the default of a typed ListField given as a TUPLE is stored as a
raw tuple with un-normalised items (ListField.__setdefault__ deep-copies tuples but only wraps
lists in a ListProxy).  Assigning the very same tuple gives a validated typed list, and a
DictField default given as a list of pairs is validated.  The default value is therefore neither
typed nor validated and none of the list operations work on it.
"""
import os
import sys
import tempfile

os.environ["HOME"] = tempfile.mkdtemp(prefix="c17-pre2-")
sys.path.insert(0, os.getcwd())

from cincoconfig import Schema, IntField, ListField  # noqa: E402

schema = Schema()
schema.ports = ListField(IntField(min=1), default=("80", "443"))
cfg = schema()
other = schema()
other.ports = ("80", "443")

print("assigned tuple  ->", type(other.ports).__name__, list(other.ports))
print("default tuple   ->", type(cfg.ports).__name__, list(cfg.ports))

bad = []
if list(cfg.ports) != [80, 443]:
    bad.append("default items are not normalised: %r" % (cfg.ports,))
try:
    cfg.ports.append("8080")
except AttributeError as exc:
    bad.append("append on the default value: %s" % exc)

if bad:
    print("C17 violated on HEAD:")
    for line in bad:
        print("  - " + line)
    sys.exit(1)
sys.exit(0)
