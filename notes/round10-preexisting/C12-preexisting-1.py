"""Pre-existing (unchanged tree): a constructor keyword for a VirtualField with a setter.

Config.__init__ applies the keywords first and the defaults afterwards, skipping only the keys
that were given as keywords. The setter of the virtual field successfully assigns other fields
(they lose their default mark) - and then the defaults loop overwrites exactly those fields and
marks them as default again. The same assignment made after construction sticks."""
import os
import sys
import tempfile

os.environ["HOME"] = tempfile.mkdtemp()
sys.path.insert(0, os.getcwd())

from cincoconfig import IntField, Schema, VirtualField, is_value_defined  # noqa: E402


def set_both(cfg, value):
    cfg.width = value
    cfg.height = value


schema = Schema()
schema.size = VirtualField(lambda cfg: (cfg.width, cfg.height), setter=set_both)
schema.width = IntField(default=1)
schema.height = IntField(default=1)

late = schema()
late.size = 7
by_keyword = schema(size=7)

state_late = (late.width, late.height, is_value_defined(late, "width"))
state_kw = (by_keyword.width, by_keyword.height, is_value_defined(by_keyword, "width"))
print("cfg = schema(); cfg.size = 7  -> width, height, width user-defined:", state_late)
print("cfg = schema(size=7)          -> width, height, width user-defined:", state_kw)
if state_kw != (7, 7, True):
    print("C12: the values the keyword's setter assigned successfully were overwritten by the "
          "defaults and the fields are reported as not user-defined")
    sys.exit(1)
print("ok")
