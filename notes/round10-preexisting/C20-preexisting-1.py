"""
Unchanged library, C20: an instance method that carries an ordinary functools.wraps decorator.
get_method_annotation reads the argument names with inspect.getfullargspec (which does NOT follow
__wrapped__: it sees the wrapper's (*args, **kwargs)) but counts the positional-only parameters
with inspect.signature (which DOES follow __wrapped__). The stub loses *args (items[0] = "self"
overwrites it) and, when the decorated function has two or more positional-only parameters, puts
the "/" marker after **kwargs: not valid Python.
"""
import os, sys, tempfile
os.environ["HOME"] = tempfile.mkdtemp(prefix="c20-home-")
sys.path.insert(0, os.getcwd())
import ast

import functools
from cincoconfig import Schema, StringField, generate_stub, instance_method


def logged(func):
    @functools.wraps(func)
    def wrapper(*args, **kwargs):
        return func(*args, **kwargs)
    return wrapper


schema = Schema()
schema.name = StringField(default="x")


@instance_method(schema, "greet")
@logged
def greet(cfg, greeting, /, punctuation: str = "!") -> str:
    return greeting + " " + cfg.name + punctuation


@instance_method(schema, "shout")
@logged
def shout(cfg, text: str) -> str:
    return text.upper()


config = schema()
assert config.greet("hi") == "hi x!" and config.shout("a") == "A"
stub = generate_stub(schema, "Thing")
print(stub)
bad = 0
try:
    ast.parse(stub)
except SyntaxError as err:
    print("NOT VALID PYTHON:", err)
    bad = 1
if "def shout(self, text: str) -> str: ..." not in stub and "def shout(self, *args, **kwargs)" not in stub:
    print("shout(cfg, text: str) is declared as neither (self, text: str) nor (self, *args, **kwargs)")
    bad = 1
sys.exit(bad)
