"""UNCHANGED tree: a config type built with keyword values does not equal its own round trip.
Config.__init__ stores the keyword values before the defaults, Config._data is an OrderedDict and
ConfigType.__eq__ compares the ordered tables, so T(b=5) != (T() loaded from T(b=5)'s file)."""
import os, sys, tempfile
os.environ["HOME"] = tempfile.mkdtemp(prefix="c19-home-")
sys.path.insert(0, os.getcwd())
from cincoconfig import *  # noqa: E402,F401,F403
WORK = tempfile.mkdtemp(prefix="c19-pre-")

schema = Schema()
schema.a = IntField(default=1)
schema.b = IntField(default=2)
T = make_type(schema, "T")
cfg = T(b=5)
path = os.path.join(WORK, "t.json")
cfg.save(path, format="json")
loaded = T()
loaded.load(path, format="json")
if not (loaded == cfg):
    print("C19 VIOLATED (unchanged tree): loaded config type != saved one although the trees are equal")
    print("  saved  _data order: %r  tree %r" % (list(cfg._data), cfg.to_tree()))
    print("  loaded _data order: %r  tree %r" % (list(loaded._data), loaded.to_tree()))
    sys.exit(1)
print("ok")
