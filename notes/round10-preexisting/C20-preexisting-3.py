"""
Unchanged library, C20: the library's own marker for "virtual" is core.VirtualFieldMixin (to_tree,
validation and the argument parser test isinstance(field, VirtualFieldMixin)), but generate_stub
tests the concrete class VirtualField. An application field that is virtual by the mixin is never
saved or loaded, yet it is a parameter of the stub's __init__.
"""
import os, sys, tempfile
os.environ["HOME"] = tempfile.mkdtemp(prefix="c20-home-")
sys.path.insert(0, os.getcwd())
import ast

from cincoconfig import Field, IntField, Schema, generate_stub
from cincoconfig.core import VirtualFieldMixin


class UptimeField(Field, VirtualFieldMixin):
    storage_type = float

    def __setdefault__(self, cfg):
        pass

    def __getval__(self, cfg):
        return 1.5


schema = Schema()
schema.port = IntField(default=80)
schema.uptime = UptimeField()
config = schema()
assert config.uptime == 1.5
assert config.to_tree() == {"port": 80}, config.to_tree()  # not persistent
stub = generate_stub(schema, "Server")
print(stub)
init = [n for n in ast.parse(stub).body[0].body if isinstance(n, ast.FunctionDef)][0]
params = [a.arg for a in init.args.args][1:]
if params != ["port"]:
    print("__init__ parameters:", params, "- the only persistent field is 'port'")
    sys.exit(1)
sys.exit(0)
