"""Pre-existing (unchanged tree): a plaintext default of a list of challenge values given as a
TUPLE is never hashed.  ListField.__setdefault__ deep-copies list and tuple defaults but only wraps
a *list* in the validating ListProxy, so ListField(ChallengeField(), default=("a", "b")) puts the
tuple of plaintexts into every configuration (a list default is hashed)."""
import os
import sys
import tempfile

os.environ["HOME"] = tempfile.mkdtemp(prefix="c09-home-")
sys.path.insert(0, os.getcwd())

from cincoconfig import ChallengeField, DigestValue, ListField, Schema, asdict  # noqa: E402

problems = []
for default in (["tok-one", "tok-two"], ("tok-one", "tok-two")):
    schema = Schema()
    schema.api.token_hashes = ListField(ChallengeField("sha256"), default=default)
    cfg = schema()
    kind = type(default).__name__
    held = cfg.api.token_hashes
    for pos, item in enumerate(held):
        if not isinstance(item, DigestValue):
            problems.append("%s default: item %d held in memory as %r" % (kind, pos, item))
    if "tok-one" in repr(asdict(cfg)):
        problems.append("%s default: plaintext visible in asdict()" % kind)
    try:
        doc = cfg.dumps("json")
    except Exception as err:  # noqa: BLE001
        problems.append("%s default: configuration cannot be saved: %s" % (kind, err))
    else:
        if b"tok-one" in doc:
            problems.append("%s default: plaintext in the JSON document" % kind)

if problems:
    print("C09 violated on the unchanged tree:")
    for line in problems:
        print("  -", line)
    sys.exit(1)
print("ok")
sys.exit(0)
