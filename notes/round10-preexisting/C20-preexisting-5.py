"""
Unchanged library, C20: get_method_annotation always overwrites items[0] with "self", assuming the
first entry is the configuration parameter.
 * def method(*args, **kwargs): there is no named first parameter; the rendered list is
   ["*args", "**kwargs"] and "*args" is the entry that is overwritten - the stub declares
   (self, **kwargs) and the variadic positional parameter is gone.
 * a bound method of a service object (or a callable object) as instance method:
   inspect.getfullargspec keeps the bound "self", so it is the bound "self" that is replaced and
   the configuration parameter stays in the stub as an ordinary extra parameter.
"""
import os, sys, tempfile
os.environ["HOME"] = tempfile.mkdtemp(prefix="c20-home-")
sys.path.insert(0, os.getcwd())
import ast

from cincoconfig import InstanceMethodField, Schema, StringField, generate_stub, instance_method

schema = Schema()
schema.name = StringField(default="n")


@instance_method(schema, "call_any")
def call_any(*args, **kwargs):
    return len(args)


class Notifier:
    def notify(self, cfg, message: str, *, urgent: bool = False) -> str:
        return "%s: %s" % (cfg.name, message)


schema._add_field("notify", InstanceMethodField(Notifier().notify))
config = schema()
assert config.call_any(1, 2) == 3 and config.notify("hi") == "n: hi"
stub = generate_stub(schema, "Thing")
print(stub)
funcs = {n.name: n for n in ast.parse(stub).body[0].body if isinstance(n, ast.FunctionDef)}
bad = 0
if funcs["call_any"].args.vararg is None:
    print("call_any(*args, **kwargs): *args is missing from the stub")
    bad = 1
got = [a.arg for a in funcs["notify"].args.args]
if got != ["self", "message"]:
    print("notify(message, *, urgent) is declared with positional parameters", got)
    bad = 1
sys.exit(bad)
