"""
Pre-existing (unchanged library): a configuration with a set IncludeField does not survive
save + load.  The whole configuration is saved, include entry included; on load the included file is
applied again ON TOP of the saved document (IncludeField.combine_trees: the included file wins), so
every value that was changed after the first load and is also defined in the included file reverts.
"""
import os
import sys
import tempfile

os.environ["HOME"] = tempfile.mkdtemp(prefix="c02-home-")
sys.path.insert(0, os.getcwd())

from cincoconfig import IncludeField, IntField, Schema, StringField, asdict  # noqa: E402

workdir = tempfile.mkdtemp(prefix="c02-work-")
included = os.path.join(workdir, "defaults.json")
with open(included, "w") as fp:
    fp.write('{"workers": 4, "db": {"name": "site"}}')

schema = Schema()
schema.include = IncludeField()
schema.workers = IntField(default=1)
schema.db.name = StringField(default="app")
schema.db.include = IncludeField()

cfg = schema()
cfg.loads('{"include": %s}' % __import__("json").dumps(included), "json")
assert cfg.workers == 4 and cfg.db.name == "site"
cfg.workers = 16          # the user edits the configuration ...
cfg.db.name = "site_v2"
cfg.validate()

content = cfg.dumps("json")  # ... and saves it
fresh = schema()
fresh.loads(content, "json")
if asdict(fresh) != asdict(cfg):
    print("C02 violated on the unchanged tree: values defined in an included file revert on re-load")
    print("  saved : %r" % asdict(cfg))
    print("  loaded: %r" % asdict(fresh))
    sys.exit(1)
print("ok")
sys.exit(0)
