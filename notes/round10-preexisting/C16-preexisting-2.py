"""
Pre-existing (unchanged tree), weaker: the Field documentation says fields are 'composable and
reusable', but a field object mounted in two sections is bound (schema, key) to the LAST mount only.
Enumeration reports both paths and both resolve to the field, yet its reference path names only the
last mount, so path != item_ref_path(field) for the first.
"""
import os
import sys
import tempfile

os.environ["HOME"] = tempfile.mkdtemp(prefix="c16-pre2-home-")
sys.path.insert(0, os.getcwd())

from cincoconfig import IntField, Schema, get_all_fields, item_ref_path  # noqa: E402

port = IntField(default=80)
schema = Schema()
schema.http.port = port
schema.https.port = port

failures = []
for path, _, field in get_all_fields(schema):
    if schema[path] is not field:
        failures.append("schema[%r] is not the enumerated field" % path)
    if item_ref_path(field) != path:
        failures.append("enumerated %r, item_ref_path says %r" % (path, item_ref_path(field)))

if failures:
    print("C16 VIOLATED on the unchanged tree (one field object mounted twice)")
    for line in failures:
        print(" -", line)
    sys.exit(1)
print("ok")
sys.exit(0)
