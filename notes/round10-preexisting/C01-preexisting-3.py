"""
Pre-existing (unchanged tree): FloatField bounds are tested with `num < min` / `num > max`, which are
both False for NaN: a FloatField(min=0, max=1) accepts float("nan") and the text "nan" and holds a
value that is not within the declared bounds.
"""
import os
import sys
import tempfile

os.environ["HOME"] = tempfile.mkdtemp(prefix="c01-home-")
sys.path.insert(0, os.getcwd())

from cincoconfig import FloatField, ListField, Schema  # noqa: E402

schema = Schema()
schema.ratio = FloatField(min=0, max=1, default=0.5)
schema.weights = ListField(FloatField(min=0, max=1), default=lambda: [])
cfg = schema()
bad = False
for value in ("nan", float("nan")):
    try:
        cfg.ratio = value
        cfg.weights.append(value)
    except ValueError:
        continue
    if not 0 <= cfg.ratio <= 1:
        print("C01: ratio = %r accepted, holds %r which is not within [0, 1]" % (value, cfg.ratio))
        bad = True
    if not all(0 <= w <= 1 for w in cfg.weights):
        print("C01: weights.append(%r) accepted, holds %r" % (value, list(cfg.weights)))
        bad = True
sys.exit(1 if bad else 0)
