"""
Pre-existing (unchanged HEAD): values of untyped ListField / DictField / AnyField are stored by
reference, so
 (a) one YAML document that uses an alias (&x / *x) makes two item configurations of the same item
     schema (and two fields) hold the same list object after a single load;
 (b) second.load_tree(first.to_tree()) leaves nested containers of untyped fields shared
     (ListField.to_basic / DictField.to_basic copy one level only, Field.to_basic none).
"""
import copy
import os
import sys
import tempfile

os.environ["HOME"] = tempfile.mkdtemp(prefix="c13-home-")
sys.path.insert(0, os.getcwd())

from cincoconfig import DictField, Field, ListField, Schema, StringField, asdict  # noqa: E402

item = Schema()
item.name = StringField(default="n")
item.args = ListField(default=lambda: [])

schema = Schema()
schema.items = ListField(item, default=lambda: [])
schema.matrix = ListField(default=[[1, 2]])
schema.opts = DictField(default={"paths": ["/a"]})
schema.extra = Field()

problems = []

try:
    import yaml  # noqa: F401
except ImportError:
    yaml = None
if yaml is not None:
    cfg = schema()
    cfg.loads(
        b"items:\n"
        b"  - {name: one, args: &shared [--fast]}\n"
        b"  - {name: two, args: *shared}\n",
        format="yaml",
    )
    cfg.items[0].args.append("--only-for-one")
    if cfg.items[1].args != ["--fast"]:
        problems.append("(a) YAML alias: items[1].args is %r after changing items[0].args" % (cfg.items[1].args,))

first, second = schema(), schema()
first.extra = {"k": [1]}
before = copy.deepcopy(asdict(first))
second.load_tree(first.to_tree())
second.matrix[0].append(3)
second.opts["paths"].append("/b")
second.extra["k"].append(2)
if asdict(first) != before:
    problems.append("(b) first changed after second.load_tree(first.to_tree()) + in-place changes of second: %r" % (asdict(first),))

if problems:
    print("C13 violated on the unchanged tree (untyped values are held by reference):")
    for line in problems:
        print(" -", line)
    sys.exit(1)
print("ok")
