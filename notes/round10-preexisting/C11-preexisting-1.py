"""Pre-existing (HEAD): validator() silently registers nothing when it is given the field of a
config-type sub-configuration (schema.db = DbType): the decorator only knows Field and Schema, a
ConfigTypeField is neither, the function is returned and never called by any load or validate()."""
import os
import sys
import tempfile

os.environ["HOME"] = tempfile.mkdtemp(prefix="c11-pre1-")
sys.path.insert(0, os.getcwd())

from cincoconfig import Schema, StringField, ValidationError, make_type, validator  # noqa: E402

calls = []


def build(use_type):
    db = Schema()
    db.username = StringField()
    db.password = StringField()
    schema = Schema()
    if use_type:
        schema.db = make_type(db, "Db")      # a config type used as a sub-configuration
    else:
        schema.db = db                       # the recipe of docs/recipes.rst: a plain sub schema

    @validator(schema.db)                    # "Subconfigs can also be validated by using the
    def credentials(cfg):                    #  decorator on the sub schema"
        calls.append(cfg.username)
        if cfg.username and not cfg.password:
            raise ValueError("db.password is required when username is specified")

    return schema


problems = []
for use_type in (False, True):
    del calls[:]
    cfg = build(use_type)()
    kind = "config type" if use_type else "plain sub schema"
    try:
        cfg.loads('{"db": {"username": "admin"}}', format="json")
    except ValidationError:
        continue
    problems.append(
        "%s: loads() returned normally with username=%r password=%r; validator called %d times; "
        "validate(collect_errors=True) -> %r"
        % (kind, cfg.db.username, cfg.db.password, len(calls), cfg.validate(collect_errors=True))
    )

if problems:
    print("C11 VIOLATED ON UNCHANGED TREE")
    for line in problems:
        print(" -", line)
    sys.exit(1)
print("ok")
