"""
Pre-existing (unchanged tree), weaker than preexisting-1 - depends on whether assigning a map
counts as "explicit assignment":

Config._set_value / ListProxy._validate coerce a map assigned to a sub-configuration
(cfg.sub = {...}, Type(sub={...}), cfg.items = [{...}], cfg.items.append({...})) by building a
fresh configuration and calling load_tree(map) on it, i.e. they treat the application's values as
a document: for fields whose environment variable is set, the explicitly assigned value is
silently dropped, while the same value assigned field by field (cfg.sub.x = 9) wins.
"""
import os
import sys
import tempfile

os.environ["HOME"] = tempfile.mkdtemp(prefix="c14-home-")
sys.path.insert(0, os.getcwd())

from cincoconfig import IntField, ListField, Schema  # noqa: E402

item = Schema(env="ITEM")
item.x = IntField(default=1)  # ITEM_X
schema = Schema(env="A")
schema.sub.x = IntField(default=1)  # A_SUB_X
schema.items = ListField(item, default=lambda: [])
os.environ["A_SUB_X"] = "5"
os.environ["ITEM_X"] = "5"

problems = []
cfg = schema()
cfg.sub.x = 9
assert cfg.sub.x == 9  # field by field: assignment wins
cfg.sub = {"x": 9}
if cfg.sub.x != 9:
    problems.append("cfg.sub = {'x': 9} left sub.x at the variable's value %r" % (cfg.sub.x,))
cfg2 = schema(sub={"x": 9})
if cfg2.sub.x != 9:
    problems.append("schema(sub={'x': 9}) left sub.x at %r" % (cfg2.sub.x,))
cfg.items = [{"x": 9}]
cfg.items.append({"x": 9})
if [i.x for i in cfg.items] != [9, 9]:
    problems.append("items assigned / appended as maps hold x=%r" % ([i.x for i in cfg.items],))

if problems:
    print("C14 (assignment beats the variable) not met for map assignments on the unchanged tree:")
    for line in problems:
        print(" -", line)
    sys.exit(1)
print("ok")
