"""
Pre-existing (unchanged tree): a custom validator on a typed ListField / DictField that returns a new
container (sorted(value), a de-duplicated list, dict(value)) - "each validator can transform the value" -
replaces the validating ListProxy / DictProxy by a plain list / dict. The value is stored as such, so
every later in-place insertion is unvalidated and the typed list holds items its item field rejects.
"""
import os
import sys
import tempfile

os.environ["HOME"] = tempfile.mkdtemp(prefix="c01-home-")
sys.path.insert(0, os.getcwd())

from cincoconfig import DictField, IntField, ListField, Schema, StringField  # noqa: E402

schema = Schema()
schema.ports = ListField(IntField(min=1, max=65535), default=lambda: [], validator=lambda cfg, v: sorted(set(v)))
schema.env = DictField(StringField(max_len=4), IntField(), default=lambda: {}, validator=lambda cfg, v: dict(v))
cfg = schema()
cfg.ports = ["443", 80, 80]
cfg.env = {"a": "1"}
print("held:", type(cfg.ports).__name__, cfg.ports, type(cfg.env).__name__, cfg.env)
bad = False
try:
    cfg.ports.append("not a port")
except ValueError:
    pass
try:
    cfg.env["much-too-long-a-key"] = "x"
except ValueError:
    pass
if not all(type(p) is int and 1 <= p <= 65535 for p in cfg.ports):
    print("C01: ports.append('not a port') accepted, the typed list holds", cfg.ports)
    bad = True
if not all(len(k) <= 4 and type(v) is int for k, v in cfg.env.items()):
    print("C01: env['much-too-long-a-key'] = 'x' accepted, the typed dict holds", cfg.env)
    bad = True
sys.exit(1 if bad else 0)
