"""Pre-existing: items taken over by += / extend from another list field of the same configuration (same item schema, as in docs/recipes.rst) keep the other field's key: the path names a place that does not exist."""
import os, sys, tempfile
os.environ["HOME"] = tempfile.mkdtemp(prefix="c15-home-")
sys.path.insert(0, os.getcwd())
from cincoconfig import *  # noqa
from cincoconfig import ConfigType, ValidationError

failures = []
def expect(label, func, path):
    try:
        func()
    except ValidationError as err:
        if err.ref_path != path:
            failures.append("%s: ValidationError names %r (%s), expected %r" % (label, err.ref_path, err, path))
    except Exception as err:
        failures.append("%s: %s escaped: %s" % (label, type(err).__name__, err))
    else:
        failures.append("%s: not rejected" % label)
def finish():
    if failures:
        print("C15 violated on the unchanged library:")
        for line in failures: print("  -", line)
        sys.exit(1)
    print("ok"); sys.exit(0)

webhook = Schema()
webhook.url = UrlField(required=True)
schema = Schema()
schema.issue_webhooks = ListField(webhook)
schema.merge_request_webhooks = ListField(webhook)
cfg = schema()
cfg.issue_webhooks = [{"url": "http://a"}, {"url": "http://b"}]
cfg.merge_request_webhooks = [{"url": "http://c"}]
cfg.merge_request_webhooks += cfg.issue_webhooks
item = cfg.merge_request_webhooks[2]
try:
    item.url = 5
except ValidationError as err:
    if err.ref_path not in ("merge_request_webhooks[2].url", "issue_webhooks[1].url"):
        failures.append("+= across fields: ValidationError names %r, the item is merge_request_webhooks[2] (and issue_webhooks[1])" % err.ref_path)
finish()
