"""Pre-existing: a dict assigned to / inserted at an index of a list of configurations is reported at index len(list), not at the index it was meant for."""
import os, sys, tempfile
os.environ["HOME"] = tempfile.mkdtemp(prefix="c15-home-")
sys.path.insert(0, os.getcwd())
from cincoconfig import *  # noqa
from cincoconfig import ConfigType, ValidationError

failures = []
def expect(label, func, path):
    try:
        func()
    except ValidationError as err:
        if err.ref_path != path:
            failures.append("%s: ValidationError names %r (%s), expected %r" % (label, err.ref_path, err, path))
    except Exception as err:
        failures.append("%s: %s escaped: %s" % (label, type(err).__name__, err))
    else:
        failures.append("%s: not rejected" % label)
def finish():
    if failures:
        print("C15 violated on the unchanged library:")
        for line in failures: print("  -", line)
        sys.exit(1)
    print("ok"); sys.exit(0)

webhook = Schema()
webhook.url = UrlField(required=True)
schema = Schema()
schema.ci.hooks = ListField(webhook)
cfg = schema()
cfg.ci.hooks = [{"url": "http://a"}, {"url": "http://b"}, {"url": "http://c"}]
expect("hooks[0] = {...}", lambda: cfg.ci.hooks.__setitem__(0, {"url": 5}), "ci.hooks[0].url")
expect("hooks.insert(1, {...})", lambda: cfg.ci.hooks.insert(1, {"url": 5}), "ci.hooks[1].url")
finish()
