"""C04 on the UNCHANGED tree: an XML-name key with the reserved 'xml:' prefix comes back under another key.

'xml:lang' matches the XML 1.0 Name production (the colon is a name character), so it is inside the
property's XML domain "keys that are XML names". The encoder writes <xml:lang type="str">, the
namespace-aware parsers accept it (the xml prefix is always bound), and ElementTree reports the tag
in Clark notation, so the decoded key set differs from the encoded one without any error.
(Keys with any other prefix, e.g. 'a:b', are refused at encode time with 'unbound prefix', which
only narrows the representable domain.)
"""
import os
import sys
import tempfile

os.environ["HOME"] = tempfile.mkdtemp(prefix="c04-home-")
sys.path.insert(0, os.getcwd())

from cincoconfig import ConfigFormat  # noqa: E402

tree = {"xml:lang": "en", "site": {"xml:base": 1}}
failed = False
for name in ("json", "yaml", "bson", "pickle", "xml"):
    fmt = ConfigFormat.get(name)
    back = fmt.loads(None, fmt.dumps(None, tree))
    if back != tree:
        failed = True
        print("%s: encoded %r but decoded %r" % (name, tree, back))
if failed:
    sys.exit(1)
print("ok")
