"""Pre-existing: configurations inside a list of lists are named without the field key and outer index."""
import os, sys, tempfile
os.environ["HOME"] = tempfile.mkdtemp(prefix="c15-home-")
sys.path.insert(0, os.getcwd())
from cincoconfig import *  # noqa
from cincoconfig import ConfigType, ValidationError

failures = []
def expect(label, func, path):
    try:
        func()
    except ValidationError as err:
        if err.ref_path != path:
            failures.append("%s: ValidationError names %r (%s), expected %r" % (label, err.ref_path, err, path))
    except Exception as err:
        failures.append("%s: %s escaped: %s" % (label, type(err).__name__, err))
    else:
        failures.append("%s: not rejected" % label)
def finish():
    if failures:
        print("C15 violated on the unchanged library:")
        for line in failures: print("  -", line)
        sys.exit(1)
    print("ok"); sys.exit(0)

cell = Schema()
cell.url = UrlField()
schema = Schema()
schema.grid.rows = ListField(ListField(cell))
good = {"url": "http://a"}
expect("load_tree", lambda: schema().load_tree({"grid": {"rows": [[good], [good, {"url": 3}]]}}), "grid.rows[1][1].url")
cfg = schema()
cfg.grid.rows = [[good], [good, good]]
expect("attribute on a held item", lambda: setattr(cfg.grid.rows[1][1], "url", 3), "grid.rows[1][1].url")
finish()
