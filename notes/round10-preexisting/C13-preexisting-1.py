"""
Pre-existing (unchanged HEAD): assigning another configuration's typed list / sub-configuration takes
the other configuration's item / sub-configuration OBJECTS over by identity. The scalar items of a
typed list are re-validated into a new list (fix 757b352), but configuration items are re-parented
and shared: the operation on `first` alters `second` (its item now reports `first` as parent) and
every later change through `first` shows in `second`.
"""
import copy
import os
import sys
import tempfile

os.environ["HOME"] = tempfile.mkdtemp(prefix="c13-home-")
sys.path.insert(0, os.getcwd())

from cincoconfig import IntField, ListField, Schema, StringField, asdict, make_type  # noqa: E402

hook = Schema()
hook.url = StringField(default="http://localhost")
hook.retries = IntField(default=1)
Hook = make_type(hook, "Hook")

schema = Schema()
schema.hooks = ListField(Hook, default=lambda: [{"url": "http://a"}])
schema.db.port = IntField(default=5432)

problems = []

first, second = schema(), schema()
before = copy.deepcopy(asdict(second))
first.hooks = second.hooks          # an assignment on `first` only
if second.hooks[0]._parent is not second:
    problems.append("after first.hooks = second.hooks, second.hooks[0]._parent is `first`")
first.hooks[0].retries = 99         # a change through `first` only
if asdict(second) != before:
    problems.append("second changed: hooks %r (was %r)" % (asdict(second)["hooks"], before["hooks"]))

first, second = schema(), schema()
before = copy.deepcopy(asdict(second))
first.db = second.db                # sub-configuration object taken over
first.db.port = 1
if asdict(second) != before:
    problems.append("second changed: db %r (was %r)" % (asdict(second)["db"], before["db"]))

if problems:
    print("C13 violated on the unchanged tree (configuration objects are adopted, not copied):")
    for line in problems:
        print(" -", line)
    sys.exit(1)
print("ok")
