"""Accepted values whose on-disk form does not decode to an equal value:
tuple in an untyped ListField; None in a typed ListField / DictField; '' in a SecureField;
a DigestValue of another algorithm in a ChallengeField."""
import hashlib
import os, sys, tempfile
os.environ["HOME"] = tempfile.mkdtemp(prefix="c05-pre-")
sys.path.insert(0, os.getcwd())
from cincoconfig import *  # noqa
bad = []

schema = Schema()
schema.lst = ListField()
schema.tl = ListField(IntField())
schema.td = DictField(StringField(), IntField())
schema.sec = SecureField()
schema.ch = ChallengeField("sha256")
cfg = schema()
cases = [
    ("lst", (1, 2)),
    ("tl", None),
    ("td", None),
    ("sec", ""),
    ("ch", DigestValue.create("secret", hashlib.md5)),
]
for key, raw in cases:
    field = schema._fields[key]
    accepted = field.validate(cfg, raw)
    back = field.to_python(cfg, field.to_basic(cfg, accepted))
    if back != accepted:
        bad.append("%s: accepted %r, on-disk %r, read back %r" % (key, accepted, field.to_basic(cfg, accepted), back))

if bad:
    print("C05 already violated on the unchanged tree:")
    for line in bad:
        print("  - " + line)
    sys.exit(1)
print("ok")
sys.exit(0)

