"""
Pre-existing (unchanged tree): ListField and DictField override __setdefault__ and never look at
their environment variable, but Field.__setkey__ still binds them (automatic name below a schema
with an environment prefix, or an explicit env=) and Config.load_tree still skips a bound key
whose variable is set.

Result for a set variable: construction neither applies nor rejects the variable (a string is not
a list / dict, so C14 promises a ValidationError naming the field), the field keeps its default,
and every document value for the field is silently ignored afterwards - the field can only be
changed by assignment.  PATH is the everyday trigger: `schema.path = ListField(...)` below
Schema(env=True).
"""
import os
import sys
import tempfile

os.environ["HOME"] = tempfile.mkdtemp(prefix="c14-home-")
sys.path.insert(0, os.getcwd())

from cincoconfig import DictField, ListField, Schema, StringField, ValidationError  # noqa: E402

problems = []

schema = Schema(env=True)
schema.path = ListField(StringField(), default=lambda: ["/usr/bin"])  # bound to PATH
schema.labels = DictField(default=lambda: {})  # bound to LABELS
schema.plugins.enabled = ListField(default=lambda: [])  # bound to PLUGINS_ENABLED
assert schema.path.env == "PATH" and schema.labels.env == "LABELS"
assert schema.plugins.enabled.env == "PLUGINS_ENABLED"

os.environ["PATH"] = os.environ.get("PATH") or "/bin:/usr/bin"
os.environ["LABELS"] = "a=1"
os.environ["PLUGINS_ENABLED"] = "x,y"

try:
    cfg = schema()
except ValidationError as err:
    print("ok: construction refused the variable: %s" % err)
    sys.exit(0)

problems.append(
    "construction succeeded although PATH, LABELS and PLUGINS_ENABLED are set to strings no "
    "list / dict field accepts: path=%r labels=%r plugins.enabled=%r"
    % (cfg.path, cfg.labels, cfg.plugins.enabled)
)

cfg.load_tree({"path": ["/opt/bin"], "labels": {"tier": "db"}, "plugins": {"enabled": ["auth"]}})
if list(cfg.path) != ["/opt/bin"]:
    problems.append("the document's path was ignored, the field still holds the default: %r" % (cfg.path,))
if dict(cfg.labels) != {"tier": "db"}:
    problems.append("the document's labels were ignored: %r" % (cfg.labels,))
if list(cfg.plugins.enabled) != ["auth"]:
    problems.append("the document's plugins.enabled was ignored: %r" % (cfg.plugins.enabled,))

# the same fields with the variables unset load the document
for name in ("LABELS", "PLUGINS_ENABLED"):
    del os.environ[name]
other = schema()
other.load_tree({"labels": {"tier": "db"}, "plugins": {"enabled": ["auth"]}})
assert dict(other.labels) == {"tier": "db"} and list(other.plugins.enabled) == ["auth"]

print("C14 violated on the unchanged tree:")
for line in problems:
    print(" -", line)
sys.exit(1)
