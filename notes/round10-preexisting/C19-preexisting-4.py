"""UNCHANGED tree: Config.to_tree renders a non-empty list of configurations itself and never calls
the list field's to_basic(); for an empty list (or None) it does.  A user-defined ListField subclass
that overrides to_basic()/to_python() as a pair (the contract in Field.to_python) therefore gets its
to_python() fed with a document its to_basic() never produced: the saved file does not load back."""
import os, sys, tempfile
os.environ["HOME"] = tempfile.mkdtemp(prefix="c19-home-")
sys.path.insert(0, os.getcwd())
from cincoconfig import *  # noqa: E402,F401,F403
WORK = tempfile.mkdtemp(prefix="c19-pre-")

item = Schema()
item.name = StringField(required=True)
item.port = IntField()


class KeyedListField(ListField):
    """A list of configurations written as a mapping name -> rest of the item."""

    def to_basic(self, cfg, value):
        if value is None:
            return None
        return {i.name: {k: v for k, v in i.to_tree().items() if k != "name"} for i in value}

    def to_python(self, cfg, value):
        if value is None:
            return None
        if not isinstance(value, dict):
            raise ValueError("expected a mapping of name -> server")
        return super().to_python(cfg, [dict(rest, name=name) for name, rest in value.items()])


schema = Schema()
schema.servers = KeyedListField(item)
cfg = schema()
cfg.servers = [{"name": "a", "port": 1}]
path = os.path.join(WORK, "k.json")
cfg.save(path, format="json")
loaded = schema()
try:
    loaded.load(path, format="json")
except Exception as exc:
    print("C19 VIOLATED (unchanged tree): to_basic() of the ListField subclass was not called on save;")
    print("  file: %r" % open(path, "rb").read())
    print("  load: %s" % exc)
    sys.exit(1)
print("ok")
