"""
Pre-existing (unchanged library), YAML only: YamlConfigFormat.dumps() uses yaml.dump() with its
default sort_keys=True, so the entries of a saved document are in alphabetical order, not in schema
order.  load_tree() sets the entries in document order; a field validator that reads another field
(offset < size) then sees the fresh configuration's default of a field that comes later in the
alphabet and refuses a value that is valid in the saved state.  The other four formats keep the
schema order and load the same state.
"""
import os
import sys
import tempfile

os.environ["HOME"] = tempfile.mkdtemp(prefix="c02-home-")
sys.path.insert(0, os.getcwd())

from cincoconfig import IntField, Schema, asdict, validator  # noqa: E402

schema = Schema()
schema.size = IntField(default=10)
schema.offset = IntField(default=0)


@validator(schema.offset)
def offset_below_size(cfg, value):
    if value >= cfg.size:
        raise ValueError("offset must be below size (%d)" % cfg.size)
    return value


cfg = schema()
cfg.size = 1000
cfg.offset = 500
cfg.validate()

problems = []
for fmt in ("json", "bson", "xml", "pickle", "yaml"):
    fresh = schema()
    try:
        fresh.loads(cfg.dumps(fmt), fmt)
    except Exception as exc:  # pylint: disable=broad-except
        problems.append("%s: load failed: %s: %s" % (fmt, type(exc).__name__, exc))
        continue
    if asdict(fresh) != asdict(cfg):
        problems.append("%s: values differ" % fmt)

if problems:
    print("C02 violated on the unchanged tree (YAML re-orders the entries alphabetically):")
    for line in problems:
        print("  - " + line)
    sys.exit(1)
print("ok")
sys.exit(0)
