"""Pre-existing (HEAD), borderline: with the recipe of docs/recipes.rst (two list fields sharing one
item schema), items that come from the sibling list are inserted WITHOUT validation by extend(),
+=, + and whole-list assignment (fast path: same configuration, same item field), while append() /
insert() of the very same item validates and refuses it.  An item can become invalid in place
(its schema validator is cross-field; assignments only run the field chain), so the insertion is
the one moment the property promises a check."""
import os
import sys
import tempfile

os.environ["HOME"] = tempfile.mkdtemp(prefix="c11-pre2-")
sys.path.insert(0, os.getcwd())

from cincoconfig import BoolField, ListField, Schema, UrlField, ValidationError, validator  # noqa: E402

webhook = Schema()
webhook.url = UrlField(required=True)
webhook.verify_ssl = BoolField(default=True)


@validator(webhook)
def ssl_needs_https(cfg):
    if cfg.verify_ssl and not cfg.url.startswith("https:"):
        raise ValueError("verify_ssl needs an https url")


schema = Schema()
schema.issue_webhooks = ListField(webhook, default=lambda: [])
schema.merge_request_webhooks = ListField(webhook, default=lambda: [])

problems = []


def fresh():
    cfg = schema()
    cfg.issue_webhooks.append({"url": "https://a.example"})
    cfg.issue_webhooks[0].url = "http://a.example"     # valid url, but the item validator now fails
    return cfg


# reference: append() of that item is refused
cfg = fresh()
try:
    cfg.merge_request_webhooks.append(cfg.issue_webhooks[0])
    print("note: append() accepted the item too")
except ValidationError:
    pass

for label, action in (
    ("extend(sibling list)", lambda c: c.merge_request_webhooks.extend(c.issue_webhooks)),
    ("+= sibling list", lambda c: c.merge_request_webhooks.__iadd__(c.issue_webhooks)),
    ("merge_request_webhooks = issue_webhooks", lambda c: setattr(c, "merge_request_webhooks", c.issue_webhooks)),
):
    cfg = fresh()
    try:
        action(cfg)
    except ValidationError:
        continue
    problems.append("%s inserted %r without validating it"
                    % (label, [(i.url, i.verify_ssl) for i in cfg.merge_request_webhooks]))

if problems:
    print("C11 (insertion of list items) VIOLATED ON UNCHANGED TREE")
    for line in problems:
        print(" -", line)
    sys.exit(1)
print("ok")
