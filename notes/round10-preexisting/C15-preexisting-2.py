"""Pre-existing: a config type whose schema was created with a key of its own (Schema(key=...)) keeps that key instead of its field key when default-constructed."""
import os, sys, tempfile
os.environ["HOME"] = tempfile.mkdtemp(prefix="c15-home-")
sys.path.insert(0, os.getcwd())
from cincoconfig import *  # noqa
from cincoconfig import ConfigType, ValidationError

failures = []
def expect(label, func, path):
    try:
        func()
    except ValidationError as err:
        if err.ref_path != path:
            failures.append("%s: ValidationError names %r (%s), expected %r" % (label, err.ref_path, err, path))
    except Exception as err:
        failures.append("%s: %s escaped: %s" % (label, type(err).__name__, err))
    else:
        failures.append("%s: not rejected" % label)
def finish():
    if failures:
        print("C15 violated on the unchanged library:")
        for line in failures: print("  -", line)
        sys.exit(1)
    print("ok"); sys.exit(0)

server = Schema(key="server_settings")
server.port = PortField(default=80)
Server = make_type(server, "Server")
schema = Schema()
schema.web.primary = Server
schema.web.backup = Server
cfg = schema()
expect("attribute, default-constructed", lambda: setattr(cfg.web.backup, "port", "x"), "web.backup.port")
expect("dotted path", lambda: cfg.__setitem__("web.primary.port", 0), "web.primary.port")
# (after cfg.web.backup = {...} the sub-configuration is named correctly)
finish()
