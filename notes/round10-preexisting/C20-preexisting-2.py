"""
Unchanged library, C20: field keys that are Python keywords ("from", "pass", "class", "global",
"in") are legal schema keys (schema["from"] = ..., config["from"], documents use them all the time)
but are written verbatim into the stub: "from: str" and "def __init__(self, from: str)" are not
valid Python. (The same holds for keys that are not identifiers at all, e.g. "max-size".)
"""
import os, sys, tempfile
os.environ["HOME"] = tempfile.mkdtemp(prefix="c20-home-")
sys.path.insert(0, os.getcwd())
import ast

from cincoconfig import Schema, StringField, IntField, generate_stub

schema = Schema()
schema["from"] = StringField(default="noreply@example.com")
schema["pass"] = StringField(default="secret")
schema.retries = IntField(default=3)
config = schema()
config["from"] = "me@example.com"
assert config.to_tree() == {"from": "me@example.com", "pass": "secret", "retries": 3}
stub = generate_stub(schema, "Mail")
print(stub)
try:
    ast.parse(stub)
except SyntaxError as err:
    print("NOT VALID PYTHON:", err)
    sys.exit(1)
sys.exit(0)
