"""
Pre-existing (unchanged tree): under a mask (or virtual=True) Config._render_nested replaces whatever
a field rendered for a held configuration by held.to_tree(...).  For the built-in ListField that is
the same tree.  A user-defined, NON-sensitive field that holds configurations in a dict and renders
them in its own way in to_basic() (a summary, a reference, a subset of keys) is rendered differently
as soon as any mask is given: "all non-sensitive fields are rendered exactly as without a mask" does
not hold for it -- the masked document is not even loadable by the field's own to_python().
"""
import os
import sys
import tempfile

os.environ["HOME"] = tempfile.mkdtemp(prefix="c10-home-")
sys.path.insert(0, os.getcwd())

from cincoconfig import Field, IntField, Schema, StringField  # noqa: E402

server_schema = Schema()
server_schema.host = StringField(default="localhost")
server_schema.port = IntField(default=22)


class ServersField(Field):
    """name -> server configuration, written as ``name: "host:port"``."""

    storage_type = dict

    def _validate(self, cfg, value):
        servers = {}
        for name, item in value.items():
            if isinstance(item, str):
                host, _, port = item.partition(":")
                item = {"host": host, "port": int(port or 22)}
            server = server_schema()
            server.load_tree(item)
            servers[name] = server
        return servers

    def to_basic(self, cfg, value):
        if value is None:
            return None
        return {name: "%s:%d" % (server.host, server.port) for name, server in value.items()}


schema = Schema()
schema.name = StringField(default="app")
schema.password = StringField(sensitive=True, default="hunter2")
schema.servers = ServersField()          # not sensitive, nothing sensitive below it either

cfg = schema()
cfg.servers = {"web": "w1.example.com:8022", "db": {"host": "d1.example.com"}}

plain = cfg.to_tree()
problems = []
if plain["servers"] != {"web": "w1.example.com:8022", "db": "d1.example.com:22"}:
    problems.append("unexpected plain rendering %r" % (plain["servers"],))
for mask in ("*", "<hidden>", ""):
    masked = cfg.to_tree(sensitive_mask=mask)
    if masked["servers"] != plain["servers"]:
        problems.append(
            "mask %r: the non-sensitive field servers is rendered as %r, without a mask as %r"
            % (mask, masked["servers"], plain["servers"])
        )

if problems:
    print("C10 violated on the unchanged tree: a non-sensitive user-defined field changes its rendering under a mask")
    for line in problems:
        print("  -", line)
    sys.exit(1)
print("ok")
sys.exit(0)
