"""
Pre-existing (unchanged library): a configuration that passes validation cannot be loaded back.

A section switched off by its FeatureFlagField is not validated, so a required field in it may be
unset (None).  to_tree() writes the unset field as null, and load_tree() sets every entry through
the field's validation chain - which refuses None for a required field, feature flag or not.
"""
import os
import sys
import tempfile

os.environ["HOME"] = tempfile.mkdtemp(prefix="c02-home-")
sys.path.insert(0, os.getcwd())

from cincoconfig import FeatureFlagField, FilenameField, Schema, StringField  # noqa: E402

schema = Schema()
schema.name = StringField(default="app")
schema.tls.enabled = FeatureFlagField(default=False)
schema.tls.certfile = FilenameField(required=True)

cfg = schema()
errors = cfg.validate(collect_errors=True)
assert errors == [], errors  # the state is valid: the tls section is switched off

problems = []
for fmt in ("json", "yaml", "bson", "xml", "pickle"):
    content = cfg.dumps(fmt)
    fresh = schema()
    try:
        fresh.loads(content, fmt)
    except Exception as exc:  # pylint: disable=broad-except
        problems.append("%s: %s: %s" % (fmt, type(exc).__name__, exc))

if problems:
    print("C02 violated on the unchanged tree: a valid configuration (disabled feature section with")
    print("an unset required field) is saved with a null entry and cannot be loaded again:")
    for line in problems:
        print("  - " + line)
    sys.exit(1)
print("ok")
sys.exit(0)
