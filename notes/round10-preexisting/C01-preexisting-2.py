"""
Pre-existing (unchanged tree): HostnameField(allow_ipv4=False, resolve=True) stores the RESOLVED IPv4
address. The value the configuration then holds is an IPv4 literal, which the field itself rejects
(allow_ipv4=False): Config.validate() fails on a value the library stored after an accepted assignment.
min_len / max_len / regex are not applied to the resolved text either. Needs "localhost" to resolve
(no network needed).
"""
import os
import sys
import tempfile

os.environ["HOME"] = tempfile.mkdtemp(prefix="c01-home-")
sys.path.insert(0, os.getcwd())

from cincoconfig import HostnameField, Schema  # noqa: E402

schema = Schema()
schema.host = HostnameField(allow_ipv4=False, resolve=True)
cfg = schema()
try:
    cfg.host = "localhost"
except ValueError as err:
    print("cannot resolve localhost here, nothing to show:", err)
    sys.exit(0)

print("cfg.host = 'localhost' is accepted and reads back", repr(cfg.host))
bad = False
try:
    schema.host.validate(cfg, cfg.host)
except ValueError as err:
    print("C01: the held value does not satisfy its own field:", err)
    bad = True
try:
    cfg.validate()
except ValueError as err:
    print("C01: cfg.validate() fails right after the accepted assignment:", err)
    bad = True
sys.exit(1 if bad else 0)
