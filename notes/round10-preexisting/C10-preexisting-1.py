"""
Pre-existing (unchanged tree): a key that a dynamic configuration acquired as a dynamic value keeps
its private AnyField in Config._fields.  When the schema later declares that key as a sensitive
field, everything else in the library uses the schema's field (Config._get_field prefers it: the
value is validated by it on assignment), but to_tree() builds its field table with
``fields.update(self._fields)``, i.e. the stale dynamic AnyField wins there -- the value of a field
marked sensitive is rendered in clear under every mask.
"""
import os
import sys
import tempfile

os.environ["HOME"] = tempfile.mkdtemp(prefix="c10-home-")
sys.path.insert(0, os.getcwd())

from cincoconfig import Schema, StringField  # noqa: E402

schema = Schema(dynamic=True)
schema.name = StringField(default="app")
cfg = schema()
cfg.token = "early-value"                       # dynamic key: an AnyField private to cfg

schema.token = StringField(sensitive=True, min_len=4)   # the schema now declares it, sensitive
fresh = schema()
fresh.token = "s3cr3t-of-fresh"

cfg.token = "s3cr3t-of-cfg"                     # validated by the schema's field ...
try:
    cfg.token = "x"
except ValueError:
    validated_by_schema_field = True
else:
    validated_by_schema_field = False

problems = []
if not validated_by_schema_field:
    problems.append("cfg.token is not validated by the schema's StringField(min_len=4)")
if fresh.to_tree(sensitive_mask="*")["token"] != "*" * len("s3cr3t-of-fresh"):
    problems.append("fresh configuration: token not masked")
for mask in ("*", "<hidden>", ""):
    got = cfg.to_tree(sensitive_mask=mask)["token"]
    wanted = mask * len(cfg.token) if len(mask) == 1 else mask
    if got != wanted:
        problems.append("mask %r: cfg.to_tree() renders the sensitive field token as %r, expected %r" % (mask, got, wanted))
if b"s3cr3t-of-cfg" in cfg.dumps("json", sensitive_mask="*"):
    problems.append("json document rendered with mask '*' contains the token")

if problems:
    print("C10 violated on the unchanged tree: a dynamic key shadows the sensitive schema field declared later")
    for line in problems:
        print("  -", line)
    sys.exit(1)
print("ok")
sys.exit(0)
