"""UNCHANGED tree: falsy but valid values that do not survive a round trip.
(a) SecureField: '' is accepted, saved as null, loaded as None.
(b) XML format: carriage returns in a string are normalised to newlines by the XML parser."""
import os, sys, tempfile
os.environ["HOME"] = tempfile.mkdtemp(prefix="c19-home-")
sys.path.insert(0, os.getcwd())
from cincoconfig import *  # noqa: E402,F401,F403
WORK = tempfile.mkdtemp(prefix="c19-pre-")

status = 0
schema = Schema()
schema.pw = SecureField()
cfg = schema()
cfg.pw = ""
path = os.path.join(WORK, "s.json")
cfg.save(path, format="json")
loaded = schema()
loaded.load(path, format="json")
if loaded.pw != cfg.pw:
    print("C19 VIOLATED (unchanged tree): SecureField %r loads back as %r" % (cfg.pw, loaded.pw))
    status = 1

schema = Schema()
schema.text = StringField()
cfg = schema()
cfg.text = "a\r\nb\rc"
path = os.path.join(WORK, "x.xml")
cfg.save(path, format="xml")
loaded = schema()
loaded.load(path, format="xml")
if loaded.text != cfg.text:
    print("C19 VIOLATED (unchanged tree): xml: %r loads back as %r" % (cfg.text, loaded.text))
    status = 1
sys.exit(status)
