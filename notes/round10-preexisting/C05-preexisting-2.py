"""HostnameField(resolve=True, allow_ipv4=False): a name is accepted and returned as its IPv4
address, which the same field rejects (not idempotent). Uses 'localhost' (no network needed)."""
import os, sys, tempfile
os.environ["HOME"] = tempfile.mkdtemp(prefix="c05-pre-")
sys.path.insert(0, os.getcwd())
from cincoconfig import *  # noqa
bad = []

schema = Schema()
schema.h = HostnameField(resolve=True, allow_ipv4=False)
cfg = schema()
try:
    first = schema.h.validate(cfg, "localhost")
except ValueError as err:
    print("skipped: localhost does not resolve here (%s)" % err)
    sys.exit(0)
try:
    second = schema.h.validate(cfg, first)
    if second != first:
        bad.append("%r -> %r" % (first, second))
except ValueError as err:
    bad.append("'localhost' accepted as %r, validating that again: %s" % (first, err))

if bad:
    print("C05 already violated on the unchanged tree:")
    for line in bad:
        print("  - " + line)
    sys.exit(1)
print("ok")
sys.exit(0)

