"""
Pre-existing (unchanged tree), borderline: IncludeField WITHOUT a start directory validates the
include path as written (relative to the working directory) but include() opens
os.path.expanduser(path).  For a path that starts with '~' the two differ: the file that was
checked to exist is ./~/extra.json, the file that is read and merged is $HOME/extra.json.
With a start directory the validated path is absolute and the two agree.
"""
import json
import os
import sys
import tempfile

home = tempfile.mkdtemp(prefix="c18-home-")
os.environ["HOME"] = home
sys.path.insert(0, os.getcwd())

from cincoconfig import Schema, IntField, IncludeField  # noqa: E402

origin = os.getcwd()
work = tempfile.mkdtemp(prefix="c18-pre1-")
os.makedirs(os.path.join(work, "~"))
with open(os.path.join(work, "~", "extra.json"), "w") as fp:
    json.dump({"port": 2222}, fp)  # the file the include path names, relative to the cwd
with open(os.path.join(home, "extra.json"), "w") as fp:
    json.dump({"port": 6666}, fp)  # never named by anything the field validated

schema = Schema()
schema.include = IncludeField()
schema.port = IntField(default=1)

problems = []
os.chdir(work)
try:
    config = schema()
    config.loads(json.dumps({"include": "~/extra.json", "port": 80}), format="json")
    validated = schema.include.validate(config, "~/extra.json")
    if config.port != 2222:
        problems.append(
            "the field validated %r (exists: %s, holds port=2222) but the load merged another "
            "file: port = %r (that is %s)"
            % (validated, os.path.isfile(validated), config.port, os.path.join(home, "extra.json"))
        )
    os.remove(os.path.join(home, "extra.json"))
    config = schema()
    try:
        config.loads(json.dumps({"include": "~/extra.json", "port": 80}), format="json")
    except Exception as err:  # noqa: BLE001
        problems.append(
            "the named file ./~/extra.json exists, yet the load fails looking for another "
            "file: %s" % (err,)
        )
finally:
    os.chdir(origin)

if problems:
    print("C18 (pre-existing, borderline): validated include path != opened include path")
    for line in problems:
        print(" -", line)
    sys.exit(1)
print("ok")
sys.exit(0)
