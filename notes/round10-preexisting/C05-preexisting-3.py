"""FloatField(min=0, max=1) accepts 'nan' / float('nan'): both bound comparisons are False for NaN,
so a value outside the declared range is accepted, and the accepted value is not equal to itself."""
import os, sys, tempfile
os.environ["HOME"] = tempfile.mkdtemp(prefix="c05-pre-")
sys.path.insert(0, os.getcwd())
from cincoconfig import *  # noqa
bad = []

schema = Schema()
schema.f = FloatField(min=0, max=1)
cfg = schema()
for raw in ("nan", float("nan"), "-NaN"):
    try:
        got = schema.f.validate(cfg, raw)
    except ValueError:
        continue
    bad.append("FloatField(min=0, max=1) accepted %r as %r (within [0, 1]: %s)" % (raw, got, 0 <= got <= 1))

if bad:
    print("C05 already violated on the unchanged tree:")
    for line in bad:
        print("  - " + line)
    sys.exit(1)
print("ok")
sys.exit(0)

