"""
Pre-existing (unchanged tree): field enumeration of a NESTED schema / sub-configuration prefixes every
path with that schema's own key (but not its ancestors' keys).  The paths are then neither relative
to the object that was enumerated (they do not resolve on it, are not 'in' it, cannot be assigned)
nor the fields' reference paths; the parser generated for a sub-configuration produces destinations
that cmdline_args_override cannot apply to it.
"""
import os
import sys
import tempfile

os.environ["HOME"] = tempfile.mkdtemp(prefix="c16-pre1-home-")
sys.path.insert(0, os.getcwd())

from cincoconfig import (  # noqa: E402
    IntField,
    Schema,
    StringField,
    cmdline_args_override,
    generate_argparse_parser,
    get_all_fields,
)

schema = Schema()
schema.a.b.c = IntField(default=1)
schema.a.b.d.e = StringField(default="x")
config = schema()
section = config.a.b  # a sub-configuration, schema key 'b', reference path 'a.b'

failures = []
for path, _, field in get_all_fields(section):
    if path != field._ref_path:
        failures.append("enumerated %r but the field's reference path is %r" % (path, field._ref_path))
    if path not in section:
        failures.append("%r not in the enumerated sub-configuration" % path)
    try:
        section[path]
    except Exception as exc:
        failures.append("section[%r] raised %s: %s" % (path, type(exc).__name__, exc))

parser = generate_argparse_parser(section, exit_on_error=False)
args = parser.parse_args(["--b-c", "5"])
try:
    cmdline_args_override(section, args)
except Exception as exc:
    failures.append(
        "cmdline_args_override(section, %r) raised %s: %s" % (vars(args), type(exc).__name__, exc)
    )
if section.c != 5:
    failures.append("--b-c 5 was not applied: a.b.c == %r" % section.c)

if failures:
    print("C16 VIOLATED on the unchanged tree (enumeration rooted at a nested schema)")
    for line in failures:
        print(" -", line)
    sys.exit(1)
print("ok")
sys.exit(0)
