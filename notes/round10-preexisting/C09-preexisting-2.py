"""Pre-existing (unchanged tree), borderline: a BYTE-STRING plaintext is accepted on assignment
(ChallengeField._validate takes str and bytes) but one written by hand into a file that can carry
bytes (YAML ``!!binary``, pickle, BSON binary) is refused on load instead of hashed:
ChallengeField.to_python only hashes str ("invalid salt-digest tuple").  The class docstring only
promises plaintext *string* values on load, the property quantifies over strings and byte strings."""
import os
import pickle
import sys
import tempfile

os.environ["HOME"] = tempfile.mkdtemp(prefix="c09-home-")
sys.path.insert(0, os.getcwd())

import hashlib  # noqa: E402

from cincoconfig import ChallengeField, DigestValue, Schema  # noqa: E402

schema = Schema()
schema.password = ChallengeField("sha1")
secret = b"raw\xff-secret"

cfg = schema()
cfg.password = secret  # assignment: fine
assert isinstance(cfg.password, DigestValue)
cfg.password.challenge(secret)

problems = []
docs = [("pickle", pickle.dumps({"password": secret}))]
try:
    import yaml  # noqa: F401

    docs.append(("yaml", b"password: !!binary cmF3/y1zZWNyZXQ=\n"))
except ImportError:
    pass
for fmt, doc in docs:
    other = schema()
    try:
        other.loads(doc, fmt)
    except Exception as err:  # noqa: BLE001
        problems.append("%s: hand-written byte-string plaintext refused on load: %s" % (fmt, err))
        continue
    val = other.password
    if not isinstance(val, DigestValue) or val.digest != hashlib.sha1(val.salt + secret).digest():
        problems.append("%s: not hashed on load: %r" % (fmt, val))

if problems:
    print("C09 (byte-string plaintext in a file) on the unchanged tree:")
    for line in problems:
        print("  -", line)
    sys.exit(1)
print("ok")
sys.exit(0)
