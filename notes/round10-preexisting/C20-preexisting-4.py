"""
Unchanged library, C20: annotations that are neither a class, a string nor a generic alias - a
bare TypeVar, a typing.NewType, a ParamSpec - make generate_stub raise TypeError when they annotate
a PARAMETER of an instance method (the same objects as RETURN annotation are silently dropped by
get_retval_annotation). No stub is produced for a perfectly ordinary generic method.
"""
import os, sys, tempfile
os.environ["HOME"] = tempfile.mkdtemp(prefix="c20-home-")
sys.path.insert(0, os.getcwd())
import ast

from typing import NewType, TypeVar
from cincoconfig import Schema, StringField, generate_stub, instance_method

T = TypeVar("T")
UserId = NewType("UserId", int)
bad = 0
for label, annotation in (("TypeVar", T), ("NewType", UserId)):
    schema = Schema()
    schema.name = StringField()

    def method(cfg, value, default=None):
        return value

    method.__annotations__ = {"value": annotation, "return": annotation}
    instance_method(schema, "lookup")(method)
    try:
        stub = generate_stub(schema, "Thing")
        ast.parse(stub)
    except Exception as err:
        print("%s parameter annotation: generate_stub raised %s: %s" % (label, type(err).__name__, err))
        bad = 1
sys.exit(bad)
