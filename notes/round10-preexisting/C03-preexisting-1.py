"""
Pre-existing (unchanged tree): a key file assigned to a SUB-configuration is lost when a document is
loaded, because load_tree()/_set_value() replace every sub-configuration by a fresh object that
names no key file.  The secrets of that sub-configuration are then decrypted with the parent's (or
the default) key file.
"""
import os
import sys
import tempfile

os.environ["HOME"] = tempfile.mkdtemp(prefix="c03-home-")
sys.path.insert(0, os.getcwd())

from cincoconfig import Schema, SecureField, StringField  # noqa: E402

work = tempfile.mkdtemp(prefix="c03-work-")
DB_KEY = os.path.join(work, "db.key")
DEFAULT_KEY = os.path.join(os.environ["HOME"], ".cincokey")
cfgfile = os.path.join(work, "config.json")
SECRET = "s3cr3t-påss"


def make_config():
    schema = Schema()
    schema.name = StringField(default="app")
    schema.db.user = StringField(default="admin")
    schema.db.password = SecureField()
    cfg = schema()
    cfg.db._key_filename = DB_KEY  # key-file assignment to a sub-configuration
    return cfg


problems = []
cfg = make_config()
cfg.db.password = SECRET
cfg.save(cfgfile, format="json")
if os.path.exists(DEFAULT_KEY):
    problems.append("save created the default key file")
if not os.path.exists(DB_KEY):
    problems.append("save did not use the sub-configuration's key file")

# new session, same key-file assignment
cfg2 = make_config()
named_before = cfg2.db._key_filename
try:
    cfg2.load(cfgfile, format="json")
except Exception as err:
    problems.append("load failed: %s" % err)
else:
    if cfg2.db.password != SECRET:
        problems.append("db.password read back as %r" % cfg2.db.password)
if cfg2.db._key_filename != named_before:
    problems.append(
        "after load the sub-configuration names %s instead of %s (it was replaced by a new object)"
        % (cfg2.db._key_filename, named_before)
    )
if os.path.exists(DEFAULT_KEY):
    problems.append("load created/used the default key file %s" % DEFAULT_KEY)

if problems:
    print("C03 VIOLATED on the unchanged tree:")
    for p in problems:
        print("  - " + p)
    sys.exit(1)
print("ok")
sys.exit(0)
