"""
UNCHANGED tree: a refused item replacement on a typed list (index out of range, or a
dotted-path "list.0" assignment that ends in list.__setitem__ with a str index) re-links an
offered item configuration to the refusing list before list.__setitem__ raises, and never puts
the links back. The item still sits in the list it came from, but its public reference path
(cincoconfig.item_ref_path), its _parent/_key/_container now name the list that refused it.
ListProxy._validate only restores the links when value.validate() fails, not when the
delegated list operation fails afterwards.
"""
import os
import sys
import tempfile

os.environ["HOME"] = tempfile.mkdtemp()
sys.path.insert(0, os.getcwd())

from cincoconfig import ListField, Schema, StringField, item_ref_path  # noqa: E402

item = Schema()
item.name = StringField(default="n")
schema = Schema()
schema.a = ListField(item)
schema.b = ListField(item)

cfg = schema()
cfg.a = [{"name": "x"}]
cfg.b = [{"name": "y"}]
moved = cfg.b[0]


def snapshot():
    return {
        "tree": cfg.to_tree(),
        "ref_path(b[0])": item_ref_path(cfg.b[0]),
        "b[0]._container is cfg.b": cfg.b[0]._container is cfg.b,
        "b[0] identity": cfg.b[0] is moved,
    }


before = snapshot()
try:
    cfg.a[5] = moved  # rejected: there is no slot 5
except IndexError as exc:
    print("rejected as expected: IndexError: %s" % exc)
else:
    print("UNEXPECTED: the replacement was accepted")
    sys.exit(2)
after = snapshot()

if before != after:
    print("configuration changed by a rejected list item replacement:")
    for key in before:
        if before[key] != after[key]:
            print("  %s: %r -> %r" % (key, before[key], after[key]))
    sys.exit(1)
print("unchanged")
sys.exit(0)
