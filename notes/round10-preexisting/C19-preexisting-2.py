"""UNCHANGED tree: the YAML format writes keys sorted (yaml.dump default sort_keys=True) while
load_tree assigns fields in document order.  A field validator that reads another field of the
configuration (validators get the configuration for that purpose) then sees the other field's
default while the file is loaded, and a file written by a successful save is refused.
json / xml / bson / pickle keep the schema order and load the same configuration fine."""
import os, sys, tempfile
os.environ["HOME"] = tempfile.mkdtemp(prefix="c19-home-")
sys.path.insert(0, os.getcwd())
from cincoconfig import *  # noqa: E402,F401,F403
WORK = tempfile.mkdtemp(prefix="c19-pre-")

schema = Schema()
schema.upper = IntField(default=10)


def lower_le_upper(cfg, value):
    if value > cfg.upper:
        raise ValueError("lower must be <= upper (%d)" % cfg.upper)
    return value


schema.lower = IntField(default=0, validator=lower_le_upper)
cfg = schema()
cfg.upper = 100
cfg.lower = 50
status = 0
for fmt in ("json", "xml", "yaml"):
    path = os.path.join(WORK, "c." + fmt)
    cfg.save(path, format=fmt)
    loaded = schema()
    try:
        loaded.load(path, format=fmt)
    except Exception as exc:
        print("C19 VIOLATED (unchanged tree) [%s]: saved file does not load back: %s" % (fmt, exc))
        print("  file: %r" % open(path, "rb").read())
        status = 1
    else:
        print("ok [%s]" % fmt)
sys.exit(status)
