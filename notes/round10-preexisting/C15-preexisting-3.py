"""Pre-existing: Config._ref_path tests the parent for truth; a ConfigType subclass defining __len__ (or __bool__) that is empty cuts the path of everything below it."""
import os, sys, tempfile
os.environ["HOME"] = tempfile.mkdtemp(prefix="c15-home-")
sys.path.insert(0, os.getcwd())
from cincoconfig import *  # noqa
from cincoconfig import ConfigType, ValidationError

failures = []
def expect(label, func, path):
    try:
        func()
    except ValidationError as err:
        if err.ref_path != path:
            failures.append("%s: ValidationError names %r (%s), expected %r" % (label, err.ref_path, err, path))
    except Exception as err:
        failures.append("%s: %s escaped: %s" % (label, type(err).__name__, err))
    else:
        failures.append("%s: not rejected" % label)
def finish():
    if failures:
        print("C15 violated on the unchanged library:")
        for line in failures: print("  -", line)
        sys.exit(1)
    print("ok"); sys.exit(0)

member = Schema()
member.host = HostnameField()
pool_schema = Schema()
pool_schema.members = ListField(member, default=lambda: [])
pool_schema.opts.retries = IntField(default=1)

class Pool(ConfigType):
    __schema__ = pool_schema
    def __len__(self):
        return len(self.members)

schema = Schema()
schema.lb.pool = Pool
cfg = schema()
expect("attribute, empty pool", lambda: setattr(cfg.lb.pool.opts, "retries", "x"), "lb.pool.opts.retries")
expect("load_tree, empty pool", lambda: schema().load_tree({"lb": {"pool": {"opts": {"retries": "x"}}}}), "lb.pool.opts.retries")
expect("load_tree, first member", lambda: schema().load_tree({"lb": {"pool": {"members": [{"host": 5}]}}}), "lb.pool.members[0].host")
finish()
