"""
C07, unchanged library: a key object that was never opened holds key material and encrypts outside
any key context -- the copy of a configuration (or of a KeyFile) taken while a key context is open.

Config.__deepcopy__ copies the private KeyFile attribute with copy.deepcopy(); KeyFile has no copy
support of its own, so the loaded key and the reference count are duplicated.  Nobody ever leaves a
context on the copy, so the key stays loaded in it for good: encrypt/decrypt work with no context
open, and later sessions on the copy never look at the key file again (a changed or malformed key
file goes unnoticed).
"""
import copy
import os
import sys
import tempfile

os.environ["HOME"] = tempfile.mkdtemp(prefix="c07-home-")
sys.path.insert(0, os.getcwd())

from cincoconfig import Schema, SecureField  # noqa: E402
from cincoconfig.encryption import EncryptionError  # noqa: E402

problems = []
workdir = tempfile.mkdtemp(prefix="c07-keys-")
path = os.path.join(workdir, "app.key")
key = bytes(range(32))
with open(path, "wb") as fp:
    fp.write(key)

schema = Schema()
schema.password = SecureField(method="xor")
cfg = schema(key_filename=path)
cfg.password = "hunter2"

with cfg._keyfile:  # e.g. the application reads the key once around load + snapshot + save
    snapshot = copy.deepcopy(cfg)

kf = snapshot._keyfile
if kf is cfg._keyfile:
    problems.append("the copy shares the key file object")
held = [name for name, value in vars(kf).items() if value == key]
if held:
    problems.append(
        "no context was ever opened on the copy's key object and the original's has closed, "
        "but the copy holds the key in %s" % ", ".join(held)
    )
try:
    secret = kf.encrypt(b"\x00" * 32, "xor")
except TypeError:
    pass
else:
    problems.append(
        "encrypt() on the copy's key object works outside any key context%s"
        % (" and reveals the key" if secret.ciphertext == key else "")
    )

# a later session on the copy ignores the key file: a malformed file is not rejected
with open(path, "wb") as fp:
    fp.write(b"short")
try:
    tree = snapshot.to_tree()
except Exception as err:  # pylint: disable=broad-except
    if not isinstance(getattr(err, "exc", err), EncryptionError):
        problems.append("unexpected error %r" % err)
else:
    problems.append("the copy saved its secret although the key file now holds 5 bytes: %r" % tree)
try:
    cfg.to_tree()
    problems.append("the original saved its secret with a 5 byte key file")
except Exception:  # pylint: disable=broad-except
    pass

if problems:
    print("C07 violated on the unchanged library (%d):" % len(problems))
    for line in problems:
        print("  - " + line)
    sys.exit(1)
print("ok")
sys.exit(0)
