"""C09, unchanged library: a byte-string secret is accepted when assigned, but rejected as a default
and when it stands as plaintext in a file whose format can carry bytes (pickle, bson)."""
import os
import sys
import tempfile

os.environ["HOME"] = tempfile.mkdtemp(prefix="c09-home-")
sys.path.insert(0, os.getcwd())

import hashlib  # noqa: E402
import pickle  # noqa: E402

import bson  # noqa: E402

from cincoconfig import ChallengeField, Schema  # noqa: E402
from cincoconfig.fields import DigestValue  # noqa: E402

problems = []
secret = b"\xff\x00 raw key material"

# reference: assignment of the byte string works and verifies
schema = Schema()
schema.password = ChallengeField("sha256")
cfg = schema()
cfg.password = secret
assert cfg.password.digest == hashlib.sha256(cfg.password.salt + secret).digest()
cfg.password.challenge(secret)

# 1. the same byte string as the declared (plaintext) default
try:
    schema = Schema()
    schema.password = ChallengeField("sha256", default=secret)
    cfg = schema()
    assert isinstance(cfg.password, DigestValue)
    cfg.password.challenge(secret)
except Exception as exc:  # pylint: disable=broad-except
    problems.append("byte-string default: %s: %s" % (type(exc).__name__, exc))

# 2. the same byte string written as plaintext into a pickle / bson document
for fmt, content in (("pickle", pickle.dumps({"password": secret})),
                     ("bson", bson.dumps({"password": secret}))):
    try:
        schema = Schema()
        schema.password = ChallengeField("sha256")
        cfg = schema()
        cfg.loads(content, fmt)
        assert isinstance(cfg.password, DigestValue)
        cfg.password.challenge(secret)
    except Exception as exc:  # pylint: disable=broad-except
        problems.append("byte-string plaintext in a %s file: %s: %s" % (fmt, type(exc).__name__, exc))

if problems:
    print("C09 (unchanged library): byte-string secrets are hashed on assignment only")
    for line in problems:
        print("  -", line)
    sys.exit(1)
print("ok")
sys.exit(0)
