"""Unchanged library: after a tree/document load the configurations in a list are linked to the
throw-away ListProxy that ListField.to_python built, not to the proxy that is stored (the stored one
is an unvalidated copy made by ListField._validate).  Once the stored list changes (del, pop,
insert), a rejection inside an item names a stale item index."""
import os
import sys
import tempfile

os.environ["HOME"] = tempfile.mkdtemp(prefix="c15-home-")
sys.path.insert(0, os.getcwd())

from cincoconfig import Schema, IntField, ListField  # noqa: E402
from cincoconfig.core import ValidationError  # noqa: E402

item = Schema()
item.x = IntField(required=True)
schema = Schema()
schema.a.items = ListField(item)

bad = []
for route in ("json", "tree", "assign"):
    cfg = schema()
    if route == "json":
        cfg.loads('{"a": {"items": [{"x": 1}, {"x": 2}, {"x": 3}]}}', format="json")
    elif route == "tree":
        cfg.load_tree({"a": {"items": [{"x": 1}, {"x": 2}, {"x": 3}]}})
    else:
        cfg.a.items = [{"x": 1}, {"x": 2}, {"x": 3}]
    del cfg.a.items[0]
    try:
        cfg.a.items[0].x = "bad"
    except ValidationError as err:
        if err.ref_path != "a.items[0].x":
            bad.append("%s: rejected a.items[0].x is reported as %r (%s)" % (route, err.ref_path, err))

if bad:
    print("C15 violated on the unchanged tree: stale item index after a load")
    for line in bad:
        print("  " + line)
    sys.exit(1)
print("ok")
