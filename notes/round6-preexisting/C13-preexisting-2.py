"""C13 on the UNCHANGED tree: values taken from configuration `a` and assigned / loaded into
configuration `b` stay shared, although the library re-builds typed list/dict proxies coming from
another configuration for exactly this reason (fix 757b352).

All mutating operations are performed on `b`; `a` is observed.
"""
import copy
import os
import sys
import tempfile

os.environ["HOME"] = tempfile.mkdtemp(prefix="c13-home-")
sys.path.insert(0, os.getcwd())

from cincoconfig import DictField, Field, IntField, ListField, Schema, asdict  # noqa: E402

item = Schema()
item.x = IntField(default=0)

schema = Schema()
schema.tags = ListField(default=["t"])                  # untyped list
schema.opts = DictField(default={"k": [1]})            # untyped dict with a nested list
schema.blob = Field(default=[1])                       # generic field holding a list
schema.items = ListField(item, default=[{"x": 1}])     # list of sub-configurations
schema.sub.y = IntField(default=1)                     # nested section


def check(label, mutate):
    a = schema()
    b = schema()
    before = copy.deepcopy(asdict(a))
    mutate(a, b)
    after = asdict(a)
    if after != before:
        diff = {k: (before[k], after[k]) for k in before if before[k] != after[k]}
        return ["%s: a changed although only b was operated on: %r" % (label, diff)]
    return []


def assign_untyped(a, b):
    b.tags = a.tags          # ListField._validate returns the very list for an untyped field
    b.tags.append("more")


def assign_items(a, b):
    b.items = a.items        # proxy re-built, but the item configurations are adopted, not copied
    b.items[0].x = 77


def assign_section(a, b):
    b.sub = a.sub            # the sub-configuration is re-parented to b and stays in a
    b.sub.y = 55


def tree_roundtrip(a, b):
    b.load_tree(a.to_tree())  # the documented way to copy one configuration into another
    b.opts["k"].append(2)     # DictField.to_basic copies one level only
    b.blob.append(2)          # Field.to_basic / to_python hand the list through


problems = []
problems += check("b.tags = a.tags", assign_untyped)
problems += check("b.items = a.items", assign_items)
problems += check("b.sub = a.sub", assign_section)
problems += check("b.load_tree(a.to_tree())", tree_roundtrip)

if problems:
    print("C13 VIOLATED on the unchanged tree (values passed from one configuration to another stay shared)")
    for p in problems:
        print(" -", p)
    sys.exit(1)
print("ok")
sys.exit(0)
