"""C20, unchanged library (borderline - depends on whether such keys count as legitimate): a field
key that is a reserved word ('global', 'class', 'import', 'from' - plausible section / option names
in a configuration file, added with schema["global"] and read with config["global"]) or that is not
an identifier at all ('max-size') is written verbatim into the stub, which then is not valid Python."""
import os
import sys
import tempfile

os.environ["HOME"] = tempfile.mkdtemp(prefix="c20-home-")
sys.path.insert(0, os.getcwd())

import ast  # noqa: E402

from cincoconfig import IntField, Schema, StringField  # noqa: E402
from cincoconfig.stubs import generate_stub  # noqa: E402


def main() -> int:
    bad = []
    for key in ("global.timeout", "from", "max-size"):
        schema = Schema()
        schema.name = StringField(default="")
        schema[key] = IntField(default=0)
        config = schema()
        config[key] = 5
        assert config[key] == 5
        stub = generate_stub(schema, "Thing")
        try:
            ast.parse(stub)
        except SyntaxError as exc:
            bad.append("key %r: %s -> %r" % (key, exc.msg, stub.split("\n")[2]))
    if bad:
        print("FAIL (unchanged library): stub is not valid Python")
        for line in bad:
            print("  " + line)
        return 1
    print("OK")
    return 0


if __name__ == "__main__":
    sys.exit(main())
