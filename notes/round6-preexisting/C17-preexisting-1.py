# UNCHANGED tree: DictProxy.update(self, iterable=None, **kwargs) is not positional-only like
# dict.update, so the keyword entries named "iterable" and "self" are not stored as entries.
import os
import sys
import tempfile

os.environ["HOME"] = tempfile.mkdtemp(prefix="c17-home-")
sys.path.insert(0, os.getcwd())

from cincoconfig import Schema, DictField, IntField, StringField  # noqa: E402

schema = Schema()
schema.d = DictField(StringField(), IntField())
cfg = schema()
cfg.d = {"a": 1}

failures = []
for kwargs in ({"iterable": 5}, {"self": 5}, {"a": 2, "iterable": "7"}):
    typed = cfg.d.copy()
    model = {"a": 1}
    model.update(**kwargs)
    model = {k: int(v) for k, v in model.items()}
    try:
        typed.update(**kwargs)
        got = "contents %r" % dict(typed)
        same = dict(typed) == model
    except Exception as exc:
        got = "raised %s: %s" % (type(exc).__name__, exc)
        same = False
    if not same:
        failures.append("update(**%r): typed dict %s; built-in dict gives %r" % (kwargs, got, model))

if failures:
    print("C17 violated on the unchanged tree: update(key=value) with a key named like a parameter")
    for line in failures:
        print("  " + line)
    sys.exit(1)
print("ok")
