# UNCHANGED tree: two typed dicts with the same contents but another field / another
# configuration compare neither equal nor unequal (== False and != False); the built-in dict
# (and a typed list in the same situation) compares by content.
import os
import sys
import tempfile

os.environ["HOME"] = tempfile.mkdtemp(prefix="c17-home-")
sys.path.insert(0, os.getcwd())

from cincoconfig import Schema, DictField, IntField, StringField  # noqa: E402

schema = Schema()
schema.d = DictField(StringField(), IntField())
schema.e = DictField(StringField(), IntField())
one, two = schema(), schema()
one.d = {"a": "1"}
one.e = {"a": 1}
two.d = {"a": 1}

failures = []
for label, left, right in (
    ("same configuration, other field", one.d, one.e),
    ("other configuration, same field", one.d, two.d),
):
    eq, ne = left == right, left != right
    model_eq, model_ne = dict(left) == dict(right), dict(left) != dict(right)
    if (eq, ne) != (model_eq, model_ne):
        failures.append(
            "%s: contents %r and %r: typed == is %r and != is %r; built-in == is %r and != is %r"
            % (label, dict(left), dict(right), eq, ne, model_eq, model_ne)
        )

if failures:
    print("C17 violated on the unchanged tree: equality query between typed dicts")
    for line in failures:
        print("  " + line)
    sys.exit(1)
print("ok")
