"""
C14, unchanged library: ListField and DictField override __setdefault__ without looking at the
environment variable they are bound to, while Config.load_tree still skips the key when that
variable is set.  So for a list / dict field bound to a non-empty variable (by name, or simply
because the schema was declared env=True and the key is e.g. `path`):
  * construction neither takes the (validated) variable nor fails with a ValidationError naming
    the field -- the variable is silently ignored and the default is used;
  * every document loaded afterwards is silently dropped for that key, although the value in the
    configuration is NOT the variable.
The property promises one of: value == validated variable, or ValidationError at construction.
"""
import os
import sys
import tempfile

os.environ["HOME"] = tempfile.mkdtemp(prefix="c14-pre-")
sys.path.insert(0, os.getcwd())

from cincoconfig import Schema, ListField, DictField, StringField, ValidationError  # noqa: E402

problems = []

os.environ["PATH"] = os.environ.get("PATH") or "/usr/bin:/bin"  # practically always set
os.environ["APP_LABELS"] = "a=b"

schema = Schema(env=True)
schema.path = ListField(StringField(), default=lambda: ["/default"])  # bound to PATH
schema.plain = ListField(default=lambda: [1])  # bound to PLAIN (unset): control
schema.labels = DictField(default=lambda: {"k": "v"}, env="APP_LABELS")

assert schema.path.env == "PATH" and schema.labels.env == "APP_LABELS"

try:
    cfg = schema()
except ValidationError as exc:
    print("ok: construction rejects the variable:", exc)
    sys.exit(0)

for key, field in (("path", schema.path), ("labels", schema.labels)):
    raw = os.environ[field.env]
    try:
        validated = field.validate(cfg, raw)
    except Exception as exc:  # the variable is not a valid list / dict
        problems.append(
            "%s: variable %s=%r is invalid (%s) but construction succeeded with %r"
            % (key, field.env, raw, exc, cfg[key])
        )
    else:
        if cfg[key] != validated:
            problems.append("%s: value %r is not the validated variable %r" % (key, cfg[key], validated))

cfg.load_tree({"path": ["/from/file"], "plain": [2], "labels": {"from": "file"}})
if cfg.plain != [2]:
    problems.append("control field plain not loaded: %r" % (cfg.plain,))
if list(cfg.path) != ["/from/file"]:
    problems.append(
        "path: document value dropped, still %r (which is not the variable either)" % (list(cfg.path),)
    )
if dict(cfg.labels) != {"from": "file"}:
    problems.append(
        "labels: document value dropped, still %r (which is not the variable either)" % (dict(cfg.labels),)
    )

if problems:
    print("C14 violated on the unchanged library:")
    for p in problems:
        print("  -", p)
    sys.exit(1)
print("ok")
sys.exit(0)
