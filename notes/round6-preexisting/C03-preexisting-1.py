"""C03, UNCHANGED library: a key file assigned to a sub-configuration (or list item) object does
not survive loading.

The property quantifies over key-file assignments to sub-configurations. The only way to assign
one to a plain sub-configuration is `cfg.sub._key_filename = path`. Saving honours it, but
Config._set_value replaces every sub-configuration by a brand-new Config(field, parent) when a
document is loaded, so the new session's assignment is thrown away *before* the secrets below it
are decrypted: the load falls back to the parent's / the default key file, creates ~/.cincokey,
and fails to decrypt.
"""
import os
import sys
import tempfile

HOME = tempfile.mkdtemp(prefix="c03-home-")
os.environ["HOME"] = HOME
sys.path.insert(0, os.getcwd())

from cincoconfig import Schema, SecureField, StringField  # noqa: E402

work = tempfile.mkdtemp(prefix="c03-work-")
sub_key = os.path.join(work, "sub.key")


def make_schema():
    schema = Schema()
    schema.name = StringField(default="n")
    schema.sub.secret = SecureField(method="aes")
    return schema


failures = []

# session 1: the sub-configuration names its own key file
cfg = make_schema()()
cfg.sub._key_filename = sub_key
cfg.sub.secret = "sub-plaintext"
doc = cfg.dumps("json")
if os.listdir(HOME) or os.listdir(work) != ["sub.key"]:
    failures.append("save: HOME=%r work=%r" % (os.listdir(HOME), os.listdir(work)))

# session 2: same assignment, new objects
fresh = make_schema()()
fresh.sub._key_filename = sub_key
try:
    fresh.loads(doc, "json")
except Exception as err:  # pylint: disable=broad-except
    failures.append("load with the same key-file assignment failed: %s" % err)
else:
    if fresh.sub.secret != "sub-plaintext":
        failures.append("secret read back as %r" % (fresh.sub.secret,))

if os.listdir(HOME):
    failures.append("load created %r in HOME (default key file used)" % os.listdir(HOME))
if fresh.sub._key_filename != sub_key:
    failures.append(
        "after load the sub-configuration's key file is %r, the assignment was dropped"
        % fresh.sub._key_filename
    )

if failures:
    print("C03 violated by the unchanged library:")
    for line in failures:
        print("  -", line)
    sys.exit(1)
print("ok")
sys.exit(0)
