"""C04, unchanged library: a key that is an XML Name but contains a colon does not survive the XML format.

The property's XML domain is "keys that are XML names".  Per XML 1.0 production [4] NameStartChar
includes ':', so 'a:b' and 'xml:lang' are XML Names (they are not NCNames).  The encoder writes the key
verbatim as the tag; the parser then treats the part before the colon as a namespace prefix:
  * 'a:b'      -> dumps() itself raises ExpatError (unbound prefix) in the minidom pretty-printing step;
  * 'xml:lang' -> round-trips to the key '{http://www.w3.org/XML/1998/namespace}lang'.
JSON, YAML, BSON and pickle keep both trees.  (If the intended domain is NCNames, this is only a
domain-wording issue.)
"""
import os
import sys
import tempfile

os.environ["HOME"] = tempfile.mkdtemp(prefix="c04-pre-")
sys.path.insert(0, os.getcwd())

from cincoconfig.core import ConfigFormat  # noqa: E402

failed = False
for tree in ({"a:b": 1}, {"section": [{"xml:lang": "en"}]}):
    for name in ("json", "yaml", "bson", "pickle"):
        fmt = ConfigFormat.get(name)
        assert fmt.loads(None, fmt.dumps(None, tree)) == tree, name
    fmt = ConfigFormat.get("xml")
    try:
        back = fmt.loads(None, fmt.dumps(None, tree))
    except Exception as err:  # noqa: BLE001
        failed = True
        print("xml: %r -> %s: %s" % (tree, type(err).__name__, err))
        continue
    if back != tree:
        failed = True
        print("xml: encoded %r, decoded %r" % (tree, back))

if failed:
    print("FAIL (unchanged library): keys that are XML Names containing ':' do not round-trip through XML")
    sys.exit(1)
print("OK")
