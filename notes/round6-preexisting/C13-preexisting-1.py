"""C13 on the UNCHANGED tree: declared defaults that are not a list / dict at the top level are
handed to every configuration without a copy of their nested containers.

Only operations on configuration `a` are performed; `b`, later configurations and field.default
are observed.
"""
import copy
import os
import sys
import tempfile

os.environ["HOME"] = tempfile.mkdtemp(prefix="c13-home-")
sys.path.insert(0, os.getcwd())

from cincoconfig import DictField, Field, IntField, ListField, Schema, asdict  # noqa: E402

schema = Schema()
# ListField accepts tuples as values (ListField._validate), so a tuple default is natural
schema.rows = ListField(default=([1, 2], [3]))
schema.grid = ListField(ListField(IntField()), default=([1], [2]))
# a dict default given as key/value pairs (DictField.__setdefault__ does dict(default))
schema.limits = DictField(default=[("cpu", [1, 2])])
# generic field with a tuple holding a list
schema.any = Field(default=("x", ["y"]))

keys = ["rows", "grid", "limits", "any"]
declared_before = {k: copy.deepcopy(schema._fields[k].default) for k in keys}
a = schema()
b = schema()
b_before = copy.deepcopy(asdict(b))

a.rows[0].append(99)
a.grid[0].append(99)
a.limits["cpu"].append(99)
a.any[1].append(99)

problems = []
b_after = asdict(b)
for k in keys:
    if b_after[k] != b_before[k]:
        problems.append("b.%s changed although only a was touched: %r -> %r" % (k, b_before[k], b_after[k]))
    now = schema._fields[k].default
    if now != declared_before[k]:
        problems.append("declared default of %s changed: %r -> %r" % (k, declared_before[k], now))

if problems:
    print("C13 VIOLATED on the unchanged tree (tuple / pair-list defaults are not copied in depth)")
    for p in problems:
        print(" -", p)
    sys.exit(1)
print("ok")
sys.exit(0)
