"""Pre-existing on the unchanged tree (C12): a mutable object inside a declared default that is
not itself a list/dict/set (a tuple holding a list, a deque, a bytearray) is shared by every
configuration built from the schema. Changing it in place through one configuration changes the
'declared default' that a second configuration and reset_value expose. Field.__setdefault__
deep-copies only when the default itself is a list, dict or set."""
import os
import sys
import tempfile

os.environ["HOME"] = tempfile.mkdtemp(prefix="c12-pre1-home-")
sys.path.insert(0, os.getcwd())

import collections

from cincoconfig import Schema, AnyField, Field, is_value_defined, reset_value

problems = []

schema = Schema()
schema.a.b.pair = AnyField(default=("x", [1]))           # tuple holding a list
schema.a.b.queue = Field(default=collections.deque([1]))  # mutable, not list/dict/set
schema.a.b.plain = AnyField(default=[1])                  # control: copied per configuration

first = schema()
first.a.b.pair[1].append(2)      # in-place change, no assignment: still 'not user-defined'
first.a.b.queue.append(2)
first.a.b.plain.append(2)

second = schema()                # two configurations alive at once
if second.a.b.plain != [1]:
    problems.append("control failed: plain list default shared: %r" % (second.a.b.plain,))
if second.a.b.pair != ("x", [1]):
    problems.append("fresh second configuration: a.b.pair is %r, declared default is ('x', [1])"
                    % (second.a.b.pair,))
if list(second.a.b.queue) != [1]:
    problems.append("fresh second configuration: a.b.queue is %r, declared default is deque([1])"
                    % (second.a.b.queue,))

reset_value(first, "a.b.pair")
reset_value(first, "a.b.queue")
if first.a.b.pair != ("x", [1]) or is_value_defined(first, "a.b.pair"):
    problems.append("after reset_value: a.b.pair is %r, declared default is ('x', [1])"
                    % (first.a.b.pair,))
if list(first.a.b.queue) != [1]:
    problems.append("after reset_value: a.b.queue is %r, declared default is deque([1])"
                    % (first.a.b.queue,))

if problems:
    print("C12 violated on the unchanged tree: nested mutable defaults are shared")
    for p in problems:
        print(" -", p)
    sys.exit(1)
print("ok")
sys.exit(0)
