"""Unchanged library: the generated parser cannot be built for some schemas whose paths do not
collide with each other: (a) a top-level boolean `cache` next to a top-level scalar `no_cache` (the off switch
--no-cache is taken), (b) a scalar field called `help` (argparse's own --help is taken)."""
import os
import sys
import tempfile

os.environ["HOME"] = tempfile.mkdtemp(prefix="c16-pre3-home-")
sys.path.insert(0, os.getcwd())

from cincoconfig import BoolField, Schema, StringField, generate_argparse_parser  # noqa: E402

problems = []

first = Schema()
first.cache = BoolField(default=True)
first.no_cache = StringField(default="private")

second = Schema()
second.ui.help = StringField(default="short")
second.help = StringField(default="see manual")

for label, schema in (("bool 'cache' + str 'no_cache'", first),
                      ("str field 'help'", second)):
    try:
        generate_argparse_parser(schema, prog="demo")
    except Exception as exc:  # noqa: BLE001
        problems.append("%s: generate_argparse_parser raised %s: %s"
                        % (label, type(exc).__name__, exc))

if problems:
    print("C16 violated on the unchanged tree:")
    for line in problems:
        print("  -", line)
    sys.exit(1)
print("ok")
sys.exit(0)
