"""C20, unchanged library: generate_stub raises TypeError for an instance method with a parameter
annotated by a typing object that is neither a class nor a generic alias: a TypeVar, a NewType, a
special form such as typing.LiteralString / typing.Self. get_annotation_typestr only accepts
fields, classes, strings, None and objects with __origin__/__args__; everything else ends in
'Unknown storage_type'. For the return annotation the error is swallowed (the '-> ...' is
dropped); for a parameter it escapes and no stub is produced at all."""
import os
import sys
import tempfile

os.environ["HOME"] = tempfile.mkdtemp(prefix="c20-home-")
sys.path.insert(0, os.getcwd())

import ast  # noqa: E402
import typing  # noqa: E402

from cincoconfig import IntField, Schema, instance_method  # noqa: E402
from cincoconfig.stubs import generate_stub  # noqa: E402

T = typing.TypeVar("T")
UserId = typing.NewType("UserId", int)


def main() -> int:
    cases = {}

    def case_typevar(cfg, value: T) -> T:
        return value

    def case_newtype(cfg, uid: UserId) -> None:
        return None

    def case_special(cfg, text: typing.LiteralString) -> None:
        return None

    cases = {"typevar": case_typevar, "newtype": case_newtype, "special": case_special}
    bad = []
    for name, func in cases.items():
        schema = Schema()
        schema.x = IntField(default=0)
        instance_method(schema, name)(func)
        assert callable(getattr(schema(), name))
        try:
            stub = generate_stub(schema, "Thing")
            ast.parse(stub)
        except Exception as exc:  # pylint: disable=broad-except
            bad.append("%s: %s: %s" % (name, type(exc).__name__, exc))
    if bad:
        print("FAIL (unchanged library): generate_stub cannot render these methods")
        for line in bad:
            print("  " + line)
        return 1
    print("OK")
    return 0


if __name__ == "__main__":
    sys.exit(main())
