"""
Pre-existing (unchanged tree): a typed ListField / DictField that holds None (accepted by a
non-required field) is written as null and read back as an EMPTY list / dict:
to_python(to_basic(None)) == [] / {} instead of None. An untyped ListField keeps None.
"""
import os
import sys
import tempfile

os.environ["HOME"] = tempfile.mkdtemp(prefix="c05-pre-home-")
sys.path.insert(0, os.getcwd())

from cincoconfig import DictField, IntField, ListField, Schema, StringField  # noqa: E402

schema = Schema()
schema.numbers = ListField(IntField())
schema.table = DictField(key_field=StringField(), value_field=IntField())
cfg = schema()
bad = []
for key in ("numbers", "table"):
    field = schema._get_field(key)
    accepted = field.validate(cfg, None)
    back = field.to_python(cfg, field.to_basic(cfg, accepted))
    if back != accepted or (accepted is None) != (back is None):
        bad.append("%s: accepted %r -> on-disk %r -> %r" % (key, accepted, field.to_basic(cfg, accepted), back))

other = schema()
other.loads(cfg.dumps(format="json"), format="json")
for key in ("numbers", "table"):
    if cfg[key] is None and other[key] is not None:
        bad.append("document: %s was %r, loaded as %r" % (key, cfg[key], other[key]))

if bad:
    print("C05 pre-existing: None held by a typed list/dict field does not survive its on-disk form")
    for line in bad:
        print("  -", line)
    sys.exit(1)
print("ok")
