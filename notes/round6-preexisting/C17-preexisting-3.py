# UNCHANGED tree: update() / |= with a mapping that is not a dict subclass (anything with
# keys(), e.g. types.MappingProxyType, collections.UserDict, ChainMap) is iterated as a sequence
# of pairs: the KEYS are unpacked as (key, value) pairs.  A two-character key is silently stored
# as a wrong entry, other keys raise.
import os
import sys
import tempfile
from collections import UserDict
from types import MappingProxyType

os.environ["HOME"] = tempfile.mkdtemp(prefix="c17-home-")
sys.path.insert(0, os.getcwd())

from cincoconfig import Schema, DictField, StringField  # noqa: E402

schema = Schema()
schema.d = DictField(StringField(), StringField())
cfg = schema()

failures = []
for label, source in (
    ("MappingProxyType({'ab': 'x'})", MappingProxyType({"ab": "x"})),
    ("UserDict({'ab': 'x'})", UserDict({"ab": "x"})),
    ("MappingProxyType({'name': 'x'})", MappingProxyType({"name": "x"})),
):
    cfg.d = {"k": "v"}
    typed = cfg.d
    model = {"k": "v"}
    model.update(source)
    try:
        typed.update(source)
        got = "contents %r" % dict(typed)
        same = dict(typed) == model
    except Exception as exc:
        got = "raised %s: %s" % (type(exc).__name__, exc)
        same = False
    if not same:
        failures.append("update(%s): typed dict %s; built-in dict gives %r" % (label, got, model))

if failures:
    print("C17 violated on the unchanged tree: update() with a non-dict mapping")
    for line in failures:
        print("  " + line)
    sys.exit(1)
print("ok")
