"""
Pre-existing (unchanged tree), minor: an untyped ListField accepts a tuple and stores it as is
(ListField._validate returns the value unchanged when there is no item field); every format gives
it back as a list, so the re-loaded value is not equal to the saved one ((1, 2) != [1, 2]).
"""
import os
import sys
import tempfile

os.environ["HOME"] = tempfile.mkdtemp(prefix="c02-home-")
sys.path.insert(0, os.getcwd())

from cincoconfig import Schema, ListField, asdict  # noqa: E402


def main() -> int:
    schema = Schema()
    schema.ports = ListField()

    bad = []
    for fmt in ["json", "yaml", "bson", "xml", "pickle"]:
        cfg = schema()
        cfg.ports = (80, 443)
        cfg.validate()
        expected = asdict(cfg)
        fresh = schema()
        fresh.loads(cfg.dumps(fmt), fmt)
        if asdict(fresh) != expected:
            bad.append("%s: %r came back as %r" % (fmt, expected, asdict(fresh)))

    if bad:
        print("C02 violated on the unchanged library:")
        for line in bad:
            print(" -", line)
        return 1
    print("ok")
    return 0


if __name__ == "__main__":
    sys.exit(main())
