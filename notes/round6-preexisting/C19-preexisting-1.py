"""UNCHANGED library: XML save of a string holding a carriage return loads back with the CR turned into LF
(ElementTree writes the CR raw, every XML parser normalises CR / CRLF to LF on reading)."""
import os, sys, tempfile
os.environ["HOME"] = tempfile.mkdtemp(prefix="c19-home-")
sys.path.insert(0, os.getcwd())
from cincoconfig import Schema, StringField, SecureField, FeatureFlagField
work = tempfile.mkdtemp(prefix="c19-work-")

def make():
    s = Schema(); s.text = StringField(); return s()
bad = []
for value in ('a\r\nb', 'a\rb'):
    cfg = make(); cfg.text = value
    dest = os.path.join(work, 'c.xml'); cfg.save(dest, format='xml')
    back = make(); back.load(dest, format='xml')
    if back.text != cfg.text:
        bad.append('xml: saved %r, loaded %r' % (cfg.text, back.text))
if bad:
    print('PROPERTY BROKEN on unchanged tree:'); [print('  - ' + b) for b in bad]; sys.exit(1)
print('OK'); sys.exit(0)
