"""
Pre-existing (unchanged tree), HostnameField:
 (a) HOSTNAME_REGEX / NETBIOS_REGEX end in "$" and are used with match(): a value with a trailing
     newline ("host\\n", even "1.2.3.4\\n" with allow_ipv4=False) is accepted and returned with it;
 (b) with resolve=True and allow_ipv4=False the accepted result is an IPv4 address, which the
     same field rejects: validation is not idempotent ("localhost" resolves without a network).
"""
import os
import sys
import tempfile

os.environ["HOME"] = tempfile.mkdtemp(prefix="c05-pre-home-")
sys.path.insert(0, os.getcwd())

from cincoconfig import HostnameField, Schema  # noqa: E402

schema = Schema()
schema.host = HostnameField()
schema.name_only = HostnameField(allow_ipv4=False)
schema.resolved = HostnameField(allow_ipv4=False, resolve=True)
cfg = schema()
bad = []

for key, value in (("host", "host\n"), ("host", "example.com\n"), ("name_only", "1.2.3.4\n")):
    field = schema._get_field(key)
    try:
        got = field.validate(cfg, value)
    except ValueError:
        continue
    bad.append("%s accepts %r (returns %r): not a hostname" % (key, value, got))

field = schema._get_field("resolved")
try:
    first = field.validate(cfg, "localhost")
except ValueError as exc:
    print("note: localhost did not resolve here (%s), part (b) skipped" % exc)
else:
    try:
        second = field.validate(cfg, first)
        if second != first:
            bad.append("resolved: %r -> %r on re-validation" % (first, second))
    except ValueError as exc:
        bad.append(
            "HostnameField(allow_ipv4=False, resolve=True): 'localhost' accepted as %r, "
            "re-validating that result is rejected: %s" % (first, exc)
        )

if bad:
    print("C05 pre-existing: HostnameField is not exact / not idempotent")
    for line in bad:
        print("  -", line)
    sys.exit(1)
print("ok")
