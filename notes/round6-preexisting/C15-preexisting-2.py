"""Unchanged library: Config._set_value re-links an assigned configuration object (_parent, _key)
but leaves _container alone.  A config-type object that was (or still is) an item of a list keeps
asking that list for a position, so a rejection below the sub-configuration field gets an item
index that does not exist: 'a.b.primary[1].x'."""
import os
import sys
import tempfile

os.environ["HOME"] = tempfile.mkdtemp(prefix="c15-home-")
sys.path.insert(0, os.getcwd())

from cincoconfig import Schema, IntField, ListField, make_type  # noqa: E402
from cincoconfig.core import ValidationError  # noqa: E402

node = Schema()
node.x = IntField(required=True)
Node = make_type(node, "Node")

schema = Schema()
schema.a.b.primary = Node
schema.a.b.others = ListField(Node)
cfg = schema()
cfg.a.b.others = [Node(x=1), Node(x=2)]

promoted = cfg.a.b.others.pop(0)  # taken out of the list ...
cfg.a.b.primary = promoted        # ... and made the primary node
try:
    cfg.a.b.primary.x = "bad"
except ValidationError as err:
    if err.ref_path != "a.b.primary.x":
        print("C15 violated on the unchanged tree: rejected a.b.primary.x is reported as %r (%s)"
              % (err.ref_path, err))
        sys.exit(1)
print("ok")
