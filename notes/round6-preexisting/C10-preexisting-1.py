"""C10, unchanged library: a ListField of configurations that is itself marked sensitive.

Field(sensitive=True) is accepted by every field type, ListField(item_schema, sensitive=True)
included.  Config.to_tree tests 'the value is a list of configurations' BEFORE it tests
field.sensitive, so the value of this sensitive field is never replaced by the mask: the items
are rendered one by one and all their non-sensitive fields appear in clear.  (A sensitive
ListField of plain values, or a sensitive DictField of lists of configurations, IS replaced by
the mask - shown as control.)
"""
import os
import sys
import tempfile

os.environ["HOME"] = tempfile.mkdtemp(prefix="c10-pre1-")
sys.path.insert(0, os.getcwd())

from cincoconfig import DictField, ListField, Schema, StringField  # noqa: E402

item = Schema()
item.account = StringField()

schema = Schema()
schema.accounts = ListField(item, sensitive=True)  # the whole list is declared sensitive
schema.names = ListField(StringField(), sensitive=True)  # control
schema.grouped = DictField(StringField(), ListField(item), sensitive=True)  # control

cfg = schema()
cfg.accounts = [{"account": "ACCOUNT-4711"}]
cfg.names = ["NAME-0815"]
cfg.grouped = {"g": [{"account": "ACCOUNT-grouped"}]}

problems = []
for mask in ("*", "", "<masked>"):
    tree = cfg.to_tree(sensitive_mask=mask)
    doc = cfg.dumps("json", sensitive_mask=mask).decode()
    for where, text in (("to_tree", repr(tree)), ("dumps('json')", doc)):
        for secret in ("NAME-0815", "ACCOUNT-grouped"):
            if secret in text:
                problems.append("control: %s with mask %r shows %r" % (where, mask, secret))
        if "ACCOUNT-4711" in text:
            problems.append(
                "%s(sensitive_mask=%r): the value of the sensitive field 'accounts' is rendered "
                "in clear: %r" % (where, mask, tree["accounts"])
            )

if problems:
    print("C10 VIOLATED on the unchanged tree: a sensitive ListField of configurations is not masked")
    for line in problems:
        print("  -", line)
    sys.exit(1)
print("ok")
sys.exit(0)
