"""Unchanged library: enumerating a NESTED schema (or sub-configuration) reports paths that carry
the nested schema's own key but not its ancestors', so they are neither relative to the schema that
was enumerated nor the fields' reference paths."""
import os
import sys
import tempfile

os.environ["HOME"] = tempfile.mkdtemp(prefix="c16-pre1-home-")
sys.path.insert(0, os.getcwd())

from cincoconfig import IntField, Schema, get_all_fields, item_ref_path  # noqa: E402

schema = Schema()
schema.net.tls.port = IntField(default=443)
schema.net.tls.cert.depth = IntField(default=3)
config = schema()

problems = []
nested = schema._fields["net"]._fields["tls"]
sub_config = config.net.tls
for what, target in (("schema.net.tls", nested), ("config.net.tls", sub_config)):
    for path, owner, field in get_all_fields(target):
        ref = item_ref_path(field)
        if path != ref:
            problems.append("get_all_fields(%s) reports %r, the field's reference path is %r"
                            % (what, path, ref))
        # relative reading: the path should resolve on the object that was enumerated
        first = path.split(".")[0]
        if first not in nested._fields:
            problems.append("get_all_fields(%s) reports %r, which does not start with a field of "
                            "that schema either (its fields: %r)" % (what, path, list(nested._fields)))

if problems:
    print("C16 violated on the unchanged tree:")
    for line in problems:
        print("  -", line)
    sys.exit(1)
print("ok")
sys.exit(0)
