"""UNCHANGED library: an empty secret (valid for a SecureField that is not required) is written as null and
loads back as None, not as the empty string."""
import os, sys, tempfile
os.environ["HOME"] = tempfile.mkdtemp(prefix="c19-home-")
sys.path.insert(0, os.getcwd())
from cincoconfig import Schema, StringField, SecureField, FeatureFlagField
work = tempfile.mkdtemp(prefix="c19-work-")

def make():
    s = Schema(); s.token = SecureField(method='xor'); return s()
cfg = make(); cfg.token = ''
dest = os.path.join(work, 'c.json'); cfg.save(dest, format='json')
back = make(); back.load(dest, format='json')
if back.token != cfg.token:
    print('PROPERTY BROKEN on unchanged tree: saved token %r, loaded %r' % (cfg.token, back.token)); sys.exit(1)
print('OK'); sys.exit(0)
