"""UNCHANGED tree: SecureField.to_python decodes the stored base64 text with the non-validating
base64.b64decode, which silently discards every character outside the base64 alphabet. Stored
secrets whose 'ciphertext' is not base64 at all ('!!!!', '????') or is base64 with garbage
appended / embedded are decoded and decrypted to a value instead of being rejected as a stored
secret of the wrong encoding."""
import base64
import os
import sys
import tempfile

os.environ["HOME"] = tempfile.mkdtemp(prefix="c08-home-")
sys.path.insert(0, os.getcwd())

from cincoconfig import Config, Schema, SecureField  # noqa: E402
from cincoconfig.encryption import KeyFile  # noqa: E402

keypath = os.path.join(os.environ["HOME"], "demo.cincokey")
with open(keypath, "wb") as fp:
    fp.write(bytes(range(50, 82)))

schema = Schema()
schema.secret = SecureField()

problems = []


def check(label, method, b64):
    cfg = Config(schema, key_filename=keypath)
    try:
        cfg.load_tree({"secret": {"method": method, "ciphertext": b64}})
    except Exception:
        return
    problems.append("%s: ciphertext text %r accepted, value %r" % (label, b64, cfg.secret))


for method in ("xor", "aes"):
    with KeyFile(keypath) as ctx:
        good = base64.b64encode(ctx.encrypt("hello world!", method=method).ciphertext).decode()
    check(method + ", garbage appended", method, good + "!!??")
    check(method + ", garbage embedded", method, good[:5] + "\x00*#~" + good[5:])
    check(method + ", punctuation prefix", method, "$$$$" + good)
check("xor, not base64 at all", "xor", "!!!!")

if problems:
    print("C08 (unchanged tree): stored secrets with invalid base64 are decoded and decrypted")
    for line in problems:
        print(" -", line)
    sys.exit(1)
print("ok: invalid base64 is rejected")
