"""C18, unchanged library: an include field declared in a sub-configuration that is a config type
(make_type) instead of a plain nested schema is never processed: _process_includes only walks
fields that are Schema instances, a ConfigTypeField is skipped, and the included file's values are
silently dropped (the include key is loaded as an ordinary file name)."""
import copy
import json
import os
import sys
import tempfile

os.environ["HOME"] = tempfile.mkdtemp(prefix="c18home")
sys.path.insert(0, os.getcwd())

from cincoconfig import IncludeField, IntField, Schema, StringField, make_type  # noqa: E402

startdir = tempfile.mkdtemp(prefix="c18inc")
with open(os.path.join(startdir, "db.json"), "w") as fp:
    json.dump({"port": 99}, fp)


def build(as_type):
    inner = Schema()
    inner.include = IncludeField(startdir=startdir)
    inner.host = StringField(default="localhost")
    inner.port = IntField(default=1)
    root = Schema()
    root.name = StringField(default="n")
    if as_type:
        root.db = make_type(inner, "Db")
    else:
        root.db = inner
    return root


doc = {"name": "x", "db": {"include": "db.json", "host": "h"}}
merged = {"name": "x", "db": {"include": os.path.join(startdir, "db.json"), "host": "h", "port": 99}}

failures = []
for as_type in (False, True):
    cfg = build(as_type)()
    cfg.loads(json.dumps(doc), format="json")
    got = cfg.to_tree()
    if got != merged:
        failures.append(
            "sub-configuration is a %s:\n   got      %r\n   expected %r"
            % ("config type (make_type)" if as_type else "plain schema", got, merged)
        )

if failures:
    print("C18 violated by the unchanged library:")
    for item in failures:
        print(" -", item)
    sys.exit(1)
print("ok")
