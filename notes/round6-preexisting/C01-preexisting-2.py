"""Unchanged library: NaN passes both bound tests of a FloatField (`nan < min` and `nan > max` are
both False), so a field declared with min/max can hold a value that is not within its bounds."""
import math
import os
import sys
import tempfile

os.environ["HOME"] = tempfile.mkdtemp(prefix="c01-home-")
sys.path.insert(0, os.getcwd())

from cincoconfig import Schema, FloatField, ListField  # noqa: E402

schema = Schema()
schema.ratio = FloatField(min=0, max=1, default=0.5)
schema.weights = ListField(FloatField(min=0, max=1))
cfg = schema()

problems = []
for value in ("nan", float("nan"), "-NaN"):
    try:
        cfg.ratio = value
    except ValueError:
        continue
    got = cfg.ratio
    if not (0 <= got <= 1):
        problems.append("ratio = %r accepted by FloatField(min=0, max=1); reads back %r" % (value, got))
    cfg.ratio = 0.5
try:
    cfg.load_tree({"weights": [0.25, "nan"]})
except ValueError:
    pass
else:
    if any(math.isnan(w) for w in cfg.weights):
        problems.append("weights loaded as %r: an item outside [0, 1]" % (list(cfg.weights),))

if problems:
    print("C01 violated on the unchanged library:")
    for p in problems:
        print("  -", p)
    sys.exit(1)
print("ok")
sys.exit(0)
