"""UNCHANGED library: a configuration that validates (its feature flag is off, so the section is not
validated) saves successfully, but the file cannot be loaded: load_tree assigns the null of the
required field of the disabled section through the field's validation and is refused."""
import os, sys, tempfile
os.environ["HOME"] = tempfile.mkdtemp(prefix="c19-home-")
sys.path.insert(0, os.getcwd())
from cincoconfig import Schema, StringField, SecureField, FeatureFlagField
work = tempfile.mkdtemp(prefix="c19-work-")

def make():
    s = Schema()
    s.mail.enabled = FeatureFlagField(default=False)
    s.mail.host = StringField(required=True)
    return s()
cfg = make()
assert cfg.validate() == []          # a valid configuration
dest = os.path.join(work, 'c.json'); cfg.save(dest, format='json')
back = make()
try:
    back.load(dest, format='json')
except Exception as err:
    print('PROPERTY BROKEN on unchanged tree: valid configuration saved fine, load fails: %s' % err); sys.exit(1)
print('OK'); sys.exit(0)
