"""Unchanged library: configurations held in a list that is itself an item of a list, or a value
of a typed dict, take their key from the inner (key-less) ListField: the error path loses the
field key and the outer index / dict key: 'a.[1].x' instead of 'a.grid[1][1].x' / 'a.byname[k][1].x'."""
import os
import sys
import tempfile

os.environ["HOME"] = tempfile.mkdtemp(prefix="c15-home-")
sys.path.insert(0, os.getcwd())

from cincoconfig import Schema, IntField, StringField, ListField, DictField  # noqa: E402
from cincoconfig.core import ValidationError  # noqa: E402

item = Schema()
item.x = IntField(required=True)
schema = Schema()
schema.a.grid = ListField(ListField(item))
schema.a.byname = DictField(StringField(), ListField(item))
cfg = schema()

bad = []
for label, tree, must_contain in (
    ("list of lists", {"a": {"grid": [[{"x": 1}], [{"x": 1}, {"x": "bad"}]]}}, "a.grid"),
    ("dict of lists", {"a": {"byname": {"k": [{"x": 1}, {"x": "bad"}]}}}, "a.byname"),
):
    try:
        cfg.load_tree(tree)
    except ValidationError as err:
        if must_contain not in err.ref_path:
            bad.append("%s: reported as %r (%s)" % (label, err.ref_path, err))

if bad:
    print("C15 violated on the unchanged tree: the path does not name the field of a nested list")
    for line in bad:
        print("  " + line)
    sys.exit(1)
print("ok")
