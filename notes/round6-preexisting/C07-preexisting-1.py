"""
C07, unchanged library: "a key file that exists and holds exactly 32 bytes is used verbatim and
never modified".  KeyFile.__load_key treats EVERY OSError from open(..., "rb") as "the key file is
missing" and generates a new key over it.  A valid 32 byte key file that the process may write but
not read (mode 0200 -- e.g. after a botched chmod) is therefore silently replaced by a new random
key, and every value encrypted with the old key is lost.

File permissions do not bind root, so when started as root the scenario runs in a forked child
that drops to an unprivileged uid.
"""
import os
import sys
import tempfile

os.environ["HOME"] = tempfile.mkdtemp(prefix="c07-home-")
sys.path.insert(0, os.getcwd())

from cincoconfig.encryption import KeyFile, EncryptionError  # noqa: E402

KEY = bytes(range(50, 82))
workdir = tempfile.mkdtemp(prefix="c07-pre1-")
os.chmod(workdir, 0o777)
os.chmod(os.environ["HOME"], 0o777)
path = os.path.join(workdir, "cinco.key")
with open(path, "wb") as fp:
    fp.write(KEY)

UNPRIV = 65534
if os.getuid() == 0:
    os.chown(path, UNPRIV, UNPRIV)
os.chmod(path, 0o200)  # owner may write, nobody may read


def scenario() -> int:
    try:
        open(path, "rb").close()
    except PermissionError:
        pass
    else:
        print("skip: could not make the key file unreadable for this process")
        return 0
    kf = KeyFile(path)
    outcome = None
    used = None
    try:
        with kf as ctx:
            used = ctx.encrypt(b"\x00" * 32, method="xor").ciphertext
            outcome = "opened"
    except (EncryptionError, OSError) as err:
        outcome = "refused with %s" % type(err).__name__
    os.chmod(path, 0o600)
    with open(path, "rb") as fp:
        now = fp.read()
    if now != KEY:
        print("C07 VIOLATED on the unchanged tree: a valid 32 byte key file was modified")
        print(" - key file (mode 0200: writable, not readable) held   %s" % KEY.hex())
        print(" - opening the key context: %s" % outcome)
        print(" - key file now holds                                  %s" % now.hex())
        if used is not None:
            print(" - key used in that session                            %s" % used.hex())
        return 1
    print("ok: the unreadable key file was left alone (%s)" % outcome)
    return 0


if os.getuid() == 0:
    pid = os.fork()
    if pid == 0:
        status = 2
        try:
            os.setgroups([])
            os.setgid(UNPRIV)
            os.setuid(UNPRIV)
            status = scenario()
        finally:
            sys.stdout.flush()
            os._exit(status)
    _, st = os.waitpid(pid, 0)
    sys.exit(os.waitstatus_to_exitcode(st))
sys.exit(scenario())
