"""
Pre-existing (unchanged tree): a non-required SecureField accepts the empty string, writes it as
null and reads None back ("" != None), alone and as a list item. (The source has a comment that
acknowledges the null encoding for the required case only.)
"""
import os
import sys
import tempfile

os.environ["HOME"] = tempfile.mkdtemp(prefix="c05-pre-home-")
sys.path.insert(0, os.getcwd())

from cincoconfig import ListField, Schema, SecureField  # noqa: E402

schema = Schema()
schema.secret = SecureField(method="xor")
schema.secrets = ListField(SecureField(method="xor"))
cfg = schema()
bad = []
for key, value in (("secret", ""), ("secrets", ["a", "", "b"])):
    field = schema._get_field(key)
    accepted = field.validate(cfg, value)
    back = field.to_python(cfg, field.to_basic(cfg, accepted))
    if back != accepted:
        bad.append("%s: accepted %r read back as %r" % (key, accepted, back))

if bad:
    print("C05 pre-existing: an empty secret does not survive its on-disk form")
    for line in bad:
        print("  -", line)
    sys.exit(1)
print("ok")
