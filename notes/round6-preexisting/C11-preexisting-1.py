"""C11, unchanged library: validators that are registered but never run.

(a) validator(field) on a Field REPLACES the validator the field already has (the one given to the
    constructor, or an earlier use of the decorator) although the documentation of validator()
    says "Multiple validators can be registered by using the decorator multiple times".  The
    earlier validator is silently dropped, so a load returns although a registered validator
    would reject the data.
(b) validator(...) applied to a config-type sub-configuration (schema.sub = SomeType, which makes
    schema.sub a ConfigTypeField) registers nothing at all and says nothing.
"""
import os
import sys
import tempfile

os.environ["HOME"] = tempfile.mkdtemp(prefix="c11-pre1-")
sys.path.insert(0, os.getcwd())

from cincoconfig import (  # noqa: E402
    Schema, IntField, StringField, ValidationError, make_type, validator,
)

problems = []
calls = []


# ---- (a) two validators on one field ------------------------------------------------------
def must_be_even(cfg, value):
    calls.append("even")
    if value % 2:
        raise ValueError("must be even")
    return value


schema = Schema()
schema.net.port = IntField(validator=must_be_even)


@validator(schema.net.port)
def must_be_high(cfg, value):
    calls.append("high")
    if value < 1024:
        raise ValueError("must be >= 1024")
    return value


cfg = schema()
try:
    cfg.load_tree({"net": {"port": 2049}})     # odd: must_be_even rejects it
except ValidationError:
    pass
else:
    problems.append("(a) load_tree returned with net.port=2049 although the registered validator "
                    "must_be_even rejects it; validators run: %r" % (sorted(set(calls)),))

# ---- (b) validator on a config-type sub-configuration ---------------------------------------
cred_schema = Schema()
cred_schema.user = StringField()
cred_schema.password = StringField()
Credentials = make_type(cred_schema, "Credentials")

outer = Schema()
outer.db.credentials = Credentials
seen = []


@validator(outer.db.credentials)
def password_needed(cfg):
    seen.append(cfg)
    if cfg.user and not cfg.password:
        raise ValueError("password is required when user is given")


cfg = outer()
try:
    cfg.load_tree({"db": {"credentials": {"user": "root"}}})
except ValidationError:
    pass
else:
    problems.append("(b) load_tree returned although the validator registered on the config-type "
                    "sub-configuration db.credentials rejects the data; it was called %d times"
                    % len(seen))

if problems:
    print("C11 VIOLATED on the unchanged tree:")
    for p in problems:
        print("  -", p)
    sys.exit(1)
print("ok")
sys.exit(0)
