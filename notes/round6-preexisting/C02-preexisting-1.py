"""
Pre-existing (unchanged tree): a sub-configuration whose feature flag is off passes validation
although a required field in it is unset; its saved document (token: null) cannot be loaded back,
because load_tree -> _set_value -> Field.validate rejects null for a required field without
consulting the feature flag.
"""
import os
import sys
import tempfile

os.environ["HOME"] = tempfile.mkdtemp(prefix="c02-home-")
sys.path.insert(0, os.getcwd())

from cincoconfig import Schema, FeatureFlagField, StringField, asdict  # noqa: E402


def main() -> int:
    schema = Schema()
    schema.name = StringField(default="app")
    schema.feat.enabled = FeatureFlagField(default=False)
    schema.feat.token = StringField(required=True)

    bad = []
    for fmt in ["json", "yaml", "bson", "xml", "pickle"]:
        cfg = schema()
        cfg.validate()  # passes: the feature is disabled
        assert cfg.validate(collect_errors=True) == []
        expected = asdict(cfg)
        content = cfg.dumps(fmt)
        fresh = schema()
        try:
            fresh.loads(content, fmt)
        except Exception as exc:  # noqa: BLE001
            bad.append("%s: valid state %r does not re-load: %s: %s" % (fmt, expected, type(exc).__name__, exc))
            continue
        if asdict(fresh) != expected:
            bad.append("%s: %r came back as %r" % (fmt, expected, asdict(fresh)))

    if bad:
        print("C02 violated on the unchanged library:")
        for line in bad:
            print(" -", line)
        return 1
    print("ok")
    return 0


if __name__ == "__main__":
    sys.exit(main())
