"""C20, unchanged library: an instance method whose configuration parameter is taken through
*args loses parameters in the stub. get_method_annotation overwrites items[0] with 'self'
unconditionally; when the function has no named first parameter, items[0] is the '*args' entry
(or, with keyword-only parameters, the '*args' that separates them), so
  def m(*args, **kwargs)   -> 'def m(self, **kwargs)'        (*args lost)
  def m(*args, flag=False) -> 'def m(self, flag: typing.Any)' (keyword-only became positional)
Both functions are legal instance methods: the library calls method(cfg, *args, **kwargs)."""
import os
import sys
import tempfile

os.environ["HOME"] = tempfile.mkdtemp(prefix="c20-home-")
sys.path.insert(0, os.getcwd())

import ast  # noqa: E402

from cincoconfig import IntField, Schema, instance_method  # noqa: E402
from cincoconfig.stubs import generate_stub  # noqa: E402


def shape(fargs: ast.arguments):
    return (
        [a.arg for a in fargs.args][1:],
        fargs.vararg.arg if fargs.vararg else None,
        [a.arg for a in fargs.kwonlyargs],
        fargs.kwarg.arg if fargs.kwarg else None,
    )


def main() -> int:
    schema = Schema()
    schema.x = IntField(default=0)

    @instance_method(schema, "forward")
    def forward(*args, **kwargs):
        return (len(args), sorted(kwargs))

    @instance_method(schema, "collect")
    def collect(*args, flag=False):
        return (len(args), flag)

    config = schema()
    assert config.forward(1, 2, a=3) == (3, ["a"])  # cfg + 2 positional
    assert config.collect(1, flag=True) == (2, True)

    stub = generate_stub(schema, "Thing")
    cls = ast.parse(stub).body[0]
    funcs = {n.name: n for n in cls.body if isinstance(n, ast.FunctionDef)}
    want = {
        "forward": ([], "args", [], "kwargs"),
        "collect": ([], "args", ["flag"], None),
    }
    bad = []
    for name, expected in want.items():
        got = shape(funcs[name].args)
        if got != expected:
            bad.append(
                "%s: stub (positional, *, keyword-only, **) = %r, bound function = %r"
                % (name, got, expected)
            )
    if bad:
        print("FAIL (unchanged library):")
        for line in bad:
            print("  " + line)
        print(stub)
        return 1
    print("OK")
    return 0


if __name__ == "__main__":
    sys.exit(main())
