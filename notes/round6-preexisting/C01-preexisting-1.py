"""Unchanged library: HostnameField accepts a value with a trailing newline ('$' in its patterns
matches before a final '\\n'), even an IPv4 address when allow_ipv4=False."""
import os
import sys
import tempfile

os.environ["HOME"] = tempfile.mkdtemp(prefix="c01-home-")
sys.path.insert(0, os.getcwd())

from cincoconfig import Schema, HostnameField, ListField  # noqa: E402

schema = Schema()
schema.host = HostnameField()
schema.name_only = HostnameField(allow_ipv4=False)
schema.peers = ListField(HostnameField())
cfg = schema()

problems = []
for key, value in (("host", "example.com\n"), ("host", "a\n"), ("name_only", "192.168.1.1\n")):
    try:
        cfg[key] = value
    except ValueError:
        continue
    problems.append("%s = %r accepted, reads back %r (newline inside a host name%s)" % (
        key, value, cfg[key], "; an IPv4 address although allow_ipv4=False" if key == "name_only" else ""))
try:
    cfg.peers = ["ok.example.com"]
    cfg.peers.append("evil.example.com\n")
except ValueError:
    pass
else:
    problems.append("peers.append('evil.example.com\\n') accepted: %r" % (list(cfg.peers),))

if problems:
    print("C01 violated on the unchanged library:")
    for p in problems:
        print("  -", p)
    sys.exit(1)
print("ok")
sys.exit(0)
