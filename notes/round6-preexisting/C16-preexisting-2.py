"""Unchanged library: a field whose identifier key is also the name of a Config method (validate,
save, load, dumps, ...) reads differently by attribute and by dotted path: the attribute is the
method, the path is the value."""
import os
import sys
import tempfile

os.environ["HOME"] = tempfile.mkdtemp(prefix="c16-pre2-home-")
sys.path.insert(0, os.getcwd())

from cincoconfig import BoolField, Schema, StringField, get_all_fields  # noqa: E402

schema = Schema()
schema.tls.validate = BoolField(default=True)
schema.tls.load = StringField(default="eager")
schema.save = BoolField(default=False)
config = schema()
config["tls.validate"] = False

problems = []
for path, owner, field in get_all_fields(schema):
    chained = config
    for part in path.split("."):
        chained = getattr(chained, part)
    looked_up = config[path]
    if looked_up is not chained and looked_up != chained:
        problems.append("config[%r] = %r but chained attribute access gives %r"
                        % (path, looked_up, chained))

if problems:
    print("C16 violated on the unchanged tree:")
    for line in problems:
        print("  -", line)
    sys.exit(1)
print("ok")
sys.exit(0)
