"""
Pre-existing (unchanged tree): ChallengeField accepts a DigestValue made with ANOTHER hash
algorithm than the one the field declares. The on-disk form does not record the algorithm, so
reading it back yields an unequal value (algorithm replaced by the field's) that can never be
challenged successfully.
"""
import os
import sys
import tempfile

os.environ["HOME"] = tempfile.mkdtemp(prefix="c05-pre-home-")
sys.path.insert(0, os.getcwd())

import hashlib  # noqa: E402

from cincoconfig import ChallengeField, Schema  # noqa: E402
from cincoconfig.fields import DigestValue  # noqa: E402

schema = Schema()
schema.password = ChallengeField("sha256")
cfg = schema()
field = schema._get_field("password")
foreign = DigestValue.create("hunter2", hashlib.md5)
try:
    accepted = field.validate(cfg, foreign)
except ValueError:
    print("ok: a digest of another algorithm is rejected")
    sys.exit(0)

back = field.to_python(cfg, field.to_basic(cfg, accepted))
problems = []
if back != accepted:
    problems.append(
        "accepted md5 digest -> on-disk -> %s digest: values are not equal"
        % back.algorithm.__name__
    )
try:
    accepted.challenge("hunter2")
    back.challenge("hunter2")
except ValueError:
    problems.append("the accepted value answers the challenge 'hunter2', the re-read value does not")

if problems:
    print("C05 pre-existing: ChallengeField('sha256') accepts a digest it cannot store faithfully")
    for line in problems:
        print("  -", line)
    sys.exit(1)
print("ok")
