"""Unchanged library: a configuration item rejected while it is inserted at, or assigned to, an
index of a ListProxy is reported with the index len(list) (ListProxy._get_item_position falls back
to the length for an item that is not in the list yet), not with the index it was given for."""
import os
import sys
import tempfile

os.environ["HOME"] = tempfile.mkdtemp(prefix="c15-home-")
sys.path.insert(0, os.getcwd())

from cincoconfig import Schema, IntField, ListField  # noqa: E402
from cincoconfig.core import ValidationError  # noqa: E402

item = Schema()
item.x = IntField(required=True)
schema = Schema()
schema.a.items = ListField(item)
cfg = schema()
cfg.a.items = [{"x": 1}, {"x": 2}, {"x": 3}]

bad = []
for label, func, path in (
    ("items.insert(0, bad)", lambda: cfg.a.items.insert(0, {"x": "bad"}), "a.items[0].x"),
    ("items[1] = bad", lambda: cfg.a.items.__setitem__(1, {"x": "bad"}), "a.items[1].x"),
    ("items[0:2] = [ok, bad]", lambda: cfg.a.items.__setitem__(slice(0, 2), [{"x": 5}, {"x": "bad"}]),
     "a.items[1].x"),
):
    try:
        func()
    except ValidationError as err:
        if err.ref_path != path:
            bad.append("%s: expected %r, reported as %r" % (label, path, err.ref_path))

if bad:
    print("C15 violated on the unchanged tree: wrong item index for an item rejected at a given index")
    for line in bad:
        print("  " + line)
    sys.exit(1)
print("ok")
