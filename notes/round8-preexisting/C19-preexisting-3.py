"""Pre-existing: a file saved from a configuration whose IncludeField is set does not load back equal
once a value that the included file also defines has been changed: the saved file holds the whole
configuration AND the include path, and on load the included file is merged over the saved values
again (IncludeField.combine_trees lets the included file win)."""
import os, sys, tempfile
os.environ["HOME"] = tempfile.mkdtemp(prefix="c19-home-")
sys.path.insert(0, os.getcwd())
from cincoconfig import *  # noqa: E402,F401,F403
workdir = tempfile.mkdtemp(prefix="c19-pre-")
problems = []

schema = Schema()
schema.include = IncludeField()
schema.port = IntField(default=1)
schema.db.host = StringField(default="localhost")
inc = os.path.join(workdir, "inc.json")
main = os.path.join(workdir, "main.json")
with open(inc, "w") as fp:
    fp.write('{"port": 5, "db": {"host": "db.example.com"}}')
with open(main, "w") as fp:
    fp.write('{"include": "%s"}' % inc)
cfg = schema()
cfg.load(main, "json")
assert cfg.port == 5
cfg.port = 7  # the application changes a value and saves
cfg.db.host = "other.example.com"
cfg.save(main, "json")
back = schema()
back.load(main, "json")
if asdict(back) != asdict(cfg):
    problems.append("saved %r, loaded %r" % (asdict(cfg), asdict(back)))

if problems:
    print("C19 violated on the unchanged tree: a successfully saved file does not load back equal")
    for line in problems:
        print("  -", line)
    sys.exit(1)
print("ok")
sys.exit(0)

