"""
C02 pre-existing 3 (unchanged library): YAML, map key of 103..122 characters outside the BMP.
The YAML writer runs with allow_unicode=False, so every such character becomes a
backslash-U escape (10 characters); the pure-Python emitter still writes the key as a "simple key" (it counts the
unescaped length < 128) and the result is longer than the 1024 characters a simple key may have.
The document the library wrote cannot be parsed again (ScannerError).
"""
import os, sys, tempfile
os.environ["HOME"] = tempfile.mkdtemp(prefix="c02-home-")
sys.path.insert(0, os.getcwd())

from cincoconfig import Schema, DictField, StringField, IntField, asdict

schema = Schema()
schema.labels = DictField(StringField(), IntField())
schema.free = DictField()

bad = []
for n in (100, 103, 110, 122, 123, 128):
    cfg = schema()
    key = "\U00020000" * n                       # CJK extension B ideographs
    cfg.labels = {key: 1}
    cfg.free = {key: "x"}
    cfg.validate()
    content = cfg.dumps(format="yaml")
    fresh = schema()
    try:
        fresh.loads(content, format="yaml")
        if asdict(fresh) != asdict(cfg):
            bad.append("key of %d astral characters: values differ" % n)
    except Exception as exc:
        bad.append("key of %d astral characters: load failed: %s: %s" % (n, type(exc).__name__, str(exc).splitlines()[0]))
if bad:
    print("C02 violated on the unchanged tree (YAML, long non-BMP map keys):")
    print("\n".join("  " + b for b in bad))
    sys.exit(1)
print("ok")
