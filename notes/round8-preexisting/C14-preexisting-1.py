"""
Unchanged library, C14: ListField / DictField override __setdefault__ without looking at the
environment variable they are bound to (explicitly, or through a schema prefix), yet
Config.load_tree skips every bound key whose variable is non-empty.  With the variable set the
field's value is neither the validated variable nor is construction refused (a plain string is not
a list / dict), and every later document is silently ignored for that field.
"""
import os
import sys
import tempfile

os.environ["HOME"] = tempfile.mkdtemp(prefix="c14-home-")
sys.path.insert(0, os.getcwd())

os.environ["APP_HOSTS"] = "a.example,b.example"
os.environ["APP_LABELS"] = "x=1"

from cincoconfig import Schema, ListField, DictField, StringField, ValidationError  # noqa: E402

schema = Schema(env="APP")
schema.hosts = ListField(StringField(), default=lambda: ["default.example"])
schema.labels = DictField(default=lambda: {"d": "1"})

problems = []
print("bound names:", schema.hosts.env, schema.labels.env)
try:
    cfg = schema()
except ValidationError as err:
    print("construction refused (fine):", err)
    sys.exit(0)

# the same text offered by assignment is rejected, so the variable is 'invalid'
for key, text in (("hosts", os.environ["APP_HOSTS"]), ("labels", os.environ["APP_LABELS"])):
    try:
        cfg[key] = text
    except ValidationError:
        problems.append(
            "%s: variable %r is invalid for the field, but construction succeeded with %r"
            % (key, text, cfg[key])
        )

cfg.load_tree({"hosts": ["doc.example"], "labels": {"doc": "2"}})
if list(cfg.hosts) != ["doc.example"]:
    problems.append(
        "hosts: document ignored because APP_HOSTS is set, although the variable was never "
        "applied: %r" % (list(cfg.hosts),)
    )
if dict(cfg.labels) != {"doc": "2"}:
    problems.append(
        "labels: document ignored because APP_LABELS is set, although the variable was never "
        "applied: %r" % (dict(cfg.labels),)
    )

if problems:
    print("C14 VIOLATED on the unchanged tree")
    for p in problems:
        print(" -", p)
    sys.exit(1)
print("ok")
