"""
Pre-existing (unchanged tree): a ListField that is itself marked sensitive and holds configurations is
rendered in clear under a mask.

Config.to_tree tests "is the value a non-empty list of configurations" BEFORE it tests "is the field
sensitive", so for ListField(<schema>, sensitive=True) the items are rendered with item.to_tree(mask):
only the items' own sensitive fields are masked, everything else of the sensitive field's value
appears.  Every other kind of sensitive container (list of scalars, list of lists of configurations,
dict) is replaced by the mask as a whole.
"""
import os
import sys
import tempfile

os.environ["HOME"] = tempfile.mkdtemp(prefix="c10-home-")
sys.path.insert(0, os.getcwd())

from cincoconfig import ListField, Schema, StringField  # noqa: E402

entry = Schema()
entry.holder = StringField()
entry.iban = StringField()

schema = Schema()
schema.accounts = ListField(entry, sensitive=True)             # the whole list is sensitive
schema.nested = ListField(ListField(entry), sensitive=True)    # same, one level deeper
schema.names = ListField(StringField(), sensitive=True)

cfg = schema()
cfg.accounts = [{"holder": "Alice Example", "iban": "DE02120300000000202051"}]
cfg.nested = [[{"holder": "Alice Example", "iban": "DE02120300000000202051"}]]
cfg.names = ["Alice Example"]

tree = cfg.to_tree(sensitive_mask="*")
doc = cfg.dumps("json", sensitive_mask="*").decode()
print("to_tree(sensitive_mask='*') =", tree)

problems = []
for key in ("accounts", "nested", "names"):
    if "DE02120300000000202051" in repr(tree[key]) or "Alice Example" in repr(tree[key]):
        problems.append("field %r is marked sensitive, yet its value is in the tree: %r" % (key, tree[key]))
if "DE02120300000000202051" in doc:
    problems.append("the JSON document written with the mask contains the IBAN of the sensitive field 'accounts'")

if problems:
    print("C10 VIOLATED on the unchanged tree")
    for line in problems:
        print(" -", line)
    sys.exit(1)
print("ok")
sys.exit(0)
