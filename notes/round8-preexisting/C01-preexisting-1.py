"""
C01, unchanged tree: a FloatField with bounds accepts NaN (as float and as the text "nan"), by every
route; the held value satisfies neither min <= value nor value <= max.
"""
import math
import os
import sys
import tempfile

os.environ["HOME"] = tempfile.mkdtemp(prefix="c01-home-")
sys.path.insert(0, os.getcwd())

from cincoconfig import DictField, FloatField, ListField, Schema, StringField  # noqa: E402

schema = Schema()
schema.ratio = FloatField(min=0, max=1, default=0.5)
schema.weights = ListField(FloatField(min=0, max=1))
schema.scores = DictField(StringField(), FloatField(min=0, max=1))

problems = []
config = schema()
for label, step, read in (
    ("ratio = float('nan')", lambda: setattr(config, "ratio", float("nan")), lambda: config.ratio),
    ("ratio = 'nan'", lambda: setattr(config, "ratio", "nan"), lambda: config.ratio),
    ("weights = [0.5]; weights.append('NaN')", lambda: (setattr(config, "weights", [0.5]), config.weights.append("NaN")), lambda: config.weights[-1]),
    ("scores = {'a': float('nan')}", lambda: setattr(config, "scores", {"a": float("nan")}), lambda: config.scores["a"]),
    ("load_tree({'ratio': float('nan')})", lambda: config.load_tree({"ratio": float("nan")}), lambda: config.ratio),
):
    try:
        step()
    except ValueError:
        continue
    value = read()
    if not (0 <= value <= 1):
        problems.append("%s accepted: holds %r, which is not within min=0 .. max=1" % (label, value))

if problems:
    print("C01 violated on the unchanged tree: bounded FloatField holds NaN")
    for line in problems:
        print("  " + line)
    sys.exit(1)
print("ok")
