"""Pre-existing (unchanged tree): FloatField bounds do not hold for NaN. `nan < min` and `nan > max`
are both False, so a FloatField(min=0, max=1) accepts float('nan') and the text 'nan' although the
value is not within the declared bounds; the accepted result never equals itself, so validating it
again does not 'return an equal value'. (Related: IntField.validate(cfg, float('inf')) and
FloatField.validate(cfg, 10**400) leave with OverflowError instead of the ValueError every other
rejection uses.)"""
import math
import os
import sys
import tempfile

os.environ["HOME"] = tempfile.mkdtemp(prefix="c05-home-")
sys.path.insert(0, os.getcwd())

from cincoconfig import FloatField, IntField, Schema  # noqa: E402

schema = Schema()
schema.ratio = FloatField(min=0, max=1)
cfg = schema()
field = dict(schema._fields)["ratio"]

problems = []
for candidate in (float("nan"), "nan", "NaN", " nan "):
    try:
        result = field.validate(cfg, candidate)
    except ValueError:
        continue
    if not (0 <= result <= 1):
        problems.append("FloatField(min=0, max=1) accepts %r as %r, which is not within [0, 1]" % (candidate, result))
        if field.validate(cfg, result) != result:
            problems.append("  ... and validating the accepted result again does not return an equal value")

try:
    cfg.ratio = float("nan")
    if math.isnan(cfg.ratio):
        problems.append("cfg.ratio = nan is stored in a configuration whose field is bounded to [0, 1]")
except ValueError:
    pass

for label, fld, candidate in (("IntField()", IntField(), float("inf")), ("FloatField()", FloatField(), 10 ** 400)):
    try:
        fld.validate(cfg, candidate)
    except ValueError:
        pass
    except Exception as exc:  # noqa: BLE001
        problems.append("%s.validate(%s) leaves with %s, not ValueError" % (label, "inf" if candidate == float("inf") else "10**400", type(exc).__name__))

if problems:
    print("C05 (unchanged library): number bounds are not exact")
    for line in problems:
        print("  -", line)
    sys.exit(1)
print("ok")
sys.exit(0)
