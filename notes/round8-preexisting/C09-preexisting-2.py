"""C09, unchanged library: a byte-string secret is hashed when it is ASSIGNED, but the same
byte string written by hand into a document (YAML ``!!binary``, or a bytes value in a pickle /
BSON document) is refused on load instead of hashed: ChallengeField.to_python() only takes str.
"""
import os
import sys
import tempfile

os.environ["HOME"] = tempfile.mkdtemp(prefix="c09-home-")
sys.path.insert(0, os.getcwd())

import base64  # noqa: E402
import pickle  # noqa: E402

from cincoconfig import ChallengeField, Schema  # noqa: E402

secret = b"\x00\xffbinary secret"
schema = Schema()
schema.password = ChallengeField("sha256")

cfg = schema()
cfg.password = secret            # fine: hashed
cfg.password.challenge(secret)

problems = []
docs = {
    "yaml": b"password: !!binary " + base64.b64encode(secret) + b"\n",
    "pickle": pickle.dumps({"password": secret}),
}
for fmt, doc in docs.items():
    loaded = schema()
    try:
        loaded.loads(doc, format=fmt)
        loaded.password.challenge(secret)
    except Exception as exc:  # noqa: BLE001
        problems.append("%s: byte-string plaintext in the document is not hashed: %s" % (fmt, exc))

if problems:
    print("C09 (unchanged library):")
    for line in problems:
        print(" -", line)
    sys.exit(1)
print("ok")
sys.exit(0)
