"""C12 on the UNCHANGED library: 'a freshly built configuration ... reports every field as not
user-defined'.  Virtual fields (including the is_<mode>_mode helpers an ApplicationModeField adds to
the schema by itself) and instance-method fields are never entered into _default_value_keys, so
is_value_defined() reports them as user-defined on a configuration nobody has touched, and
reset_value() cannot bring them to 'not user-defined' either."""
import os
import sys
import tempfile

os.environ["HOME"] = tempfile.mkdtemp(prefix="c12-home-")
sys.path.insert(0, os.getcwd())

from cincoconfig import (  # noqa: E402
    ApplicationModeField,
    IntField,
    Schema,
    VirtualField,
    get_all_fields,
    instance_method,
    is_value_defined,
    reset_value,
)

schema = Schema()
schema.mode = ApplicationModeField(default="production")
schema.port = IntField(default=80)
schema.sub.twice = VirtualField(lambda cfg: 2)


@instance_method(schema, "hello")
def hello(cfg):
    return "hello"


cfg = schema()
problems = []
for path, _, field in get_all_fields(schema):
    if is_value_defined(cfg, path):
        problems.append("fresh configuration: %s (%s) reported as user-defined" % (path, type(field).__name__))

reset_value(cfg, "is_production_mode")
if is_value_defined(cfg, "is_production_mode"):
    problems.append("after reset_value: is_production_mode still reported as user-defined")

if problems:
    print("C12 violated on the unchanged tree:")
    for p in problems:
        print("  -", p)
    sys.exit(1)
print("ok")
