"""Pre-existing: a non-required SecureField set to the empty string is saved as null (to_basic returns
None for any falsy value) and loads back as None, not as the empty string."""
import os, sys, tempfile
os.environ["HOME"] = tempfile.mkdtemp(prefix="c19-home-")
sys.path.insert(0, os.getcwd())
from cincoconfig import *  # noqa: E402,F401,F403
workdir = tempfile.mkdtemp(prefix="c19-pre-")
problems = []

schema = Schema()
schema.secret = SecureField(default="initial")
cfg = schema()
cfg.secret = ""  # blanked out
path = os.path.join(workdir, "a.json")
cfg.save(path, "json")
back = schema()
back.load(path, "json")
if back.secret != cfg.secret:
    problems.append("secret saved %r, loaded %r" % (cfg.secret, back.secret))

if problems:
    print("C19 violated on the unchanged tree: a successfully saved file does not load back equal")
    for line in problems:
        print("  -", line)
    sys.exit(1)
print("ok")
sys.exit(0)

