"""Unchanged library, C04 (borderline: an interpreter limit the formats do not lift): the quantifier
admits all integers for JSON / YAML / XML (only BSON is limited to 64 bits), but an integer of more
than 4300 decimal digits cannot be encoded by json, yaml or xml on CPython >= 3.11 -- dumps() raises
ValueError ('Exceeds the limit (4300 digits) for integer string conversion'). pickle keeps the tree.
10**4299 (4300 digits) still works in all four."""
import os
import sys
import tempfile

os.environ["HOME"] = tempfile.mkdtemp(prefix="c04-home-")
sys.path.insert(0, os.getcwd())

from cincoconfig.core import ConfigFormat  # noqa: E402

failures = []
for digits in (4300, 4301):
    tree = {"limits": [{"n": 10 ** (digits - 1)}]}
    for name in ("pickle", "json", "yaml", "xml"):
        fmt = ConfigFormat.get(name)
        try:
            back = fmt.loads(None, fmt.dumps(None, tree))
        except Exception as err:  # pylint: disable=broad-except
            failures.append("%s: a %d-digit integer cannot be encoded/decoded: %s: %s" % (name, digits, type(err).__name__, err))
            continue
        if back != tree or type(back["limits"][0]["n"]) is not int:
            failures.append("%s: a %d-digit integer came back as %s" % (name, digits, type(back["limits"][0]["n"]).__name__))

if failures:
    print("FAIL (unchanged library):")
    for line in failures:
        print("  " + line)
    sys.exit(1)
print("OK")
