"""
Pre-existing (unchanged tree): stubs that are not valid Python, or no stub at all.
  a) a field whose key is a Python keyword ("from", "class", "pass" are ordinary keys of
     configuration files; schema["from"] = ... and cfg["from"] work) is declared as 'from: str';
  b) an instance method annotated with a TypeVar (a generic helper) makes generate_stub raise
     TypeError("Unknown storage_type"): get_annotation_typestr() knows classes, strings, None and
     generic aliases only (a TypeVar as RETURN annotation alone is silently dropped instead);
  c) a functools.wraps-decorated instance method whose wrapped function has positional-only
     parameters: the names come from getfullargspec() (does not follow __wrapped__), the '/' marker
     from inspect.signature() (follows it): 'def m(self, **kwargs, /)'.
"""
import os
import sys
import tempfile

os.environ["HOME"] = tempfile.mkdtemp(prefix="c20-home-")
sys.path.insert(0, os.getcwd())

import ast
import functools
import warnings
from typing import TypeVar

warnings.simplefilter("ignore")

from cincoconfig import Schema, StringField, generate_stub, instance_method

T = TypeVar("T")
problems = []


def check(label, schema):
    try:
        stub = generate_stub(schema, "T")
    except Exception as exc:  # pylint: disable=broad-except
        problems.append("%s: generate_stub raised %r" % (label, exc))
        return
    try:
        ast.parse(stub)
    except SyntaxError as exc:
        bad = stub.split("\n")[exc.lineno - 1].strip()
        problems.append("%s: invalid Python: %s" % (label, bad))


smtp = Schema()
smtp["from"] = StringField(default="noreply@example.com")
smtp.to = StringField()
cfg = smtp()
assert cfg["from"] == "noreply@example.com" and cfg.to_tree()["from"] == "noreply@example.com"
check("field named 'from'", smtp)

generic = Schema()


@instance_method(generic, "first")
def first(cfg, items: T, default: T = None) -> T:
    return default


check("TypeVar annotation", generic)


def logged(func):
    @functools.wraps(func)
    def wrapper(*args, **kwargs):
        return func(*args, **kwargs)

    return wrapper


decorated = Schema()


@instance_method(decorated, "scale")
@logged
def scale(cfg, factor, /, offset=0):
    return factor + offset


assert decorated().scale(2, offset=1) == 3
check("wraps-decorated method with positional-only parameters", decorated)

if problems:
    print("C20 violated on the unchanged tree:")
    for p in problems:
        print("  " + p)
    sys.exit(1)
print("ok")
sys.exit(0)
