"""Pre-existing: the XML format does not preserve a carriage return in a string value: the document
is re-parsed (minidom) and parsed again on load, and XML line-end normalisation turns \r and \r\n
into \n. The save succeeds, the loaded value differs."""
import os, sys, tempfile
os.environ["HOME"] = tempfile.mkdtemp(prefix="c19-home-")
sys.path.insert(0, os.getcwd())
from cincoconfig import *  # noqa: E402,F401,F403
workdir = tempfile.mkdtemp(prefix="c19-pre-")
problems = []

schema = Schema()
schema.motd = StringField()
schema.lines = ListField(StringField())
for fmt in ("xml", "json", "yaml"):
    cfg = schema()
    cfg.motd = "line one\r\nline two\rend"
    cfg.lines = ["a\rb"]
    path = os.path.join(workdir, "a." + fmt)
    cfg.save(path, fmt)
    back = schema()
    back.load(path, fmt)
    if asdict(back) != asdict(cfg):
        problems.append("%s: saved %r, loaded %r" % (fmt, asdict(cfg), asdict(back)))

if problems:
    print("C19 violated on the unchanged tree: a successfully saved file does not load back equal")
    for line in problems:
        print("  -", line)
    sys.exit(1)
print("ok")
sys.exit(0)

