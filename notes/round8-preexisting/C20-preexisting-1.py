"""
Pre-existing (unchanged tree): instance methods that are not plain "def m(cfg, ...)" functions get a
stub whose parameters differ from the bound function.
  a) a bound method (obj.handler) - what the library's own unit tests register - keeps the
     configuration parameter in the stub, because inspect.getfullargspec() also reports the bound
     'self' and only items[0] is replaced;
  b) def m(*args, **kwargs) and def m(*args) lose '*args': items[0] = "self" overwrites the first
     rendered item, which is the var-positional parameter when there is no named one.
"""
import os
import sys
import tempfile

os.environ["HOME"] = tempfile.mkdtemp(prefix="c20-home-")
sys.path.insert(0, os.getcwd())

import ast
import inspect
import warnings

warnings.simplefilter("ignore")

from cincoconfig import Schema, StringField, generate_stub
from cincoconfig.fields import InstanceMethodField


class Handlers:
    def greet(self, cfg, greeting: str = "hello") -> str:
        return "%s %s" % (greeting, cfg.name)


def passthrough(*args, **kwargs):
    return args, kwargs


def only_varargs(*args):
    return args


problems = []


def check(label, method, expected):
    schema = Schema()
    schema.name = StringField(default="x")
    schema._add_field("m", InstanceMethodField(method))
    cfg = schema()
    try:
        stub = generate_stub(schema, "T")
    except Exception as exc:  # pylint: disable=broad-except
        problems.append("%s: generate_stub raised %r" % (label, exc))
        return
    node = [n for n in ast.parse(stub).body[0].body if getattr(n, "name", "") == "m"][0]
    a = node.args
    got = [x.arg for x in a.posonlyargs + a.args][1:]
    got += ["*" + a.vararg.arg] if a.vararg else []
    got += [x.arg for x in a.kwonlyargs]
    got += ["**" + a.kwarg.arg] if a.kwarg else []
    if got != expected:
        problems.append(
            "%s: stub says m(self, %s) but cfg.m takes (%s)"
            % (label, ", ".join(got), ", ".join(expected))
        )
    return cfg


cfg = check("bound method", Handlers().greet, ["greeting"])
assert cfg.m("hi") == "hi x"  # one parameter: greeting
check("def m(*args, **kwargs)", passthrough, ["*args", "**kwargs"])
check("def m(*args)", only_varargs, ["*args"])

if problems:
    print("C20 violated on the unchanged tree:")
    for p in problems:
        print("  " + p)
    sys.exit(1)
print("ok")
sys.exit(0)
