"""
C13 on the UNCHANGED library: deep-copying a dynamic configuration that holds at least one
dynamically added field alters the schema - a sub-schema named '__deepcopy__' is added to the
schema's field table, so every configuration built afterwards carries a '__deepcopy__'
sub-configuration, and the copy's dynamic field is bound to a Config object instead of the schema.

Mechanism: Config.__deepcopy__ deep-copies the dynamic field table (_fields). Each AnyField in it
references the schema (field._schema), which is not in the memo, so copy.deepcopy() looks up
schema.__deepcopy__ - Schema.__getattr__ auto-creates a sub-schema of that name, which is callable
(Schema.__call__), so the 'copier' returns Config(sub_schema, parent=memo).
"""
import copy
import os
import sys
import tempfile

os.environ["HOME"] = tempfile.mkdtemp(prefix="c13-home-")
sys.path.insert(0, os.getcwd())

from cincoconfig import IntField, Schema, asdict, get_all_fields  # noqa: E402

problems = []

schema = Schema(dynamic=True)
schema.port = IntField(default=8080)

first = schema()
first.note = "added at run time"          # dynamic field, stays with `first`

fields_before = [path for path, _, _ in get_all_fields(schema)]
fresh_before = asdict(schema())

dup = copy.deepcopy(first)                # a second configuration of the same schema

fields_after = [path for path, _, _ in get_all_fields(schema)]
fresh_after = asdict(schema())

if fields_after != fields_before:
    problems.append("the schema's field set changed: %r -> %r" % (fields_before, fields_after))
if fresh_after != fresh_before:
    problems.append(
        "a configuration built after the copy differs from one built before: %r -> %r"
        % (fresh_before, fresh_after)
    )
bound_to = dup._fields["note"]._schema
if bound_to is not schema:
    problems.append(
        "the copy's dynamic field 'note' is bound to a %s instead of the schema" % type(bound_to).__name__
    )

if problems:
    print("C13 VIOLATED on the unchanged tree (deepcopy of a dynamic configuration alters the schema):")
    for p in problems:
        print(" -", p)
    sys.exit(1)
print("ok")
sys.exit(0)
