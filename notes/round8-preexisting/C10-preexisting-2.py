"""
Pre-existing (unchanged tree): configurations kept in a TUPLE by an untyped field are not rendered by
the masked walk, and the YAML and pickle documents written with a mask contain their secrets.

Config._render_nested walks (held list/tuple, rendered LIST) pairs only.  AnyField, DictField() and
ListField() without item fields and dynamic keys render their value as it is, so a tuple of
configurations stays a tuple of Config objects in to_tree(sensitive_mask=...).  JSON / XML / BSON
refuse such a tree (TypeError), but yaml.dump and pickle.dumps serialise the Config objects with their
_data, i.e. with the sensitive values in clear.  (The same values in a list instead of a tuple are
masked.)
"""
import os
import sys
import tempfile

os.environ["HOME"] = tempfile.mkdtemp(prefix="c10-home-")
sys.path.insert(0, os.getcwd())

from cincoconfig import AnyField, ListField, Schema, StringField  # noqa: E402

SECRET = "hunter2-tuple"

account = Schema()
account.user = StringField()
account.password = StringField(sensitive=True)

schema = Schema(dynamic=True)
schema.primary = AnyField()
schema.pairs = ListField()

cfg = schema()
acct = account()
acct.user = "bob"
acct.password = SECRET
cfg.primary = (acct,)              # a tuple of configurations in an AnyField
cfg.pairs = [("eu", acct)]         # ... inside an untyped list
cfg.extra = {"k": (acct,)}         # ... below a dynamic key

problems = []
tree = cfg.to_tree(sensitive_mask="*")
print("to_tree(sensitive_mask='*') =", tree)
if not isinstance(tree["primary"][0], dict):
    problems.append("to_tree(sensitive_mask='*'): primary[0] is left as %r, not rendered/masked" % (tree["primary"][0],))

for fmt in ("yaml", "pickle"):
    doc = cfg.dumps(fmt, sensitive_mask="*")
    if SECRET.encode() in doc:
        problems.append("dumps(%r, sensitive_mask='*'): the document contains the password %r in clear" % (fmt, SECRET))

# the same values held in lists are masked
cfg.primary = [acct]
ok_tree = cfg.to_tree(sensitive_mask="*")
assert ok_tree["primary"][0]["password"] == "*" * len(SECRET), ok_tree

if problems:
    print("C10 VIOLATED on the unchanged tree")
    for line in problems:
        print(" -", line)
    sys.exit(1)
print("ok")
sys.exit(0)
