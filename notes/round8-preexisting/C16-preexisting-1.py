"""
Pre-existing (unchanged tree): enumerating a NESTED schema (or the sub-configuration built from
it) prefixes every path with that schema's own key only.  At depth >= 2 the result is neither
relative to the schema that was enumerated nor to the root, so the paths do not resolve on it, do
not equal item_ref_path(), and a parser generated for a section cannot be applied to the section.
"""
import os
import sys
import tempfile

os.environ["HOME"] = tempfile.mkdtemp(prefix="c16-home-")
sys.path.insert(0, os.getcwd())

from cincoconfig import (  # noqa: E402
    IntField,
    Schema,
    StringField,
    cmdline_args_override,
    generate_argparse_parser,
    get_all_fields,
    item_ref_path,
)

root = Schema()
root.a.b.x = IntField(default=1)
root.a.b.c.y = StringField(default="y")
section_schema = root._fields["a"]._fields["b"]
config = root()
section = config.a.b

problems = []
for path, _, field in get_all_fields(section_schema):
    if path not in section:
        problems.append("enumerated %r: not in the section's configuration" % path)
    if item_ref_path(field) != path:
        problems.append("enumerated %r but item_ref_path() is %r" % (path, item_ref_path(field)))

parser = generate_argparse_parser(section)
args = parser.parse_args(["--b-x", "5"])
try:
    cmdline_args_override(section, args)
except Exception as exc:  # noqa: BLE001
    problems.append(
        "parser generated for config.a.b has dest %r; applying it to config.a.b raises %s(%s)"
        % ([k for k, v in vars(args).items() if v is not None], type(exc).__name__, exc)
    )
try:
    cmdline_args_override(config, args)
except Exception as exc:  # noqa: BLE001
    problems.append("... and applying it to the root raises %s(%s)" % (type(exc).__name__, exc))

if problems:
    print("C16 (pre-existing): enumeration of a nested schema yields unusable paths")
    for line in problems:
        print("  -", line)
    sys.exit(1)
print("ok")
sys.exit(0)
