"""
C17 (borderline: it concerns how the value comes into being, not an operation on it), unchanged
library: a typed ListField whose default is a tuple, or a typed DictField whose default is a list
of pairs (both are deep-copied per configuration like list / dict defaults), yields a value that is
neither typed nor normalised: a plain tuple / dict of the raw default items, so none of the list /
dict operations validates anything until the field is assigned again.
"""
import os
import sys
import tempfile

os.environ["HOME"] = tempfile.mkdtemp(prefix="c17-home-")
sys.path.insert(0, os.getcwd())

from cincoconfig import DictField, IntField, ListField, Schema, StringField  # noqa: E402
from cincoconfig.fields import DictProxy, ListProxy  # noqa: E402

schema = Schema()
schema.ports = ListField(IntField(), default=("80", "443"))
schema.names = DictField(StringField(transform_case="lower"), IntField(), default=[("Alpha", "1")])
cfg = schema()
failures = []

if not isinstance(cfg.ports, ListProxy) or list(cfg.ports) != [80, 443]:
    failures.append("ListField(IntField(), default=('80', '443')): value is %s %r, expected a typed list [80, 443]"
                    % (type(cfg.ports).__name__, cfg.ports))
if not isinstance(cfg.names, DictProxy) or dict(cfg.names) != {"alpha": 1}:
    failures.append("DictField(str-lower, int, default=[('Alpha', '1')]): value is %s %r, expected a typed dict {'alpha': 1}"
                    % (type(cfg.names).__name__, cfg.names))
else:
    cfg.names["Beta"] = "2"
if isinstance(cfg.names, dict) and not isinstance(cfg.names, DictProxy):
    cfg.names["Beta"] = "not a number"
    failures.append("names['Beta'] = 'not a number' was accepted: %r" % (cfg.names,))

if failures:
    print("C17 (borderline) on the unchanged library: defaults in tuple / pairs form are stored untyped")
    for line in failures:
        print("  " + line)
    sys.exit(1)
print("ok")
sys.exit(0)
