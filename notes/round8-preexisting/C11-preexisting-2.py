"""
Pre-existing (unchanged tree): a required IncludeField is never enforced.

Schema._validate skips every IncludeFieldMixin field (together with virtual fields and instance
methods), so IncludeField(required=True) that is unset after a load does not make the load or an
explicit validate() fail, in either mode.
"""
import os
import sys
import tempfile

os.environ["HOME"] = tempfile.mkdtemp(prefix="c11-home-")
sys.path.insert(0, os.getcwd())

from cincoconfig import IncludeField, IntField, Schema, ValidationError  # noqa: E402

schema = Schema()
schema.base.include = IncludeField(required=True)
schema.base.x = IntField(default=1)

cfg = schema()
try:
    cfg.loads(b'{"base": {"x": 2}}', format="json")
    cfg.validate()
    collected = cfg.validate(collect_errors=True)
except ValidationError as exc:
    print("ok: rejected:", exc)
    sys.exit(0)

print(
    "C11 VIOLATED (pre-existing): loads() and validate() returned normally (collected=%r) although "
    "the required field base.include is %r" % (collected, cfg.base.include)
)
sys.exit(1)
