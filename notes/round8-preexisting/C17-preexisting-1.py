"""
C17, unchanged library: "update in all call forms".  dict.update() takes its mapping/iterable
positional-only, so every keyword is an entry: {}.update(iterable=3) == {'iterable': 3} and
{}.update(self=4) == {'self': 4}.  DictProxy.update(self, iterable=None, **kwargs) captures the
keywords named 'iterable' and 'self' as parameters instead.
"""
import os
import sys
import tempfile

os.environ["HOME"] = tempfile.mkdtemp(prefix="c17-home-")
sys.path.insert(0, os.getcwd())

from cincoconfig import DictField, IntField, Schema, StringField  # noqa: E402

schema = Schema()
schema.d = DictField(StringField(), IntField())
cfg = schema()
failures = []

for keywords in ({"iterable": "3"}, {"self": "4"}, {"other": "5", "iterable": "6"}):
    cfg.d = {"a": 1}
    model = {"a": 1}
    model.update(**{key: int(value) for key, value in keywords.items()})
    try:
        cfg.d.update(**keywords)
    except Exception as exc:  # pylint: disable=broad-except
        failures.append("update(**%r) raised %s: %s; a dict ends up as %r"
                        % (keywords, type(exc).__name__, exc, model))
        continue
    if dict(cfg.d) != model:
        failures.append("update(**%r): typed %r, built-in %r" % (keywords, dict(cfg.d), model))

if failures:
    print("C17 violated on the unchanged library: keyword entries named like update()'s own parameters")
    for line in failures:
        print("  " + line)
    sys.exit(1)
print("ok")
sys.exit(0)
