"""
Pre-existing (unchanged tree): a typed dict used as the ITEM field of a typed list
(ListField(DictField(StringField(), IntField()))) reports a rejected entry without the key of the
declared list field: 'app.[k]' (or just '[k]' at the root) instead of a path that names 'app.rows'.
The inner DictProxy builds its own ValidationError from the key of the item DictField, which has
none, and Config._set_value / load_tree pass a ValidationError through unchanged.
"""
import os
import sys
import tempfile

os.environ["HOME"] = tempfile.mkdtemp()
sys.path.insert(0, os.getcwd())

from cincoconfig import DictField, IntField, ListField, Schema, StringField, ValidationError  # noqa: E402

root = Schema()
root.app.rows = ListField(DictField(StringField(), IntField()))
root.rows = ListField(DictField(StringField(), IntField()))

failures = []


def check(label, func, field_path):
    try:
        func()
    except ValidationError as err:
        if not err.ref_path.startswith(field_path) or not str(err).startswith(field_path):
            failures.append(
                "%s: the error does not name %r: ref_path=%r str=%r"
                % (label, field_path, err.ref_path, str(err))
            )
    except Exception as err:  # pylint: disable=broad-except
        failures.append("%s: %s instead of ValidationError: %s" % (label, type(err).__name__, err))
    else:
        failures.append("%s: value was not rejected" % label)


cfg = root()
bad = [{"a": 1}, {"k": "bad"}]
check("attribute, nested", lambda: setattr(cfg.app, "rows", bad), "app.rows")
check("attribute, root", lambda: setattr(cfg, "rows", bad), "rows")
check("tree load, nested", lambda: root().load_tree({"app": {"rows": bad}}), "app.rows")
check("constructor", lambda: root(rows=bad), "rows")
check("json document", lambda: root().loads(b'{"app": {"rows": [{"k": "bad"}]}}', "json"), "app.rows")

if failures:
    print("C15 violated on the unchanged tree:")
    for line in failures:
        print("  " + line)
    sys.exit(1)
print("ok")
