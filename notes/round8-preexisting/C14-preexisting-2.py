"""
Unchanged library, C14 (borderline): "explicit assignment beats the variable" holds for a field
assigned on its own, but not when the application assigns a map to the enclosing sub-schema
(cfg.db = {...}, cfg["db"] = {...}, or schema(db={...}) in the constructor): Config._set_value
builds a fresh sub-configuration and feeds the map through load_tree, which applies the
documents-never-override rule to what is an assignment.
"""
import os
import sys
import tempfile

os.environ["HOME"] = tempfile.mkdtemp(prefix="c14-home-")
sys.path.insert(0, os.getcwd())
os.environ["APP_DB_HOST"] = "env-host"

from cincoconfig import Schema, StringField, IntField  # noqa: E402

schema = Schema(env="APP")
schema.db.host = StringField(default="localhost")
schema.db.port = IntField(default=5432)

problems = []
cfg = schema()
cfg.db.host = "assigned"
if cfg.db.host != "assigned":
    problems.append("field assignment lost: %r" % cfg.db.host)

cfg.db = {"host": "assigned-by-map", "port": 1}
if cfg.db.host != "assigned-by-map":
    problems.append(
        "cfg.db = {'host': 'assigned-by-map', ...}: host is %r (port %r was taken)"
        % (cfg.db.host, cfg.db.port)
    )

cfg2 = schema(db={"host": "ctor", "port": 2})
if cfg2.db.host != "ctor":
    problems.append("schema(db={'host': 'ctor', ...}): host is %r" % cfg2.db.host)

if problems:
    print("C14 (assignment beats the variable) not met on the unchanged tree")
    for p in problems:
        print(" -", p)
    sys.exit(1)
print("ok")
