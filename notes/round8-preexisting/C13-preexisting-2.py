"""
C13 on the UNCHANGED library (weaker than preexisting-1, depends on reading "loads" as including
load_tree(other.to_tree())): cloning a configuration through its basic tree leaves the clone and
the original sharing every container BELOW the first level of an untyped ListField / DictField and
the whole value of an AnyField: to_basic() copies only the outer list / dict (AnyField: nothing)
and load_tree() keeps the objects it is given.
"""
import copy
import os
import sys
import tempfile

os.environ["HOME"] = tempfile.mkdtemp(prefix="c13-home-")
sys.path.insert(0, os.getcwd())

from cincoconfig import AnyField, DictField, ListField, Schema, asdict  # noqa: E402

schema = Schema()
schema.opts = DictField()
schema.tags = ListField()
schema.any = AnyField()

a = schema()
a.opts = {"hosts": ["h1"]}
a.tags = [["x"]]
a.any = {"z": [0]}
before = copy.deepcopy(asdict(a))

b = schema()
b.load_tree(a.to_tree())          # b is a second configuration of the schema, loaded from a tree

b.opts["hosts"].append("h2")      # in-place mutations on b only
b.tags[0].append("y")
b.any["z"].append(9)

after = asdict(a)
if after != before:
    print("C13 VIOLATED on the unchanged tree (clone through to_tree()/load_tree() shares nested containers):")
    print(" - a before:", before)
    print(" - a after :", after)
    sys.exit(1)
print("ok")
sys.exit(0)
