"""
C02 pre-existing 2 (unchanged library): Config.save() forwards format options (root_key for YAML,
root_tag for XML) to the writer, but Config.load() has no way to take them - the sibling call
chain dumps()/loads() has **kwargs, load() does not. A file saved with a non-default option
cannot be loaded with load(): YAML fails with AttributeError (or, for a dynamic schema, silently
stores the whole document under one dynamic field), XML with "unexpected root tag".
"""
import os, sys, tempfile
os.environ["HOME"] = tempfile.mkdtemp(prefix="c02-home-")
sys.path.insert(0, os.getcwd())

from cincoconfig import Schema, IntField, StringField, asdict

schema = Schema()
schema.port = IntField(default=8080)
schema.db.host = StringField(default="localhost")
dyn = Schema(dynamic=True)
dyn.port = IntField(default=8080)

tmp = tempfile.mkdtemp(prefix="c02-files-")
bad = []
for sch, label in ((schema, "static"), (dyn, "dynamic")):
    for fmt, options in (("yaml", {"root_key": "app"}), ("xml", {"root_tag": "settings"})):
        cfg = sch()
        cfg.port = 9090
        path = os.path.join(tmp, "%s.%s" % (label, fmt))
        cfg.save(path, format=fmt, **options)
        fresh = sch()
        try:
            fresh.load(path, format=fmt)        # no parameter through which to repeat the option
        except Exception as exc:
            bad.append("%s schema, %s saved with %r: load() failed: %s: %s" % (label, fmt, options, type(exc).__name__, exc))
            continue
        if asdict(fresh) != asdict(cfg):
            bad.append("%s schema, %s saved with %r: load() gave %r, saved %r" % (label, fmt, options, asdict(fresh), asdict(cfg)))
if bad:
    print("C02 violated on the unchanged tree (format options accepted by save() cannot be given to load()):")
    print("\n".join("  " + b for b in bad))
    sys.exit(1)
print("ok")
