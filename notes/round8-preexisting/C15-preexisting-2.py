"""
Pre-existing (unchanged tree): a tree rejected when it is assigned to an EXISTING position of a
list of configurations (servers[0] = {...}) or inserted at a position (servers.insert(0, {...}))
is reported with the index len(list) - an item that does not exist - instead of the position that
was assigned. The new item is linked to the list before it is stored, and
ListProxy._get_item_position answers len(list) for a configuration it does not hold (right for
append and for a load, wrong for item assignment / insert / slice assignment).
"""
import os
import sys
import tempfile

os.environ["HOME"] = tempfile.mkdtemp()
sys.path.insert(0, os.getcwd())

from cincoconfig import ListField, PortField, Schema, ValidationError, make_type  # noqa: E402

server = Schema()
server.port = PortField()
Server = make_type(server, "Server")
root = Schema()
root.lb.servers = ListField(Server)

cfg = root()
cfg.load_tree({"lb": {"servers": [{"port": 1}, {"port": 2}, {"port": 3}]}})
servers = cfg.lb.servers
failures = []


def check(label, func, path):
    try:
        func()
    except ValidationError as err:
        if err.ref_path != path:
            failures.append("%s: expected %r, got ref_path=%r str=%r" % (label, path, err.ref_path, str(err)))
    except Exception as err:  # pylint: disable=broad-except
        failures.append("%s: %s instead of ValidationError: %s" % (label, type(err).__name__, err))
    else:
        failures.append("%s: value was not rejected" % label)


check("servers[0] = {...}", lambda: servers.__setitem__(0, {"port": "bad"}), "lb.servers[0].port")
check("servers.insert(1, {...})", lambda: servers.insert(1, {"port": "bad"}), "lb.servers[1].port")
check("servers[1:2] = [{...}]", lambda: servers.__setitem__(slice(1, 2), [{"port": "bad"}]), "lb.servers[1].port")

if failures:
    print("C15 violated on the unchanged tree:")
    for line in failures:
        print("  " + line)
    sys.exit(1)
print("ok")
