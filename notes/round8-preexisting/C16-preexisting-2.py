"""
Pre-existing (unchanged tree), borderline: a field whose (identifier) key equals a public method of
Config -- validate, load, save, dumps, loads, to_tree, load_tree, full_path ... -- is reachable by
dotted path, but chained attribute access returns the method instead of the value, because
Config.__getattr__ only runs when normal attribute lookup fails.
"""
import os
import sys
import tempfile

os.environ["HOME"] = tempfile.mkdtemp(prefix="c16-home-")
sys.path.insert(0, os.getcwd())

from cincoconfig import BoolField, Schema, StringField, get_all_fields  # noqa: E402

schema = Schema()
schema.tls.validate = BoolField(default=True)
schema.plugins.load = StringField(default="all")
config = schema()

problems = []
for path, _, field in get_all_fields(schema):
    if isinstance(field, Schema):
        continue
    by_path = config[path]
    chained = config
    for part in path.split("."):
        chained = getattr(chained, part)
    if by_path != chained:
        problems.append("config[%r] = %r but chained attribute access gives %r" % (path, by_path, chained))

if problems:
    print("C16 (pre-existing): keys that shadow Config methods resolve differently by attribute")
    for line in problems:
        print("  -", line)
    sys.exit(1)
print("ok")
sys.exit(0)
