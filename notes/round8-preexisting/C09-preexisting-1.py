"""C09, unchanged library: a DigestValue made with ANOTHER hash algorithm than the field's is
accepted as a value / default without complaint. In memory it keeps its own algorithm and the
challenge succeeds; only salt and digest are saved, so after a save and a load it is re-tagged
with the field's algorithm and the very same challenge fails.
"""
import os
import sys
import tempfile

os.environ["HOME"] = tempfile.mkdtemp(prefix="c09-home-")
sys.path.insert(0, os.getcwd())

import hashlib  # noqa: E402

from cincoconfig import ChallengeField, Schema  # noqa: E402
from cincoconfig.fields import DigestValue  # noqa: E402

problems = []
foreign = DigestValue.create("s3cret", hashlib.sha512)      # 64-byte salt, sha512 digest

for how in ("assigned", "default"):
    schema = Schema()
    if how == "default":
        schema.password = ChallengeField("sha256", default=foreign)
        cfg = schema()
    else:
        schema.password = ChallengeField("sha256")
        cfg = schema()
        cfg.password = foreign
    cfg.password.challenge("s3cret")                         # succeeds before the save
    again = schema()
    again.loads(cfg.dumps(format="json"), format="json")
    same = (again.password.salt, again.password.digest) == (foreign.salt, foreign.digest)
    try:
        again.password.challenge("s3cret")
    except ValueError:
        problems.append(
            "%s sha512 digest value in a sha256 field: accepted, challenge succeeds in memory, "
            "salt/digest unchanged over save/load (%s) -- but the same challenge fails afterwards"
            % (how, same)
        )

if problems:
    print("C09 (unchanged library):")
    for line in problems:
        print(" -", line)
    sys.exit(1)
print("ok")
sys.exit(0)
