"""
Pre-existing (unchanged tree), borderline: virtual fields and instance methods are reported by
get_all_fields() and resolve by dotted path on the schema and the configuration, but the
membership test says they are not in the configuration (Config.__contains__ looks only at _data).
"""
import os
import sys
import tempfile

os.environ["HOME"] = tempfile.mkdtemp(prefix="c16-home-")
sys.path.insert(0, os.getcwd())

from cincoconfig import IntField, Schema, VirtualField, get_all_fields, instance_method  # noqa: E402

schema = Schema()
schema.sub.x = IntField(default=2)
schema.sub.double = VirtualField(lambda cfg: cfg.x * 2)


@instance_method(schema._fields["sub"], "hello")
def hello(cfg):
    return "hi"


config = schema()
problems = []
for path, _, field in get_all_fields(schema):
    value = config[path]  # resolves
    if path not in config:
        problems.append("%r is enumerated and config[%r] = %r, but %r in config is False" % (path, path, value, path))

if problems:
    print("C16 (pre-existing): membership disagrees with enumeration / lookup")
    for line in problems:
        print("  -", line)
    sys.exit(1)
print("ok")
sys.exit(0)
