"""Unchanged library, C04 (borderline: domain wording): the quantifier limits BSON only in its integers
(64 bits), but a string key that contains U+0000 cannot be encoded as BSON (element names are C strings):
dumps() raises ValueError 'Element names may not include NUL bytes.'. json, yaml and pickle decode the same
trees to themselves (xml is skipped: such a key is not an XML name). NUL inside string VALUES is fine."""
import os
import sys
import tempfile

os.environ["HOME"] = tempfile.mkdtemp(prefix="c04-home-")
sys.path.insert(0, os.getcwd())

from cincoconfig.core import ConfigFormat  # noqa: E402

trees = [{"a\x00b": 1}, {"users": [{"\x00": "value \x00 with NUL"}]}]
failures = []
for tree in trees:
    for name in ("json", "yaml", "pickle", "bson"):
        fmt = ConfigFormat.get(name)
        try:
            back = fmt.loads(None, fmt.dumps(None, tree))
        except Exception as err:  # pylint: disable=broad-except
            failures.append("%s: %r cannot be encoded/decoded: %s: %s" % (name, tree, type(err).__name__, err))
            continue
        if back != tree:
            failures.append("%s: %r came back as %r" % (name, tree, back))

if failures:
    print("FAIL (unchanged library):")
    for line in failures:
        print("  " + line)
    sys.exit(1)
print("OK")
