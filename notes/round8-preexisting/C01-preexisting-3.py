"""
C01, unchanged tree (borderline): load_tree / loads accept a text or a map for a typed list field and
split it into characters / keys (ListField.to_python wraps whatever it gets in a ListProxy before
ListField._validate can see that it is not a list), while the same value assigned by attribute is
rejected ("value is not a list").  The value read after the accepted load is not the field's
normalised form of what the document said -- the field has none for it.
"""
import os
import sys
import tempfile

os.environ["HOME"] = tempfile.mkdtemp(prefix="c01-home-")
sys.path.insert(0, os.getcwd())

from cincoconfig import IntField, ListField, Schema  # noqa: E402

schema = Schema()
schema.ports = ListField(IntField(min=1, max=9))

problems = []
for doc in ("123", {"4": "x", "5": "y"}):
    direct = schema()
    try:
        direct.ports = doc
        rejected_directly = False
    except ValueError:
        rejected_directly = True
    config = schema()
    try:
        config.load_tree({"ports": doc})
    except ValueError:
        continue
    if rejected_directly:
        problems.append("load_tree({'ports': %r}) accepted, ports == %r; `ports = %r` is rejected" % (doc, list(config.ports), doc))
config = schema()
try:
    config.loads(b'{"ports": "78"}', format="json")
    problems.append("loads('{\"ports\": \"78\"}') accepted, ports == %r" % list(config.ports))
except ValueError:
    pass

if problems:
    print("C01 (borderline) on the unchanged tree: a non-list document value is accepted for a typed list")
    for line in problems:
        print("  " + line)
    sys.exit(1)
print("ok")
