"""
C13 on the UNCHANGED library (interpretive: the only operations are on configuration b, but the
assigned value is read from configuration a): assigning a's list of sub-configurations (or an
untyped list) to b makes b adopt the very same item objects while a keeps holding them, so a later
mutation through b shows in a; a's items are also re-parented to b.
"""
import copy
import os
import sys
import tempfile

os.environ["HOME"] = tempfile.mkdtemp(prefix="c13-home-")
sys.path.insert(0, os.getcwd())

from cincoconfig import IntField, ListField, Schema, asdict  # noqa: E402

item = Schema()
item.port = IntField(default=1)
schema = Schema()
schema.servers = ListField(item, default=[])
schema.tags = ListField(default=[])

a = schema()
a.servers.append({"port": 5})
a.tags.append("t")
before = copy.deepcopy(asdict(a))

b = schema()
b.servers = a.servers      # operations on b only
b.tags = a.tags
b.servers[0].port = 99
b.tags.append("x")

problems = []
after = asdict(a)
if after != before:
    problems.append("a changed: %r -> %r" % (before, after))
if a.servers[0]._parent is not a:
    problems.append("a.servers[0] now reports b as its parent configuration")
if problems:
    print("C13 VIOLATED on the unchanged tree (a list assigned from another configuration is shared):")
    for p in problems:
        print(" -", p)
    sys.exit(1)
print("ok")
sys.exit(0)
