"""
Pre-existing (unchanged tree): validator(<config-type field>) registers nothing.

A sub-configuration declared through a config type (make_type) is held by a ConfigTypeField, which
is neither a Field nor a Schema; support.validator() has no branch for it and silently returns the
function without registering it anywhere.  The validator "registered" with
@validator(schema.rng) is therefore never run and a load that violates it returns normally.
(The same decorator on a plain nested schema, or on the wrapped schema object itself, works.)
"""
import os
import sys
import tempfile

os.environ["HOME"] = tempfile.mkdtemp(prefix="c11-home-")
sys.path.insert(0, os.getcwd())

from cincoconfig import IntField, Schema, ValidationError, make_type, validator  # noqa: E402

inner = Schema()
inner.lo = IntField(default=0)
inner.hi = IntField(default=10)
Range = make_type(inner, "Range")

schema = Schema()
schema.rng = Range

calls = []


@validator(schema.rng)
def lo_below_hi(cfg):
    calls.append((cfg.lo, cfg.hi))
    if cfg.lo > cfg.hi:
        raise ValueError("lo must not exceed hi")


cfg = schema()
try:
    cfg.load_tree({"rng": {"lo": 5, "hi": 1}})
except ValidationError as exc:
    print("ok: rejected:", exc)
    sys.exit(0)

print(
    "C11 VIOLATED (pre-existing): load_tree returned with rng.lo=%d > rng.hi=%d; the validator "
    "registered with @validator(schema.rng) on a %s was invoked %d times"
    % (cfg.rng.lo, cfg.rng.hi, type(schema._fields["rng"]).__name__, len(calls))
)
sys.exit(1)
