"""Pre-existing (unchanged tree): validation is not idempotent for StringField subclasses that
canonicalise AFTER the inherited StringField checks (max_len / min_len / choices / regex are applied
to the text as given, the returned canonical text can violate them), and for HostnameField with
resolve=True and allow_ipv4=False (the result is an address, which the field itself refuses)."""
import os
import sys
import tempfile

os.environ["HOME"] = tempfile.mkdtemp(prefix="c05-home-")
sys.path.insert(0, os.getcwd())

from cincoconfig import FilenameField, HostnameField, IPv4NetworkField, IntField, Schema  # noqa: E402

schema = Schema()
schema.x = IntField()
cfg = schema()

cases = [
    ("IPv4NetworkField(max_len=10)", IPv4NetworkField(max_len=10), "10.0.0.0"),
    ("IPv4NetworkField(choices=['10.0.0.0'])", IPv4NetworkField(choices=["10.0.0.0"]), "10.0.0.0"),
    ("IPv4NetworkField(min_len=12)", IPv4NetworkField(min_len=12), "10.0.0.0/255.0.0.0"),
    ("IPv4NetworkField(regex=r'^[0-9.]+$')", IPv4NetworkField(regex=r"^[0-9.]+$"), "10.1.2.3"),
    ("FilenameField(startdir='/srv/app/conf', max_len=10)", FilenameField(startdir="/srv/app/conf", max_len=10), "a.txt"),
    ("HostnameField(allow_ipv4=False, resolve=True)", HostnameField(allow_ipv4=False, resolve=True), "localhost"),
]

problems = []
for label, field, value in cases:
    try:
        first = field.validate(cfg, value)
    except ValueError as exc:
        print("skipped %s: %r is not accepted here (%s)" % (label, value, exc))
        continue
    try:
        second = field.validate(cfg, first)
    except ValueError as exc:
        problems.append("%s: %r is accepted as %r, which the same field then rejects: %s" % (label, value, first, exc))
        continue
    if second != first:
        problems.append("%s: %r -> %r -> %r" % (label, value, first, second))

if problems:
    print("C05 (unchanged library): validation is not idempotent")
    for line in problems:
        print("  -", line)
    sys.exit(1)
print("ok")
sys.exit(0)
