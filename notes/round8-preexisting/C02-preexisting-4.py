"""
C02 pre-existing 4 (unchanged library): two configurations alive, each with its own key file.
Assigning one configuration's list of item configurations (or a sub-configuration) to the other
re-parents the very same item objects instead of copying them; the first configuration still
holds them. From then on the first configuration encrypts those items' secrets with the OTHER
configuration's key file, and its saved document cannot be loaded with its own key file.
"""
import os, sys, tempfile
os.environ["HOME"] = tempfile.mkdtemp(prefix="c02-home-")
sys.path.insert(0, os.getcwd())

from cincoconfig import Config, Schema, ListField, SecureField, StringField, asdict

item = Schema()
item.name = StringField()
item.token = SecureField(method="aes")
schema = Schema()
schema.items = ListField(item)
schema.db.password = SecureField(method="aes")

keys = tempfile.mkdtemp(prefix="c02-keys-")
key_a, key_b = os.path.join(keys, "a.key"), os.path.join(keys, "b.key")
bad = []
for what in ("list of item configurations", "sub-configuration"):
    a = Config(schema, key_filename=key_a)
    b = Config(schema, key_filename=key_b)
    a.items = [{"name": "n1", "token": "alpha-secret"}]
    a.db.password = "alpha-password"
    if what.startswith("list"):
        b.items = a.items            # b starts from a's entries
    else:
        b.db = a.db
    a.validate()
    b.validate()
    content = a.dumps(format="json")
    fresh = Config(schema, key_filename=key_a)      # same schema, same key file as a
    try:
        fresh.loads(content, format="json")
        if asdict(fresh) != asdict(a):
            bad.append("%s shared with b: reloaded %r != saved %r" % (what, asdict(fresh), asdict(a)))
    except Exception as exc:
        bad.append("%s shared with b: a's document cannot be loaded with a's key file: %s: %s" % (what, type(exc).__name__, exc))
if bad:
    print("C02 violated on the unchanged tree (item configurations taken over by a second configuration):")
    print("\n".join("  " + b for b in bad))
    sys.exit(1)
print("ok")
