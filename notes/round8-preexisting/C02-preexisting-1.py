"""
C02 pre-existing 1 (unchanged library): a sub-configuration switched off by a FeatureFlagField is
not validated, so a required field left unset in it is a state that passes Config.validate().
The state saves fine ("cert": null) but the document is rejected on load: load_tree() pushes the
null through Field.validate(), which enforces required without looking at the feature flag.
"""
import os, sys, tempfile
os.environ["HOME"] = tempfile.mkdtemp(prefix="c02-home-")
sys.path.insert(0, os.getcwd())

from cincoconfig import Schema, StringField, IntField, FeatureFlagField, asdict

schema = Schema()
schema.port = IntField(default=8080)
schema.tls.enabled = FeatureFlagField(default=False)
schema.tls.cert = StringField(required=True)          # only needed when tls.enabled

cfg = schema()
errors = cfg.validate(collect_errors=True)
assert not errors, errors                             # the state passes validation
bad = []
for fmt in ("json", "yaml", "bson", "xml", "pickle"):
    content = cfg.dumps(format=fmt)
    fresh = schema()
    try:
        fresh.loads(content, format=fmt)
        if asdict(fresh) != asdict(cfg):
            bad.append("%s: %r != %r" % (fmt, asdict(fresh), asdict(cfg)))
    except Exception as exc:
        bad.append("%s: load of the library's own output failed: %s: %s" % (fmt, type(exc).__name__, exc))
if bad:
    print("C02 violated on the unchanged tree (valid state with a disabled feature cannot be re-loaded):")
    print("\n".join("  " + b for b in bad))
    sys.exit(1)
print("ok")
