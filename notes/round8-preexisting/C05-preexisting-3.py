"""Pre-existing (unchanged tree): accepted values whose on-disk form does not read back equal.
 * SecureField (not required) accepts '' but to_basic writes null, read back as None; inside
   ListField(SecureField()) the list ['', 'x'] comes back as [None, 'x'].
 * ChallengeField accepts a DigestValue made with another hash algorithm unchanged; the on-disk form
   does not record the algorithm, so it comes back tagged with the field's algorithm: not equal, and
   challenge() with the right password now fails.
 * LogLevelField / ApplicationModeField with custom names that are not lower case reject every one of
   their own declared choices (the default transform_case='lower' runs before the choices check)."""
import hashlib
import os
import sys
import tempfile

os.environ["HOME"] = tempfile.mkdtemp(prefix="c05-home-")
sys.path.insert(0, os.getcwd())

from cincoconfig import (  # noqa: E402
    ChallengeField, DigestValue, IntField, ListField, LogLevelField, Schema, SecureField,
)

schema = Schema()
schema.x = IntField()
cfg = schema()
problems = []


def roundtrip(label, field, value):
    accepted = field.validate(cfg, value)
    back = field.to_python(cfg, field.to_basic(cfg, accepted))
    if back != accepted:
        problems.append("%s: accepted %r, on-disk form reads back as %r" % (label, accepted, back))
    return back


roundtrip("SecureField()", SecureField(), "")
roundtrip("ListField(SecureField())", ListField(SecureField()), ["", "x"])

md5_digest = DigestValue.create("hello", hashlib.md5)
back = roundtrip("ChallengeField('sha256') given an md5 DigestValue", ChallengeField("sha256"), md5_digest)
try:
    md5_digest.challenge("hello")
    back.challenge("hello")
except ValueError as exc:
    problems.append("  ... the value read back no longer answers the right password: %s" % exc)

levels = LogLevelField(levels=["DEBUG", "INFO"])
for level in ("DEBUG", "INFO"):
    try:
        levels.validate(cfg, level)
    except ValueError as exc:
        problems.append("LogLevelField(levels=['DEBUG', 'INFO']) rejects its own level %r: %s" % (level, exc))

if problems:
    print("C05 (unchanged library): accepted values that do not survive their on-disk form / declared choices that are rejected")
    for line in problems:
        print("  -", line)
    sys.exit(1)
print("ok")
sys.exit(0)
