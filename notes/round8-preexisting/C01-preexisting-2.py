"""
C01, unchanged tree: a typed DictField whose default is given as a list of pairs (a form the field's
__setdefault__ supports and deep-copies) holds a plain dict, not a DictProxy: in-place mutation of
the value is not validated, so invalid keys/values get in.  (A dict default is wrapped correctly.)
"""
import os
import sys
import tempfile

os.environ["HOME"] = tempfile.mkdtemp(prefix="c01-home-")
sys.path.insert(0, os.getcwd())

from cincoconfig import DictField, IntField, Schema, StringField, reset_value  # noqa: E402

schema = Schema()
schema.limits = DictField(StringField(max_len=3), IntField(max=5), default=[("a", 1)])
schema.control = DictField(StringField(max_len=3), IntField(max=5), default={"a": 1})

problems = []
config = schema()
for name in ("control", "limits"):
    for label, step in (
        ("%s['b'] = 'not a number'" % name, lambda: config[name].__setitem__("b", "not a number")),
        ("%s.update(toolongkey=99)" % name, lambda: config[name].update(toolongkey=99)),
    ):
        try:
            step()
        except ValueError:
            pass
    for key, value in config[name].items():
        if not (isinstance(key, str) and len(key) <= 3) or not (isinstance(value, int) and value <= 5):
            problems.append("%s (%s) holds the entry %r: %r" % (name, type(config[name]).__name__, key, value))

reset_value(config, "limits")
try:
    config.limits["zzzzzz"] = "x"
except ValueError:
    pass
else:
    problems.append("after reset_value: limits (%s) accepted %r" % (type(config.limits).__name__, dict(config.limits)))

if problems:
    print("C01 violated on the unchanged tree: typed dict with a list-of-pairs default is a plain dict")
    for line in problems:
        print("  " + line)
    sys.exit(1)
print("ok")
