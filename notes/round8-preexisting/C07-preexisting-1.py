"""Pre-existing (unchanged tree), borderline for C07: a configuration (or a KeyFile) that is
deep-copied while its key context is open yields a copy whose KeyFile holds the key and a
reference count nobody will ever release. No context was ever opened on the copy, yet it
encrypts outside any context, and because the count never returns to 0 it never reads the key
file again: a key file that has become malformed is accepted on every later open."""
import copy
import os
import sys
import tempfile

os.environ["HOME"] = tempfile.mkdtemp(prefix="c07-home-")
sys.path.insert(0, os.getcwd())

from cincoconfig import Schema, SecureField  # noqa: E402
from cincoconfig.encryption import EncryptionError  # noqa: E402

problems = []
path = os.path.join(tempfile.mkdtemp(prefix="c07-pre1-"), "app.key")
with open(path, "wb") as fp:
    fp.write(bytes(range(32)))

schema = Schema()
schema.token = SecureField(method="xor")
cfg = schema(key_filename=path)
cfg.token = "s3cret"

with cfg._keyfile:  # the application keeps the key open around a batch of work
    dup = copy.deepcopy(cfg)

if cfg._keyfile._KeyFile__key is not None:
    problems.append("original still holds the key")
held = dup._keyfile._KeyFile__key
if held is not None:
    problems.append(
        "the copy's KeyFile holds %d bytes of key material (reference count %d) although no "
        "context is open on it" % (len(held), dup._keyfile._KeyFile__refcount)
    )
try:
    dup._keyfile.encrypt(b"hello", method="xor")
except TypeError:
    pass
else:
    problems.append("the copy's KeyFile encrypts outside any key context")

with open(path, "wb") as fp:
    fp.write(b"short")
try:
    dup.dumps("json")
except Exception as err:  # ValidationError wrapping the EncryptionError is what is expected
    if not isinstance(getattr(err, "exc", err), EncryptionError):
        raise
else:
    problems.append("the copy saved its secret although the key file now holds 5 bytes")
if dup._keyfile._KeyFile__key is not None:
    problems.append("the copy's KeyFile still holds the key after its own contexts have closed")

if problems:
    print("C07 (borderline, copies are not in the quantifier) VIOLATED on the unchanged tree:")
    for line in problems:
        print(" -", line)
    sys.exit(1)
print("ok")
sys.exit(0)
