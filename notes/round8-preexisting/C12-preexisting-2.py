"""C12 on the UNCHANGED library (borderline): Field.__setdefault__ copies a declared default only when
it is a list, dict, set or tuple.  Any other mutable default (bytearray, collections.deque, a
user-defined object) is handed to every configuration uncopied, so an in-place change made through
one configuration lands in the declared default: later configurations are built with it and
reset_value() 'restores' it."""
import collections
import os
import sys
import tempfile

os.environ["HOME"] = tempfile.mkdtemp(prefix="c12-home-")
sys.path.insert(0, os.getcwd())

from cincoconfig import Schema, is_value_defined, reset_value  # noqa: E402
from cincoconfig.core import AnyField  # noqa: E402

schema = Schema()
schema.recent = AnyField(default=collections.deque(["a"], maxlen=4))
schema.blob = AnyField(default=bytearray(b"x"))

first = schema()
first.recent.append("b")  # in place: first.recent stays 'not user-defined'
first.blob.extend(b"y")

problems = []
second = schema()
if list(second.recent) != ["a"]:
    problems.append("second configuration: recent is %r, declared default is deque(['a'])" % (second.recent,))
if second.blob != bytearray(b"x"):
    problems.append("second configuration: blob is %r, declared default is bytearray(b'x')" % (second.blob,))
reset_value(first, "recent")
if list(first.recent) != ["a"] or is_value_defined(first, "recent"):
    problems.append("reset_value(first, 'recent') gives %r, declared default is deque(['a'])" % (first.recent,))

if problems:
    print("C12 violated on the unchanged tree:")
    for p in problems:
        print("  -", p)
    sys.exit(1)
print("ok")
