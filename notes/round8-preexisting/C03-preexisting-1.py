"""
C03, UNCHANGED library: a key file assigned to a sub-configuration of a plain (sub-)schema is
honoured when saving, but loading a document REPLACES that sub-configuration by a new Config object
(Config._set_value: `cfg = field(self); cfg.load_tree(value)`), so the assignment is lost before the
sub-configuration's secrets are decrypted: they are decrypted with the parent's key file (here the
default ~/.cincokey, which gets created), not with the key file the sub-configuration names.
The same holds for `cfg.db = {...}` and for plain-schema list items that were given a key file.
"""
import os
import sys
import tempfile

home = tempfile.mkdtemp(prefix="c03-pre1-home-")
os.environ["HOME"] = home
sys.path.insert(0, os.getcwd())

from cincoconfig import Schema, SecureField, StringField  # noqa: E402

work = tempfile.mkdtemp(prefix="c03-pre1-work-")
db_key = os.path.join(work, "db.key")
default_key = os.path.join(home, ".cincokey")
problems = []

schema = Schema()
schema.name = StringField(default="app")
schema.db.host = StringField(default="localhost")
schema.db.password = SecureField(method="aes")

cfg = schema()
cfg.db._key_filename = db_key            # key-file assignment to a sub-configuration
cfg.db.password = "hunter2-secret"
out = cfg.dumps("json")
assert b"hunter2-secret" not in out
assert os.path.exists(db_key) and not os.path.exists(default_key)   # saving is right

fresh = schema()                          # new configuration object, same key-file assignment
fresh.db._key_filename = db_key
try:
    fresh.loads(out, "json")
    if fresh.db.password != "hunter2-secret":
        problems.append("loaded db.password == %r" % (fresh.db.password,))
except Exception as exc:
    problems.append("load with the same key-file assignment failed: %r" % (exc,))
if fresh.db._key_filename != db_key:
    problems.append("after the load db names %s, the assignment of %s is gone"
                    % (fresh.db._key_filename, db_key))
if os.path.exists(default_key):
    problems.append("loading created the default key file ~/.cincokey although the only secret "
                    "belongs to a sub-configuration that names db.key")

if problems:
    print("C03 VIOLATED on the unchanged library:")
    for p in problems:
        print("  -", p)
    sys.exit(1)
print("ok")
sys.exit(0)
