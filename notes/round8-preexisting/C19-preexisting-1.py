"""Pre-existing: a typed ListField / DictField that holds None is saved as null and loads back as an
empty ListProxy / DictProxy (ListField.to_python and DictField.to_python wrap None in a proxy)."""
import os, sys, tempfile
os.environ["HOME"] = tempfile.mkdtemp(prefix="c19-home-")
sys.path.insert(0, os.getcwd())
from cincoconfig import *  # noqa: E402,F401,F403
workdir = tempfile.mkdtemp(prefix="c19-pre-")
problems = []

schema = Schema()
schema.ports = ListField(IntField())  # default None
schema.labels = DictField(StringField(), StringField())  # default None
schema.sub.names = ListField(StringField(), default=lambda: ["x"])
for fmt in ("json", "yaml", "xml", "bson", "pickle"):
    cfg = schema()
    cfg.sub.names = None  # deliberately cleared
    path = os.path.join(workdir, "a." + fmt)
    cfg.save(path, fmt)
    back = schema()
    back.load(path, fmt)
    for key in ("ports", "labels", "sub.names"):
        if cfg[key] != back[key]:
            problems.append("%s: %s saved %r, loaded %r" % (fmt, key, cfg[key], back[key]))

if problems:
    print("C19 violated on the unchanged tree: a successfully saved file does not load back equal")
    for line in problems:
        print("  -", line)
    sys.exit(1)
print("ok")
sys.exit(0)

