"""
C10 on the UNCHANGED library: configurations held in a TUPLE by an untyped field (AnyField, an
untyped ListField()/DictField(), a dynamic key) -- directly, or in a tuple below a list or dict --
are not rendered by Config.to_tree(sensitive_mask=...): the tree keeps the Config objects, and the
formats that can write Python objects (yaml, pickle) then write the whole object, stored sensitive
value included, into a document that was asked for with a mask.  (json / bson / xml refuse the tree
with an error; the same configurations in a list instead of a tuple are masked correctly.)
"""
import os
import sys
import tempfile

os.environ["HOME"] = tempfile.mkdtemp(prefix="c10-home-")
sys.path.insert(0, os.getcwd())

from cincoconfig import AnyField, Config, Schema, StringField  # noqa: E402

SECRET = "hunter2-sensitive-value"

account = Schema()
account.user = StringField(default="bob")
account.password = StringField(sensitive=True)

root = Schema()
root.name = StringField(default="svc")
root.accounts = AnyField()


def make():
    item = account()
    item.password = SECRET
    return item


def leftovers(value, path="tree"):
    if isinstance(value, Config):
        yield path
    elif isinstance(value, dict):
        for key, item in value.items():
            yield from leftovers(item, "%s[%r]" % (path, key))
    elif isinstance(value, (list, tuple)):
        for idx, item in enumerate(value):
            yield from leftovers(item, "%s[%d]" % (path, idx))


problems = []
shapes = {
    "(cfg,)": lambda: (make(),),
    "[(cfg,)]": lambda: [(make(),)],
    "{'eu': (cfg,)}": lambda: {"eu": (make(),)},
}
for label, build in shapes.items():
    cfg = root()
    cfg.accounts = build()
    for mask in ("*", "<hidden>", ""):
        tree = cfg.to_tree(sensitive_mask=mask)
        for where in leftovers(tree):
            problems.append(
                "accounts = %s, mask %r: to_tree left an unrendered configuration at %s"
                % (label, mask, where)
            )
        for fmt in ("yaml", "pickle"):
            try:
                doc = cfg.dumps(fmt, sensitive_mask=mask)
            except Exception as err:  # the format is not installed or refuses the tree
                continue
            if SECRET.encode() in doc:
                problems.append(
                    "accounts = %s, mask %r: the %s document contains the sensitive value in clear"
                    % (label, mask, fmt)
                )

# control: a list of the same configurations is masked
cfg = root()
cfg.accounts = [make()]
assert cfg.to_tree(sensitive_mask="*")["accounts"][0]["password"] == "*" * len(SECRET)

if problems:
    print("C10 VIOLATED on the unchanged tree (%d):" % len(problems))
    for line in problems[:9]:
        print("  " + line)
    sys.exit(1)
print("ok")
sys.exit(0)
