"""
Pre-existing (unchanged tree): string fields that canonicalise AFTER the inherited StringField
checks can return a value that violates those same checks, so validating an accepted result again
rejects it (C05: "validating an accepted result again returns an equal value and never rejects it").

FilenameField(startdir=..., max_len=N): max_len is checked on the relative name, the absolute
path is returned.  IPv4NetworkField(min_len= / regex= / choices=): checked on the netmask
spelling, the /prefix spelling is returned.
"""
import os
import sys
import tempfile

os.environ["HOME"] = tempfile.mkdtemp(prefix="c05-pre1-home-")
sys.path.insert(0, os.getcwd())

from cincoconfig import FilenameField, IPv4NetworkField  # noqa: E402


class MockConfig:
    def __init__(self):
        self._data = {}


problems = []
startdir = tempfile.mkdtemp(prefix="c05-pre1-start-")
CASES = [
    ("FilenameField(startdir=<tmp>, max_len=10)", FilenameField(startdir=startdir, max_len=10), "a.txt"),
    ("FilenameField(startdir=<tmp>, regex='^[a-z.]+$')",
     FilenameField(startdir=startdir, regex=r"^[a-z.]+$"), "a.txt"),
    ("IPv4NetworkField(min_len=12)", IPv4NetworkField(min_len=12), "10.0.0.0/255.0.0.0"),
    ("IPv4NetworkField(choices=['10.0.0.0/255.0.0.0'])",
     IPv4NetworkField(choices=["10.0.0.0/255.0.0.0"]), "10.0.0.0/255.0.0.0"),
]
for label, field, text in CASES:
    first = field.validate(MockConfig(), text)
    try:
        second = field.validate(MockConfig(), first)
    except ValueError as exc:
        problems.append("%s: validate(%r) -> %r, validating that again is rejected: %s"
                        % (label, text, first, exc))
    else:
        if second != first:
            problems.append("%s: %r -> %r -> %r" % (label, text, first, second))

if problems:
    print("C05 violated on the unchanged tree: a field rejects the value it has just returned")
    for p in problems:
        print("  -", p)
    sys.exit(1)
print("ok")
sys.exit(0)
