"""Pre-existing (unchanged tree, borderline w.r.t. the quantifier): the off switch of a boolean
field x is --no-x, which is also the option of a field whose key is no_x.  The two PATHS do not
collide after the '.'/'_' -> '-' mapping (x -> --x, no_x -> --no-x), yet generate_argparse_parser
raises argparse.ArgumentError instead of producing a parser."""
import os
import sys
import tempfile

os.environ["HOME"] = tempfile.mkdtemp(prefix="c16-home-")
sys.path.insert(0, os.getcwd())

from cincoconfig import BoolField, Schema, StringField, generate_argparse_parser  # noqa: E402

schema = Schema()
schema.cache = BoolField(default=True)
schema.no_cache = StringField(default="reason")  # e.g. "why the cache is off"

try:
    generate_argparse_parser(schema, prog="demo")
except Exception as exc:  # noqa: BLE001
    print("C16 VIOLATED on the unchanged tree: no parser for fields 'cache' (bool) and 'no_cache':")
    print("  - %s: %s" % (type(exc).__name__, exc))
    sys.exit(1)
print("ok")
sys.exit(0)
