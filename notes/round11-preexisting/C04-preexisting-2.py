"""C04, unchanged library: format 'xml' and keys that are XML Names containing a colon.  The property's
XML domain is "keys that are XML names"; by the XML 1.0 Name production ':' is a name character, so
'a:b' and 'xml:lang' are names.  XmlConfigFormat writes them as tags verbatim and then
 * its own pretty printer (minidom.parseString in _prettify) or loads (ElementTree.fromstring), both
   namespace-aware, refuse the document with 'unbound prefix' -- the tree cannot be encoded at all; or
 * for the always-bound prefix 'xml' the document is written, and decoded with the key rewritten to
   '{http://www.w3.org/XML/1998/namespace}lang'.
The same happens for root_tag='a:b'.  (If the intended domain is NCNames -- names without a colon --
this is a gap in the property's wording rather than in the code; nothing in xml.py checks either.)"""
import os
import sys
import tempfile

os.environ["HOME"] = tempfile.mkdtemp(prefix="c04-home-")
sys.path.insert(0, os.getcwd())

from cincoconfig.core import ConfigFormat  # noqa: E402

CASES = [
    ({}, {"x": 1}),
    ({}, {"xml:lang": "en"}),
    ({}, {"a": {"xml:space": 1}}),
    ({}, {"a:b": 1}),
    ({"root_tag": "a:b"}, {"x": 1}),
]
failures = []
for opts, tree in CASES:
    fmt = ConfigFormat.get("xml", **opts)
    try:
        back = fmt.loads(None, fmt.dumps(None, tree))
    except Exception as exc:  # pylint: disable=broad-except
        failures.append("xml %r: %r raised %r" % (opts, tree, exc))
        continue
    if back != tree:
        failures.append("xml %r: encoded %r, decoded %r" % (opts, tree, back))

if failures:
    print("C04 violated on the unchanged tree:")
    for line in failures:
        print("  " + line)
    sys.exit(1)
print("ok")
sys.exit(0)
