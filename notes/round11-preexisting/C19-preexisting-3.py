"""Pre-existing (unchanged tree), borderline / documented design: a configuration that was loaded
through an IncludeField, then changed and saved, does not load back equal - on load the include file
is merged OVER the saved document, so a saved value that differs from the fragment is lost."""
import json
import os
import sys
import tempfile

os.environ["HOME"] = tempfile.mkdtemp(prefix="c19home")
sys.path.insert(0, os.getcwd())

from cincoconfig import IncludeField, IntField, Schema  # noqa: E402

schema = Schema()
schema.include = IncludeField()
schema.workers = IntField(default=1)

workdir = tempfile.mkdtemp(prefix="c19demo")
site, main = os.path.join(workdir, "site.json"), os.path.join(workdir, "main.json")
json.dump({"workers": 4}, open(site, "w"))
json.dump({"include": site}, open(main, "w"))

cfg = schema()
cfg.load(main, "json")
cfg.workers = 16  # the application changes the value and saves
cfg.save(main, "json")

loaded = schema()
loaded.load(main, "json")
if loaded.workers != cfg.workers:
    print("C19 VIOLATED: saved workers=%r (file says %r), loaded workers=%r" % (
        cfg.workers, json.load(open(main))["workers"], loaded.workers))
    sys.exit(1)
print("ok")
sys.exit(0)
