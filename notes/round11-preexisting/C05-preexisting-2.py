"""
Pre-existing (unchanged tree): NumberField and the non-finite floats.

* FloatField(min=0, max=1) accepts 'nan' / float('nan') although NaN is not within [0, 1]
  (both comparisons with NaN are false, so neither bound fires) -- validation does not accept
  exactly the values that meet the declared bounds, and the accepted result is not equal to
  itself when validated again.
* IntField().validate(float('inf')) raises OverflowError out of Field.validate instead of the
  ValueError every other unconvertible value gets (Config assignment wraps it, a direct caller of
  Field.validate -- ListField items, custom validators -- sees a different exception type).
"""
import os
import sys
import tempfile

os.environ["HOME"] = tempfile.mkdtemp(prefix="c05-pre2-home-")
sys.path.insert(0, os.getcwd())

from cincoconfig import Schema, FloatField, IntField  # noqa: E402


class MockConfig:
    def __init__(self):
        self._data = {}


problems = []
bounded = FloatField(min=0, max=1)
for value in ("nan", "NaN", float("nan"), "-nan"):
    try:
        got = bounded.validate(MockConfig(), value)
    except ValueError:
        continue
    problems.append("FloatField(min=0, max=1).validate(%r) accepted, returned %r (0 <= x <= 1 is %s)"
                    % (value, got, 0 <= got <= 1))

schema = Schema()
schema.ratio = FloatField(min=0, max=1, default=0.5)
cfg = schema()
try:
    cfg.ratio = "nan"
except Exception:
    pass
else:
    problems.append("cfg.ratio = 'nan' accepted by FloatField(min=0, max=1); cfg.ratio is now %r" % cfg.ratio)

for value in (float("inf"), float("-inf")):
    try:
        IntField().validate(MockConfig(), value)
    except ValueError:
        pass
    except Exception as exc:
        problems.append("IntField().validate(%r) raised %s instead of ValueError: %s"
                        % (value, type(exc).__name__, exc))

if problems:
    print("C05 violated on the unchanged tree: number fields and non-finite floats")
    for p in problems:
        print("  -", p)
    sys.exit(1)
print("ok")
sys.exit(0)
