"""UNCHANGED tree: ApplicationModeField.HELPER_MODE_PATTERN ends in '$', which also matches
before a trailing newline: the mode name 'prod\\n' passes the 'must be a valid variable name'
check, a helper field 'is_prod\\n_mode' is registered and the stub is not valid Python.
(The host name patterns were moved to \\Z in 9e63ec7, this one was not.)"""
import os
import sys
import tempfile

os.environ["HOME"] = tempfile.mkdtemp(prefix="c20-home-")
sys.path.insert(0, os.getcwd())

import ast  # noqa: E402

from cincoconfig import ApplicationModeField, Schema, generate_stub  # noqa: E402

schema = Schema()
try:
    schema.mode = ApplicationModeField(modes=["dev", "prod\n"], default="dev")
except TypeError as exc:
    print("refused: %s -- ok" % exc)
    sys.exit(0)
stub = generate_stub(schema, "S")
try:
    ast.parse(stub)
except SyntaxError as exc:
    print("FAILURE (unchanged library): mode name %r accepted, fields %r, stub invalid: %s\n%s"
          % ("prod\n", list(schema._fields), exc, stub))
    sys.exit(1)
print("ok")
