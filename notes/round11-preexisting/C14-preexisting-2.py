"""Observed on the UNCHANGED tree (C14, dynamic schema with an environment prefix): a field created
on the fly (first load or assignment of an unknown key) gets an automatic variable name. If that
variable happens to be set, the value is NOT the variable (the field did not exist at build time,
the first document wins), and from then on every later document value for the key is silently
skipped because load_tree sees 'its variable is set'. So the field is neither fed from the
variable nor from documents."""
import os
import sys
import tempfile

os.environ["HOME"] = tempfile.mkdtemp(prefix="c14-home-")
sys.path.insert(0, os.getcwd())

from cincoconfig import IntField, Schema  # noqa: E402

os.environ["COLOR"] = "red"
schema = Schema(env=True, dynamic=True)
schema.size = IntField(default=1)
cfg = schema()
cfg.load_tree({"color": "blue"})
first = cfg.color
bound = cfg._fields["color"].env
cfg.load_tree({"color": "green"})
second = cfg.color
print("dynamic field 'color' is bound to %r (set to %r)" % (bound, os.environ["COLOR"]))
print("after first load : %r" % (first,))
print("after second load: %r" % (second,))
if bound == "COLOR" and (first != "red" and second != "green"):
    print("C14: the field bound to a set variable holds neither the variable nor the latest "
          "document value: the first document beat the variable, the second was skipped")
    sys.exit(1)
sys.exit(0)
