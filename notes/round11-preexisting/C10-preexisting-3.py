"""
C10 on the UNCHANGED library (borderline): a key a dynamic configuration made up for itself
(cfg.token = ...) shadows a field the schema declares LATER under the same name: to_tree takes the
configuration's own AnyField, so the value stays in clear although schema.token is sensitive.
"""
import os
import sys
import tempfile

os.environ["HOME"] = tempfile.mkdtemp(prefix="c10-home-")
sys.path.insert(0, os.getcwd())

from cincoconfig import Schema, StringField  # noqa: E402

schema = Schema(dynamic=True)
schema.name = StringField(default="svc")
cfg = schema()
cfg.token = "abc123-secret"  # dynamic key
schema.token = StringField(sensitive=True)  # declared afterwards, sensitive

tree = cfg.to_tree(sensitive_mask="*")
doc = cfg.dumps("json", sensitive_mask="*")
if tree.get("token") == "abc123-secret" or b"abc123-secret" in doc:
    print("C10 VIOLATED on the unchanged tree: schema.token is sensitive, rendered %r" % (tree,))
    sys.exit(1)
print("ok")
sys.exit(0)
