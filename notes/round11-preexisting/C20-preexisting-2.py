"""UNCHANGED tree: generate_stub raises instead of returning a stub for legitimate
parameter annotations (TypeVar / AnyStr, NewType, LiteralString) and for an
instance method wrapped by functools.lru_cache."""
import os
import sys
import tempfile

os.environ["HOME"] = tempfile.mkdtemp(prefix="c20-home-")
sys.path.insert(0, os.getcwd())

import ast  # noqa: E402
import functools  # noqa: E402
import typing  # noqa: E402

from cincoconfig import InstanceMethodField, Schema, generate_stub  # noqa: E402

T = typing.TypeVar("T")
UserId = typing.NewType("UserId", int)


def typevar(cfg, item: T) -> T:
    return item


def anystr(cfg, text: typing.AnyStr) -> typing.AnyStr:
    return text


def newtype(cfg, uid: UserId) -> bool:
    return True


def literalstring(cfg, sql: typing.LiteralString) -> None:
    return None


@functools.lru_cache(maxsize=None)
def cached(cfg, n: int) -> int:
    return n * 2


failures = []
for label, method in (
    ("parameter annotated with a TypeVar", typevar),
    ("parameter annotated with typing.AnyStr", anystr),
    ("parameter annotated with a NewType", newtype),
    ("parameter annotated with typing.LiteralString", literalstring),
    ("functools.lru_cache-wrapped method", cached),
):
    schema = Schema()
    schema.m = InstanceMethodField(method=method)
    try:
        ast.parse(generate_stub(schema, "S"))
        print("%s: ok" % label)
    except Exception as exc:  # noqa: BLE001
        failures.append("%s: %s: %s" % (label, type(exc).__name__, exc))

if failures:
    print("FAILURES (unchanged library):")
    for failure in failures:
        print(" - " + failure)
    sys.exit(1)
