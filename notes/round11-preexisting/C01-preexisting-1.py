import os
import sys
import tempfile

os.environ["HOME"] = tempfile.mkdtemp(prefix="c01-home-")
sys.path.insert(0, os.getcwd())

from cincoconfig import FloatField, ListField, Schema  # noqa: E402

# A FloatField with bounds accepts NaN: both bound tests are written as "reject when num < min" /
# "reject when num > max", and every comparison with NaN is False, so NaN passes both.  The held
# value then does not satisfy min <= value <= max.
schema = Schema()
schema.sampling.ratio = FloatField(min=0.0, max=1.0, default=0.5)
schema.sampling.weights = ListField(FloatField(min=0.0), default=lambda: [])

cfg = schema()
problems = []
for label, action in (
    ("ratio = float('nan')", lambda: setattr(cfg.sampling, "ratio", float("nan"))),
    ("ratio = 'nan' (text)", lambda: setattr(cfg.sampling, "ratio", "nan")),
    ("weights.append('NaN')", lambda: cfg.sampling.weights.append("NaN")),
    ("load_tree ratio='-nan'", lambda: cfg.load_tree({"sampling": {"ratio": "-nan"}})),
):
    try:
        action()
    except ValueError:
        pass
    v = cfg.sampling.ratio
    if v is not None and not (0.0 <= v <= 1.0):
        problems.append("after %s: sampling.ratio (min=0.0, max=1.0) holds %r" % (label, v))
    for i, w in enumerate(cfg.sampling.weights):
        if not w >= 0.0:
            problems.append("after %s: sampling.weights[%d] (min=0.0) holds %r" % (label, i, w))
    cfg = schema()

if problems:
    for line in problems:
        print("C01 VIOLATED (unchanged tree):", line)
    sys.exit(1)
print("ok")
sys.exit(0)
