"""Observed on the UNCHANGED tree (C14, 'assignment beats both'): an explicit assignment to a field
of a SUB-configuration is undone by a later load whose document does not even mention the field -
load_tree() rebuilds the sub-configuration from the schema, which re-reads the environment variable.
At top level the same history keeps the assigned value."""
import os
import sys
import tempfile

os.environ["HOME"] = tempfile.mkdtemp(prefix="c14-home-")
sys.path.insert(0, os.getcwd())

from cincoconfig import IntField, Schema  # noqa: E402

os.environ["APP_X"] = "1"
os.environ["APP_SUB_X"] = "1"
schema = Schema(env="APP")
schema.x = IntField(default=0)
schema.y = IntField(default=0)
schema.sub.x = IntField(default=0)
schema.sub.y = IntField(default=0)
cfg = schema()
assert (cfg.x, cfg.sub.x) == (1, 1)
cfg.x = 5
cfg.sub.x = 5          # explicit assignment beats the variable
assert (cfg.x, cfg.sub.x) == (5, 5)
cfg.load_tree({"y": 2, "sub": {"y": 2}})   # the document mentions neither x
print("top level : x =", cfg.x, "(assigned 5, APP_X=1)")
print("sub level : sub.x =", cfg.sub.x, "(assigned 5, APP_SUB_X=1)")
if cfg.x != 5 or cfg.sub.x != 5:
    print("C14: the assignment was undone by a load that does not mention the field; "
          "the environment variable is back")
    sys.exit(1)
sys.exit(0)
