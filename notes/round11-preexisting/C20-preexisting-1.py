"""UNCHANGED tree: method stubs do not have the parameter names / kinds of the bound function
for (a) methods behind a functools.wraps decorator, (b) methods written as (*args, **kwargs),
(c) bound methods / callable objects used as instance methods."""
import os
import sys
import tempfile

os.environ["HOME"] = tempfile.mkdtemp(prefix="c20-home-")
sys.path.insert(0, os.getcwd())

import ast  # noqa: E402
import functools  # noqa: E402
import inspect  # noqa: E402

from cincoconfig import InstanceMethodField, Schema, generate_stub  # noqa: E402


def logged(func):
    @functools.wraps(func)
    def wrapper(*args, **kwargs):
        return func(*args, **kwargs)

    return wrapper


@logged
def decorated(cfg, x: int, *, y: str = "a") -> int:
    return x


def star(*args, **kwargs):
    return args[1:]


class Helper:
    def run(self, cfg, x: int = 3) -> int:
        return x


KINDS = {
    inspect.Parameter.POSITIONAL_ONLY: "posonly",
    inspect.Parameter.POSITIONAL_OR_KEYWORD: "pos",
    inspect.Parameter.VAR_POSITIONAL: "*",
    inspect.Parameter.KEYWORD_ONLY: "kwonly",
    inspect.Parameter.VAR_KEYWORD: "**",
}

failures = []
for label, method, call in (
    ("functools.wraps-decorated", decorated, lambda c: c.m(5, y="b")),
    ("(*args, **kwargs)", star, lambda c: c.m(1, 2)),
    ("bound method of a helper object", Helper().run, lambda c: c.m(4)),
):
    schema = Schema()
    schema.m = InstanceMethodField(method=method)
    config = schema()
    call(config)  # the call works

    params = list(inspect.signature(config.m).parameters.values())
    if params and params[0].kind in (
        inspect.Parameter.POSITIONAL_ONLY,
        inspect.Parameter.POSITIONAL_OR_KEYWORD,
    ):
        params = params[1:]  # the configuration
    expected = [(KINDS[p.kind], p.name) for p in params]

    stub = generate_stub(schema, "S")
    func = [n for n in ast.parse(stub).body[0].body if isinstance(n, ast.FunctionDef) and n.name == "m"][0]
    a = func.args
    got = [("posonly", x.arg) for x in a.posonlyargs] + [("pos", x.arg) for x in a.args]
    got = got[1:]  # self
    if a.vararg:
        got.append(("*", a.vararg.arg))
    got += [("kwonly", x.arg) for x in a.kwonlyargs]
    if a.kwarg:
        got.append(("**", a.kwarg.arg))

    line = [ln for ln in stub.splitlines() if "def m(" in ln][0].strip()
    if got != expected:
        failures.append("%s: stub %r declares %r, the bound function takes %r" % (label, line, got, expected))
    else:
        print("%s: ok (%s)" % (label, line))

if failures:
    print("FAILURES (unchanged library):")
    for failure in failures:
        print(" - " + failure)
    sys.exit(1)
