"""Pre-existing (unchanged tree): a field whose identifier key is also the name of a Config
method / property (load, save, validate, dumps, to_tree, ...) is shadowed on chained attribute
access: config[path] gives the stored value, config.<path> gives the bound method."""
import os
import sys
import tempfile

os.environ["HOME"] = tempfile.mkdtemp(prefix="c16-home-")
sys.path.insert(0, os.getcwd())

from functools import reduce

from cincoconfig import IntField, Schema, StringField, get_all_fields  # noqa: E402

schema = Schema()
schema.load = IntField(default=5)
schema.sub.save = StringField(default="v")
schema.sub.deep.validate = IntField(default=3)
config = schema()

problems = []
for path, _, field in get_all_fields(schema):
    if isinstance(field, Schema):
        continue
    by_path = config[path]
    chained = reduce(getattr, path.split("."), config)
    if by_path != chained:
        problems.append("config[%r] = %r but chained attribute access = %r" % (path, by_path, chained))

if problems:
    print("C16 VIOLATED on the unchanged tree:")
    for line in problems:
        print("  -", line)
    sys.exit(1)
print("ok")
sys.exit(0)
