"""
C10 on the UNCHANGED library (borderline): a SENSITIVE untyped field (AnyField / a sensitive
VirtualField) whose value is ONE configuration is not masked: to_tree recurses into it and shows
its non-sensitive values, while a list or a dict of the same configurations in the same field is
replaced by the mask as a whole (fix 9094655).  The field is marked sensitive, its value appears.
"""
import os
import sys
import tempfile

os.environ["HOME"] = tempfile.mkdtemp(prefix="c10-home-")
sys.path.insert(0, os.getcwd())

from cincoconfig import AnyField, Schema, StringField, VirtualField  # noqa: E402

account = Schema()
account.user = StringField(default="confidential-user-name")
account.password = StringField(sensitive=True)

root = Schema()
root.owner = AnyField(sensitive=True)
root.mirror = VirtualField(lambda cfg: cfg.owner, sensitive=True)

cfg = root()
one = account()
one.password = "pw"
problems = []
for label, value in (("one configuration", one), ("[configuration]", [one]), ("{'k': configuration}", {"k": one})):
    cfg.owner = value
    for mask in ("*", "<hidden>"):
        text = repr(cfg.to_tree(virtual=True, sensitive_mask=mask))
        if "confidential-user-name" in text:
            problems.append("sensitive field = %s, mask %r: rendered as %s" % (label, mask, text))

if problems:
    print("C10 VIOLATED on the unchanged tree (%d):" % len(problems))
    for line in problems:
        print("  " + line)
    sys.exit(1)
print("ok")
sys.exit(0)
