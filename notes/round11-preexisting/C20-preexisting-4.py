"""UNCHANGED tree: stubs.py partitions on the concrete classes VirtualField /
InstanceMethodField, the rest of the library on the mixins. A field an application
flags as virtual with core.VirtualFieldMixin (never validated, left out of to_tree) is
declared as a constructor parameter, i.e. as a persistent field."""
import os
import sys
import tempfile

os.environ["HOME"] = tempfile.mkdtemp(prefix="c20-home-")
sys.path.insert(0, os.getcwd())

import ast  # noqa: E402

from cincoconfig import Field, IntField, Schema, generate_stub  # noqa: E402
from cincoconfig.core import VirtualFieldMixin  # noqa: E402


class Doubled(Field, VirtualFieldMixin):
    storage_type = int

    def __setdefault__(self, cfg):
        pass

    def __getval__(self, cfg):
        return cfg.base * 2


schema = Schema()
schema.base = IntField(default=2)
schema.doubled = Doubled()
config = schema()
assert config.doubled == 4
assert "doubled" not in config.to_tree()  # the library treats it as virtual

stub = generate_stub(schema, "S")
cls = ast.parse(stub).body[0]
init = [n for n in cls.body if isinstance(n, ast.FunctionDef) and n.name == "__init__"][0]
params = [a.arg for a in init.args.args][1:]
if params != ["base"]:
    print("FAILURE (unchanged library): __init__ parameters %r, persistent fields ['base']\n%s" % (params, stub))
    sys.exit(1)
print("ok")
