"""Pre-existing (unchanged tree): Config.save(..., virtual=True) (save forwards its keyword arguments
to dumps, which documents `virtual`) writes the virtual fields into the file; loading that file
tries to assign them and fails with 'field is readonly' (or, with a setter, runs the setter)."""
import os
import sys
import tempfile

os.environ["HOME"] = tempfile.mkdtemp(prefix="c19home")
sys.path.insert(0, os.getcwd())

from cincoconfig import ApplicationModeField, IntField, Schema, VirtualField  # noqa: E402

problems = []
workdir = tempfile.mkdtemp(prefix="c19demo")

# (a) an explicit virtual field
schema = Schema()
schema.width = IntField(default=2)
schema.area = VirtualField(lambda cfg: cfg.width * cfg.width)
# (b) the helpers ApplicationModeField adds by itself
schema2 = Schema()
schema2.mode = ApplicationModeField(default="production")

for name, sch in (("virtual", schema), ("appmode", schema2)):
    for fmt in ("json", "yaml"):
        path = os.path.join(workdir, "%s.%s" % (name, fmt))
        sch().save(path, fmt)  # previous good file, loads fine
        sch().load(path, fmt)
        cfg = sch()
        cfg.save(path, fmt, virtual=True)
        loaded = sch()
        try:
            loaded.load(path, fmt)
        except Exception as err:
            problems.append("%s/%s: file written by save(virtual=True) does not load: %s: %s" % (name, fmt, type(err).__name__, err))
            continue
        if loaded.to_tree() != cfg.to_tree():
            problems.append("%s/%s: saved %r loaded %r" % (name, fmt, cfg.to_tree(), loaded.to_tree()))

if problems:
    print("C19 VIOLATED")
    for line in problems:
        print(" -", line)
    sys.exit(1)
print("ok")
sys.exit(0)
