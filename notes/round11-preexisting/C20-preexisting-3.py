"""UNCHANGED tree: the stub is not valid Python for (a) a method annotation
Literal[<enum member>] (PEP 586 allows enum members) and (b) field keys that are
identifier-shaped but reserved words ('from', 'class', 'global', 'pass' ...), which
schema['from'] = ... / setattr accept and configurations load and save fine."""
import os
import sys
import tempfile

os.environ["HOME"] = tempfile.mkdtemp(prefix="c20-home-")
sys.path.insert(0, os.getcwd())

import ast  # noqa: E402
import enum  # noqa: E402
import typing  # noqa: E402

from cincoconfig import InstanceMethodField, IntField, Schema, StringField, generate_stub  # noqa: E402


class Mode(enum.Enum):
    A = 1
    B = 2


def switch(cfg, mode: typing.Literal[Mode.A, Mode.B]) -> None:
    return None


failures = []

schema = Schema()
schema.switch = InstanceMethodField(method=switch)
stub = generate_stub(schema, "S")
try:
    ast.parse(stub)
except SyntaxError as exc:
    failures.append("Literal[enum member] annotation: %s\n%s" % (exc, stub))

mail = Schema()
mail["from"] = StringField(default="a@example.org")
mail["to"] = StringField(default="b@example.org")
mail["class"] = IntField(default=1)
config = mail()
assert config["from"] == "a@example.org" and config.to_tree()["class"] == 1
stub = generate_stub(mail, "Mail")
try:
    ast.parse(stub)
except SyntaxError as exc:
    failures.append("field keys 'from' / 'class': %s\n%s" % (exc, stub))

if failures:
    print("FAILURES (unchanged library):")
    for failure in failures:
        print(" - " + failure)
    sys.exit(1)
print("ok")
