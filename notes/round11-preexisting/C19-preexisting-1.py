"""Pre-existing (unchanged tree): HostnameField(allow_ipv4=False, resolve=True) stores the resolved
IPv4 address, which the same field refuses; the configuration is saved fine and the file does not
load back."""
import os
import socket
import sys
import tempfile

os.environ["HOME"] = tempfile.mkdtemp(prefix="c19home")
sys.path.insert(0, os.getcwd())

from cincoconfig import HostnameField, IntField, Schema  # noqa: E402

try:
    socket.gethostbyname("localhost")
except OSError:
    print("skip: 'localhost' does not resolve here")
    sys.exit(0)

schema = Schema()
schema.port = IntField(default=8080)
schema.host = HostnameField(allow_ipv4=False, resolve=True, default=None)

path = os.path.join(tempfile.mkdtemp(prefix="c19demo"), "config.json")
schema().save(path, "json")  # previous good file

cfg = schema()
cfg.host = "localhost"  # a host name, as allow_ipv4=False demands
print("assigned 'localhost', the configuration holds %r" % cfg.host)
cfg.save(path, "json")
print("saved:", open(path).read().replace("\n", " "))

loaded = schema()
try:
    loaded.load(path, "json")
except Exception as err:
    print("C19 VIOLATED: the file written by a successful save does not load: %s: %s" % (type(err).__name__, err))
    sys.exit(1)
if loaded.host != cfg.host:
    print("C19 VIOLATED: saved %r, loaded %r" % (cfg.host, loaded.host))
    sys.exit(1)
print("ok")
sys.exit(0)
