"""Pre-existing (unchanged tree): a configuration whose IncludeField is set does not reproduce
itself on save + load when a value differs from what the included file says - the saved document
carries the include field AND the full tree, and on load the included file is merged over the tree
("values defined in the included file overwrite values in the base tree")."""
import json
import os
import sys
import tempfile

os.environ["HOME"] = tempfile.mkdtemp(prefix="c02home")
sys.path.insert(0, os.getcwd())

import cincoconfig  # noqa: E402
from cincoconfig import Schema, IncludeField, IntField, StringField, asdict  # noqa: E402


def main():
    workdir = tempfile.mkdtemp(prefix="c02inc")
    schema = Schema()
    schema.include = IncludeField()
    schema.db.host = StringField(default="localhost")
    schema.db.port = IntField(default=5432)

    frag = os.path.join(workdir, "db.json")
    with open(frag, "w") as fp:
        json.dump({"db": {"port": 6000}}, fp)

    # the ordinary history: load a document that includes db.json, then change a setting
    cfg = schema()
    cfg.loads(json.dumps({"include": frag, "db": {"host": "db1"}}), format="json")
    assert cfg.db.port == 6000
    cfg.db.port = 7000
    cfg.validate()
    before = asdict(cfg)

    main_path = os.path.join(workdir, "main.json")
    cfg.save(main_path, format="json")
    fresh = schema()
    fresh.load(main_path, format="json")
    after = asdict(fresh)

    if after != before:
        print("C02 violated on the unchanged tree (include field set, value changed afterwards):")
        print("  saved     %r" % (before,))
        print("  re-loaded %r" % (after,))
        return 1
    print("ok", before)
    return 0


if __name__ == "__main__":
    sys.exit(main())
