"""C04, unchanged library: format 'bson' does not decode what it encodes when any map of the tree has
the key "$$__CLASS_NAME__$$".  The bson package uses that element name as its marker for serialized
BSONCoding objects: the document is written without complaint, and on decode the map is handed to
bson.codec.decode_object, which raises MissingClassDefinition (or, if the application has registered
a class of that name with bson.import_class, builds an instance of it from the configuration data).
The key is an ordinary string and the tree is inside BSON's domain; JSON, YAML and pickle round-trip
it.  BsonConfigFormat is a bare pass-through to bson.dumps / bson.loads, so nothing stops it."""
import os
import sys
import tempfile

os.environ["HOME"] = tempfile.mkdtemp(prefix="c04-home-")
sys.path.insert(0, os.getcwd())

from cincoconfig.core import ConfigFormat  # noqa: E402

TREES = [
    {"x": 1},
    {"$$__CLASS_NAME__$$": "Server"},
    {"plugins": [{"opts": {"$$__CLASS_NAME__$$": "x", "level": 3}}]},
]
failures = []
for tree in TREES:
    for name in ("json", "yaml", "pickle", "bson"):
        fmt = ConfigFormat.get(name)
        try:
            back = fmt.loads(None, fmt.dumps(None, tree))
        except Exception as exc:  # pylint: disable=broad-except
            failures.append("%s: %r encoded, decode raised %r" % (name, tree, exc))
            continue
        if back != tree:
            failures.append("%s: encoded %r, decoded %r" % (name, tree, back))

if failures:
    print("C04 violated on the unchanged tree:")
    for line in failures:
        print("  " + line)
    sys.exit(1)
print("ok")
sys.exit(0)
