"""Unchanged library: a rejected include file inside a config-type sub-configuration is reported
with the bare field key, not the full path from the root (a plain nested schema gets it right)."""
import json
import os
import sys
import tempfile

os.environ["HOME"] = tempfile.mkdtemp()
sys.path.insert(0, os.getcwd())

from cincoconfig import IncludeField, IntField, Schema, make_type  # noqa: E402
from cincoconfig.core import ValidationError  # noqa: E402

srv = Schema()
srv.inc = IncludeField()
srv.port = IntField()
Srv = make_type(srv, "Srv")

root = Schema()
root.x.typed = Srv  # config type
root.x.plain.inc = IncludeField()  # plain nested schema, for comparison
root.x.plain.port = IntField()

bad = []
for key in ("plain", "typed"):
    cfg = root()
    doc = json.dumps({"x": {key: {"inc": "/nonexistent/dir/file.json"}}})
    expected = "x.%s.inc" % key
    try:
        cfg.loads(doc, "json")
    except ValidationError as err:
        if err.ref_path != expected:
            bad.append("%s: reported as %r (text %r)" % (expected, err.ref_path, str(err)))
    except Exception as err:  # pylint: disable=broad-except
        bad.append("%s: escaped as %s(%s)" % (expected, type(err).__name__, err))
    else:
        bad.append("%s: not rejected" % expected)

if bad:
    print("pre-existing C15 violation (include field inside a config type):")
    for line in bad:
        print("  -", line)
    sys.exit(1)
print("ok")
