"""Unchanged library: a field whose (identifier) key is also the name of a Config method or
property -- load, save, validate, dumps, loads, to_tree, load_tree, full_path -- is readable by
dotted path but chained attribute access returns the bound method instead of the value."""
import os
import sys
import tempfile

os.environ["HOME"] = tempfile.mkdtemp(prefix="c16-home-")
sys.path.insert(0, os.getcwd())

from cincoconfig import BoolField, Schema, StringField, get_all_fields  # noqa: E402

schema = Schema()
schema.db.load = BoolField(default=False)
schema.db.validate = StringField(default="strict")
schema.db.name = StringField(default="main")
config = schema()
config["db.load"] = True  # dotted-path assignment works and is validated

bad = []
for path, _, field in get_all_fields(schema):
    if isinstance(field, Schema):
        continue
    chained = config
    for part in path.split("."):
        chained = getattr(chained, part)
    if chained != config[path]:
        bad.append("config[%r] = %r but chained attribute access gives %r" % (path, config[path], chained))

if bad:
    print("C16 (pre-existing): dotted-path lookup and chained attribute access disagree:")
    for line in bad:
        print("  " + line)
    sys.exit(1)
print("ok")
