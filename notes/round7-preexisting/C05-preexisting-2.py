"""Pre-existing: typed ListField / DictField accept None (not required) but decode the on-disk null to an empty container."""
import os, sys, tempfile
os.environ["HOME"] = tempfile.mkdtemp(prefix="c05-pre-home-")
sys.path.insert(0, os.getcwd())
from cincoconfig import Schema
from cincoconfig.fields import *  # noqa: F401,F403
problems = []
def roundtrip(cfg, field, name, value):
    accepted = field.validate(cfg, value)
    basic = field.to_basic(cfg, accepted)
    back = field.to_python(cfg, basic)
    if back != accepted:
        problems.append("%s: accepted %r, on disk %r, read back %r" % (name, accepted, basic, back))
def finish(title):
    if problems:
        print("C05 violated on the unchanged tree: " + title)
        for line in problems:
            print("  - " + line)
        sys.exit(1)
    print("ok")
    sys.exit(0)

schema = Schema()
schema.items = ListField(IntField())
schema.table = DictField(StringField(), IntField())
cfg = schema()
roundtrip(cfg, schema.items, "ListField(IntField())", None)
roundtrip(cfg, schema.table, "DictField(StringField(), IntField())", None)
finish("the accepted value None of a typed list/dict field reads back as [] / {}")
