"""Unchanged library: after `cfg.items = cfg.items + [...]` (or .copy()) the adopted items still
point at the old list, so a later rejection names a stale item index."""
import os
import sys
import tempfile

os.environ["HOME"] = tempfile.mkdtemp()
sys.path.insert(0, os.getcwd())

from cincoconfig import IntField, ListField, Schema  # noqa: E402
from cincoconfig.core import ValidationError  # noqa: E402

item = Schema()
item.n = IntField()
root = Schema()
root.a.items = ListField(item)

cfg = root()
cfg.load_tree({"a": {"items": [{"n": 10}, {"n": 11}, {"n": 12}]}})
cfg.a.items = cfg.a.items + [{"n": 13}]  # ListProxy.__add__ -> copy() adopts the items as they are
del cfg.a.items[0]
assert [i.n for i in cfg.a.items] == [11, 12, 13]

bad = []
for index in range(3):
    try:
        cfg.a.items[index].n = "x"
    except ValidationError as err:
        expected = "a.items[%d].n" % index
        if err.ref_path != expected:
            bad.append("rejection at %s is reported as %r" % (expected, err.ref_path))

if bad:
    print("pre-existing C15 violation (stale item index after list + list / copy()):")
    for line in bad:
        print("  -", line)
    sys.exit(1)
print("ok")
