"""
Pre-existing (unchanged library): a ListField of configurations that is itself marked sensitive is
not masked.  to_tree tests "is the value a list of configurations" BEFORE "is the field sensitive",
so the list is rendered item by item: the items' own sensitive fields are masked, but everything
else the sensitive field holds (here the user names and scopes) appears in clear instead of being
replaced by the mask.  The same field with scalar items (ListField(StringField(), sensitive=True))
is replaced by the mask as a whole.
"""
import os
import sys
import tempfile

os.environ["HOME"] = tempfile.mkdtemp(prefix="c10-home-")
sys.path.insert(0, os.getcwd())

from cincoconfig import ListField, Schema, SecureField, StringField, make_type  # noqa: E402

grant = Schema()
grant.user = StringField()
grant.scope = StringField()
grant.token = SecureField(method="xor")
Grant = make_type(grant, "Grant")

schema = Schema()
schema.title = StringField(default="acl")
schema.grants = ListField(grant, sensitive=True)          # plain schema items
schema.type_grants = ListField(Grant, sensitive=True)     # config-type items
schema.tags = ListField(StringField(), sensitive=True)    # scalar items: masked as a whole

cfg = schema()
cfg.grants = [{"user": "alice-the-admin", "scope": "prod:write", "token": "tok-1"}]
cfg.type_grants = [Grant(user="bob-the-auditor", scope="prod:read", token="tok-2")]
cfg.tags = ["internal-only"]

problems = []
for mask in ("*", "", "<hidden>"):
    tree = cfg.to_tree(sensitive_mask=mask)
    for key in ("grants", "type_grants", "tags"):
        value = getattr(cfg, key)
        want = mask * len(str(value)) if len(mask) == 1 else mask
        if tree[key] != want:
            problems.append(
                "to_tree(sensitive_mask=%r)[%r] is %r; the field is marked sensitive, expected the mask %r"
                % (mask, key, tree[key], want if len(want) < 40 else want[:37] + "...")
            )
    doc = cfg.dumps("json", sensitive_mask=mask)
    for text in ("alice-the-admin", "prod:write", "bob-the-auditor", "prod:read"):
        if text.encode() in doc:
            problems.append(
                "dumps('json', sensitive_mask=%r): %r (held by a sensitive field) in clear" % (mask, text)
            )

if problems:
    print("C10 violated by the unchanged library: a sensitive list of configurations is not masked")
    for line in problems:
        print("  - " + line)
    sys.exit(1)
print("ok")
sys.exit(0)
