"""Unchanged library: configurations inserted into a configuration list by handing over ANOTHER
list field's proxy of the same configuration (cfg.b = cfg.a, cfg.b.extend(cfg.a), cfg.b += cfg.a)
are adopted without validation: ListProxy's fast path only compares the owning configuration and
the item schema, not the list field. Items that became invalid since they were loaded (a single
field assignment does not run the item's schema validators) enter the second list unchecked,
whereas the same items handed over as a plain list are rejected."""
import os
import sys
import tempfile

os.environ["HOME"] = tempfile.mkdtemp(prefix="c11-pre2-home-")
sys.path.insert(0, os.getcwd())

from cincoconfig import IntField, ListField, Schema, ValidationError, validator  # noqa: E402

item = Schema()
item.lo = IntField(default=0)
item.hi = IntField(default=10)
runs = []


@validator(item)
def lo_not_above_hi(cfg):
    runs.append((cfg.lo, cfg.hi))
    if cfg.lo > cfg.hi:
        raise ValueError("lo > hi")


schema = Schema()
schema.pool.active = ListField(item)
schema.pool.standby = ListField(item)

bad = []
for label, op in (
    ("standby = active", lambda p: setattr(p, "standby", p.active)),
    ("standby.extend(active)", lambda p: p.standby.extend(p.active)),
    ("standby[0:0] = list(active)  (control)", lambda p: p.standby.__setitem__(slice(0, 0), list(p.active))),
):
    cfg = schema()
    cfg.load_tree({"pool": {"active": [{"lo": 1, "hi": 5}], "standby": []}})
    cfg.pool.active[0].lo = 9  # fine as a single value; the pair (9, 5) is not
    del runs[:]
    try:
        op(cfg.pool)
    except ValidationError as err:
        print("%s: rejected (%s)" % (label, err))
        continue
    print("%s: returned normally, standby = %s, item validator runs = %d"
          % (label, [(i.lo, i.hi) for i in cfg.pool.standby], len(runs)))
    bad.append(label)

if bad:
    print("PROPERTY C11 VIOLATED on the unchanged tree: invalid items inserted without validation by: %s"
          % "; ".join(bad))
    sys.exit(1)
sys.exit(0)
