"""UNCHANGED tree: the stub's first parameter slot is overwritten with 'self' whatever it is.
(a) def m(*args, **kw): the configuration arrives in *args, the stub says def m(self, **kw) and
    loses the *args parameter that callers may use.
(b) a bound method / callable object registered as instance method: getfullargspec() reports the
    object's own 'self' first, so the stub keeps the configuration parameter:
    def m(self, cfg, x) although callers pass only x."""
import os
import sys
import tempfile

os.environ["HOME"] = tempfile.mkdtemp(prefix="c20-home-")
sys.path.insert(0, os.getcwd())

import ast

from cincoconfig import Schema, instance_method
from cincoconfig.stubs import generate_stub

schema = Schema()


@instance_method(schema, "collect")
def collect(*args, **kw):
    return args[1:]


class Helper:
    def double(self, cfg, x: int) -> int:
        return 2 * x


instance_method(schema, "double")(Helper().double)

cfg = schema()
assert cfg.collect(1, 2) == (1, 2)
assert cfg.double(4) == 8

cls = ast.parse(generate_stub(schema, "Thing")).body[0]
defs = {n.name: n for n in cls.body if isinstance(n, ast.FunctionDef)}
failures = []
if defs["collect"].args.vararg is None:
    failures.append("collect(*args, **kw): the stub has no *args: %s" % ast.unparse(defs["collect"]))
names = [a.arg for a in defs["double"].args.args][1:]
if names != ["x"]:
    failures.append("double: callers pass (x) but the stub declares %r: %s" % (names, ast.unparse(defs["double"])))
if failures:
    print("FAIL:")
    for line in failures:
        print("  " + line)
    sys.exit(1)
print("OK")
sys.exit(0)
