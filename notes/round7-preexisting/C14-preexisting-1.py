"""
UNCHANGED library, C14: ListField / DictField are bound to a variable (here automatically, through
the schema prefix) but ListField.__setdefault__ / DictField.__setdefault__ never look at it, while
Config.load_tree still skips the document key because the variable is set.  Result: with APP_TAGS
set the field is neither the validated variable nor does an invalid variable fail construction, and
every document value for the field is silently ignored -- the field is stuck at its default.
"""
import os
import sys
import tempfile

os.environ["HOME"] = tempfile.mkdtemp(prefix="c14-pre1-home-")
sys.path.insert(0, os.getcwd())

from cincoconfig import DictField, ListField, Schema, StringField, ValidationError  # noqa: E402

schema = Schema(env="APP")
schema.tags = ListField(StringField(), default=lambda: ["default"])
schema.opts = DictField(default=lambda: {"k": "default"})
assert schema.tags.env == "APP_TAGS" and schema.opts.env == "APP_OPTS"

os.environ["APP_TAGS"] = "a,b"  # not a list: ListField.validate() rejects it
os.environ["APP_OPTS"] = "x=1"  # not a dict: DictField.validate() rejects it

problems = []
try:
    cfg = schema()
except ValidationError:
    print("ok: invalid variable rejected at construction")
    sys.exit(0)

problems.append(
    "construction succeeded although APP_TAGS / APP_OPTS are set and invalid for the fields "
    "(tags=%r opts=%r)" % (cfg.tags, cfg.opts)
)
cfg.load_tree({"tags": ["x", "y"], "opts": {"a": "b"}})
if list(cfg.tags) != ["x", "y"] or dict(cfg.opts) != {"a": "b"}:
    problems.append(
        "... and the document is ignored as if the variable had been applied: tags=%r opts=%r"
        % (cfg.tags, cfg.opts)
    )
os.environ.pop("APP_TAGS")
os.environ.pop("APP_OPTS")
cfg.load_tree({"tags": ["x", "y"], "opts": {"a": "b"}})
print("(with the variables unset the same load gives tags=%r opts=%r)" % (cfg.tags, cfg.opts))

print("C14 VIOLATED (unchanged library)")
for line in problems:
    print("  " + line)
sys.exit(1)
