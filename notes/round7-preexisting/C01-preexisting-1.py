"""Pre-existing (unchanged tree): a bounded FloatField accepts NaN, which is inside no interval."""
import os
import sys
import tempfile

os.environ["HOME"] = tempfile.mkdtemp(prefix="c01-home-")
sys.path.insert(0, os.getcwd())

from cincoconfig import DictField, FloatField, ListField, Schema, StringField, ValidationError  # noqa: E402

schema = Schema()
schema.ratio = FloatField(min=0.0, max=1.0, default=0.5)
schema.tune.weights = ListField(FloatField(min=0.0, max=1.0), default=lambda: [])
schema.tune.named = DictField(StringField(), FloatField(min=0.0), default=lambda: {})
cfg = schema()

problems = []


def in_bounds(num, lo, hi):
    return (lo is None or num >= lo) and (hi is None or num <= hi)


for label, action, read, lo, hi in [
    ("cfg.ratio = 'nan'", lambda: setattr(cfg, "ratio", "nan"), lambda: cfg.ratio, 0.0, 1.0),
    (
        "cfg.tune.weights.append(float('nan'))",
        lambda: cfg.tune.weights.append(float("nan")),
        lambda: cfg.tune.weights[-1],
        0.0,
        1.0,
    ),
    (
        "load_tree({'tune': {'named': {'x': 'NaN'}}})",
        lambda: cfg.load_tree({"tune": {"named": {"x": "NaN"}}}),
        lambda: cfg.tune.named["x"],
        0.0,
        None,
    ),
]:
    try:
        action()
    except (ValidationError, ValueError):
        continue
    value = read()
    if not in_bounds(value, lo, hi):
        problems.append(
            "%s accepted; the configuration holds %r, which is not within [%s, %s]"
            % (label, value, lo, hi)
        )

if problems:
    print("C01 violated on the unchanged library (bounds):")
    for line in problems:
        print("  -", line)
    sys.exit(1)
print("ok")
sys.exit(0)
