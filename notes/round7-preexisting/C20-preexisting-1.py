"""UNCHANGED tree: an instance method that went through an ordinary functools.wraps decorator and
whose original function has a positional-only parameter gets an invalid stub.
getfullargspec() does not follow __wrapped__ (it sees (*args, **kwargs)) but the positional-only
count is taken from inspect.signature(), which does; the '/' lands behind '**kwargs'."""
import os
import sys
import tempfile

os.environ["HOME"] = tempfile.mkdtemp(prefix="c20-home-")
sys.path.insert(0, os.getcwd())

import ast
import functools

from cincoconfig import Schema, instance_method
from cincoconfig.stubs import generate_stub


def logged(func):
    @functools.wraps(func)
    def inner(*args, **kwargs):
        return func(*args, **kwargs)

    return inner


schema = Schema()


@instance_method(schema, "scale")
@logged
def scale(cfg, factor, /, offset=0):
    return factor + offset


assert schema().scale(2, offset=1) == 3
stub = generate_stub(schema, "Thing")
try:
    ast.parse(stub)
except SyntaxError as err:
    print("FAIL: stub is not valid Python: %s" % err)
    print(stub)
    sys.exit(1)
print("OK")
sys.exit(0)
