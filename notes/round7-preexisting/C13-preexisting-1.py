"""
Pre-existing (unchanged tree): a list default that holds a configuration object is deep-copied for
every configuration, but an instance method of the item stays bound to the object DECLARED IN THE
SCHEMA (Config.__deepcopy__ deep-copies the bound wrapper, and functions are copied as themselves).
Calling the method on one configuration's item changes the schema's declared default and every
configuration built afterwards, and does not change the item it was called on.
"""
import os
import sys
import tempfile

os.environ["HOME"] = tempfile.mkdtemp(prefix="c13-home-")
sys.path.insert(0, os.getcwd())

from cincoconfig import IntField, ListField, Schema, asdict, instance_method  # noqa: E402

item = Schema()
item.n = IntField(default=0)


@instance_method(item, "bump")
def bump(cfg):
    cfg.n += 1


schema = Schema()
schema.items = ListField(item, default=[item()])

declared = schema._fields["items"].default[0]
a = schema()
before_declared = declared.n
a.items[0].bump()

c = schema()
problems = []
if a.items[0].n != 1:
    problems.append("a.items[0].bump() did not change a.items[0].n: %r" % a.items[0].n)
if declared.n != before_declared:
    problems.append(
        "the item declared in the schema default changed: n %r -> %r" % (before_declared, declared.n)
    )
if asdict(c) != {"items": [{"n": 0}]}:
    problems.append("a configuration built afterwards starts from %r" % asdict(c))

if problems:
    print("C13 violated on the unchanged tree (instance method of a copied default item):")
    for line in problems:
        print(" -", line)
    sys.exit(1)
print("ok")
sys.exit(0)
