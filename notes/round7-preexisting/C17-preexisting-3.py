"""Pre-existing (unchanged tree): two dict behaviours that differ from the built-in.

 * setdefault(key) for a key that IS present raises when the value field is required: the unused default
   (None) is validated before the key is looked up; dict.setdefault never looks at the default then.
 * `cfg.d |= other` rebinds cfg.d to a new copy (DictField._validate copies its own proxy on every
   assignment; ListField was fixed to keep it, so `cfg.l += other` stays in place): a reference taken
   before the |= stops following the dict, unlike `d |= other` on a built-in.
"""
import os
import sys
import tempfile

os.environ["HOME"] = tempfile.mkdtemp(prefix="c17-home-")
sys.path.insert(0, os.getcwd())

from cincoconfig import Schema, DictField, ListField, StringField, IntField  # noqa: E402

problems = []
schema = Schema()
schema.d = DictField(StringField(), IntField(required=True))
schema.l = ListField(IntField())
cfg = schema()
cfg.d = {"a": 1}
cfg.l = [1]

model = {"a": 1}
try:
    got = cfg.d.setdefault("a")
    if got != model.setdefault("a"):
        problems.append("setdefault('a') returned %r" % (got,))
except Exception as exc:
    problems.append("setdefault('a') on a present key raised %s: %s (built-in returns 1)" % (type(exc).__name__, exc))

before = cfg.d
cfg.d |= {"k": "2"}
cfg.d["z"] = 3
if before is not cfg.d or dict(before) != dict(cfg.d):
    problems.append(
        "after `cfg.d |= ..; cfg.d['z'] = 3` the earlier reference shows %r, cfg.d shows %r (same object: %r)"
        % (dict(before), dict(cfg.d), before is cfg.d)
    )
before = cfg.l
cfg.l += ["2"]
cfg.l.append(3)
if before is not cfg.l:
    problems.append("list: += rebinds as well")

if problems:
    print("C17 violated on the unchanged tree (setdefault on a present key / |= through the attribute):")
    for line in problems:
        print("  - " + line)
    sys.exit(1)
print("ok")
