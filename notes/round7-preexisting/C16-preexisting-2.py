"""Unchanged library: virtual fields and instance-method fields are reported by get_all_fields and
resolve by config[path], but the membership test says they are not in the configuration."""
import os
import sys
import tempfile

os.environ["HOME"] = tempfile.mkdtemp(prefix="c16-home-")
sys.path.insert(0, os.getcwd())

from cincoconfig import IntField, Schema, VirtualField, get_all_fields, instance_method  # noqa: E402

schema = Schema()
schema.sub.x = IntField(default=2)
schema.sub.double = VirtualField(lambda cfg: cfg.x * 2)


@instance_method(schema.sub, "hello")
def hello(cfg):
    return "hi"


config = schema()
bad = []
for path, _, field in get_all_fields(schema):
    value = config[path]  # every enumerated path resolves
    if path not in config:
        bad.append("%r is enumerated and config[%r] = %r, but (%r in config) is False" % (path, path, value, path))

if bad:
    print("C16 (pre-existing): membership test disagrees with enumeration and lookup:")
    for line in bad:
        print("  " + line)
    sys.exit(1)
print("ok")
