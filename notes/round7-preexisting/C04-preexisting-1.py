"""Unchanged library, C04: the BSON format cannot read back a tree that contains the text
'$$__CLASS_NAME__$$' as a list item (or as a map key) -- the `bson` package treats it as a marker
of its own object encoding. Plain strings / string keys, 64-bit ints: inside BSON's stated domain;
json, yaml, pickle and xml decode the same trees to themselves."""
import os
import sys
import tempfile

os.environ["HOME"] = tempfile.mkdtemp(prefix="c04-home-")
sys.path.insert(0, os.getcwd())

from cincoconfig.core import ConfigFormat  # noqa: E402

MARK = "$$__CLASS_NAME__$$"
trees = [
    {"tags": ["a", MARK, "b"]},  # a list item
    {"servers": [{"labels": [MARK]}]},  # the same below list / map / list
    {"labels": {MARK: "x"}},  # a map key (not an XML name, so xml is skipped for this one)
]
failures = []
for tree in trees:
    for name in ("json", "yaml", "pickle", "xml", "bson"):
        if name == "xml" and MARK in tree.get("labels", ()):
            continue
        fmt = ConfigFormat.get(name)
        try:
            back = fmt.loads(None, fmt.dumps(None, tree))
        except Exception as err:  # pylint: disable=broad-except
            failures.append("%s: %r cannot be read back: %s: %s" % (name, tree, type(err).__name__, err))
            continue
        if back != tree:
            failures.append("%s: %r came back as %r" % (name, tree, back))

if failures:
    print("FAIL (unchanged library):")
    for line in failures:
        print("  " + line)
    sys.exit(1)
print("OK")
sys.exit(0)
