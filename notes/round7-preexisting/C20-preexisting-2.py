"""UNCHANGED tree: a parameter annotation that get_annotation_typestr cannot classify (a TypeVar,
a typing.NewType, a special form such as typing.Self) makes generate_stub raise TypeError. The same
annotation on the return value is tolerated (get_retval_annotation swallows the error); for
parameters nothing catches it, so the schema gets no stub at all."""
import os
import sys
import tempfile

os.environ["HOME"] = tempfile.mkdtemp(prefix="c20-home-")
sys.path.insert(0, os.getcwd())

import ast
from typing import NewType, TypeVar

from cincoconfig import Schema, StringField, instance_method
from cincoconfig.stubs import generate_stub

T = TypeVar("T")
UserId = NewType("UserId", int)
failed = False
for label, ann in (("TypeVar", T), ("NewType", UserId)):
    schema = Schema()
    schema.name = StringField()

    def method(cfg, value):
        return value

    method.__annotations__ = {"value": ann, "return": ann}
    instance_method(schema, "echo")(method)
    try:
        ast.parse(generate_stub(schema, "Thing"))
    except Exception as err:  # noqa: BLE001
        failed = True
        print("FAIL: %s parameter annotation: generate_stub raised %s: %s" % (label, type(err).__name__, err))
sys.exit(1 if failed else 0)
