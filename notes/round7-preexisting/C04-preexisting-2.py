"""Unchanged library, C04 (borderline, depends on whether 'XML name' admits a colon): a key that is
an XML Name containing ':' does not survive the XML format. 'xml:lang' is written as <xml:lang>,
parsed as a namespaced name and comes back as the key '{http://www.w3.org/XML/1998/namespace}lang'
(silently, key set changed); any other prefix ('a:b') makes the format's own document unparsable
('unbound prefix'). json / yaml / pickle / bson decode the same trees to themselves."""
import os
import sys
import tempfile

os.environ["HOME"] = tempfile.mkdtemp(prefix="c04-home-")
sys.path.insert(0, os.getcwd())

from cincoconfig.core import ConfigFormat  # noqa: E402

trees = [{"xml:lang": "en"}, {"server": {"items": [{"xml:space": "preserve"}]}}, {"a:b": 1}]
failures = []
for tree in trees:
    for name in ("json", "yaml", "pickle", "bson", "xml"):
        fmt = ConfigFormat.get(name)
        try:
            back = fmt.loads(None, fmt.dumps(None, tree))
        except Exception as err:  # pylint: disable=broad-except
            failures.append("%s: %r cannot be read back: %s: %s" % (name, tree, type(err).__name__, err))
            continue
        if back != tree:
            failures.append("%s: %r came back as %r" % (name, tree, back))

if failures:
    print("FAIL (unchanged library):")
    for line in failures:
        print("  " + line)
    sys.exit(1)
print("OK")
sys.exit(0)
