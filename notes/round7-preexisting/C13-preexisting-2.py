"""
Pre-existing (unchanged tree): building a configuration alters the schema. A list default holding a
configuration object whose schema has a TYPED list (or dict) field is deep-copied; copy.deepcopy
reaches the ListProxy -> its ListField -> the field's Schema and probes the Schema for
'__deepcopy__', which Schema.__getattr__ answers by auto-creating a sub-schema of that name. The
item schema gains a field '__deepcopy__' and Schema.__call__ fails.
"""
import os
import sys
import tempfile

os.environ["HOME"] = tempfile.mkdtemp(prefix="c13-home-")
sys.path.insert(0, os.getcwd())

from cincoconfig import IntField, ListField, Schema, StringField  # noqa: E402

item = Schema()
item.port = IntField(default=1)
item.tags = ListField(StringField(), default=lambda: ["a"])

schema = Schema()
schema.servers = ListField(item, default=[item()])

before = list(item._fields)
error = None
try:
    schema()
except Exception as exc:  # pylint: disable=broad-except
    error = "%s: %s" % (type(exc).__name__, exc)
after = list(item._fields)

if after != before or error:
    print("C13 violated on the unchanged tree (building a configuration altered the schema):")
    print(" - item schema fields before: %r" % before)
    print(" - item schema fields after : %r" % after)
    print(" - schema() raised: %s" % error)
    sys.exit(1)
print("ok")
sys.exit(0)
