"""
Unchanged library: a ListField default that holds a configuration object cannot be handed out
when that configuration itself holds a typed list (ListProxy) or typed dict (DictProxy).

ListField.__setdefault__ deep-copies the default for every configuration.  Config.__deepcopy__
deep-copies `_data`; a ListProxy/DictProxy in there carries a reference to its ListField/DictField,
whose `_schema` is deep-copied too.  copy.deepcopy() looks `__deepcopy__` up on the Schema
*instance*, Schema.__getattr__ answers by auto-creating a sub-schema field called "__deepcopy__"
in the item schema and "calling" it.  The item schema is polluted with a bogus field, and building
the configuration (or reset_value on the list field) fails with
ValidationError: nodes[0].__deepcopy__.
"""
import os
import sys
import tempfile

os.environ["HOME"] = tempfile.mkdtemp(prefix="c12-home-")
sys.path.insert(0, os.getcwd())

from cincoconfig import (  # noqa: E402
    DictField,
    IntField,
    ListField,
    Schema,
    StringField,
    is_value_defined,
    make_type,
)

problems = []


# item schema (plain Schema) with a typed list
node = Schema()
node.host = StringField(default="localhost")
node.port = IntField(default=80)
node.tags = ListField(StringField(), default=["x"])
schema = Schema()
schema.nodes = ListField(node, default=[node(host="seed-1")])
before = [key for key, _ in node]
try:
    cfg = schema()
    item = cfg.nodes[0]
    if item.host != "seed-1" or is_value_defined(item, "port") or item.tags != ["x"]:
        problems.append("plain schema: unexpected default item")
except Exception as exc:  # pylint: disable=broad-except
    problems.append("typed list inside the default item (plain schema): building a fresh configuration failed: %s: %s" % (type(exc).__name__, exc))
after = [key for key, _ in node]
if after != before:
    problems.append("plain schema: the item schema gained fields: %r" % [k for k in after if k not in before])

# the same as a config type, with a typed dict
node2 = Schema()
node2.host = StringField(default="localhost")
node2.port = IntField(default=80)
node2.labels = DictField(StringField(), StringField(), default={"k": "v"})
Node2 = make_type(node2, "Node2")
schema = Schema()
schema.cluster.nodes = ListField(Node2, default=[Node2(host="seed-1")])
before = [key for key, _ in node2]
try:
    cfg = schema()
    if cfg.cluster.nodes[0].labels != {"k": "v"}:
        problems.append("config type: unexpected labels")
except Exception as exc:  # pylint: disable=broad-except
    problems.append("typed dict inside the default item (config type): building a fresh configuration failed: %s: %s" % (type(exc).__name__, exc))
after = [key for key, _ in node2]
if after != before:
    problems.append("config type: the item schema gained fields: %r" % [k for k in after if k not in before])

if problems:
    print("C12 violated on the unchanged library (default holding configurations with typed containers):")
    for p in problems:
        print("  -", p)
    sys.exit(1)
print("ok")
sys.exit(0)
