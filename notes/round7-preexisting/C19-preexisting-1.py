"""
Pre-existing (unchanged library): the XML format does not write carriage returns in a way that
survives parsing.  ElementTree writes '\r' raw into element text and every XML parser normalises
'\r\n' and a lone '\r' to '\n', so a string value with Windows line ends is saved successfully
but the file does not load back into an equal configuration.  JSON and YAML keep the value.
"""
import os
import sys
import tempfile

os.environ["HOME"] = tempfile.mkdtemp(prefix="c19-home-")
sys.path.insert(0, os.getcwd())

from cincoconfig import ListField, Schema, StringField  # noqa: E402


def main() -> int:
    workdir = tempfile.mkdtemp(prefix="c19-work-")
    schema = Schema()
    schema.motd = StringField()
    schema.ui.lines = ListField(StringField())

    cfg = schema()
    cfg.motd = "first line\r\nsecond line\rthird"
    cfg.ui.lines = ["a\r", "b"]

    status = 0
    for fmt in ("json", "yaml", "xml"):
        dest = os.path.join(workdir, "motd." + fmt)
        cfg.save(dest, format=fmt)
        loaded = schema()
        loaded.load(dest, format=fmt)
        if loaded.to_tree() != cfg.to_tree():
            status = 1
            print("FAIL [%s]: saved %r" % (fmt, cfg.to_tree()))
            print("            loaded %r" % (loaded.to_tree(),))
        else:
            print("ok   [%s]" % fmt)
    return status


if __name__ == "__main__":
    sys.exit(main())
