"""Pre-existing (unchanged tree): == and != of two typed dicts disagree with the built-in and with each other.

DictProxy.__eq__ answers False for a typed dict of another configuration / another field even when the
contents are equal, but __ne__ is inherited from dict and compares contents: both p == q and p != q are
False.  dict(p) == dict(q) is True.
"""
import os
import sys
import tempfile

os.environ["HOME"] = tempfile.mkdtemp(prefix="c17-home-")
sys.path.insert(0, os.getcwd())

from cincoconfig import Schema, DictField, ListField, StringField, IntField  # noqa: E402

problems = []
schema = Schema()
schema.d = DictField(StringField(), IntField())
schema.e = DictField(StringField(), IntField())
c1, c2 = schema(), schema()
c1.d = {"a": "1"}
c2.d = {"a": 1}
c1.e = {"a": 1}

for label, p, q in [("same field, two configurations", c1.d, c2.d), ("two fields, one configuration", c1.d, c1.e)]:
    want_eq = dict(p) == dict(q)
    if (p == q) != want_eq:
        problems.append("%s: p == q is %r, dict(p) == dict(q) is %r" % (label, p == q, want_eq))
    if (p != q) != (not want_eq):
        problems.append("%s: p != q is %r, dict(p) != dict(q) is %r" % (label, p != q, not want_eq))
    if (p == q) == (p != q):
        problems.append("%s: p == q and p != q are both %r" % (label, p == q))

if problems:
    print("C17 violated on the unchanged tree (equality queries of typed dicts):")
    for line in problems:
        print("  - " + line)
    sys.exit(1)
print("ok")
