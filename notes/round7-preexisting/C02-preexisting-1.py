"""
C02 on the UNCHANGED library: a configuration state that passes validation cannot be loaded back.

A sub-configuration whose feature flag is off is not validated (Schema._validate returns early),
so `required` fields in it may stay unset and cfg.validate() reports no error.  to_tree() writes
the unset field as null; on load, Config._set_value() runs field.validate() for every entry
regardless of the feature flag, and the null is rejected with "value is required".
Exit 1 when the round trip fails.
"""
import os
import sys
import tempfile

os.environ["HOME"] = tempfile.mkdtemp(prefix="c02-home-")
sys.path.insert(0, os.getcwd())

from cincoconfig import FeatureFlagField, IntField, Schema, StringField, asdict  # noqa: E402

schema = Schema()
schema.name = StringField(default="svc")
schema.tls.enabled = FeatureFlagField(default=False)
schema.tls.cert = StringField(required=True)  # only needed when TLS is on
schema.tls.port = IntField(default=443, min=1)

src = schema()
errors = src.validate(collect_errors=True)
assert errors == [], errors  # the state is valid
expected = asdict(src)

failures = []
for fmt in ("json", "yaml", "bson", "xml", "pickle"):
    try:
        dst = schema()
        dst.loads(src.dumps(format=fmt), format=fmt)
        if asdict(dst) != expected:
            failures.append("%s: came back as %r, expected %r" % (fmt, asdict(dst), expected))
    except Exception as exc:  # noqa: BLE001
        failures.append("%s: load raised %s: %s" % (fmt, type(exc).__name__, exc))

if failures:
    print("C02 VIOLATED on the unchanged tree: valid state %r cannot be re-loaded" % (expected,))
    for line in failures:
        print("  " + line)
    sys.exit(1)
print("ok")
sys.exit(0)
