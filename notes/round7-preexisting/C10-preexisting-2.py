"""
Pre-existing (unchanged library): in a dynamic configuration, a key that was first set while the
schema did not know it gets a private AnyField in Config._fields.  When the schema later declares
that key (here as a SecureField, sensitive by default), Config._get_field() prefers the schema's
field - assignments are validated by the SecureField - but to_tree() merges the two field tables the
other way round (fields = schema fields, then .update(config fields)), so it still renders the value
with the stale AnyField: no mask (and no encryption either).  A second configuration created after
the declaration is rendered correctly.
"""
import os
import sys
import tempfile

os.environ["HOME"] = tempfile.mkdtemp(prefix="c10-home-")
sys.path.insert(0, os.getcwd())

from cincoconfig import Schema, SecureField, StringField  # noqa: E402

schema = Schema(dynamic=True)
schema.name = StringField(default="app")

old = schema()
old.api_token = "not-yet-declared"        # dynamic key -> private AnyField on this configuration

schema.api_token = SecureField(method="xor")   # the schema now declares the key as a secret

old.api_token = "s3cr3t-OLD-config"       # validated by the SecureField (try assigning an int)
new = schema()
new.api_token = "s3cr3t-NEW-config"

field = old._get_field("api_token")
assert isinstance(field, SecureField) and field.sensitive, field

problems = []
for label, cfg, secret in (("old", old, "s3cr3t-OLD-config"), ("new", new, "s3cr3t-NEW-config")):
    for mask in ("*", "", "<hidden>"):
        want = mask * len(secret) if len(mask) == 1 else mask
        got = cfg.to_tree(sensitive_mask=mask)["api_token"]
        if got != want:
            problems.append(
                "%s configuration: to_tree(sensitive_mask=%r)['api_token'] is %r, expected %r"
                % (label, mask, got, want)
            )
        for fmt in ("json", "yaml", "xml"):
            if secret.encode() in cfg.dumps(fmt, sensitive_mask=mask):
                problems.append(
                    "%s configuration: dumps(%r, sensitive_mask=%r) shows %r in clear"
                    % (label, fmt, mask, secret)
                )

if problems:
    print("C10 violated by the unchanged library: stale dynamic field shadows the schema's sensitive field")
    for line in problems:
        print("  - " + line)
    sys.exit(1)
print("ok")
sys.exit(0)
