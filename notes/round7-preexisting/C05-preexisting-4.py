"""Pre-existing: FloatField accepts NaN although min/max are declared (every comparison with NaN is false), the result is not equal to itself on re-validation; IntField lets OverflowError escape for an infinite float instead of rejecting with ValueError."""
import os, sys, tempfile
os.environ["HOME"] = tempfile.mkdtemp(prefix="c05-pre-home-")
sys.path.insert(0, os.getcwd())
from cincoconfig import Schema
from cincoconfig.fields import *  # noqa: F401,F403
problems = []
def roundtrip(cfg, field, name, value):
    accepted = field.validate(cfg, value)
    basic = field.to_basic(cfg, accepted)
    back = field.to_python(cfg, basic)
    if back != accepted:
        problems.append("%s: accepted %r, on disk %r, read back %r" % (name, accepted, basic, back))
def finish(title):
    if problems:
        print("C05 violated on the unchanged tree: " + title)
        for line in problems:
            print("  - " + line)
        sys.exit(1)
    print("ok")
    sys.exit(0)

schema = Schema()
schema.ratio = FloatField(min=0, max=1)
schema.count = IntField()
cfg = schema()
for value in ("nan", float("nan")):
    try:
        got = schema.ratio.validate(cfg, value)
    except ValueError:
        continue
    problems.append("FloatField(min=0, max=1).validate(%r) accepted %r, which is not within [0, 1]" % (value, got))
    again = schema.ratio.validate(cfg, got)
    if again != got:
        problems.append("  ... and validating the result again gives a value that is not equal to it: %r != %r" % (again, got))
for value in (float("inf"), float("-inf")):
    try:
        schema.count.validate(cfg, value)
    except ValueError:
        pass
    except Exception as err:  # noqa: BLE001
        problems.append("IntField().validate(%r) raised %s instead of ValueError: %s" % (value, type(err).__name__, err))
finish("NaN passes declared float bounds; infinite floats escape IntField as OverflowError")
