"""
UNCHANGED library, C14 (debatable, depth >= 1 only): "assignment beats both, for all subsequent
loads".  A top-level field keeps an explicit assignment when a document mentioning it is loaded
while its variable is set.  A field of a NESTED configuration does not: Config._set_value builds a
new sub-configuration for the nested map, which reads the variable again, so the earlier assignment
is replaced by the environment value.
"""
import os
import sys
import tempfile

os.environ["HOME"] = tempfile.mkdtemp(prefix="c14-pre2-home-")
sys.path.insert(0, os.getcwd())

from cincoconfig import IntField, Schema  # noqa: E402

schema = Schema(env="APP")
schema.port = IntField(default=1)
schema.db.port = IntField(default=2)
os.environ["APP_PORT"] = "8000"
os.environ["APP_DB_PORT"] = "6000"

cfg = schema()
cfg.port = 9000
cfg.db.port = 9001
cfg.load_tree({"port": 7000, "db": {"port": 7001}})

print("top level: port=%r (assigned 9000)   nested: db.port=%r (assigned 9001)" % (cfg.port, cfg.db.port))
if cfg.port == 9000 and cfg.db.port != 9001:
    print("C14 VIOLATED (unchanged library): the nested assignment was undone by the load; "
          "db.port is the environment value again")
    sys.exit(1)
sys.exit(0)
