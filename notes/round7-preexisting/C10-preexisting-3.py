"""
Pre-existing (unchanged library), borderline: the length used for a one-character mask is
len(str(value)).  For a sensitive BytesField that is the length of the repr, quotes and prefix
included: b"abc" (3 bytes) is masked by 6 characters, b"\x00\x01" (2 bytes) by 11.  The to_tree
docstring promises ``sensitive_mask * len(value)``.  (Nothing leaks; only "repeated to the value's
length" does not hold for bytes.)
"""
import os
import sys
import tempfile

os.environ["HOME"] = tempfile.mkdtemp(prefix="c10-home-")
sys.path.insert(0, os.getcwd())

from cincoconfig import BytesField, Schema, StringField  # noqa: E402

schema = Schema()
schema.text = StringField(sensitive=True)
schema.blob = BytesField(sensitive=True)
schema.sub.raw = BytesField(sensitive=True, encoding="hex")

cfg = schema()
cfg.text = "abc"
cfg.blob = b"abc"
cfg.sub.raw = b"\x00\x01"

tree = cfg.to_tree(sensitive_mask="*")
problems = []
for path, value, got in (
    ("text", cfg.text, tree["text"]),
    ("blob", cfg.blob, tree["blob"]),
    ("sub.raw", cfg.sub.raw, tree["sub"]["raw"]),
):
    if got != "*" * len(value):
        problems.append(
            "%s = %r (length %d) is masked by %r (length %d)" % (path, value, len(value), got, len(got))
        )

if problems:
    print("C10 (mask length) not met by the unchanged library for bytes values")
    for line in problems:
        print("  - " + line)
    sys.exit(1)
print("ok")
sys.exit(0)
