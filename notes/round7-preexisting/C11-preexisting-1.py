"""Unchanged library: a required IncludeField is never enforced. Schema._validate skips every
IncludeFieldMixin field, so load_tree()/loads()/validate() return normally although a field marked
required=True is unset (and a validator registered on it is never run in the final walk)."""
import os
import sys
import tempfile

os.environ["HOME"] = tempfile.mkdtemp(prefix="c11-pre1-home-")
sys.path.insert(0, os.getcwd())

from cincoconfig import IncludeField, IntField, Schema, ValidationError  # noqa: E402

schema = Schema()
schema.app.site.overrides = IncludeField(required=True)
schema.app.site.port = IntField(default=80)

bad = []
for label, load in (
    ("load_tree", lambda c: c.load_tree({"app": {"site": {"port": 8080}}})),
    ("loads(json)", lambda c: c.loads('{"app": {"site": {"port": 8080}}}', format="json")),
    ("validate()", lambda c: c.validate()),
):
    cfg = schema()
    try:
        load(cfg)
    except ValidationError as err:
        print("%s: rejected (%s)" % (label, err))
        continue
    print("%s: returned normally, required app.site.overrides = %r"
          % (label, cfg.app.site.overrides))
    bad.append(label)

if bad:
    print("PROPERTY C11 VIOLATED on the unchanged tree: required IncludeField left unset after %s"
          % ", ".join(bad))
    sys.exit(1)
sys.exit(0)
