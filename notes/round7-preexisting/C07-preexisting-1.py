# UNCHANGED library: a valid 32 byte key file that exists but cannot be READ (mode 0200, or any
# other OSError while opening it for reading) is treated like a missing one: __load_key catches
# OSError and calls __generate_key, which overwrites the existing key with a new random one.
# Property C07: "A key file that exists and holds exactly 32 bytes is used verbatim and never modified".
# Needs a non-root user (root ignores file modes), so the check runs in a child that drops to 'nobody'.
import os, sys, tempfile
os.environ["HOME"] = tempfile.mkdtemp(prefix="c07home")
sys.path.insert(0, os.getcwd())
from cincoconfig.encryption import KeyFile, EncryptionError

base = tempfile.mkdtemp(prefix="c07-pre1-")
os.chmod(base, 0o777)
path = os.path.join(base, "cinco.key")
original = bytes(range(32))
with open(path, "wb") as fp:
    fp.write(original)
uid = 65534 if os.getuid() == 0 else os.getuid()
if os.getuid() == 0:
    os.chown(path, uid, uid)
os.chmod(path, 0o200)           # owner may write but not read

rd, wr = os.pipe()
pid = os.fork()
if pid == 0:
    os.close(rd)
    if os.getuid() == 0:
        os.setgroups([]); os.setgid(uid); os.setuid(uid)
    try:
        with KeyFile(path) as ctx:
            used = ctx.encrypt(b"\x00" * 32, method="xor").ciphertext
        msg = "opened, key in use %s" % used.hex()
    except (OSError, EncryptionError) as err:
        msg = "open refused: %s" % type(err).__name__
    os.write(wr, msg.encode())
    os._exit(0)
os.close(wr)
os.waitpid(pid, 0)
msg = os.read(rd, 4096).decode()
os.chmod(path, 0o600)
now = open(path, "rb").read()
print("child:", msg)
if now != original:
    print("VIOLATION: an existing, well-formed 32 byte key file that could not be read was "
          "overwritten with a new random key (%s.. -> %s..); secrets stored under the old key are lost"
          % (original[:4].hex(), now[:4].hex()))
    sys.exit(1)
print("key file untouched")
sys.exit(0)
