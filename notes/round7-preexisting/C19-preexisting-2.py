"""
Pre-existing (unchanged library), borderline: a configuration with an IncludeField that was
loaded through an include, then modified and saved, does not load back equal.  save() writes the
whole configuration *and* the include path; on load the included file is merged over the values
of the saved file, so every value that the included file also defines silently reverts.
"""
import os
import sys
import tempfile

os.environ["HOME"] = tempfile.mkdtemp(prefix="c19-home-")
sys.path.insert(0, os.getcwd())

from cincoconfig import IncludeField, IntField, Schema, StringField  # noqa: E402


def main() -> int:
    workdir = tempfile.mkdtemp(prefix="c19-work-")
    base = os.path.join(workdir, "base.json")
    main_file = os.path.join(workdir, "main.json")
    with open(base, "w") as fp:
        fp.write('{"host": "db.internal", "port": 5432}')
    with open(main_file, "w") as fp:
        fp.write('{"include": "%s", "name": "app"}' % base)

    schema = Schema()
    schema.include = IncludeField()
    schema.name = StringField()
    schema.host = StringField()
    schema.port = IntField()

    cfg = schema()
    cfg.load(main_file, format="json")
    assert (cfg.host, cfg.port) == ("db.internal", 5432)

    cfg.port = 6543  # the user changes a value that came from the included file
    cfg.save(main_file, format="json")

    loaded = schema()
    loaded.load(main_file, format="json")
    if loaded.to_tree() != cfg.to_tree():
        print("FAIL: saved  %r" % (cfg.to_tree(),))
        print("      loaded %r" % (loaded.to_tree(),))
        return 1
    print("ok")
    return 0


if __name__ == "__main__":
    sys.exit(main())
