"""Unchanged library: @validator(...) applied to a config-type field (schema.sub = SomeType, which
the schema stores as a ConfigTypeField) registers nothing and says nothing: support.validator only
handles Field and Schema instances. The validator never runs, loads succeed."""
import os
import sys
import tempfile

os.environ["HOME"] = tempfile.mkdtemp(prefix="c11-pre3-home-")
sys.path.insert(0, os.getcwd())

from cincoconfig import IntField, Schema, ValidationError, make_type, validator  # noqa: E402

limits_schema = Schema()
limits_schema.soft = IntField(default=1)
limits_schema.hard = IntField(default=2)
Limits = make_type(limits_schema, "Limits")

schema = Schema()
schema.svc.limits = Limits
runs = []


@validator(schema.svc._get_field("limits"))
def soft_below_hard(cfg):
    runs.append((cfg.soft, cfg.hard))
    if cfg.soft > cfg.hard:
        raise ValueError("soft > hard")


cfg = schema()
try:
    cfg.load_tree({"svc": {"limits": {"soft": 9, "hard": 3}}})
except ValidationError as err:
    print("rejected (%s)" % err)
    sys.exit(0)
print("load_tree returned normally with soft=%d hard=%d; registered validator ran %d times"
      % (cfg.svc.limits.soft, cfg.svc.limits.hard, len(runs)))
print("PROPERTY C11 (arguably) VIOLATED on the unchanged tree: a validator registered with "
      "@validator on a config-type field is silently dropped")
sys.exit(1)
