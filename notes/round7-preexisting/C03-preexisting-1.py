"""
C03, UNCHANGED library: a key file assigned to a plain (schema) sub-configuration is lost on load.

Config._set_value builds a brand-new Config for every nested map in the document
(`cfg = field(self)`), replacing the sub-configuration object that carried the key-file
assignment.  The new object names no key file, so the secrets below it are decrypted with the
ROOT's key file although they were encrypted with the sub-configuration's one: the document the
library has just written cannot be loaded again - neither into a new configuration prepared the
same way (new session) nor into the very configuration that produced it.
"""
import os
import sys
import tempfile

HOME = tempfile.mkdtemp(prefix="c03home-")
os.environ["HOME"] = HOME
sys.path.insert(0, os.getcwd())

from cincoconfig import Schema, SecureField  # noqa: E402

problems = []
keys = tempfile.mkdtemp(prefix="c03keys-")
k_root = os.path.join(keys, "root.key")
k_db = os.path.join(keys, "db.key")

schema = Schema()
schema.token = SecureField()
schema.db.password = SecureField()
schema.db.inner.pw = SecureField()


def prepared():
    cfg = schema(key_filename=k_root)
    cfg.db._key_filename = k_db  # key-file assignment to a sub-configuration
    return cfg


cfg = prepared()
cfg.token = "tok"
cfg.db.password = "pw1"
cfg.db.inner.pw = "pw2"
out = cfg.dumps("json")

for label, target in (("new session", prepared()), ("same configuration", cfg)):
    try:
        target.loads(out, "json")
    except Exception as err:  # noqa: BLE001
        problems.append("%s: loads() of the library's own output fails: %s" % (label, err))
        continue
    got = (target.token, target.db.password, target.db.inner.pw)
    if got != ("tok", "pw1", "pw2"):
        problems.append("%s: secrets read back as %r" % (label, got))
    if target.db._keyfile.filename != k_db:
        problems.append(
            "%s: after loads() the sub-configuration uses %s instead of %s"
            % (label, target.db._keyfile.filename, k_db)
        )

if problems:
    print("C03 VIOLATED on the unchanged library:")
    for line in problems:
        print(" -", line)
    sys.exit(1)
print("ok")
sys.exit(0)
