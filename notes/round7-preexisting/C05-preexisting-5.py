"""Pre-existing: ChallengeField accepts a DigestValue made with another hash algorithm; the on-disk form has no algorithm, so it reads back with the field algorithm and is not equal to the accepted value (and can no longer be challenged)."""
import os, sys, tempfile
os.environ["HOME"] = tempfile.mkdtemp(prefix="c05-pre-home-")
sys.path.insert(0, os.getcwd())
from cincoconfig import Schema
from cincoconfig.fields import *  # noqa: F401,F403
problems = []
def roundtrip(cfg, field, name, value):
    accepted = field.validate(cfg, value)
    basic = field.to_basic(cfg, accepted)
    back = field.to_python(cfg, basic)
    if back != accepted:
        problems.append("%s: accepted %r, on disk %r, read back %r" % (name, accepted, basic, back))
def finish(title):
    if problems:
        print("C05 violated on the unchanged tree: " + title)
        for line in problems:
            print("  - " + line)
        sys.exit(1)
    print("ok")
    sys.exit(0)

import hashlib
from cincoconfig.fields.secure_field import DigestValue
schema = Schema()
schema.password = ChallengeField("sha256")
schema.passwords = ListField(ChallengeField("sha256"))
cfg = schema()
foreign = DigestValue.create("hunter2", hashlib.md5)
roundtrip(cfg, schema.password, "ChallengeField('sha256') <- md5 DigestValue", foreign)
roundtrip(cfg, schema.passwords, "ListField(ChallengeField('sha256')) <- [md5 DigestValue]", [foreign])
back = schema.password.to_python(cfg, schema.password.to_basic(cfg, schema.password.validate(cfg, foreign)))
try:
    back.challenge("hunter2")
except ValueError:
    problems.append("after the round trip the digest no longer answers its own plaintext: challenge('hunter2') failed")
finish("a DigestValue of a foreign algorithm is accepted but does not survive to_basic/to_python")
