"""C09, unchanged library: a digest value made with another algorithm than the field's is accepted
as default (and on assignment) without complaint and verifies the secret in memory, but to_basic
drops the algorithm and to_python re-attaches the FIELD's algorithm: salt and digest come back
unchanged from a save/load, yet the same challenge that succeeded before the save fails after it.
(Borderline: the property speaks of 'default values given as ... digest values' without saying the
algorithm has to match; the library neither rejects nor converts the mismatch.)
"""
import hashlib
import os
import sys
import tempfile

os.environ["HOME"] = tempfile.mkdtemp(prefix="c09-home-")
sys.path.insert(0, os.getcwd())

from cincoconfig import ChallengeField, DigestValue, Schema  # noqa: E402


def verifies(value, text):
    try:
        value.challenge(text)
    except ValueError:
        return False
    return True


failures = []
made_elsewhere = DigestValue.create("s3cret", hashlib.sha256)

schema = Schema()
schema.by_default = ChallengeField("md5", default=made_elsewhere)
schema.assigned = ChallengeField("sha512")
cfg = schema()
cfg.assigned = made_elsewhere

loaded = schema()
loaded.loads(cfg.dumps(format="json"), format="json")
for key in ("by_default", "assigned"):
    before, after = cfg[key], loaded[key]
    same_bytes = (before.salt, before.digest) == (after.salt, after.digest)
    if verifies(before, "s3cret") and not verifies(after, "s3cret"):
        failures.append(
            "%s: 's3cret' verifies before the save and fails after the load "
            "(salt/digest unchanged: %s, algorithm %s -> %s)"
            % (key, same_bytes, before.algorithm.__name__, after.algorithm.__name__)
        )

if failures:
    print("C09 violated on the unchanged library:")
    for line in failures:
        print("  " + line)
    sys.exit(1)
print("ok")
