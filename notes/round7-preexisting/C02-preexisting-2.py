"""
C02 on the UNCHANGED library (borderline): a valid state cannot be loaded back when a field
validator looks at a sibling field that comes later in the schema.

load_tree() stores the entries one by one in document (= schema) order and validates each against
a configuration that still holds the DEFAULTS of the entries not loaded yet.  With
min (validator: min <= cfg.max, default 0) declared before max (default 10), the valid state
min=20 / max=30 is saved as {"min": 20, "max": 30}; loading sets min=20 while max is still 10 and
the validator rejects it.  The same state was reachable by assignment (max first, then min).
Exit 1 when the round trip fails.
"""
import os
import sys
import tempfile

os.environ["HOME"] = tempfile.mkdtemp(prefix="c02-home-")
sys.path.insert(0, os.getcwd())

from cincoconfig import IntField, Schema, asdict  # noqa: E402


def not_above_max(cfg, value):
    if value > cfg.max:
        raise ValueError("min must not exceed max")
    return value


schema = Schema()
schema.min = IntField(default=0, validator=not_above_max)
schema.max = IntField(default=10)

src = schema()
src.max = 30
src.min = 20
assert src.validate(collect_errors=True) == []
expected = asdict(src)

failures = []
for fmt in ("json", "yaml", "bson", "xml", "pickle"):
    try:
        dst = schema()
        dst.loads(src.dumps(format=fmt), format=fmt)
        if asdict(dst) != expected:
            failures.append("%s: came back as %r, expected %r" % (fmt, asdict(dst), expected))
    except Exception as exc:  # noqa: BLE001
        failures.append("%s: load raised %s: %s" % (fmt, type(exc).__name__, exc))

if failures:
    print("C02 VIOLATED on the unchanged tree: valid state %r cannot be re-loaded" % (expected,))
    for line in failures:
        print("  " + line)
    sys.exit(1)
print("ok")
sys.exit(0)
