"""Pre-existing: an untyped ListField (no item field, or AnyField items) accepts a tuple and returns it unchanged; on disk it is a list and it reads back as a list, which is not equal to the tuple."""
import os, sys, tempfile
os.environ["HOME"] = tempfile.mkdtemp(prefix="c05-pre-home-")
sys.path.insert(0, os.getcwd())
from cincoconfig import AnyField, Schema
from cincoconfig.fields import *  # noqa: F401,F403
problems = []
def roundtrip(cfg, field, name, value):
    accepted = field.validate(cfg, value)
    basic = field.to_basic(cfg, accepted)
    back = field.to_python(cfg, basic)
    if back != accepted:
        problems.append("%s: accepted %r, on disk %r, read back %r" % (name, accepted, basic, back))
def finish(title):
    if problems:
        print("C05 violated on the unchanged tree: " + title)
        for line in problems:
            print("  - " + line)
        sys.exit(1)
    print("ok")
    sys.exit(0)

schema = Schema()
schema.plain = ListField()
schema.anyitems = ListField(AnyField())
cfg = schema()
roundtrip(cfg, schema.plain, "ListField()", (1, 2))
roundtrip(cfg, schema.anyitems, "ListField(AnyField())", ("a", "b"))
finish("an accepted tuple does not survive to_basic/to_python of an untyped ListField")
