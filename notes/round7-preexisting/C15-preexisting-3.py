"""Unchanged library: a typed-dict entry whose value fails in the decode step (to_python) of a
tree/document load is reported against the dict field without the entry key, while the same value
given by assignment names the key."""
import os
import sys
import tempfile

os.environ["HOME"] = tempfile.mkdtemp()
sys.path.insert(0, os.getcwd())

from cincoconfig import BytesField, DictField, Schema, StringField  # noqa: E402
from cincoconfig.core import ValidationError  # noqa: E402

root = Schema()
root.a.blobs = DictField(StringField(), BytesField(encoding="hex"))
cfg = root()

paths = {}
for route, action in (
    ("assignment of 5", lambda: setattr(cfg.a, "blobs", {"ok": b"\x01", "k": 5})),
    ("tree load of 5", lambda: cfg.load_tree({"a": {"blobs": {"ok": "01", "k": 5}}})),
    ("tree load of 'zz'", lambda: cfg.load_tree({"a": {"blobs": {"ok": "01", "k": "zz"}}})),
):
    try:
        action()
        paths[route] = "<not rejected>"
    except ValidationError as err:
        paths[route] = err.ref_path
    except Exception as err:  # pylint: disable=broad-except
        paths[route] = "<%s>" % type(err).__name__

bad = ["%s: reported as %r" % (r, p) for r, p in paths.items() if p != "a.blobs[k]"]
if bad:
    print("pre-existing C15 violation (dict entry key missing from the path), expected 'a.blobs[k]':")
    for line in bad:
        print("  -", line)
    sys.exit(1)
print("ok")
