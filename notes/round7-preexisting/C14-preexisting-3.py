"""
UNCHANGED library, C14 (minor): "an invalid variable makes construction fail with a validation
error naming the field".  For a field inside a config-type sub-configuration the error names only
the bare key ("port"), not the field's path ("sub.port"): the sub-configuration learns its key only
after it has been built (Config._set_default_value), and the error is raised while building it.
A plain nested schema reports "plain.port".
"""
import os
import sys
import tempfile

os.environ["HOME"] = tempfile.mkdtemp(prefix="c14-pre3-home-")
sys.path.insert(0, os.getcwd())

from cincoconfig import IntField, Schema, ValidationError, make_type  # noqa: E402

inner = Schema(env="INNER")
inner.port = IntField(default=3)
Inner = make_type(inner, "Inner")

schema = Schema()
schema.sub = Inner
schema.plain.port = IntField(env="PLAIN_PORT")

os.environ["PLAIN_PORT"] = "bad"
try:
    schema()
except ValidationError as err:
    plain = err.ref_path
os.environ.pop("PLAIN_PORT")
os.environ["INNER_PORT"] = "bad"
try:
    schema()
except ValidationError as err:
    typed = err.ref_path

print("plain nested schema: %r   config-type sub-configuration: %r" % (plain, typed))
if plain == "plain.port" and typed != "sub.port":
    print("C14 VIOLATED (unchanged library): the error for INNER_PORT does not name sub.port")
    sys.exit(1)
sys.exit(0)
