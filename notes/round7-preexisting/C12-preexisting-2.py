"""
Unchanged library (weaker finding): a constructor keyword for a VirtualField with a setter is
accepted, the setter assigns a real field - and Config.__init__ then overwrites that field with
its declared default and marks it 'not user-defined', because defaults are applied after the
keywords to every key that is not itself a keyword.  The same assignment made after construction
sticks.
"""
import os
import sys
import tempfile

os.environ["HOME"] = tempfile.mkdtemp(prefix="c12-home-")
sys.path.insert(0, os.getcwd())

from cincoconfig import IntField, Schema, VirtualField, is_value_defined  # noqa: E402


def set_port(cfg, value):
    cfg.port = int(value)


schema = Schema()
schema.port = IntField(default=80)
schema.port_text = VirtualField(lambda cfg: str(cfg.port), set_port)

later = schema()
later.port_text = "8443"          # assignment after construction
built = schema(port_text="8443")  # the same assignment as a constructor keyword (accepted)

problems = []
if (later.port, is_value_defined(later, "port")) != (8443, True):
    problems.append("assignment after construction: port=%r defined=%r" % (later.port, is_value_defined(later, "port")))
if (built.port, is_value_defined(built, "port")) != (8443, True):
    problems.append(
        "constructor keyword port_text='8443' was accepted, its setter assigned port=8443, but the "
        "configuration exposes port=%r, user-defined=%r" % (built.port, is_value_defined(built, "port"))
    )

if problems:
    print("C12 (constructor keywords) on the unchanged library:")
    for p in problems:
        print("  -", p)
    sys.exit(1)
print("ok")
sys.exit(0)
