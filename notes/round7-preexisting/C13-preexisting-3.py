"""
Pre-existing (unchanged tree), borderline: assigning one configuration's typed list of
sub-configurations to another configuration re-validates the proxy item by item, but a Config item
is adopted as it is (ListProxy._validate re-parents the same object). Both configurations then hold
the SAME item objects: a later assignment through b changes a, and a's items now name b as parent.
"""
import os
import sys
import tempfile

os.environ["HOME"] = tempfile.mkdtemp(prefix="c13-home-")
sys.path.insert(0, os.getcwd())

from cincoconfig import IntField, ListField, Schema, asdict  # noqa: E402

item = Schema()
item.port = IntField(default=1)
schema = Schema()
schema.servers = ListField(item, default=lambda: [])

a = schema()
b = schema()
a.servers.append({"port": 5})
a_before = asdict(a)

b.servers = a.servers  # an assignment on b
b.servers[0].port = 99  # a mutation through b

problems = []
if asdict(a) != a_before:
    problems.append("asdict(a) changed: %r -> %r" % (a_before, asdict(a)))
if a.servers[0]._parent is not a:
    problems.append("a.servers[0]._parent is b: %r" % (a.servers[0]._parent is b))

if problems:
    print("C13 violated on the unchanged tree (item configurations shared after b.x = a.x):")
    for line in problems:
        print(" -", line)
    sys.exit(1)
print("ok")
sys.exit(0)
