"""Pre-existing (unchanged tree): DictProxy.update does not accept every call form of dict.update.

 * update(iterable=..) / update(self=..): the keyword is taken for the method's own parameter (dict.update
   takes its positional argument positional-only, so these are ordinary keyword entries);
 * update(obj) with an object that offers keys() and __getitem__ but is not a collections.abc.Mapping
   (the protocol dict.update documents) is iterated as if it were a sequence of pairs.
"""
import os
import sys
import tempfile

os.environ["HOME"] = tempfile.mkdtemp(prefix="c17-home-")
sys.path.insert(0, os.getcwd())

from cincoconfig import Schema, DictField, ListField, StringField, IntField  # noqa: E402

problems = []
schema = Schema()
schema.d = DictField(StringField(), IntField())
cfg = schema()
cfg.d = {"a": 1}
typed, model = cfg.d, {"a": 1}

for kwargs in ({"iterable": "5"}, {"self": "6"}):
    model.update(**{k: int(v) for k, v in kwargs.items()})
    try:
        typed.update(**kwargs)
    except Exception as exc:
        problems.append("update(**%r) raised %s: %s" % (kwargs, type(exc).__name__, exc))
    if dict(typed) != model:
        problems.append("after update(**%r): typed %r, built-in %r" % (kwargs, dict(typed), model))
    model = dict(typed)  # resynchronise


class Keyed:
    def keys(self):
        return ["x", "y"]

    def __getitem__(self, key):
        return {"x": 7, "y": 8}[key]


model.update(Keyed())
try:
    typed.update(Keyed())
except Exception as exc:
    problems.append("update(object with keys()/__getitem__) raised %s: %s" % (type(exc).__name__, exc))
if dict(typed) != model:
    problems.append("after update(keys-object): typed %r, built-in %r" % (dict(typed), model))

if problems:
    print("C17 violated on the unchanged tree (DictProxy.update call forms):")
    for line in problems:
        print("  - " + line)
    sys.exit(1)
print("ok")
