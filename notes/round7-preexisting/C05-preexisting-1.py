"""Pre-existing: a non-required SecureField accepts the empty string but writes it as null, so it reads back as None."""
import os, sys, tempfile
os.environ["HOME"] = tempfile.mkdtemp(prefix="c05-pre-home-")
sys.path.insert(0, os.getcwd())
from cincoconfig import Schema
from cincoconfig.fields import *  # noqa: F401,F403
problems = []
def roundtrip(cfg, field, name, value):
    accepted = field.validate(cfg, value)
    basic = field.to_basic(cfg, accepted)
    back = field.to_python(cfg, basic)
    if back != accepted:
        problems.append("%s: accepted %r, on disk %r, read back %r" % (name, accepted, basic, back))
def finish(title):
    if problems:
        print("C05 violated on the unchanged tree: " + title)
        for line in problems:
            print("  - " + line)
        sys.exit(1)
    print("ok")
    sys.exit(0)

schema = Schema()
schema.secret = SecureField()
schema.secrets = ListField(SecureField(method="xor"))
schema.table = DictField(StringField(), SecureField())
cfg = schema()
roundtrip(cfg, schema.secret, "SecureField()", "")
roundtrip(cfg, schema.secrets, "ListField(SecureField())", ["a", ""])
roundtrip(cfg, schema.table, "DictField(StringField(), SecureField())", {"k": ""})
finish("the accepted empty secret '' does not survive to_basic/to_python (comes back as None)")
