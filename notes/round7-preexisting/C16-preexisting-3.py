"""Unchanged library: the generated parser cannot be built when the automatic off switch of a
boolean (--no-<x>) is also the option of another field (no_<x>), or when a field is called help
(argparse's own --help). The field paths themselves do not collide under the '.'/'_' -> '-' map."""
import os
import sys
import tempfile

os.environ["HOME"] = tempfile.mkdtemp(prefix="c16-home-")
sys.path.insert(0, os.getcwd())

from argparse import ArgumentError  # noqa: E402

from cincoconfig import BoolField, Schema, StringField, generate_argparse_parser  # noqa: E402

bad = []

schema = Schema()
schema.color = BoolField(default=True)
schema.no_color = StringField(default="never")  # distinct path, option --no-color
try:
    generate_argparse_parser(schema)
except ArgumentError as exc:
    bad.append("fields color (bool) + no_color: %s" % exc)

schema = Schema()
schema.cache.enabled = BoolField(default=True)
schema.no.cache_enabled = StringField(default="x")  # 'no.cache_enabled' -> --no-cache-enabled
try:
    generate_argparse_parser(schema)
except ArgumentError as exc:
    bad.append("fields cache.enabled (bool) + no.cache_enabled: %s" % exc)

schema = Schema()
schema.help = StringField(default="see manual")
try:
    generate_argparse_parser(schema)
except ArgumentError as exc:
    bad.append("field help: %s" % exc)

if bad:
    print("C16 (pre-existing): generate_argparse_parser raises instead of offering one option per field:")
    for line in bad:
        print("  " + line)
    sys.exit(1)
print("ok")
