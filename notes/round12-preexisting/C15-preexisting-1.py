# Unchanged library: a config type made from a schema that HAS a key (a nested schema of another
# schema), used as a field under a different name. The default-built sub-configuration keeps the
# key of the wrapped schema, so rejections below it name a path that does not exist.
import os, sys, tempfile
os.environ["HOME"] = tempfile.mkdtemp()
sys.path.insert(0, os.getcwd())
from cincoconfig import Schema, IntField, make_type, ValidationError

lib = Schema()
lib.endpoint.port = IntField(default=80)          # lib.endpoint is a schema with key "endpoint"
Endpoint = make_type(lib.endpoint, "Endpoint")

schema = Schema()
schema.app.primary = Endpoint
cfg = schema()

bad = 0
for label, fn in [
    ("attribute", lambda: setattr(cfg.app.primary, "port", "x")),
    ("dotted path", lambda: cfg.__setitem__("app.primary.port", "x")),
]:
    try:
        fn()
    except ValidationError as err:
        if err.ref_path != "app.primary.port":
            print("%s: rejection named %r (%s), expected 'app.primary.port'" % (label, err.ref_path, err))
            bad = 1
# for comparison: the same rejection through a tree load is named correctly
try:
    cfg.load_tree({"app": {"primary": {"port": "x"}}})
except ValidationError as err:
    print("tree load names %r" % err.ref_path)
sys.exit(bad)
