import copy
import os
import sys
import tempfile

os.environ["HOME"] = tempfile.mkdtemp(prefix="c07home")
sys.path.insert(0, os.getcwd())

from cincoconfig import Schema, SecureField  # noqa: E402

work = tempfile.mkdtemp(prefix="c07work")
keypath = os.path.join(work, "app.key")
key = bytes(range(1, 33))
with open(keypath, "wb") as fp:
    fp.write(key)

schema = Schema()
schema.password = SecureField(method="xor")
cfg = schema(key_filename=keypath)
cfg.password = "secret"

# a copy of the configuration taken while a key context is open (e.g. inside a block that
# saves several documents under one opened key)
with cfg._keyfile:
    dup = copy.deepcopy(cfg)

# every context that was ever opened is closed now; between sessions the key file is replaced
newkey = bytes(range(101, 133))
with open(keypath, "wb") as fp:
    fp.write(newkey)

problems = []
kf = dup._keyfile
held = getattr(kf, "_KeyFile__key")
if held:
    problems.append(
        "the copy's key object holds key material although no key context is open: %s"
        % held.hex()
    )
try:
    out = kf.encrypt(b"\0" * 32, method="xor")
except TypeError:
    pass
else:
    problems.append(
        "encrypt() works on the copy's key object outside any key context (key %s)"
        % out.ciphertext.hex()
    )
# a whole new session on the copy: opened and closed properly, yet it ignores the key file
with kf as ctx:
    used = ctx.encrypt(b"\0" * 32, method="xor").ciphertext
if used != newkey:
    problems.append(
        "a later session on the copy ignores the key file: key in use %s, key in file %s"
        % (used.hex(), newkey.hex())
    )
if getattr(kf, "_KeyFile__key"):
    problems.append("after that session closed the key object still holds the key")

if problems:
    print("C07 violated on the unchanged tree (deep copy inside an open key context):")
    for p in problems:
        print(" -", p)
    sys.exit(1)
print("ok")
sys.exit(0)
