"""
UNCHANGED tree: a rejected assignment of a list to a typed list field (by attribute, dotted path or
constructor keyword) has already taken over the configuration objects that came before the refused
item, or that were taken over before the field's own validator refused the list. They still sit in
their old list, but report a place in the list that was never stored (the state that commit 3d74502
"an index assignment to a list item that does not exist is refused before the new item is taken
over" treats as damage for ListProxy.__setitem__).
"""
import os
import sys
import tempfile

os.environ["HOME"] = tempfile.mkdtemp()
sys.path.insert(0, os.getcwd())

from cincoconfig import Schema, ListField, IntField, asdict  # noqa: E402
from cincoconfig import ValidationError  # noqa: E402


def at_least_two(cfg, value):
    if len(value) < 2:
        raise ValueError("at least two items")
    return value


item = Schema()
item.x = IntField(default=0)

schema = Schema()
schema.a = ListField(item)
schema.b = ListField(item)
schema.c = ListField(item, validator=at_least_two)


def links(c):
    return (id(c._parent), c._key, id(c._container), c._ref_path)


def fresh():
    cfg = schema()
    cfg.a = [{"x": 1}]
    cfg.b = [{"x": 7}]
    return cfg


problems = []

# 1. by attribute: the second item is refused, the first one had been taken over already
cfg = fresh()
held = cfg.b[0]
before = (asdict(cfg), links(held))
try:
    cfg.a = [cfg.b[0], {"x": "not a number"}]
except ValidationError:
    after = (asdict(cfg), links(held))
    if after != before:
        problems.append(
            "cfg.a = [cfg.b[0], <bad map>] refused, but cfg.b[0] (still in cfg.b: %s) "
            "_key %r -> %r, _ref_path %r -> %r"
            % (cfg.b[0] is held, before[1][1], after[1][1], before[1][3], after[1][3])
        )
else:
    problems.append("case 1 was not refused")

# 2. a single item, refused by the list field's own validator after the item was taken over
cfg = fresh()
held = cfg.b[0]
before = (asdict(cfg), links(held))
try:
    cfg["c"] = [cfg.b[0]]
except ValidationError:
    after = (asdict(cfg), links(held))
    if after != before:
        problems.append(
            "cfg['c'] = [cfg.b[0]] refused by the field validator, but cfg.b[0] "
            "_key %r -> %r, _ref_path %r -> %r"
            % (before[1][1], after[1][1], before[1][3], after[1][3])
        )
else:
    problems.append("case 2 was not refused")

# 3. constructor keyword of a second configuration: the first configuration's item now names the
#    half-built configuration as its parent
cfg = fresh()
held = cfg.b[0]
before = (asdict(cfg), links(held))
try:
    schema(a=[cfg.b[0], {"x": "not a number"}])
except ValidationError:
    after = (asdict(cfg), links(held))
    if after != before:
        problems.append(
            "schema(a=[cfg.b[0], <bad map>]) refused, but cfg.b[0]._parent is cfg: %s, "
            "_ref_path %r -> %r" % (held._parent is cfg, before[1][3], after[1][3])
        )
else:
    problems.append("case 3 was not refused")

if problems:
    print("a rejected assignment changed the configuration (links of held item configurations):")
    for line in problems:
        print("  " + line)
    sys.exit(1)

print("ok")
sys.exit(0)
