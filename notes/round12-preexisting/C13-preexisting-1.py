# UNCHANGED tree: copying values from one configuration into another with
# b.load_tree(a.to_tree()) leaves the two configurations sharing mutable values:
#  - AnyField (and dynamic-field) values: Field.to_basic / to_python are the identity, the very
#    same list object ends up in both configurations;
#  - untyped ListField / DictField: to_basic() copies one level (list(value) / dict(value)) and
#    to_python() keeps what it is given, so NESTED lists / dicts are shared.
# A later in-place mutation through b is then visible through a.
import os, sys, tempfile
os.environ["HOME"] = tempfile.mkdtemp()
sys.path.insert(0, os.getcwd())
import copy
from cincoconfig import Schema, AnyField, ListField, DictField, asdict

schema = Schema(dynamic=True)
schema.any = AnyField()
schema.lst = ListField()
schema.d = DictField()

a = schema()
b = schema()
a.any = [1]
a.lst = [[1]]
a.d = {"k": [1]}
a.extra = [1]          # dynamic field
snapshot = copy.deepcopy(asdict(a))

b.load_tree(a.to_tree())          # a "load" on b
b.any.append(2)                   # in-place mutations on b only
b.lst[0].append(2)
b.d["k"].append(2)
b.extra.append(2)

if asdict(a) != snapshot:
    print("C13 VIOLATED on the unchanged tree: mutating b after b.load_tree(a.to_tree()) changed a")
    print("  a before:", snapshot)
    print("  a after :", asdict(a))
    sys.exit(1)
print("ok")
sys.exit(0)
