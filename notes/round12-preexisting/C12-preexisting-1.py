import os, sys, tempfile
os.environ["HOME"] = tempfile.mkdtemp()
sys.path.insert(0, os.getcwd())

from cincoconfig import Schema, IntField, ListField, VirtualField, is_value_defined, reset_value

bad = []

# (a) a rejected augmented assignment on a typed list changes the held (default) value in place
schema = Schema()
schema.ports = ListField(IntField(), default=[1, 2])
cfg = schema()
try:
    cfg.ports += [3, "not-a-number"]
except Exception as exc:
    rejected = type(exc).__name__
else:
    rejected = None
if rejected and list(cfg.ports) != [1, 2]:
    bad.append("(a) `cfg.ports += [3, 'not-a-number']` was rejected (%s), the field is still reported as %s, "
               "but it now reads %r instead of its default [1, 2]"
               % (rejected, "user-defined" if is_value_defined(cfg, "ports") else "not user-defined", list(cfg.ports)))

# (b) a virtual field of a fresh configuration is reported as user-defined
schema2 = Schema()
schema2.x = IntField(default=1)
schema2.double = VirtualField(lambda c: c.x * 2)
cfg2 = schema2()
if is_value_defined(cfg2, "double"):
    bad.append("(b) fresh configuration: virtual field 'double' is reported as user-defined")

if bad:
    for line in bad:
        print(line)
    sys.exit(1)
print("ok")
