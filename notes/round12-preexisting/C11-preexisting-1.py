import os, sys, tempfile
os.environ["HOME"] = tempfile.mkdtemp()
sys.path.insert(0, os.getcwd())
from cincoconfig import Schema, StringField, IntField, ValidationError, validator, make_type

log = []
db = Schema()
db.host = StringField(default="h")
db.port = IntField(default=1)
Db = make_type(db, "Db")

schema = Schema()
schema.db = Db            # a config type used as a field (wrapped in a ConfigTypeField)


# registering on the field of the owning schema, as one does for a plain sub-schema
@validator(schema.db)
def check_db(cfg):
    log.append("db")
    raise ValueError("db validator refuses everything")


cfg = schema()
try:
    cfg.load_tree({"db": {"host": "x", "port": 0}})
except ValidationError:
    print("ok: validator ran and refused")
    sys.exit(0)
print("validator(schema.db) accepted the registration silently (schema.db is a ConfigTypeField, neither "
      "Field nor Schema), and the load returned normally; validator calls: %r" % log)
sys.exit(1)
