# Unchanged library (borderline: list mutators are not among the routes the property lists).
# A dict given for an EXISTING position of a list of configurations (index assignment, insert,
# slice assignment) is loaded before it is in the list, and its position is reported as len(list):
# the rejection names an item index that is not the one the value was meant for.
import os, sys, tempfile
os.environ["HOME"] = tempfile.mkdtemp()
sys.path.insert(0, os.getcwd())
from cincoconfig import Schema, IntField, ListField, ValidationError

item = Schema(); item.port = IntField(default=1)
schema = Schema(); schema.a.servers = ListField(item)
cfg = schema()
cfg.load_tree({"a": {"servers": [{}, {}, {}]}})

bad = 0
for label, fn, want in [
    ("servers[1] = {...}", lambda: cfg.a.servers.__setitem__(1, {"port": "x"}), "a.servers[1].port"),
    ("servers.insert(0, {...})", lambda: cfg.a.servers.insert(0, {"port": "x"}), "a.servers[0].port"),
]:
    try:
        fn()
    except ValidationError as err:
        if err.ref_path != want:
            print("%s: rejection named %r, expected %r" % (label, err.ref_path, want))
            bad = 1
sys.exit(bad)
