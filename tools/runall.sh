#!/bin/sh
# run every registered quick check on /repo (rewrites evidence/*.json); prints one line per check
cd /verif
for c in $(python3 -c "import json;print(' '.join(x['property_id'] for x in json.load(open('MANIFEST.json'))['checks']))"); do
  ./check $c ${1:+--tier $1} 2>&1 | grep -v "^KNOWN-FINDING" | tail -1 | cut -c1-220
done
