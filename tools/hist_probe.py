import sys, os, random, json, tempfile
sys.path.insert(0,'/verif/harness')
import core
home=core.setup_sandbox_home()
import cfgs as C, hist as H, fields as F, lean
tmp=tempfile.mkdtemp()
os.makedirs(tmp+'/sub'); open(tmp+'/f.txt','w').write('x'); open(tmp+'/sub/g.txt','w').write('x')
kp=tmp+'/key'; open(kp,'wb').write(bytes(range(32)))
drv=lean.Driver()
seed=int(sys.argv[1]) if len(sys.argv)>1 else 0
N=int(sys.argv[2]) if len(sys.argv)>2 else 50
bad=0; unm=0
def tape(n): return bytes((i*7+3)%256 for i in range(n))
import hashlib
salts={a: tape(hashlib.new(a).digest_size) for a in ("md5","sha1","sha224","sha256","sha384","sha512")}
os.chdir(tmp)
for i in range(N):
    rng=random.Random("%d/%d"%(seed,i))
    sk=C.gen_schema(rng,tmp,kp)
    ops=H.gen_ops(rng,sk,tmp,rng.randint(4,12))
    impl,_=H.run_impl(sk,ops,tmp,kp,tape=tape)
    vals=H.op_values(ops)+H.schema_values(sk)
    for st in impl['steps']:
        pass
    if not H.schema_modelled(sk, vals): unm+=1; continue
    req={"cmd":"cfg.run","schema":C.wire_schema(sk,tmp),"world":{"environ":[],"env":H.schema_env(sk,vals,tmp,key=bytes(range(32)),iv=tape(16),salts=salts)},"ops":[H.wire_op(o) for o in ops]}
    r=drv.ask(req)
    if 'ok' not in r:
        print('DRIVER ERR',r); bad+=1; continue
    d=H.compare(impl,r['ok'])
    if d:
        bad+=1
        if bad<=int(os.environ.get('SHOW','3')):
            print('=== case',i,'at',d['at'],d.get('what'))
            if d['at']!='build' and isinstance(d['at'],int): print('op',json.dumps(ops[d['at']],default=str)[:600])
            if os.environ.get('SCHEMA'): print('schema',json.dumps(sk,default=str)[:2500])
            print('impl ',json.dumps(d['impl'],default=str)[:500]); print('model',json.dumps(d['model'],default=str)[:500])
print('cases',N,'bad',bad,'unmodelled',unm)
