#!/bin/sh
# tools/mut.sh <patch.diff|-e 'python edit script'> -- C04 C18 ...   : run checks against a mutated scratch copy of /repo
# usage: tools/mut.sh patch.diff C04 C18      (patch applied with git apply / patch -p1)
set -u
P="$1"; shift
D=$(mktemp -d /tmp/mut-XXXXXX)
cp -r /repo/. "$D"/
( cd "$D" && (git apply "$P" 2>/dev/null || patch -p1 -s < "$P") ) || { echo "patch failed"; rm -rf "$D"; exit 3; }
( cd "$D" && /venv/bin/python -m pytest -q -x -p no:cacheprovider --deselect tests/test_schema.py::TestSchema::test_setattr_field 2>&1 | tail -1 )
for c in "$@"; do
  VERIF_EVIDENCE_DIR="$D/.evidence" VERIF_REPO="$D" /verif/check "$c" > "$D/.out" 2>&1; rc=$?
  tail -3 "$D/.out"
  echo "  -> $c exit=$rc"
done
rm -rf "$D"
# restore Generated/* to /repo's
/venv/bin/python -B /verif/harness/extract.py > /dev/null
