#!/bin/sh
# tools/mutrev.sh <fix-commit-substring> C10 ... : run checks against /repo with that fix commit reverted (scratch copy)
set -u
SUB="$1"; shift
C=$(git -C /repo log --format='%h %s' | grep -- "$SUB" | head -1 | cut -d' ' -f1)
[ -n "$C" ] || { echo "no such commit"; exit 3; }
D=$(mktemp -d /tmp/mut-XXXXXX)
cp -r /repo/. "$D"/
( cd "$D" && git show "$C" | git apply -R ) || { echo "revert failed"; rm -rf "$D"; exit 3; }
for c in "$@"; do
  VERIF_EVIDENCE_DIR="$D/.evidence" VERIF_REPO="$D" /verif/check "$c" > "$D/.out" 2>&1; rc=$?
  grep -v "^KNOWN" "$D/.out" | tail -3 | cut -c1-260
  echo "  -> $c exit=$rc"
done
rm -rf "$D"
/venv/bin/python -B /verif/harness/extract.py > /dev/null
