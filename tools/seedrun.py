#!/venv/bin/python
"""tools/seedrun.py <seed-dir> [--checks C01,C06,...] [--tier quick]
Evaluate one seeded change (a directory holding patch.diff, demo.py, meta.json):
  1. scratch copy of /repo + patch; the pinned test suite must still give 477 passed;
  2. demo.py exits 1 on the changed copy and 0 on an unchanged copy;
  3. the named checks (default: the seed's own property) run against the changed copy (VERIF_REPO), exit codes recorded.
Prints one JSON line; never touches /repo. Runs must not overlap (Generated/*.lean is shared)."""
import json
import os
import shutil
import subprocess
import sys
import tempfile

VERIF = os.path.dirname(os.path.dirname(os.path.abspath(__file__)))


def sh(cmd, cwd=None, env=None, timeout=3600):
    try:
        r = subprocess.run(cmd, cwd=cwd, env=env, shell=isinstance(cmd, str), capture_output=True, text=True, timeout=timeout)
        return r.returncode, r.stdout + r.stderr
    except subprocess.TimeoutExpired:
        return 124, "timeout"


def main():
    seed = os.path.abspath(sys.argv[1])
    meta = json.load(open(os.path.join(seed, "meta.json")))
    checks = [meta["property"]]
    tier = "quick"
    a = sys.argv[2:]
    while a:
        if a[0] == "--checks":
            checks = a[1].split(",")
            a = a[2:]
        elif a[0] == "--tier":
            tier = a[1]
            a = a[2:]
        else:
            a = a[1:]
    out = {"seed": seed, "property": meta["property"], "title": meta.get("title"), "checks": {}}
    d = tempfile.mkdtemp(prefix="seed-")
    clean = tempfile.mkdtemp(prefix="seedclean-")
    try:
        sh("cp -r /repo/. %s/ && cp -r /repo/. %s/" % (d, clean))
        rc, log = sh("git apply %s" % os.path.join(seed, "patch.diff"), cwd=d)
        if rc != 0:
            rc, log = sh("patch -p1 -s < %s" % os.path.join(seed, "patch.diff"), cwd=d)
        out["applies"] = rc == 0
        if rc != 0:
            out["error"] = log[-300:]
            print(json.dumps(out))
            return
        rc, log = sh("/venv/bin/python -m pytest -q -p no:cacheprovider --timeout=900 2>&1 | tail -1", cwd=d)
        out["tests"] = log.strip().splitlines()[-1] if log.strip() else ""
        out["tests_ok"] = "477 passed" in out["tests"] and "1 failed" in out["tests"]
        env = dict(os.environ, HOME=tempfile.mkdtemp(prefix="seedhome-"))
        rc1, l1 = sh(["/venv/bin/python", "-B", os.path.join(seed, "demo.py")], cwd=d, env=env, timeout=300)
        rc0, l0 = sh(["/venv/bin/python", "-B", os.path.join(seed, "demo.py")], cwd=clean, env=env, timeout=300)
        out["demo_changed"], out["demo_clean"] = rc1, rc0
        out["demo_ok"] = rc1 == 1 and rc0 == 0
        out["demo_tail"] = l1.strip().splitlines()[-2:]
        for c in checks:
            e = dict(os.environ, VERIF_REPO=d, VERIF_EVIDENCE_DIR=os.path.join(d, ".evidence"), VERIF_TIER=tier)
            rc, log = sh([os.path.join(VERIF, "check"), c, "--tier", tier], cwd=VERIF, env=e, timeout=7200)
            lines = [ln for ln in log.splitlines() if ln.startswith("VIOLATION") or " seed=" in ln]
            out["checks"][c] = {"exit": rc, "lines": [ln[:200] for ln in lines[-3:]]}
    finally:
        shutil.rmtree(d, ignore_errors=True)
        shutil.rmtree(clean, ignore_errors=True)
        sh(["/venv/bin/python", "-B", os.path.join(VERIF, "harness", "extract.py")])
        sh("rm -f %s/replays/*.json" % VERIF)
    print(json.dumps(out))


if __name__ == "__main__":
    main()
