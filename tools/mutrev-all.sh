#!/bin/sh
while IFS="$(printf '\t')" read -r id commit props subj; do
  D=$(mktemp -d /tmp/mutr-XXXXXX)
  cp -r /repo/. "$D"/
  if ! ( cd "$D" && git show "$commit" | git apply -R ) 2>/dev/null; then echo "$id $commit revert-does-not-apply"; rm -rf "$D"; continue; fi
  t=$(cd "$D" && /venv/bin/python -m pytest -q -p no:cacheprovider --timeout=900 2>&1 | tail -1 | cut -c1-40)
  line="$id $commit tests[$t]"
  for c in $props; do
    VERIF_EVIDENCE_DIR="$D/.evidence" VERIF_REPO="$D" /verif/check "$c" > "$D/.out" 2>&1; rc=$?
    nf=$(grep -c "no-failing-input-found" "$D/.out")
    line="$line $c=$rc$( [ "$nf" -gt 0 ] && echo '(no-input)')"
  done
  echo "$line"
  rm -rf "$D"
done < ${MUTREV_LIST:-/verif/tools/mutrev-list.txt}
/venv/bin/python -B /verif/harness/extract.py > /dev/null
rm -f /verif/replays/*.json
