import Cinco.Drv.Wire
import Cinco.TreeIO.Include
import Cinco.Format.Xml
import Cinco.Format.Yaml
/-
  Line-protocol driver: one JSON object per line in, one per line out.
  Every reply is `{"ok": ...}` or `{"err": "..."}` (protocol error) — never a default.
-/
open Lean Cinco Cinco.Wire

partial def incSchemaOfJson (j : Json) : R Include.IncSchema := do
  let incs ← (← fArr j "includes").mapM (fun x => do pure (String.ofList (← strOfJson x)))
  let subs ← (← fArr j "subs").mapM (fun p => match p with
    | .arr #[k, s] => do pure (String.ofList (← strOfJson k), ← incSchemaOfJson s)
    | _ => throw "bad sub schema")
  pure (.mk incs subs)

partial def elemToJson : Xml.Elem → Json
  | .mk tag ty text ch => Json.mkObj [("tag", strToJson tag.toList),
      ("type", match ty with | some t => strToJson t.toList | none => Json.null),
      ("text", match text with | some t => strToJson t | none => Json.null),
      ("children", Json.arr (ch.map elemToJson).toArray)]

partial def elemOfJson (j : Json) : R Xml.Elem := do
  let tag ← fChars j "tag"
  let ty ← match fieldOpt j "type" with
    | some t => do pure (some (String.ofList (← strOfJson t)))
    | none => pure none
  let text ← match fieldOpt j "text" with
    | some t => do pure (some (← strOfJson t))
    | none => pure none
  let ch ← (← fArr j "children").mapM elemOfJson
  pure (.mk (String.ofList tag) ty text ch)

/-- float text conversion supplied by the harness (CPython's `str(float)` / `float(text)`) as finite tables -/
def floatTextOfJson (j : Json) : R Xml.FloatText := do
  let pr ← match fieldOpt j "fprint" with
    | some (.arr a) => a.toList.mapM (fun p => match p with
        | .arr #[f, t] => do pure (← fltOfJson f, ← strOfJson t)
        | _ => throw "bad fprint entry")
    | _ => pure []
  let pa ← match fieldOpt j "fparse" with
    | some (.arr a) => a.toList.mapM (fun p => match p with
        | .arr #[t, .null] => do pure (← strOfJson t, (none : Option Flt))
        | .arr #[t, f] => do pure (← strOfJson t, some (← fltOfJson f))
        | _ => throw "bad fparse entry")
    | _ => pure []
  pure { print := fun f => match pr.find? (fun e => e.1 == f) with
                    | some e => e.2
                    | none => "<<missing-float-text>>".toList,
         parse := fun t => match pa.find? (fun e => e.1 == t) with
                    | some e => e.2
                    | none => none }

def optStr (j : Json) (k : String) : R (Option String) :=
  match fieldOpt j k with
  | some v => do pure (some (String.ofList (← strOfJson v)))
  | none => pure none

def handle (cmd : String) (j : Json) : R Json := do
  match cmd with
  | "ping" => pure (Json.str "pong")
  | "merge" => do
      let b ← kvsOfJson (← field j "base")
      let c ← kvsOfJson (← field j "child")
      pure (treeToJson (.dict (Include.combine b c)))
  | "includes" => do
      let sch ← incSchemaOfJson (← field j "schema")
      let t ← kvsOfJson (← field j "tree")
      let files ← (← fArr j "files").mapM (fun p => match p with
        | .arr #[fn, .null] => do pure (← treeOfJson fn, (none : Option Kvs))
        | .arr #[fn, ch] => do pure (← treeOfJson fn, some (← kvsOfJson ch))
        | _ => throw "bad file entry")
      let resolve : Tree → Option Kvs := fun fn =>
        match files.find? (fun (f, _) => f == fn) with
        | some (_, r) => r
        | none => none
      match Include.process resolve sch t with
      | .ok t' => pure (Json.mkObj [("out", "ok"), ("tree", treeToJson (.dict t'))])
      | .error .unresolved => pure (Json.mkObj [("out", "unresolved")])
      | .error .notAMap => pure (Json.mkObj [("out", "not-a-map")])
  | "xml.enc" => do
      let ft ← floatTextOfJson j
      let key := String.ofList (← fChars j "key")
      pure (elemToJson (Xml.toElement ft key (← treeOfJson (← field j "tree"))))
  | "xml.dec" => do
      let ft ← floatTextOfJson j
      let forced ← optStr j "forced"
      pure (treeToJson (Xml.fromElement ft forced (← elemOfJson (← field j "elem"))))
  | "xml.loads" => do
      let ft ← floatTextOfJson j
      let root := String.ofList (← fChars j "root")
      match Xml.loadsElem ft root (← elemOfJson (← field j "elem")) with
      | some t => pure (Json.mkObj [("out", "ok"), ("tree", treeToJson t)])
      | none => pure (Json.mkObj [("out", "wrong-root")])
  | "yaml.wrap" => do
      let rk ← optStr j "root_key"
      pure (treeToJson (.dict (Yaml.wrap rk (← kvsOfJson (← field j "tree")))))
  | "yaml.unwrap" => do
      let rk ← optStr j "root_key"
      pure (treeToJson (Yaml.unwrap rk (← kvsOfJson (← field j "tree"))))
  | c => throw s!"unknown command {c}"

def reply (line : String) : String :=
  match Json.parse line with
  | .error e => (Json.mkObj [("err", Json.str s!"parse: {e}")]).compress
  | .ok j =>
    match (do let c ← fStr j "cmd"; handle c j : R Json) with
    | .ok r => (Json.mkObj [("ok", r)]).compress
    | .error e => (Json.mkObj [("err", Json.str e)]).compress

partial def loop (inp : IO.FS.Stream) (out : IO.FS.Stream) : IO Unit := do
  let line ← inp.getLine
  if line.isEmpty then return ()
  if line.trimAscii.isEmpty then loop inp out else
  out.putStrLn (reply line)
  out.flush
  loop inp out

def main : IO Unit := do
  loop (← IO.getStdin) (← IO.getStdout)
