import Cinco.Drv.Wire
import Cinco.Drv.FieldWire
import Cinco.Drv.CfgWire
import Cinco.Drv.ProxyWire
import Cinco.Drv.StubWire
import Cinco.Drv.HeapWire
import Cinco.Drv.NestedWire
import Cinco.TreeIO.Include
import Cinco.Format.Xml
import Cinco.Format.Yaml
import Cinco.Crypto.Secure
import Cinco.Crypto.KeyFile
import Cinco.Crypto.Digest
import Cinco.Generated.Effects
import Cinco.Crypto.Aes256
import Cinco.Crypto.Hashes
import Cinco.Config.Links
import Cinco.Proxy.CopyDepth
/-
  Line-protocol driver: one JSON object per line in, one per line out.
  Every reply is `{"ok": ...}` or `{"err": "..."}` (protocol error) — never a default.
-/
open Lean Cinco Cinco.Wire

partial def incSchemaOfJson (j : Json) : R Include.IncSchema := do
  let incs ← (← fArr j "includes").mapM (fun x => do pure (String.ofList (← strOfJson x)))
  let subs ← (← fArr j "subs").mapM (fun p => match p with
    | .arr #[k, s] => do pure (String.ofList (← strOfJson k), ← incSchemaOfJson s)
    | _ => throw "bad sub schema")
  pure (.mk incs subs)

partial def elemToJson : Xml.Elem → Json
  | .mk tag ty text ch => Json.mkObj [("tag", strToJson tag.toList),
      ("type", match ty with | some t => strToJson t.toList | none => Json.null),
      ("text", match text with | some t => strToJson t | none => Json.null),
      ("children", Json.arr (ch.map elemToJson).toArray)]

partial def elemOfJson (j : Json) : R Xml.Elem := do
  let tag ← fChars j "tag"
  let ty ← match fieldOpt j "type" with
    | some t => do pure (some (String.ofList (← strOfJson t)))
    | none => pure none
  let text ← match fieldOpt j "text" with
    | some t => do pure (some (← strOfJson t))
    | none => pure none
  let ch ← (← fArr j "children").mapM elemOfJson
  pure (.mk (String.ofList tag) ty text ch)

/-- float text conversion supplied by the harness (CPython's `str(float)` / `float(text)`) as finite tables -/
def floatTextOfJson (j : Json) : R Xml.FloatText := do
  let pr ← match fieldOpt j "fprint" with
    | some (.arr a) => a.toList.mapM (fun p => match p with
        | .arr #[f, t] => do pure (← fltOfJson f, ← strOfJson t)
        | _ => throw "bad fprint entry")
    | _ => pure []
  let pa ← match fieldOpt j "fparse" with
    | some (.arr a) => a.toList.mapM (fun p => match p with
        | .arr #[t, .null] => do pure (← strOfJson t, (none : Option Flt))
        | .arr #[t, f] => do pure (← strOfJson t, some (← fltOfJson f))
        | _ => throw "bad fparse entry")
    | _ => pure []
  pure { print := fun f => match pr.find? (fun e => e.1 == f) with
                    | some e => e.2
                    | none => "<<missing-float-text>>".toList,
         parse := fun t => match pa.find? (fun e => e.1 == t) with
                    | some e => e.2
                    | none => none }

def optStr (j : Json) (k : String) : R (Option String) :=
  match fieldOpt j k with
  | some v => do pure (some (String.ofList (← strOfJson v)))
  | none => pure none

/-- the concrete environment of the driver: executable FIPS-197 AES-256, Lean's UTF-8 codec, AES available -/
def realCipher : Crypto.BlockCipher := ⟨Aes.encryptBlock, Aes.decryptBlock⟩
def leanUtf8 : Secure.Utf8 :=
  { enc := fun s => (String.ofList s).toUTF8.toList,
    dec := fun b => (String.fromUTF8? (ByteArray.mk b.toArray)).map String.toList }
def realEnv : Secure.Env := { cipher := realCipher, utf8 := leanUtf8, aesAvailable := true }

def bytesJson (b : List UInt8) : Json := Json.str (bytesToHex b)

/-- the executable hashes and the digest sizes of the generated table -/
def realHash : Digest.HashEnv :=
  { H := fun alg d => match Hash.byName alg with | some h => h d | none => [],
    size := fun alg => match Generated.challengeAlgorithms.find? (fun a => a.1 == alg) with
      | some a => a.2.2
      | none => 0 }

def dvToJson (d : Digest.DigestValue) : Json :=
  Json.mkObj [("salt", bytesJson d.salt), ("digest", bytesJson d.digest), ("alg", Json.str d.alg)]

def tapeOfJson (j : Json) (k : String) : R (List (List UInt8)) := do
  (← fArr j k).mapM (fun x => match x with
    | .str h => hexToBytes h.toList
    | _ => throw "bad tape entry")

def kfFileToJson : KeyFile.File → Json
  | .absent => Json.str "absent"
  | .unwritable => Json.str "unwritable"
  | .data b => Json.mkObj [("data", bytesJson b)]

def kfFileOfJson : Json → R KeyFile.File
  | .str "absent" => pure .absent
  | .str "unwritable" => pure .unwritable
  | j => do pure (.data (← fBytes j "data"))

def kfOpOfJson (j : Json) : R KeyFile.Op := do
  match (← fStr j "op") with
  | "enter" => pure (.enter (← fNat j "i"))
  | "exit" => pure (.exit (← fNat j "i"))
  | "use" => pure (.use (← fNat j "i"))
  | "new" => pure .newObj
  | "write" => pure (.extWrite (← fBytes j "data"))
  | "delete" => pure .extDelete
  | "unwritable" => pure .extUnwritable
  | o => throw s!"unknown keyfile op {o}"

def kfErrName : KeyFile.Err → String
  | .encryption => "encryption" | .os => "os" | .notOpen => "not-open" | .misuse => "misuse"

def kfOutToJson : KeyFile.Out → Json
  | .ok => Json.str "ok"
  | .key k => Json.mkObj [("key", bytesJson k)]
  | .err e => Json.mkObj [("err", kfErrName e)]
  | .noObj => Json.str "no-object"

def kfStateToJson (s : KeyFile.State) : Json :=
  Json.mkObj [("file", kfFileToJson s.world.file),
    ("objs", Json.arr (s.objs.map (fun o => Json.mkObj [
        ("key", match o.key with | some k => bytesJson k | none => Json.null),
        ("refcount", Json.num (JsonNumber.fromNat o.refcount))])).toArray)]

def handle (cmd : String) (j : Json) : R Json := do
  match cmd with
  | "ping" => pure (Json.str "pong")
  | "merge" => do
      let b ← kvsOfJson (← field j "base")
      let c ← kvsOfJson (← field j "child")
      pure (treeToJson (.dict (Include.combine b c)))
  | "includes" => do
      let sch ← incSchemaOfJson (← field j "schema")
      let t ← kvsOfJson (← field j "tree")
      let files ← (← fArr j "files").mapM (fun p => match p with
        | .arr #[fn, .null] => do pure (← treeOfJson fn, (none : Option Kvs))
        | .arr #[fn, ch] => do pure (← treeOfJson fn, some (← kvsOfJson ch))
        | _ => throw "bad file entry")
      let resolve : Tree → Option Kvs := fun fn =>
        match files.find? (fun (f, _) => f == fn) with
        | some (_, r) => r
        | none => none
      match Include.process resolve sch t with
      | .ok t' => pure (Json.mkObj [("out", "ok"), ("tree", treeToJson (.dict t'))])
      | .error .unresolved => pure (Json.mkObj [("out", "unresolved")])
      | .error .notAMap => pure (Json.mkObj [("out", "not-a-map")])
  | "xml.enc" => do
      let ft ← floatTextOfJson j
      let key := String.ofList (← fChars j "key")
      pure (elemToJson (Xml.toElement ft key (← treeOfJson (← field j "tree"))))
  | "xml.dec" => do
      let ft ← floatTextOfJson j
      let forced ← optStr j "forced"
      pure (treeToJson (Xml.fromElement ft forced (← elemOfJson (← field j "elem"))))
  | "xml.loads" => do
      let ft ← floatTextOfJson j
      let root := String.ofList (← fChars j "root")
      match Xml.loadsElem ft root (← elemOfJson (← field j "elem")) with
      | some t => pure (Json.mkObj [("out", "ok"), ("tree", treeToJson t)])
      | none => pure (Json.mkObj [("out", "wrong-root")])
  | "yaml.wrap" => do
      let rk ← optStr j "root_key"
      pure (treeToJson (.dict (Yaml.wrap rk (← kvsOfJson (← field j "tree")))))
  | "yaml.unwrap" => do
      let rk ← optStr j "root_key"
      pure (treeToJson (Yaml.unwrap rk (← kvsOfJson (← field j "tree"))))
  | "xor" => do
      pure (Json.mkObj [("out", "ok"), ("data", bytesJson (Crypto.xorKey (← fBytes j "key") (← fBytes j "data")))])
  | "aes.enc" => do
      pure (Json.mkObj [("out", "ok"), ("data", bytesJson (Crypto.aesEncrypt realCipher (← fBytes j "key") (← fBytes j "iv") (← fBytes j "data")))])
  | "aes.dec" => do
      match Crypto.aesDecrypt realCipher (← fBytes j "key") (← fBytes j "ct") with
      | .ok p => pure (Json.mkObj [("out", "ok"), ("data", bytesJson p)])
      | .error .tooShort => pure (Json.mkObj [("out", "too-short")])
      | .error .notAligned => pure (Json.mkObj [("out", "not-aligned")])
      | .error .badPadding => pure (Json.mkObj [("out", "bad-padding")])
  | "b64.enc" => do pure (Json.mkObj [("text", strToJson (B64.encode (← fBytes j "data")))])
  | "b64.dec" => do
      match B64.decode (← fChars j "text") with
      | some b => pure (Json.mkObj [("out", "ok"), ("data", bytesJson b)])
      | none => pure (Json.mkObj [("out", "err")])
  | "hex.enc" => do pure (Json.mkObj [("text", strToJson (B64.hexEncode (← fBytes j "data")))])
  | "hex.dec" => do
      match B64.hexDecode (← fChars j "text") with
      | some b => pure (Json.mkObj [("out", "ok"), ("data", bytesJson b)])
      | none => pure (Json.mkObj [("out", "err")])
  | "secure.tobasic" => do
      let v ← match fieldOpt j "value" with
        | some x => do pure (some (← strOfJson x))
        | none => pure none
      match Secure.toBasic realEnv (← fBytes j "key") (← fBytes j "iv") (← fStr j "method") v with
      | some t => pure (Json.mkObj [("out", "ok"), ("tree", treeToJson t)])
      | none => pure (Json.mkObj [("out", "err")])
  | "secure.topython" => do
      match Secure.toPython realEnv (← fBytes j "key") (← treeOfJson (← field j "stored")) with
      | some (some s) => pure (Json.mkObj [("out", "ok"), ("value", strToJson s)])
      | some none => pure (Json.mkObj [("out", "ok"), ("value", Json.null)])
      | none => pure (Json.mkObj [("out", "err")])
  | "kf.run" => do
      let file ← kfFileOfJson (← field j "file")
      let tape ← (← fArr j "tape").mapM (fun x => match x with
        | .str h => hexToBytes h.toList
        | _ => throw "bad tape entry")
      let ops ← (← fArr j "ops").mapM kfOpOfJson
      let n ← fNat j "objs"
      -- step by step, reporting the state after every operation
      let init : KeyFile.State := { objs := List.replicate n KeyFile.Obj.fresh, world := { file := file, tape := tape } }
      let (_, outs) := ops.foldl (fun (acc : KeyFile.State × List Json) op =>
        let (s', o) := KeyFile.step acc.1 op
        (s', acc.2 ++ [Json.mkObj [("out", kfOutToJson o), ("state", kfStateToJson s')]])) (init, [])
      pure (Json.arr outs.toArray)
  | "links.run" => do
      -- histories of list operations on a list of configurations: after every operation the held item identities and the index each reports
      let relink := (fieldOpt j "relink") != some (Json.bool false)
      let ops ← (← fArr j "ops").mapM (fun o => do
        match (← fStr o "op") with
        | "appendNew" => pure Links.Op.appendNew
        | "insertNew" => pure (Links.Op.insertNew (← fNat o "i"))
        | "delete" => pure (Links.Op.delete (← fNat o "i"))
        | "derive" => pure (Links.Op.derive (← fNat o "l"))
        | "derivePlus" => pure (Links.Op.derivePlus (← fNat o "l"))
        | "assign" => pure (Links.Op.assign (← fNat o "l"))
        | "load" => pure (Links.Op.load (← fNat o "k"))
        | other => throw s!"unknown links op {other}")
      let (_, outs) := ops.foldl (fun (acc : Links.St × List Json) op =>
        let s' := Links.step relink acc.1 op
        let held := s'.contents s'.held
        (s', acc.2 ++ [Json.mkObj [("held", Json.arr (held.map (fun x => Json.num (JsonNumber.fromNat x))).toArray),
                                   ("reported", Json.arr (held.map (fun x => match Links.reported s' x with
                                      | some i => Json.num (JsonNumber.fromNat i) | none => Json.null)).toArray),
                                   ("next", Json.num (JsonNumber.fromNat s'.next))]])) (Links.init, [])
      pure (Json.arr outs.toArray)
  | "copydepth.run" => do
      -- histories on a typed list of lists: after every operation what a reader sees through every outer list object
      let ops ← (← fArr j "ops").mapM (fun o => do
        match (← fStr o "op") with
        | "copy" => pure (CopyDepth.Op.copy (← fNat o "a"))
        | "appendNew" => pure (CopyDepth.Op.appendNew (← fNat o "a"))
        | "appendAtom" => pure (CopyDepth.Op.appendAtom (← fNat o "b") (← fNat o "n"))
        | "dropLast" => pure (CopyDepth.Op.dropLast (← fNat o "a"))
        | other => throw s!"unknown copydepth op {other}")
      let natArr (xs : List Nat) : Json := Json.arr (xs.map (fun x => Json.num (JsonNumber.fromNat x))).toArray
      let (_, outs) := ops.foldl (fun (acc : CopyDepth.H × List Json) op =>
        let h' := CopyDepth.step acc.1 op
        let views := (List.range h'.cells.length).filterMap (fun a => match h'.get a with
          | some (.outer _) => some (Json.mkObj [("id", Json.num (JsonNumber.fromNat a)), ("view", Json.arr ((CopyDepth.view h' a).map natArr).toArray)])
          | _ => none)
        (h', acc.2 ++ [Json.arr views.toArray])) (CopyDepth.init, [])
      pure (Json.arr outs.toArray)
  | "digest.create" => do
      let salt ← match fieldOpt j "salt" with
        | some (.str h) => do pure (some (← hexToBytes h.toList))
        | _ => pure none
      match Digest.create realHash (← fStr j "alg") (← fBytes j "plaintext") salt (← tapeOfJson j "tape") with
      | .ok (dv, t) => pure (Json.mkObj [("out", "ok"), ("dv", dvToJson dv), ("tape_left", Json.num (JsonNumber.fromNat t.length))])
      | .error .shortSalt => pure (Json.mkObj [("out", "short-salt")])
      | .error .reject => pure (Json.mkObj [("out", "reject")])
  | "digest.challenge" => do
      let dv : Digest.DigestValue := ⟨← fBytes j "salt", ← fBytes j "digest", ← fStr j "alg"⟩
      pure (Json.bool (Digest.challenge realHash dv (← fBytes j "plaintext")))
  | "challenge.tobasic" => do
      let dv : Digest.DigestValue := ⟨← fBytes j "salt", ← fBytes j "digest", ← fStr j "alg"⟩
      pure (treeToJson (Digest.toBasic (some dv)))
  | "challenge.topython" => do
      match Digest.toPython realHash (← fStr j "alg") leanUtf8.enc (← treeOfJson (← field j "stored")) (← tapeOfJson j "tape") with
      | .ok (some dv, _) => pure (Json.mkObj [("out", "ok"), ("dv", dvToJson dv)])
      | .ok (none, _) => pure (Json.mkObj [("out", "ok"), ("dv", Json.null)])
      | .error _ => pure (Json.mkObj [("out", "reject")])
  | "save.exec" => do
      -- interpret today's generated `Config.save` effect sequence with a fault at the first effect named `fault_at`
      let content ← fBytes j "content"
      let prog := Generated.saveProg
      let fault : Option Nat ← match fieldOpt j "fault_at" with
        | some (.str "open") => pure (some (Effects.firstUnsafe prog))
        | some (.str fn) => match (List.range prog.length).find? (fun i => Effects.isCall fn (prog.getD i .read)) with
            | some i => pure (some i)
            | none => throw s!"no call {fn} in saveProg"
        | _ => pure none
      let st := Effects.exec content fault 0 {} prog
      let dest := match st.dest with
        | .untouched => Json.str "untouched"
        | .truncated => Json.str "truncated"
        | .written b => Json.mkObj [("written", bytesJson b)]
        | .garbage => Json.str "garbage"
      pure (Json.mkObj [("dest", dest), ("raised", Json.bool st.raised), ("opened", Json.bool st.opened)])
  | "field.validate" => do
      let f ← fieldOfJson (← field j "field")
      let E ← envOfJson (← field j "env")
      pure (resToJson (Field.validate E.toEnv f (← valOfJson (← field j "value"))))
  | "field.tobasic" => do
      let f ← fieldOfJson (← field j "field")
      let E ← envOfJson (← field j "env")
      pure (resToJson (Field.toBasic E f (← valOfJson (← field j "value"))))
  | "field.topython" => do
      let f ← fieldOfJson (← field j "field")
      let E ← envOfJson (← field j "env")
      pure (resToJson (Field.toPython E f (← valOfJson (← field j "value"))))
  | "regex.match" => do
      pure (Json.bool (Regex.isMatch (← reOfJson (← field j "re")) (← fChars j "text")))
  | "cfg.run" => cfgRun j
  | "env.name" => envNameCmd j
  | "paths" => pathsCmd j
  | "stub.gen" => stubGen j
  | "heap.run" => heapRun j
  | "list.run" => listRun j
  | "dict.run" => dictRun j
  | "nested.render" => nestedRender j
  | "hash" => do
      match Hash.byName (← fStr j "alg") with
      | some h => pure (Json.mkObj [("digest", bytesJson (h (← fBytes j "data")))])
      | none => throw "unknown hash"
  | c => throw s!"unknown command {c}"

def reply (line : String) : String :=
  match Json.parse line with
  | .error e => (Json.mkObj [("err", Json.str s!"parse: {e}")]).compress
  | .ok j =>
    match (do let c ← fStr j "cmd"; handle c j : R Json) with
    | .ok r => (Json.mkObj [("ok", r)]).compress
    | .error e => (Json.mkObj [("err", Json.str e)]).compress

partial def loop (inp : IO.FS.Stream) (out : IO.FS.Stream) : IO Unit := do
  let line ← inp.getLine
  if line.isEmpty then return ()
  if line.trimAscii.isEmpty then loop inp out else
  out.putStrLn (reply line)
  out.flush
  loop inp out

def main : IO Unit := do
  loop (← IO.getStdin) (← IO.getStdout)
