import Cinco.Drv.Wire
import Cinco.TreeIO.Include
/-
  Line-protocol driver: one JSON object per line in, one per line out.
  Every reply is `{"ok": ...}` or `{"err": "..."}` (protocol error) — never a default.
-/
open Lean Cinco Cinco.Wire

partial def incSchemaOfJson (j : Json) : R Include.IncSchema := do
  let incs ← (← fArr j "includes").mapM (fun x => do pure (String.ofList (← strOfJson x)))
  let subs ← (← fArr j "subs").mapM (fun p => match p with
    | .arr #[k, s] => do pure (String.ofList (← strOfJson k), ← incSchemaOfJson s)
    | _ => throw "bad sub schema")
  pure (.mk incs subs)

def handle (cmd : String) (j : Json) : R Json := do
  match cmd with
  | "ping" => pure (Json.str "pong")
  | "merge" => do
      let b ← kvsOfJson (← field j "base")
      let c ← kvsOfJson (← field j "child")
      pure (treeToJson (.dict (Include.combine b c)))
  | "includes" => do
      let sch ← incSchemaOfJson (← field j "schema")
      let t ← kvsOfJson (← field j "tree")
      let files ← (← fArr j "files").mapM (fun p => match p with
        | .arr #[fn, .null] => do pure (← treeOfJson fn, (none : Option Kvs))
        | .arr #[fn, ch] => do pure (← treeOfJson fn, some (← kvsOfJson ch))
        | _ => throw "bad file entry")
      let resolve : Tree → Option Kvs := fun fn =>
        match files.find? (fun (f, _) => f == fn) with
        | some (_, r) => r
        | none => none
      match Include.process resolve sch t with
      | .ok t' => pure (Json.mkObj [("out", "ok"), ("tree", treeToJson (.dict t'))])
      | .error .unresolved => pure (Json.mkObj [("out", "unresolved")])
      | .error .notAMap => pure (Json.mkObj [("out", "not-a-map")])
  | c => throw s!"unknown command {c}"

def reply (line : String) : String :=
  match Json.parse line with
  | .error e => (Json.mkObj [("err", Json.str s!"parse: {e}")]).compress
  | .ok j =>
    match (do let c ← fStr j "cmd"; handle c j : R Json) with
    | .ok r => (Json.mkObj [("ok", r)]).compress
    | .error e => (Json.mkObj [("err", Json.str e)]).compress

partial def loop (inp : IO.FS.Stream) (out : IO.FS.Stream) : IO Unit := do
  let line ← inp.getLine
  if line.isEmpty then return ()
  if line.trimAscii.isEmpty then loop inp out else
  out.putStrLn (reply line)
  out.flush
  loop inp out

def main : IO Unit := do
  loop (← IO.getStdin) (← IO.getStdout)
