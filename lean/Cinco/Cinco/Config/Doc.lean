import Cinco.Config.Ops
/-
  `Config.dumps` / `Config.loads` (cincoconfig/core.py) as the composition of `to_tree` / `load_tree` with a
  document format.  The format's text layer (json, PyYAML, bson, ElementTree, pickle) is a parameter.
  Include processing (`_process_includes`, C18) is the identity for a schema without include fields and is
  not part of this composition.
-/
namespace Cinco.Config
open Cinco Cinco.Field

structure DocFormat where
  dumps : List (Val × Val) → Option (List UInt8)
  loads : List UInt8 → Option (List (Val × Val))

/-- the format gives this tree back (the hypothesis under which documents round-trip; proved for the XML
    element codec in C04, explored for the third-party text layers) -/
def DocFormat.LawOn (F : DocFormat) (t : List (Val × Val)) : Prop :=
  ∃ b, F.dumps t = some b ∧ F.loads b = some t

/-- `Config.dumps`: `formatter.dumps(self, self.to_tree())` -/
def dumpsCfg (W : World) (fuel : Nat) (s : Schema) (c : Cfg) (F : DocFormat) : Option (List UInt8) :=
  (toTree W fuel s c false none).bind F.dumps

/-- `Config.loads` into `c0`: `formatter.loads`, then `load_tree` with validation; `none` = the format rejected the document -/
def loadsCfg (W : World) (fuel : Nat) (s : Schema) (c0 : Cfg) (F : DocFormat) (b : List UInt8) (n : Nat) : Option Out :=
  (F.loads b).map (fun t => loadTree W fuel s "" c0 t true n)

end Cinco.Config
