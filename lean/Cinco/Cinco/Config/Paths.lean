import Cinco.Config.Ops
/-
  The ways of naming a field: `get_all_fields` enumeration (cincoconfig/support.py:173-218), dotted-path
  lookup on a schema and on a configuration (core.py:719-759, 1114-1175), `BaseField._ref_path`, membership,
  and the generated argument parser / `cmdline_args_override` (support.py:93-123, 256-265).
-/
namespace Cinco.Config
open Cinco Cinco.Field

mutual
  /-- `get_all_fields(schema)` for a root schema (empty key), as key components: `(path, field)` in schema order, nested
      schemas expanded right after their own entry -/
  def allPaths (pfx : List String) : Schema → List (List String × SField)
    | .mk fields _ _ => allPathsList pfx fields
  def allPathsList (pfx : List String) : List (String × SField) → List (List String × SField)
    | [] => []
    | (k, f) :: rest =>
      let here := (pfx ++ [k], f)
      let below := match f with
        | .sub s => allPaths (pfx ++ [k]) s
        | _ => []
      here :: (below ++ allPathsList pfx rest)
end

/-- the dotted rendering of a path -/
def renderPath (ks : List String) : String := String.intercalate "." ks

/-- `get_all_fields(schema)` with the paths rendered as the library prints them -/
def allFields (s : Schema) : List (String × SField) := (allPaths [] s).map (fun (ks, f) => (renderPath ks, f))

/-- lookup by key components: only nested `Schema`s are descended into -/
def lookupPath : Schema → List String → Option SField
  | _, [] => none
  | s, k :: rest =>
    match rest with
    | [] => s.get k
    | _ :: _ =>
      match s.get k with
      | some (.sub s') => lookupPath s' rest
      | _ => none

/-- `schema[dotted]`: dotted-path lookup on the schema (only nested `Schema`s are descended into) -/
def schemaLookup : Nat → Schema → List Char → Option SField
  | 0, _, _ => none
  | fuel + 1, s, dotted =>
    match partitionDot dotted with
    | (k, none) => s.get (String.ofList k)
    | (k, some rest) =>
      match s.get (String.ofList k) with
      | some (.sub s') => if rest.isEmpty then some (.sub s') else schemaLookup fuel s' rest
      | _ => none

/-- `config[dotted]`: `_get_value(key).__getitem__(subkey)` -/
def cfgLookup : Nat → Cfg → List Char → Option Slot
  | 0, _, _ => none
  | fuel + 1, c, dotted =>
    match partitionDot dotted with
    | (k, none) => c.get (String.ofList k)
    | (k, some rest) =>
      match c.get (String.ofList k) with
      | some (.node sub) => cfgLookup fuel sub rest
      | _ => none

/-- `dotted in config` -/
def cfgContains : Nat → Cfg → List Char → Bool
  | 0, _, _ => false
  | fuel + 1, c, dotted =>
    match partitionDot dotted with
    | (k, none) => (c.get (String.ofList k)).isSome
    | (k, some rest) =>
      match c.get (String.ofList k) with
      | some (.node sub) => cfgContains fuel sub rest
      | _ => false

/-- the `storage_type` classes the argument parser knows: one `--opt VALUE` for str/int/float, an on and an off switch for bool -/
inductive OptKind where
  | store | flag
  deriving DecidableEq, Repr

def optKindOf : Kind → Option OptKind
  | .string _ => some .store
  | .int _ _ => some .store
  | .float _ _ => some .store
  | .bool => some .flag
  | .ipv4addr _ => some .store
  | .ipv4net _ _ _ => some .store
  | .hostname _ _ => some .store
  | .filename _ _ _ => some .store
  | .url _ => some .store
  | .secure _ => some .store
  | _ => none

structure OptSpec where
  flag : String           -- the option string, e.g. `--db-host`
  dest : String           -- the dotted path it stores to
  const : Option Bool     -- none: takes a value; some b: a switch storing `b`
  deriving DecidableEq, Repr

def optName (path : String) : String :=
  "--" ++ String.ofList (Str.lower ((path.toList.map (fun c => if c == '.' || c == '_' then '-' else c))))

/-- `generate_argparse_parser(schema)`: the options in the order they are added -/
def genParser (s : Schema) : List OptSpec :=
  (allFields s).flatMap (fun (p, f) => match f with
    | .leaf fs _ => (match optKindOf fs.kind with
        | some .store => [{ flag := optName p, dest := p, const := none }]
        | some .flag => [{ flag := optName p, dest := p, const := some true },
                         { flag := "--no-" ++ (optName p).drop 2, dest := p, const := some false }]
        | none => [])
    | .virtual _ _ => []
    | _ => [])

/-- the parsed namespace: every destination of the parser, `none` unless the command line supplied it (last occurrence wins) -/
def parseArgs (opts : List OptSpec) : List (String × Option Val) → List (String × Option Val)
  | given => (opts.map (·.dest)).eraseDups.map (fun d => (d, (given.reverse.find? (fun g => g.1 == d)).bind (·.2)))

/-- `cmdline_args_override(config, args, ignore)`: every entry that is not `None` and not ignored goes through `config[key] = value` -/
def cmdlineOverride (W : World) (fuel : Nat) (s : Schema) (c : Cfg) (ns : List (String × Option Val)) (ignore : List String) (n : Nat) : Out :=
  ns.foldl (fun (o : Out) (kv : String × Option Val) =>
    match o.err with
    | some _ => o
    | none =>
      match kv.2 with
      | none => o
      | some v => if ignore.contains kv.1 then o else setItem W fuel s "" o.cfg kv.1.toList (.val v) o.next)
    { cfg := c, next := n }

end Cinco.Config
