import Cinco.Config.Ops
import Cinco.Proxy.PyList
/-
  In-place operations on a list of configurations (`ListProxy` over a schema or config type,
  cincoconfig/fields/list_field.py): `lst.append(item)`, `lst.insert(i, item)`, `lst[i] = item` with a map as
  the new item.  `ListProxy._validate` builds a new configuration under the owning configuration, loads the map
  into it with validation, and only then hands it to the built-in list operation.
-/
namespace Cinco.Config
open Cinco Cinco.Field

inductive ListMode where
  | append
  | insert (i : Int)
  | setIdx (i : Int)
deriving Repr

/-- the built-in list operation once the new item exists; `none` = IndexError -/
def spliceCfg (cs : List Cfg) (item : Cfg) : ListMode → Option (List Cfg)
  | .append => some (cs ++ [item])
  | .insert i => let p := PyList.insertPos cs.length i; some (cs.take p ++ item :: cs.drop p)
  | .setIdx i => (PyList.resolveIdx cs.length i).map (fun p => cs.take p ++ item :: cs.drop (p + 1))

/-- the configurations a slot of a list-of-configurations field holds (`none`: no list there) -/
def heldItems : Slot → Option (List Cfg)
  | .nodes cs => some cs
  | .val (.list []) => some []
  | _ => none

/-- validate the new item (its error path carries the position one past the end: it is not in the list yet), then splice -/
def cfgListCore (W : World) (fuel : Nat) (s' : Schema) (path k : String) (c : Cfg) (dotted : List Char) (cs : List Cfg)
    (mode : ListMode) (item : Val) (n : Nat) : Out :=
  match (match item with
         | .dict _ => loadItems W fuel s' path k cs.length [item] [] n
         | _ => (.error (.raw "ValueError"), n)) with      -- "invalid configuration object": raised by the proxy itself, not wrapped
  | (.error e, n1) => { cfg := c, err := some e, next := n1 }
  | (.ok [], n1) => { cfg := c, err := some (.raw "ValueError"), next := n1 }
  | (.ok (fresh :: _), n1) =>
    match spliceCfg cs fresh mode with
    | none => { cfg := c, err := some (.raw "IndexError"), next := n1 }
    | some cs' => { cfg := replaceAt fuel c dotted (fun o => o.set k (.nodes cs')), next := n1 }

/-- an index assignment whose index names no item: refused before the new item is looked at (F76) -/
def noSlot (cs : List Cfg) : ListMode → Bool
  | .setIdx i => (PyList.resolveIdx cs.length i).isNone
  | _ => false

/-- `cfg[dotted].append / insert / __setitem__` with a new item value -/
def cfgListOp (W : World) (fuel : Nat) (s : Schema) (c : Cfg) (dotted : List Char) (mode : ListMode) (item : Val) (n : Nat) : Out :=
  match walk fuel s "" c dotted with
  | none => { cfg := c, err := some (.raw "KeyError"), next := n }
  | some (s1, path, owner, k) =>
    match s1.get k with
    | some (.cfgList s' _ _ _) =>
      (match (owner.get k).bind heldItems with
       | none => { cfg := c, err := some (match mode with | .setIdx _ => .raw "TypeError" | _ => .attribute), next := n }
       | some cs =>
         if noSlot cs mode then { cfg := c, err := some (.raw "IndexError"), next := n }
         else cfgListCore W fuel s' path k c dotted cs mode item n)
    | _ => { cfg := c, err := some .attribute, next := n }

theorem cfgListCore_rejected_unchanged (W : World) (fuel : Nat) (s' : Schema) (path k : String) (c : Cfg) (dotted : List Char)
    (cs : List Cfg) (mode : ListMode) (item : Val) (n : Nat) (e : CErr)
    (h : (cfgListCore W fuel s' path k c dotted cs mode item n).err = some e) :
    (cfgListCore W fuel s' path k c dotted cs mode item n).cfg = c := by
  unfold cfgListCore at h ⊢
  generalize hl : (match item with
         | .dict _ => loadItems W fuel s' path k cs.length [item] [] n
         | _ => ((.error (.raw "ValueError"), n) : Except CErr (List Cfg) × Nat)) = res at h ⊢
  cases res with
  | mk r n1 =>
    cases r with
    | error e' => rfl
    | ok l =>
      cases l with
      | nil => rfl
      | cons fresh rest =>
        simp only at h ⊢
        cases hs : spliceCfg cs fresh mode with
        | none => rfl
        | some cs' => simp [hs] at h

/-- **A rejected in-place list operation leaves the configuration exactly as it was** (whatever the reason: the new item's
    map is rejected by the item schema, the item is not a map, or the index is out of range). -/
theorem cfgListOp_rejected_unchanged (W : World) (fuel : Nat) (s : Schema) (c : Cfg) (dotted : List Char) (mode : ListMode)
    (item : Val) (n : Nat) (e : CErr) (h : (cfgListOp W fuel s c dotted mode item n).err = some e) :
    (cfgListOp W fuel s c dotted mode item n).cfg = c := by
  unfold cfgListOp at h ⊢
  cases hw : walk fuel s "" c dotted with
  | none => rfl
  | some r =>
    obtain ⟨s1, path, owner, k⟩ := r
    simp only [hw] at h ⊢
    cases hf : s1.get k with
    | none => rfl
    | some f =>
      cases f with
      | cfgList s' it req m =>
        simp only [hf] at h ⊢
        cases hh : (owner.get k).bind heldItems with
        | none => rfl
        | some cs =>
          simp only [hh] at h ⊢
          cases hn : noSlot cs mode with
          | true => simp
          | false =>
            simp only [hn, Bool.false_eq_true, if_false] at h ⊢
            exact cfgListCore_rejected_unchanged W fuel s' path k c dotted cs mode item n e h
      | _ => rfl

/-- **An index assignment into a list of configurations whose index names no item consumes nothing and changes nothing**
    (finding F76): the item map is not loaded (no fresh configuration is built, no salt / IV is drawn: `next` stays `n`), the
    configuration is returned as it is, and the error is the built-in's `IndexError` — whatever the item. -/
theorem cfgListOp_no_slot (W : World) (fuel : Nat) (s s1 s' : Schema) (c owner : Cfg) (dotted : List Char) (path k : String)
    (it : Bool) (req : Bool) (m : LeafMeta) (cs : List Cfg) (i : Int) (item : Val) (n : Nat)
    (hw : walk fuel s "" c dotted = some (s1, path, owner, k)) (hf : s1.get k = some (.cfgList s' it req m))
    (hh : (owner.get k).bind heldItems = some cs) (hi : PyList.resolveIdx cs.length i = none) :
    cfgListOp W fuel s c dotted (.setIdx i) item n = { cfg := c, err := some (.raw "IndexError"), next := n } := by
  simp [cfgListOp, hw, hf, hh, noSlot, hi]

end Cinco.Config
