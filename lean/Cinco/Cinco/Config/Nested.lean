import Cinco.Basic.Tree
/-
  Configurations held below nested containers (a list of lists of configurations, a dict of lists of configurations, …).

  `Config.to_tree(virtual, sensitive_mask)` first lets the field render the held value (`field.to_basic`, which renders every
  configuration inside with a bare `item.to_tree()`: no mask, no virtual flag) and then walks the held value alongside that
  rendering (`Config._render_nested`), replacing every configuration position by `held.to_tree(virtual, sensitive_mask)`:

      def _render_nested(self, held, basic, virtual, sensitive_mask):
          if isinstance(held, Config):
              return held.to_tree(virtual=virtual, sensitive_mask=sensitive_mask)
          if isinstance(held, (list, tuple)) and isinstance(basic, (list, tuple)) and len(held) == len(basic):
              return type(basic)(self._render_nested(item, rendered, ...) for item, rendered in zip(held, basic))
              # (F77: a tuple that an untyped field hands back as it is is walked like a list and stays a tuple;
              #  `Tree.list` stands for both)
          if isinstance(held, dict) and isinstance(basic, dict) and len(held) == len(basic):
              return {key: self._render_nested(item, rendered, ...)
                      for item, (key, rendered) in zip(held.values(), basic.items())}
          return basic

  The slot shapes of `Cinco.Config` have no nested containers of configurations, so the walk has its own small model here.
  A configuration is a number; its rendering under given options is a function `Nat → Tree`.
-/
namespace Cinco

/-! ### Strings occurring in a plain tree -/

mutual
  /-- some string leaf or some dict key (at any depth) satisfies `p` -/
  def Tree.anyStr (p : Str → Bool) : Tree → Bool
    | .null => false
    | .bool _ => false
    | .int _ => false
    | .flt _ => false
    | .str s => p s
    | .list xs => Tree.anyStrList p xs
    | .dict kvs => Tree.anyStrKvs p kvs
  def Tree.anyStrList (p : Str → Bool) : List Tree → Bool
    | [] => false
    | x :: xs => Tree.anyStr p x || Tree.anyStrList p xs
  def Tree.anyStrKvs (p : Str → Bool) : List (String × Tree) → Bool
    | [] => false
    | (k, v) :: rest => p k.toList || Tree.anyStr p v || Tree.anyStrKvs p rest
end

/-- the text `s` appears in the tree: as a string leaf or as a dict key, at any depth -/
def Tree.mentions (s : Str) (t : Tree) : Bool := Tree.anyStr (fun x => x == s) t

end Cinco

namespace Cinco.Nested
open Cinco

/-- What a configuration holds under one key, as `_render_nested` sees it:
    a configuration object (`isinstance(held, Config)`), a list or tuple, a dict (its entries in order; the recorded key is
    the key `to_basic` gives that entry — the walk never looks at the held dict's own keys, it keeps those of `basic`),
    or anything else (recorded with its basic form). -/
inductive Held where
  | cfg (id : Nat)
  | list (items : List Held)
  | dict (kvs : List (String × Held))
  | leaf (t : Tree)
  deriving Repr, Inhabited

mutual
  /-- `Config._render_nested(held, basic, virtual, sensitive_mask)`; `R id` is `to_tree(virtual, sensitive_mask)` of
      configuration `id`.  A kind mismatch or a length mismatch returns `basic` untouched. -/
  def renderNested (R : Nat → Tree) (h : Held) (b : Tree) : Tree :=
    match h with
    | .cfg id => R id
    | .list items =>
      match b with
      | .list bs => if items.length = bs.length then .list (renderItems R items bs) else b
      | _ => b
    | .dict kvs =>
      match b with
      | .dict bkvs => if kvs.length = bkvs.length then .dict (renderVals R kvs bkvs) else b
      | _ => b
    | .leaf _ => b
  /-- `[_render_nested(item, rendered) for item, rendered in zip(held, basic)]` -/
  def renderItems (R : Nat → Tree) (hs : List Held) (bs : List Tree) : List Tree :=
    match hs with
    | [] => []
    | h :: hs' =>
      match bs with
      | [] => []
      | b :: bs' => renderNested R h b :: renderItems R hs' bs'
  /-- `{key: _render_nested(item, rendered) for item, (key, rendered) in zip(held.values(), basic.items())}` -/
  def renderVals (R : Nat → Tree) (hs : List (String × Held)) (bs : List (String × Tree)) : List (String × Tree) :=
    match hs with
    | [] => []
    | (_, h) :: hs' =>
      match bs with
      | [] => []
      | (k, b) :: bs' => (k, renderNested R h b) :: renderVals R hs' bs'
end

mutual
  /-- what `field.to_basic` produces for a held value when configuration `id` renders as `U id`
      (`U` = the bare `item.to_tree()`): the same list / dict structure, keys as recorded, leaves in their basic form -/
  def toBasic (U : Nat → Tree) : Held → Tree
    | .cfg id => U id
    | .list items => .list (toBasicItems U items)
    | .dict kvs => .dict (toBasicVals U kvs)
    | .leaf t => t
  def toBasicItems (U : Nat → Tree) : List Held → List Tree
    | [] => []
    | h :: hs => toBasic U h :: toBasicItems U hs
  def toBasicVals (U : Nat → Tree) : List (String × Held) → List (String × Tree)
    | [] => []
    | (k, h) :: rest => (k, toBasic U h) :: toBasicVals U rest
end

mutual
  /-- every configuration inside, at any depth, in rendering order -/
  def cfgIds : Held → List Nat
    | .cfg id => [id]
    | .list items => cfgIdsItems items
    | .dict kvs => cfgIdsVals kvs
    | .leaf _ => []
  def cfgIdsItems : List Held → List Nat
    | [] => []
    | h :: hs => cfgIds h ++ cfgIdsItems hs
  def cfgIdsVals : List (String × Held) → List Nat
    | [] => []
    | (_, h) :: rest => cfgIds h ++ cfgIdsVals rest
end

mutual
  /-- some leaf (in its basic form) or some recorded dict key of the held value itself — everything outside the
      configurations it contains — has a string satisfying `p` -/
  def ownAnyStr (p : Str → Bool) : Held → Bool
    | .cfg _ => false
    | .list items => ownAnyStrItems p items
    | .dict kvs => ownAnyStrVals p kvs
    | .leaf t => Tree.anyStr p t
  def ownAnyStrItems (p : Str → Bool) : List Held → Bool
    | [] => false
    | h :: hs => ownAnyStr p h || ownAnyStrItems p hs
  def ownAnyStrVals (p : Str → Bool) : List (String × Held) → Bool
    | [] => false
    | (k, h) :: rest => p k.toList || ownAnyStr p h || ownAnyStrVals p rest
end

/-- the text `s` appears in a leaf or a dict key of the held value (outside the configurations it contains) -/
def ownMentions (s : Str) (h : Held) : Bool := ownAnyStr (fun x => x == s) h

end Cinco.Nested
