import Cinco.Config.Ops
/-
  Key-file resolution (C03).  `Config._keyfile` / `Config._key_filename` (cincoconfig/core.py) bubble up through `_parent`
  to the first configuration that names a key file and fall back to the default path; `SecureField.to_basic` encrypts under
  `cfg._keyfile`.  `toTreeK` is `toTree` (virtual output off, no mask) with the world chosen per configuration by that rule:
  `WK k` is the world in which secrets are encrypted under the key file named `k`.
-/
namespace Cinco.Config
open Cinco Cinco.Field

/-- the key file a configuration uses, given the one its parent uses (`inherited`; for a root: the default path) -/
def effKey (inherited : String) (c : Cfg) : String :=
  match c.keyfile with
  | some k => k
  | none => inherited

/-- the same along a chain of configurations from the root down: each entry is the configuration's own key file name, if any -/
def keyAlong (inherited : String) : List (Option String) → String
  | [] => inherited
  | none :: rest => keyAlong inherited rest
  | some k :: rest => keyAlong k rest

mutual
  /-- `Config.to_tree()` with every secret encrypted under the key file of the configuration that holds it -/
  def toTreeK (WK : String → World) : Nat → String → Schema → Cfg → Option (List (Val × Val))
    | 0, _, _, _ => none
    | fuel + 1, inh, s, c =>
      match toTreeFieldsK WK fuel (effKey inh c) c s.fields with
      | none => none
      | some declared =>
        let extra := c.dyn.filterMap (fun k => if (s.get k).isSome then none else
          match c.get k with
          | some (.val v) => some (Val.str k.toList, v)
          | _ => none)
        some (declared ++ extra)
  def renderFieldK (WK : String → World) : Nat → String → Cfg → String → SField → Option (Option Val)
    | _, _, _, _, .method => some none
    | _, _, _, _, .virtual _ _ => some none
    | fuel, key, c, k, .sub s' => (match c.get k with
        | some (.node sub) => (toTreeK WK fuel key s' sub).map (fun t => some (.dict t))
        | some (.val v) => some (some v)
        | _ => some none)
    | fuel, key, c, k, .ctype s' _ => (match c.get k with
        | some (.node sub) => (toTreeK WK fuel key s' sub).map (fun t => some (.dict t))
        | some (.val v) => some (some v)
        | _ => some none)
    | fuel, key, c, k, .cfgList s' _ _ _ => (match c.get k with
        | some (.nodes cs) => (toTreeItemsK WK fuel key s' cs).map (fun ts => some (.list ts))
        | some (.val v) => some (some v)
        | _ => some none)
    | _, key, c, k, .leaf fs _ => (match c.get k with
        | some (.val v) =>
          (match toBasic (WK key).fe fs v with
            | .ok b => some (some b)
            | .error _ => none)
        | _ => some none)
  def toTreeFieldsK (WK : String → World) : Nat → String → Cfg → List (String × SField) → Option (List (Val × Val))
    | _, _, _, [] => some []
    | fuel, key, c, (k, f) :: rest =>
      match renderFieldK WK fuel key c k f, toTreeFieldsK WK fuel key c rest with
      | some (some v), some t => some ((Val.str k.toList, v) :: t)
      | some none, some t => some t
      | _, _ => none
  def toTreeItemsK (WK : String → World) : Nat → String → Schema → List Cfg → Option (List Val)
    | _, _, _, [] => some []
    | fuel, key, s', c :: rest =>
      match toTreeK WK fuel key s' c, toTreeItemsK WK fuel key s' rest with
      | some t, some ts => some (.dict t :: ts)
      | _, _ => none
end

mutual
  /-- the key file of every configuration in the tree (the only ones `toTreeK` can use: `toTreeK_congr`) -/
  def nodeKeys : Nat → String → Schema → Cfg → List String
    | 0, _, _, _ => []
    | fuel + 1, inh, s, c => effKey inh c :: fieldKeys fuel (effKey inh c) c s.fields
  def fieldKeys : Nat → String → Cfg → List (String × SField) → List String
    | _, _, _, [] => []
    | fuel, key, c, (k, f) :: rest =>
      (match f with
       | .sub s' => (match c.get k with | some (.node sub) => nodeKeys fuel key s' sub | _ => [])
       | .ctype s' _ => (match c.get k with | some (.node sub) => nodeKeys fuel key s' sub | _ => [])
       | .cfgList s' _ _ _ => (match c.get k with | some (.nodes cs) => itemKeys fuel key s' cs | _ => [])
       | .leaf _ _ => []
       | .virtual _ _ => []
       | .method => []) ++ fieldKeys fuel key c rest
  def itemKeys : Nat → String → Schema → List Cfg → List String
    | _, _, _, [] => []
    | fuel, key, s', c :: rest => nodeKeys fuel key s' c ++ itemKeys fuel key s' rest
end

mutual
  /-- every key file name assigned to some configuration of the tree -/
  def namedKeys : Nat → Schema → Cfg → List String
    | 0, _, _ => []
    | fuel + 1, s, c => (match c.keyfile with | some k => [k] | none => []) ++ fieldNamed fuel c s.fields
  def fieldNamed : Nat → Cfg → List (String × SField) → List String
    | _, _, [] => []
    | fuel, c, (k, f) :: rest =>
      (match f with
       | .sub s' => (match c.get k with | some (.node sub) => namedKeys fuel s' sub | _ => [])
       | .ctype s' _ => (match c.get k with | some (.node sub) => namedKeys fuel s' sub | _ => [])
       | .cfgList s' _ _ _ => (match c.get k with | some (.nodes cs) => itemNamed fuel s' cs | _ => [])
       | .leaf _ _ => []
       | .virtual _ _ => []
       | .method => []) ++ fieldNamed fuel c rest
  def itemNamed : Nat → Schema → List Cfg → List String
    | _, _, [] => []
    | fuel, s', c :: rest => namedKeys fuel s' c ++ itemNamed fuel s' rest
end

/-- own key names along a path of sub-configuration field names (`none` if the path leaves the tree) -/
def ownChain : Cfg → List String → Option (List (Option String))
  | c, [] => some [c.keyfile]
  | c, k :: rest =>
    match c.get k with
    | some (.node sub) => (ownChain sub rest).map (fun ch => c.keyfile :: ch)
    | _ => none

/-- `cfg.<path>._key_filename = file` on the sub-configuration reached by a path of field names (`none` = not a configuration) -/
def setKeyAt : Cfg → List String → Option String → Option Cfg
  | c, [], file => some (c.withKeyfile file)
  | c, k :: rest, file =>
    match c.get k with
    | some (.node sub) => (setKeyAt sub rest file).map (fun sub' => c.set k (.node sub'))
    | _ => none

/-- a world in which "encrypting" under key file `k` just records `k`: the serialised tree then shows which key file every
    secret was written under (used by the correspondence check) -/
def markWorld (W : World) (k : String) : World :=
  { W with fe := { W.fe with encryptS := fun _ s => some (.str ("ENC|".toList ++ k.toList ++ "|".toList ++ s)) } }

end Cinco.Config
