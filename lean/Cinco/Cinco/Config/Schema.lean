import Cinco.Field.Codec
/-
  Schemas as the library builds them (cincoconfig/core.py: Schema, Field options that matter to a
  configuration, ConfigTypeField, ListField over a schema) and configurations as trees of slots.
-/
namespace Cinco.Config
open Cinco Cinco.Field

/-- how a field's default is declared -/
inductive Default where
  | none
  | const (v : Val)
  | callable (v : Val)          -- a callable returning (a fresh copy of) `v`, evaluated once per `__setdefault__`
  deriving Repr

def Default.isNone : Default → Bool
  | .none => true
  | _ => false

def Default.value : Default → Val
  | .none => .none
  | .const v => v
  | .callable v => v

/-- options of `Field.__init__` that matter to a configuration but not to `validate` -/
structure LeafMeta where
  default : Default := .none
  env : Option String := none          -- the environment variable bound by `__setkey__` (resolved name), if any
  sensitive : Bool := false
  isFlag : Bool := false               -- FeatureFlagField
  isInclude : Bool := false            -- IncludeField
  name : Option String := none         -- friendly name
  deriving Repr

mutual
  inductive SField where
    | leaf (f : FieldSpec) (m : LeafMeta)
    | sub (s : Schema)                                     -- nested Schema
    | ctype (s : Schema) (keyfile : Option String)         -- ConfigTypeField (make_type)
    | cfgList (s : Schema) (isType : Bool) (required : Bool) (m : LeafMeta)   -- ListField(Schema | ConfigType)
    | virtual (const : Val) (hasSetter : Bool)             -- VirtualField with a getter returning a constant
    | method                                               -- InstanceMethodField
  inductive Schema where
    | mk (fields : List (String × SField)) (dynamic : Bool) (validators : List String)
end

def Schema.fields : Schema → List (String × SField) | .mk f _ _ => f
def Schema.dynamic : Schema → Bool | .mk _ d _ => d
def Schema.validators : Schema → List String | .mk _ _ v => v

def lookupField (k : String) : List (String × SField) → Option SField
  | [] => none
  | (k', f) :: rest => if k' = k then some f else lookupField k rest

def Schema.get (s : Schema) (k : String) : Option SField := lookupField k s.fields

mutual
  /-- a configuration object -/
  inductive Cfg where
    | mk (oid : Nat)                      -- identity
         (slots : List (String × Slot))   -- `_data`, insertion ordered
         (defaults : List String)         -- `_default_value_keys`
         (dyn : List String)              -- `_fields`: dynamically added AnyFields
         (keyfile : Option String)        -- own key file name, if one was assigned
         (linked : Bool)                  -- has a parent (`_parent is not None`)
  inductive Slot where
    | val (v : Val)
    | node (c : Cfg)                      -- a sub-configuration
    | nodes (cs : List Cfg)               -- a typed list of configurations
end

def Cfg.oid : Cfg → Nat | .mk o _ _ _ _ _ => o
def Cfg.slots : Cfg → List (String × Slot) | .mk _ s _ _ _ _ => s
def Cfg.defaults : Cfg → List String | .mk _ _ d _ _ _ => d
def Cfg.dyn : Cfg → List String | .mk _ _ _ d _ _ => d
def Cfg.keyfile : Cfg → Option String | .mk _ _ _ _ k _ => k
def Cfg.linked : Cfg → Bool | .mk _ _ _ _ _ l => l

def Cfg.withSlots (c : Cfg) (s : List (String × Slot)) : Cfg := .mk c.oid s c.defaults c.dyn c.keyfile c.linked
def Cfg.withDefaults (c : Cfg) (d : List String) : Cfg := .mk c.oid c.slots d c.dyn c.keyfile c.linked
def Cfg.withDyn (c : Cfg) (d : List String) : Cfg := .mk c.oid c.slots c.defaults d c.keyfile c.linked
def Cfg.withKeyfile (c : Cfg) (k : Option String) : Cfg := .mk c.oid c.slots c.defaults c.dyn k c.linked
def Cfg.withLinked (c : Cfg) (l : Bool) : Cfg := .mk c.oid c.slots c.defaults c.dyn c.keyfile l

def getSlot (k : String) : List (String × Slot) → Option Slot
  | [] => none
  | (k', s) :: rest => if k' = k then some s else getSlot k rest

/-- `d[k] = s` on the insertion-ordered `_data` -/
def setSlot (k : String) (s : Slot) : List (String × Slot) → List (String × Slot)
  | [] => [(k, s)]
  | (k', s') :: rest => if k' = k then (k', s) :: rest else (k', s') :: setSlot k s rest

def Cfg.get (c : Cfg) (k : String) : Option Slot := getSlot k c.slots
def Cfg.set (c : Cfg) (k : String) (s : Slot) : Cfg := c.withSlots (setSlot k s c.slots)

/-- `_set_default_value`: store and mark as default -/
def Cfg.setDefault (c : Cfg) (k : String) (s : Slot) : Cfg :=
  (c.set k s).withDefaults (if c.defaults.contains k then c.defaults else c.defaults ++ [k])

/-- store and `_default_value_keys.discard(key)` -/
def Cfg.setUser (c : Cfg) (k : String) (s : Slot) : Cfg :=
  (c.set k s).withDefaults (c.defaults.filter (· != k))

end Cinco.Config
