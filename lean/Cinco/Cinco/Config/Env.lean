import Cinco.Config.Ops
import Cinco.Basic.Str
/-
  Model of the environment-variable binding: `Schema.__init__/__setkey__` and `Field.__setkey__`
  (cincoconfig/core.py:463-485, 607-660) for schemas built top-down, i.e. every schema receives its key
  (and thereby its prefix) before its own fields are added.
-/
namespace Cinco.Config
open Cinco Cinco.Str

/-- the `env` argument of `Schema(...)` / `Field(...)` -/
inductive EnvSetting where
  | unset                 -- None: inherit
  | auto                  -- True
  | named (s : String)    -- a string (a prefix for a schema, a variable name for a field)
  | disabled              -- False
  deriving DecidableEq, Repr

def upperStr (s : String) : String := String.ofList (upper s.toList)

/-- `Schema._env_prefix` right after `__init__`: `"" if env is True else env`; `none` here = None or False (not a string) -/
inductive Prefix where
  | none                  -- None: may still inherit
  | off                   -- False
  | str (p : String)
  deriving DecidableEq, Repr

def initPrefix : EnvSetting → Prefix
  | .unset => .none
  | .auto => .str ""
  | .named s => .str s
  | .disabled => .off

/-- `Schema.__setkey__(parent, key)`: only an unset prefix inherits, and only from a parent whose prefix is a string -/
def childPrefix (parent : Prefix) (setting : EnvSetting) (key : String) : Prefix :=
  match initPrefix setting with
  | .none =>
    (match parent with
     | .str p => .str ((if p.isEmpty then "" else p ++ "_") ++ upperStr key)
     | _ => .none)
  | other => other

/-- `Field.__setkey__(schema, key)`: the variable the field is bound to, if any -/
def fieldVar (schemaPrefix : Prefix) (setting : EnvSetting) (key : String) : Option String :=
  match setting with
  | .disabled => none
  | .named s => some s
  | .auto =>
    (match schemaPrefix with
     | .str p => some ((if p.isEmpty then "" else p ++ "_") ++ upperStr key)
     | _ => some (upperStr key))
  | .unset =>
    (match schemaPrefix with
     | .str p => some ((if p.isEmpty then "" else p ++ "_") ++ upperStr key)
     | _ => none)

/-- the prefix of the schema reached from the root through `chain` = [(key, setting)] (outermost first) -/
def prefixAlong (root : EnvSetting) : List (String × EnvSetting) → Prefix
  | [] => initPrefix root
  | chain => chain.foldl (fun p (ks : String × EnvSetting) => childPrefix p ks.2 ks.1) (initPrefix root)

/-- the variable of field `key` with `setting`, declared in the schema reached through `chain` -/
def envName (root : EnvSetting) (chain : List (String × EnvSetting)) (setting : EnvSetting) (key : String) : Option String :=
  fieldVar (prefixAlong root chain) setting key

/-- the closed form: upper-cased, underscore-joined components -/
def joinUpper (parts : List String) : String := String.intercalate "_" (parts.map upperStr)

end Cinco.Config
