import Cinco.Config.Ops
/-
  The invariant of C01: every value a configuration holds, at any depth and inside lists of configurations,
  is unset or is a result of its own field's validation (hence, for the field kinds covered by
  `Field.validate_idem`, satisfies every constraint the field declares).
-/
namespace Cinco.Config
open Cinco Cinco.Field

/-- `v` is unset, or is what the field's validation returns for some input -/
def Held (W : World) (f : FieldSpec) (v : Val) : Prop :=
  v = .none ∨ ∃ u, validate W.fe.toEnv f u = .ok v

/-- the property's premise: declared defaults are themselves valid (are normal forms of their field), at every depth;
    lists of configurations start empty or unset -/
def DefaultsValid (W : World) : Nat → Schema → Prop
  | 0, _ => True
  | fuel + 1, s => ∀ k f, s.get k = some f →
      match f with
      | .leaf fs m => Held W fs m.default.value ∧
          (match fs.kind, m.default.value with
           | .challenge _, .str _ => False          -- plaintext challenge defaults are hashed at build time: covered separately
           | _, _ => True)
      | .sub s' => DefaultsValid W fuel s'
      | .ctype s' _ => DefaultsValid W fuel s'
      | .cfgList s' _ _ m => DefaultsValid W fuel s' ∧ (m.default.value = .none ∨ m.default.value = .list [])
      | .virtual _ _ => True
      | .method => True

/-- the invariant, to depth `fuel` -/
def Inv (W : World) : Nat → Schema → Cfg → Prop
  | 0, _, _ => True
  | fuel + 1, s, c => ∀ k f, s.get k = some f →
      match f, c.get k with
      | .leaf fs _, some (.val v) => Held W fs v
      | .sub s', some (.node sub) => Inv W fuel s' sub
      | .ctype s' _, some (.node sub) => Inv W fuel s' sub
      | .cfgList s' _ _ _, some (.nodes cs) => ∀ x ∈ cs, Inv W fuel s' x
      | _, _ => True

/-- an argument of an assignment respects the invariant: plain values always do; a configuration object must itself be valid
    for the schema of the slot it is assigned to (the caller built it from that schema) -/
def ArgOk (W : World) (fuel : Nat) (s : Schema) (k : String) : Arg → Prop
  | .val _ => True
  | .cfg sub _ => ∀ s' kf, (s.get k = some (.sub s') ∨ s.get k = some (.ctype s' kf)) → Inv W fuel s' sub

end Cinco.Config
