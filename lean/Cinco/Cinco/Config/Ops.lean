import Cinco.Config.Schema
/-
  The mutating entry points of `Config` in code order (cincoconfig/core.py): `__init__`, `_set_value`,
  `__setitem__`, `load_tree`, `validate`, `reset_value`, plus `to_tree`.  Every operation returns the state
  *at the moment it returned or raised*, so "a rejected operation leaves the configuration unchanged" is a
  theorem about write ordering, not a definition.
-/
namespace Cinco.Config
open Cinco Cinco.Field

inductive CErr where
  | validation (path : String)      -- the library's ValidationError with its reference path
  | attribute                       -- AttributeError: unknown key on a non-dynamic configuration
  | raw (kind : String)             -- any other exception class escaping
  deriving DecidableEq, Repr

structure World where
  environ : String → Option String        -- os.environ
  fe : CodecEnv                           -- what field validators can observe

/-- state at return / raise, the error if it raised, and the next free object identity -/
structure Out where
  cfg : Cfg
  err : Option CErr := none
  next : Nat

def joinPath (root key : String) : String := if root.isEmpty then key else root ++ "." ++ key

def fieldErr (path key : String) : Field.Err → CErr
  | .entry k => .validation (joinPath path key ++ "[" ++ (match k with | .str s => String.ofList s | .int i => toString i | .bool b => (if b then "True" else "False") | _ => "?") ++ "]")
  | _ => .validation (joinPath path key)

/-- a value handed to an assignment: a plain Python value, or a configuration object -/
inductive Arg where
  | val (v : Val)
  | cfg (c : Cfg) (sameSchema : Bool)       -- `sameSchema`: built from the schema the target field holds

def envValue (W : World) (m : LeafMeta) : Option Str :=
  match m.env with
  | some n => if n.isEmpty then none else
      match W.environ n with
      | some s => if s.isEmpty then none else some s.toList
      | none => none
  | none => none

/-- does the kind take its default through `Field.__setdefault__` (which consults the environment)? -/
def usesBaseSetdefault : Kind → Bool
  | .list _ => false
  | .dict _ _ => false
  | _ => true

mutual
  /-- `Config(schema, parent)` with no keyword data: every field's `__setdefault__` in schema order -/
  def build (W : World) (path : String) (linked : Bool) (keyfile : Option String) : Schema → Nat → Except CErr (Cfg × Nat)
    | .mk fields dyn vs, n => buildFields W path fields (Cfg.mk n [] [] [] keyfile linked) (n + 1)
  def buildFields (W : World) (path : String) : List (String × SField) → Cfg → Nat → Except CErr (Cfg × Nat)
    | [], c, n => .ok (c, n)
    | (k, f) :: rest, c, n =>
      match setDefault W path k f c n with
      | .error e => .error e
      | .ok (c', n') => buildFields W path rest c' n'
  /-- `field.__setdefault__(cfg)` -/
  def setDefault (W : World) (path : String) (k : String) : SField → Cfg → Nat → Except CErr (Cfg × Nat)
    | .leaf f m, c, n =>
      match f.kind with
      | .list item =>
          -- ListField.__setdefault__: a list default is wrapped in a validating proxy (typed) or copied; the environment is not consulted
          match m.default.value with
          | .list xs =>
            (match validateItems W.fe.toEnv item xs with
             | none => .ok (c.setDefault k (.val (.list xs)), n)
             | some (.ok ys) => .ok (c.setDefault k (.val (.list ys)), n)
             | some (.error e) => .error (.raw (match e with | .value => "ValueError" | .type => "TypeError" | .overflow => "OverflowError" | .entry _ => "ValidationError")))
          | d => .ok (c.setDefault k (.val d), n)
      | .dict kf vf =>
          match m.default.value with
          | .dict kvs =>
            if kf.isNone && vf.isNone then .ok (c.setDefault k (.val (.dict kvs)), n) else
            (match mapEntries (fun x => validateOpt W.fe.toEnv kf x) (fun x => validateOpt W.fe.toEnv vf x) kvs with
             | .ok es => .ok (c.setDefault k (.val (.dict (buildDict es))), n)
             | .error e => .error (fieldErr path k e))
          | d => .ok (c.setDefault k (.val d), n)
      | .challenge alg =>
          -- ChallengeField.__setdefault__: a set environment variable (or no default) goes through the base class;
          -- otherwise a plaintext default is hashed and a digest is kept
          match envValue W m, m.default.value with
          | some s, _ => (match validate W.fe.toEnv f (.str s) with
               | .ok v => .ok (c.setDefault k (.val v), n)
               | .error e => .error (fieldErr path k e))
          | none, .none => .ok (c.setDefault k (.val .none), n)
          | none, .str p => let salt := W.fe.salt alg; .ok (c.setDefault k (.val (.digest salt (W.fe.hash alg (salt ++ W.fe.utf8 p)) alg)), n)
          | none, .digest s d a => .ok (c.setDefault k (.val (.digest s d a)), n)
          | none, _ => .error (.raw "TypeError")
      | _ =>
          -- Field.__setdefault__: a non-empty environment variable is validated and wins over the default
          match envValue W m with
          | some s => (match validate W.fe.toEnv f (.str s) with
              | .ok v => (match v with
                  | .none => .ok (c.setDefault k (.val m.default.value), n)
                  | v => .ok (c.setDefault k (.val v), n))
              | .error e => .error (fieldErr path k e))
          | none => .ok (c.setDefault k (.val m.default.value), n)
    | .sub s, c, n =>
      match build W (joinPath path k) true none s n with
      | .ok (sub, n') => .ok (c.setDefault k (.node sub), n')
      | .error e => .error e
    | .ctype s kf, c, n =>
      match build W (joinPath path k) true kf s n with
      | .ok (sub, n') => .ok (c.setDefault k (.node sub), n')
      | .error e => .error e
    | .cfgList _ _ _ m, c, n =>
      match m.default.value with
      | .list [] => .ok (c.setDefault k (.nodes []), n)
      | .none => .ok (c.setDefault k (.val .none), n)
      | _ => .error (.raw "unmodelled-default")
    | .virtual _ _, c, n => .ok (c, n)
    | .method, c, n => .ok (c, n)
end

/-- `Config._get_field` -/
inductive FieldRef where
  | declared (f : SField)
  | dynamic                       -- an `AnyField()` added to this configuration
  | missing

def getField (s : Schema) (c : Cfg) (k : String) : FieldRef :=
  match s.get k with
  | some f => .declared f
  | none => if c.dyn.contains k then .dynamic else .missing

end Cinco.Config

namespace Cinco.Config
open Cinco Cinco.Field

def errKindName : Field.Err → String
  | .value => "ValueError" | .type => "TypeError" | .overflow => "OverflowError" | .entry _ => "ValidationError"

/-- schema-level validator catalogue (the harness registers the same functions): `none` = passes -/
def schemaValidator (name : String) (c : Cfg) : Bool :=
  match name with
  | "never" => false
  | "x_lt_y" =>
    (match c.get "x", c.get "y" with
     | some (.val (.int x)), some (.val (.int y)) => decide (x < y)
     | _, _ => true)
  | _ => true

/-- `FeatureFlagField.is_feature_enabled`: truthiness of the stored flag, for every flag field of the schema -/
def featureEnabled (s : Schema) (c : Cfg) : Bool :=
  s.fields.all (fun (k, f) => match f with
    | .leaf _ m => if m.isFlag then (match c.get k with | some (.val v) => v.truthy | _ => false) else true
    | _ => true)

def itemPath (path key : String) (pos : Nat) : String := joinPath path key ++ "[" ++ toString pos ++ "]"

mutual
  /-- `Schema._validate(config)` in raising mode: first error, or none -/
  def validateCfg (W : World) : Nat → Schema → String → Cfg → Option CErr
    | 0, _, _, _ => some (.raw "fuel")
    | fuel + 1, s, path, c =>
      if !featureEnabled s c then none else
      match validateFields W fuel path c s.fields with
      | some e => some e
      | none =>
        if s.validators.all (fun v => schemaValidator v c) then none else some (.validation path)
  /-- what `_validate_field` finds wrong with one field -/
  def fieldProblem (W : World) : Nat → String → Cfg → String → SField → Option CErr
    | _, path, c, k, .leaf fs _ =>
      (match c.get k with
       | some (.val v) => (match validate W.fe.toEnv fs v with
           | .ok _ => none
           | .error e => some (fieldErr path k e))
       | _ => none)
    | fuel, path, c, k, .sub s' => (match c.get k with
        | some (.node sub) => validateCfg W fuel s' (joinPath path k) sub
        | _ => none)
    | fuel, path, c, k, .ctype s' _ => (match c.get k with
        | some (.node sub) => validateCfg W fuel s' (joinPath path k) sub
        | _ => none)
    | _, path, c, k, .cfgList _ _ req _ => (match c.get k with
        | some (.nodes cs) => if req && cs.isEmpty then some (.validation (joinPath path k)) else none
        | some (.val .none) => if req then some (.validation (joinPath path k)) else none
        | _ => none)
    | _, _, _, _, .virtual _ _ => none
    | _, _, _, _, .method => none
  /-- the loop over the schema's fields (virtual and instance-method fields are skipped by `fieldProblem`; an include field is a
      filename field like any other: required means set — F61) -/
  def validateFields (W : World) : Nat → String → Cfg → List (String × SField) → Option CErr
    | _, _, _, [] => none
    | fuel, path, c, (k, f) :: rest =>
      match fieldProblem W fuel path c k f with
      | some e => some e
      | none => validateFields W fuel path c rest
end

/-- what `load_tree` does with one `(key, value)` before `_set_value`: leaf fields bound to a set environment variable are
    skipped (`none`); leaf values are decoded with `to_python` (errors wrapped for that field); the rest is passed on -/
def decodeEntry (W : World) (s : Schema) (path : String) (c : Cfg) (k : String) (value : Val) : Option (Except CErr Arg) :=
  match getField s c k with
  | .declared (.leaf f m) =>
    if (envValue W m).isSome then none
    else (match toPython W.fe f value with
      | .ok v => some (.ok (.val v))
      | .error e => some (.error (fieldErr path k e)))
  | .declared (.cfgList _ _ _ m) =>
    if (envValue W m).isSome then none
    else
      -- ListField.to_python builds the proxy from `value or []`: null and other falsy values load as an empty list
      (match value with
       | .list xs => some (.ok (.val (.list xs)))
       | .tuple xs => some (.ok (.val (.list xs)))
       | v => if v.truthy then some (.error (.validation (joinPath path k))) else some (.ok (.val (.list []))))
  | _ => some (.ok (.val value))

mutual
  /-- `Config._set_value(key, value)` on the configuration at `path` built from schema `s` -/
  def setValue (W : World) : Nat → Schema → String → Cfg → String → Arg → Nat → Out
    | 0, _, _, c, _, _, n => { cfg := c, err := some (.raw "fuel"), next := n }
    | fuel + 1, s, path, c, k, a, n =>
      match getField s c k with
      | .missing =>
        if !s.dynamic then { cfg := c, err := some .attribute, next := n }
        else
          -- a new AnyField is registered on the configuration, then the value goes through it (it never rejects)
          let c1 := c.withDyn (c.dyn ++ [k])
          (match a with
           | .val v => { cfg := c1.setUser k (.val v), next := n }
           | .cfg sub _ => { cfg := c1.setUser k (.node sub), next := n })
      | .dynamic =>
        (match a with
         | .val v => { cfg := c.setUser k (.val v), next := n }
         | .cfg sub _ => { cfg := c.setUser k (.node sub), next := n })
      | .declared (.leaf f _) =>
        (match a with
         | .val v =>
           (match validate W.fe.toEnv f v with
            | .ok v' => { cfg := c.setUser k (.val v'), next := n }
            | .error e => { cfg := c, err := some (fieldErr path k e), next := n })
         | .cfg _ _ =>
           (match validate W.fe.toEnv f (.opaque "Config") with
            | .ok v' => { cfg := c.setUser k (.val v'), next := n }
            | .error e => { cfg := c, err := some (fieldErr path k e), next := n }))
      | .declared (.virtual _ hasSetter) =>
        if hasSetter then { cfg := c, next := n } else { cfg := c, err := some (.validation (joinPath path k)), next := n }
      | .declared .method => { cfg := c, err := some (.validation (joinPath path k)), next := n }
      | .declared (.sub s') => setSub W fuel s' none path c k a n
      | .declared (.ctype s' kf) => setSub W fuel s' kf path c k a n
      | .declared (.cfgList s' _ req _) =>
        (match a with
         | .val (.list items) =>
           (match loadItems W fuel s' path k 0 items [] n with
            | (.ok cs, n') =>
              if req && cs.isEmpty then { cfg := c, err := some (.validation (joinPath path k)), next := n' }
              else { cfg := c.setUser k (.nodes cs), next := n' }
            | (.error e, n') =>
              -- raised inside `field.validate`: a ValidationError passes through, anything else is wrapped for this field
              { cfg := c, err := some (match e with | .validation p => .validation p | _ => .validation (joinPath path k)), next := n' })
         | .val .none => if req then { cfg := c, err := some (.validation (joinPath path k)), next := n }
                         else { cfg := c.setUser k (.val .none), next := n }
         | _ => { cfg := c, err := some (.validation (joinPath path k)), next := n })
  /-- the non-Field branch of `_set_value`: a configuration of that schema is re-parented and stored; a map becomes a
      *new* configuration under this parent, loaded and validated before it is stored; anything else is rejected -/
  def setSub (W : World) : Nat → Schema → Option String → String → Cfg → String → Arg → Nat → Out
    | fuel, s', kf, path, c, k, a, n =>
      match a with
      | .cfg sub same =>
        if same then { cfg := c.setUser k (.node (sub.withLinked true)), next := n }
        else { cfg := c, err := some (.validation (joinPath path k)), next := n }
      | .val (.dict kvs) =>
        (match build W (joinPath path k) true kf s' n with
         | .error e => { cfg := c, err := some e, next := n }
         | .ok (fresh, n1) =>
           let o := loadTree W fuel s' (joinPath path k) fresh kvs true n1
           (match o.err with
            | some e => { cfg := c, err := some e, next := o.next }
            | none => { cfg := c.setUser k (.node o.cfg), next := o.next }))
      | .val _ => { cfg := c, err := some (.validation (joinPath path k)), next := n }
  /-- `ListProxy(cfg, list_field, items)` over a schema: every map becomes a new configuration (loaded and validated) -/
  def loadItems (W : World) : Nat → Schema → String → String → Nat → List Val → List Cfg → Nat → (Except CErr (List Cfg)) × Nat
    | _, _, _, _, _, [], acc, n => (.ok acc.reverse, n)
    | fuel, s', path, k, pos, item :: rest, acc, n =>
      match item with
      | .dict kvs =>
        (match build W (itemPath path k pos) true none s' n with
         | .error e => (.error e, n)
         | .ok (fresh, n1) =>
           let o := loadTree W fuel s' (itemPath path k pos) fresh kvs true n1
           (match o.err with
            | some e => (.error e, o.next)
            | none => loadItems W fuel s' path k (pos + 1) rest (o.cfg :: acc) o.next))
      | _ => (.error (.validation (joinPath path k)), n)
  /-- `Config.load_tree(tree, validate)` -/
  def loadTree (W : World) : Nat → Schema → String → Cfg → List (Val × Val) → Bool → Nat → Out
    | fuel, s, path, c, [], doValidate, n =>
      if doValidate then { cfg := c, err := validateCfg W (fuel + 1) s path c, next := n } else { cfg := c, next := n }
    | fuel, s, path, c, (key, value) :: rest, doValidate, n =>
      match key with
      | .str ks =>
        let k := String.ofList ks
        (match decodeEntry W s path c k value with
         | none => loadTree W fuel s path c rest doValidate n
         | some (.error e) => { cfg := c, err := some e, next := n }
         | some (.ok a) =>
           let o := setValue W fuel s path c k a n
           (match o.err with
            | some e => { cfg := o.cfg, err := some e, next := o.next }
            | none => loadTree W fuel s path o.cfg rest doValidate o.next))
      | _ => { cfg := c, err := some (.raw "unmodelled-key"), next := n }
end

end Cinco.Config

namespace Cinco.Config
open Cinco Cinco.Field

/-- split a dotted key at the first dot: `key.partition(".")` -/
def partitionDot : List Char → List Char × Option (List Char)
  | [] => ([], none)
  | c :: rest =>
    if c == '.' then ([], some rest)
    else
      let r := partitionDot rest
      (c :: r.1, r.2)

theorem partitionDot_no_dot : ∀ (l : List Char), '.' ∉ l → partitionDot l = (l, none)
  | [], _ => rfl
  | c :: rest, h => by
    have hc : (c == '.') = false := by
      simp only [beq_eq_false_iff_ne, ne_eq]; intro e; subst e; exact h (by simp)
    have ih := partitionDot_no_dot rest (fun hm => h (by simp [hm]))
    simp [partitionDot, hc, ih]

def subSchema : SField → Option (Schema × Option String)
  | .sub s => some (s, none)
  | .ctype s kf => some (s, kf)
  | _ => none

/-- `Config.__setitem__(dotted, value)`: walk `_get_value(key).__setitem__(subkey, value)` down to `_set_value` -/
def setItem (W : World) : Nat → Schema → String → Cfg → List Char → Arg → Nat → Out
  | 0, _, _, c, _, _, n => { cfg := c, err := some (.raw "fuel"), next := n }
  | fuel + 1, s, path, c, dotted, a, n =>
    match partitionDot dotted with
    | (k, none) => setValue W (fuel + 1) s path c (String.ofList k) a n
    | (k, some rest) =>
      if rest.isEmpty then setValue W (fuel + 1) s path c (String.ofList k) a n else
      let key := String.ofList k
      match getField s c key with
      | .missing => { cfg := c, err := some (if s.dynamic then .raw "AttributeError" else .attribute), next := n }
      | .dynamic => { cfg := c, err := some (.raw "TypeError"), next := n }
      | .declared f =>
        match subSchema f, c.get key with
        | some (s', _), some (.node sub) =>
          let o := setItem W fuel s' (joinPath path key) sub rest a n
          { cfg := c.set key (.node o.cfg), err := o.err, next := o.next }
        | _, _ => { cfg := c, err := some (.raw "TypeError"), next := n }

/-- walk a dotted key down to the configuration that owns the last component (`config[path]` in support.py) -/
def walk : Nat → Schema → String → Cfg → List Char → Option (Schema × String × Cfg × String)
  | 0, _, _, _, _ => none
  | fuel + 1, s, path, c, dotted =>
    match partitionDot dotted with
    | (k, none) => some (s, path, c, String.ofList k)
    | (k, some rest) =>
      let key := String.ofList k
      match s.get key with
      | some f =>
        (match subSchema f, c.get key with
         | some (s', _), some (.node sub) => walk fuel s' (joinPath path key) sub rest
         | _, _ => none)
      | none => none

/-- replace the configuration reached by a dotted prefix -/
def replaceAt : Nat → Cfg → List Char → (Cfg → Cfg) → Cfg
  | 0, c, _, _ => c
  | fuel + 1, c, dotted, g =>
    match partitionDot dotted with
    | (_, none) => g c
    | (k, some rest) =>
      match c.get (String.ofList k) with
      | some (.node sub) => c.set (String.ofList k) (.node (replaceAt fuel sub rest g))
      | _ => c

/-- `cincoconfig.is_value_defined(config, dotted)` -/
def isDefined (fuel : Nat) (s : Schema) (c : Cfg) (dotted : List Char) : Option Bool :=
  match walk fuel s "" c dotted with
  | some (_, _, owner, k) => some (!owner.defaults.contains k)
  | none => none

/-- `cincoconfig.reset_value(config, dotted)`: the field's `__setdefault__` on the owning configuration -/
def resetValue (W : World) (fuel : Nat) (s : Schema) (c : Cfg) (dotted : List Char) (n : Nat) : Out :=
  match walk fuel s "" c dotted with
  | none => { cfg := c, err := some (.raw "KeyError"), next := n }
  | some (s', path, owner, k) =>
    match getField s' owner k with
    | .missing => { cfg := c, err := some .attribute, next := n }
    | .dynamic => { cfg := replaceAt fuel c dotted (fun o => o.setDefault k (.val .none)), next := n }
    | .declared f =>
      match setDefault W path k f owner n with
      | .ok (owner', n') => { cfg := replaceAt fuel c dotted (fun _ => owner'), next := n' }
      | .error e => { cfg := c, err := some e, next := n }

/-- `len(str(value))` for the values a one-character mask is stretched over -/
def strLen : Val → Nat
  | .str s => s.length
  | .int i => (toString i).length
  | .bool b => if b then 4 else 5
  | _ => 0

def maskValue (mask : Str) (v : Val) : Val :=
  if !v.truthy then .none
  else if mask.length == 1 then .str (List.replicate (strLen v) (mask.headD ' '))
  else .str mask

mutual
  /-- `Config.to_tree(virtual, sensitive_mask)`; `none` = it raised -/
  def toTree (W : World) : Nat → Schema → Cfg → Bool → Option Str → Option (List (Val × Val))
    | 0, _, _, _, _ => none
    | fuel + 1, s, c, virt, mask =>
      match toTreeFields W fuel c virt mask s.fields with
      | none => none
      | some declared =>
        -- dynamically added fields come after the declared ones
        let extra := c.dyn.filterMap (fun k => if (s.get k).isSome then none else
          match c.get k with
          | some (.val v) => some (Val.str k.toList, v)
          | _ => none)
        some (declared ++ extra)
  /-- how one declared field is rendered (the body of the loop in `to_tree`): `none` = raised, `some none` = key skipped -/
  def renderField (W : World) : Nat → Cfg → Bool → Option Str → String → SField → Option (Option Val)
    | _, _, _, _, _, .method => some none
    | _, _, virt, _, _, .virtual const _ => if virt then some (some const) else some none
    | fuel, c, virt, mask, k, .sub s' => (match c.get k with
        | some (.node sub) => (toTree W fuel s' sub virt mask).map (fun t => some (.dict t))
        | some (.val v) => some (some v)
        | _ => some none)
    | fuel, c, virt, mask, k, .ctype s' _ => (match c.get k with
        | some (.node sub) => (toTree W fuel s' sub virt mask).map (fun t => some (.dict t))
        | some (.val v) => some (some v)
        | _ => some none)
    | fuel, c, virt, mask, k, .cfgList s' _ _ _ => (match c.get k with
        | some (.nodes cs) => (toTreeItems W fuel s' virt mask cs).map (fun ts => some (.list ts))
        | some (.val v) => some (some v)
        | _ => some none)
    | _, c, _, mask, k, .leaf fs m => (match c.get k with
        | some (.val v) =>
          if m.sensitive && mask.isSome then some (some (maskValue (mask.getD []) v))
          else (match toBasic W.fe fs v with
            | .ok b => some (some b)
            | .error _ => none)
        | _ => some none)
  def toTreeFields (W : World) : Nat → Cfg → Bool → Option Str → List (String × SField) → Option (List (Val × Val))
    | _, _, _, _, [] => some []
    | fuel, c, virt, mask, (k, f) :: rest =>
      match renderField W fuel c virt mask k f, toTreeFields W fuel c virt mask rest with
      | some (some v), some t => some ((Val.str k.toList, v) :: t)
      | some none, some t => some t
      | _, _ => none
  def toTreeItems (W : World) : Nat → Schema → Bool → Option Str → List Cfg → Option (List Val)
    | _, _, _, _, [] => some []
    | fuel, s', virt, mask, c :: rest =>
      match toTree W fuel s' c virt mask, toTreeItems W fuel s' virt mask rest with
      | some t, some ts => some (.dict t :: ts)
      | _, _ => none
end

end Cinco.Config

namespace Cinco.Config
open Cinco Cinco.Field

/-- `config.validate(collect_errors=True)`: every field's problem, then every failing schema validator -/
def validateCollect (W : World) (fuel : Nat) (s : Schema) (path : String) (c : Cfg) : List CErr :=
  if !featureEnabled s c then [] else
  (s.fields.filterMap (fun (k, f) => fieldProblem W fuel path c k f)) ++
  (s.validators.filterMap (fun v => if schemaValidator v c then none else some (.validation path)))

end Cinco.Config
