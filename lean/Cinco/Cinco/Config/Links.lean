/-
  Back-references of item configurations (`Config._container`, cincoconfig/core.py and fields/list_field.py).

  An item of a list of configurations reports its position (`items[3].port`) by asking the list object its `_container` link
  points to.  List objects come and go: a load builds a new one, `l + [...]`, `l.copy()`, `l[:]` derive new ones that hold the
  SAME item objects, and assigning such a list to the field makes it the held one.  The model keeps, by identity, every list
  object alive (`contents`), the one the field holds (`held`) and every item's link (`link`), and follows the code:

    append / insert of a new item      the proxy validates it and links it to itself            (ListProxy._validate)
    derive                             a new proxy that adopts the items as they are            (ListProxy.__init__ fast path, copy, __add__)
    derive-plus                        the same, then `extend` validates and links the new item to the new proxy
    assign a derived list              `ListField._validate` accepts the configuration's own proxy; `relink = true` (the code
                                       after F50) makes its items point at it, `relink = false` is the code before
    load                               a new proxy with new items

  `reported` is what an error raised inside an item names as its index, `actual` where the item really is.
-/
namespace Cinco.Links

structure St where
  held : Nat                          -- identity of the list object the field holds
  contents : Nat → List Nat           -- list identity ↦ the item identities it holds ([] for identities never used)
  link : Nat → Option Nat             -- item identity ↦ the list object it asks for its position
  next : Nat                          -- next fresh identity (lists and items draw from one counter)

inductive Op where
  | appendNew                         -- `cfg.items.append({...})`
  | insertNew (i : Nat)               -- `cfg.items.insert(i, {...})`
  | delete (i : Nat)                  -- `del cfg.items[i]`
  | derive (l : Nat)                  -- `x = l.copy()` / `l[:]` / `l + []` for a list object `l` alive (the held one or a derived one)
  | derivePlus (l : Nat)              -- `x = l + [{...}]`
  | assign (l : Nat)                  -- `cfg.items = x` for a list object alive
  | load (k : Nat)                    -- `cfg.load_tree({"items": [k maps]})`
  deriving Repr

def upd {α} (f : Nat → α) (k : Nat) (v : α) : Nat → α := fun x => if x = k then v else f x

def insertAt (xs : List Nat) (i : Nat) (x : Nat) : List Nat := xs.take i ++ x :: xs.drop i

def step (relink : Bool) (s : St) : Op → St
  | .appendNew =>
    { s with contents := upd s.contents s.held (s.contents s.held ++ [s.next]), link := upd s.link s.next (some s.held), next := s.next + 1 }
  | .insertNew i =>
    { s with contents := upd s.contents s.held (insertAt (s.contents s.held) i s.next), link := upd s.link s.next (some s.held), next := s.next + 1 }
  | .delete i =>
    { s with contents := upd s.contents s.held ((s.contents s.held).eraseIdx i) }
  | .derive l =>
    if l < s.next then { s with contents := upd s.contents s.next (s.contents l), next := s.next + 1 } else s
  | .derivePlus l =>
    if l < s.next then
      { s with contents := upd s.contents s.next (s.contents l ++ [s.next + 1]), link := upd s.link (s.next + 1) (some s.next), next := s.next + 2 }
    else s
  | .assign l =>
    if l < s.next then
      { s with held := l, link := if relink then (fun x => if x ∈ s.contents l then some l else s.link x) else s.link }
    else s
  | .load k =>
    { s with held := s.next, contents := upd s.contents s.next ((List.range k).map (· + s.next + 1)),
             link := fun x => if s.next < x ∧ x ≤ s.next + k then some s.next else s.link x, next := s.next + k + 1 }

def run (relink : Bool) (s : St) (ops : List Op) : St := ops.foldl (step relink) s

/-- the index an error raised inside item `x` names: the position of `x` in the list object its link points to -/
def reported (s : St) (x : Nat) : Option Nat := (s.link x).map (fun l => (s.contents l).idxOf x)

/-- where the item is in the list the field holds -/
def actual (s : St) (x : Nat) : Nat := (s.contents s.held).idxOf x

/-- a fresh configuration: the field holds an empty list object of identity 0 -/
def init : St := { held := 0, contents := fun _ => [], link := fun _ => none, next := 1 }

/-- every item of the held list points at the held list -/
def Inv (s : St) : Prop := ∀ x ∈ s.contents s.held, s.link x = some s.held

/-- identities are fresh: the held list and every identity in any list object lie below `next` -/
def WF (s : St) : Prop := s.held < s.next ∧ (∀ l x, x ∈ s.contents l → x < s.next) ∧ (∀ l, s.next ≤ l → s.contents l = [])

end Cinco.Links
