import Cinco.Props.C12b
/-
  Helper lemmas for C14b (the VALUES held by the leaf keys of one configuration level over whole histories):
  * `Slots` — a plain map from key to slot — with `put` / `putAll`;
  * `entryValue` / `loadValues`: what `load_tree` stores, entry by entry, computed from the world and the schema only
    (they mirror `C12b.entryEffect` / `C12b.loadAssigned` and add the converted-and-validated value);
  * `loadTree_values`: the slots after `loadTree` over declared leaf keys, in closed form, together with the identity
    counter (`next` is returned as it was: no operation on a leaf key draws from it);
  * membership lemmas for `loadValues` (who can be in it, which entry wins) and the value `leafDefault` computes for a leaf
    bound to a set environment variable.
-/
namespace Cinco.Config.ValueSpec
open Cinco Cinco.Field Cinco.Config Cinco.Config.Defined Cinco.C12b

/-! ## 1. Plain maps from key to slot -/

/-- what a configuration level holds, as a plain function (`Cfg.get` of a configuration is one) -/
abbrev Slots := String → Option Slot

def Slots.put (A : Slots) (k : String) (sl : Slot) : Slots := fun k' => if k' = k then some sl else A k'

/-- store a list of values, first to last (a later entry for the same key wins) -/
def Slots.putAll (A : Slots) : List (String × Val) → Slots
  | [] => A
  | (k, v) :: rest => Slots.putAll (A.put k (.val v)) rest

theorem put_same (A : Slots) (k : String) (sl : Slot) : A.put k sl k = some sl := by simp [Slots.put]

theorem put_other (A : Slots) {k k' : String} (h : k' ≠ k) (sl : Slot) : A.put k sl k' = A k' := by simp [Slots.put, h]

/-- `put` acts key by key: the new map at `k'` depends on the old map at `k'` only -/
theorem put_congr {A B : Slots} {k' : String} (h : A k' = B k') (k : String) (sl : Slot) : A.put k sl k' = B.put k sl k' := by
  simp only [Slots.put, h]

theorem putAll_congr : ∀ (l : List (String × Val)) {A B : Slots} {k' : String}, A k' = B k' → A.putAll l k' = B.putAll l k'
  | [], _, _, _, h => h
  | (k, v) :: rest, _, _, _, h => putAll_congr rest (put_congr h k (.val v))

theorem putAll_not_mem : ∀ (l : List (String × Val)) (A : Slots) (k' : String), k' ∉ l.map (·.1) → A.putAll l k' = A k'
  | [], _, _, _ => rfl
  | (k, v) :: rest, A, k', h => by
    simp only [List.map_cons, List.mem_cons, not_or] at h
    rw [Slots.putAll, putAll_not_mem rest _ k' h.2, put_other A h.1]

/-- a key in the list holds one of the listed values afterwards -/
theorem putAll_mem : ∀ (l : List (String × Val)) (A : Slots) (k' : String), k' ∈ l.map (·.1) →
    ∃ v, (k', v) ∈ l ∧ A.putAll l k' = some (.val v)
  | [], _, _, h => by simp at h
  | (k, v) :: rest, A, k', h => by
    by_cases hin : k' ∈ rest.map (·.1)
    · obtain ⟨v', hm, he⟩ := putAll_mem rest (A.put k (.val v)) k' hin
      exact ⟨v', List.mem_cons_of_mem _ hm, he⟩
    · simp only [List.map_cons, List.mem_cons] at h
      rcases h with h | h
      · subst h
        exact ⟨v, List.mem_cons_self .., by rw [Slots.putAll, putAll_not_mem rest _ k' hin, put_same]⟩
      · exact absurd h hin

/-- if every listed value for `k'` is `v`, that is what the key holds -/
theorem putAll_unique (l : List (String × Val)) (A : Slots) (k' : String) (v : Val) (hin : k' ∈ l.map (·.1))
    (hu : ∀ v', (k', v') ∈ l → v' = v) : A.putAll l k' = some (.val v) := by
  obtain ⟨v', hm, he⟩ := putAll_mem l A k' hin
  rw [he, hu v' hm]

theorem putAll_append (A : Slots) (l1 l2 : List (String × Val)) : A.putAll (l1 ++ l2) = (A.putAll l1).putAll l2 := by
  induction l1 generalizing A with
  | nil => rfl
  | cons p rest ih => obtain ⟨k, v⟩ := p; simp only [List.cons_append, Slots.putAll]; exact ih _

/-- the two writes of a configuration, read through `Cfg.get` -/
theorem get_setUser (c : Cfg) (k : String) (sl : Slot) : (c.setUser k sl).get = Slots.put c.get k sl := by
  funext k'
  by_cases h : k' = k
  · subst h; rw [Cfg.get_setUser_same, put_same]
  · rw [Cfg.get_setUser_other c h, put_other _ h]

theorem get_setDefault (c : Cfg) (k : String) (sl : Slot) : (c.setDefault k sl).get = Slots.put c.get k sl := by
  funext k'
  by_cases h : k' = k
  · subst h; rw [Cfg.get_setDefault_same, put_same]
  · rw [Cfg.get_setDefault_other c h, put_other _ h]

/-! ## 2. What a load stores, from the world and the schema only -/

/-- `C12b.EntryEffect` with the value an assigning entry stores -/
inductive EntryValue where
  | skip
  | assign (k : String) (v : Val)
  | stop

/-- accepted: the validated value; rejected: stop -/
def validatedEntry (W : World) (fs : FieldSpec) (k : String) : Field.R Val → EntryValue
  | .ok u =>
    (match validate W.fe.toEnv fs u with
     | .ok v => .assign k v
     | .error _ => .stop)
  | .error _ => .stop

/-- one entry whose key names a declared leaf: skipped when the leaf is bound to a set environment variable, otherwise
    decoded by `to_python` and validated -/
def leafEntry (W : World) (k : String) (value : Val) : Option (FieldSpec × LeafMeta) → EntryValue
  | some (fs, m) => if (envValue W m).isSome then .skip else validatedEntry W fs k (toPython W.fe fs value)
  | none => .stop

def keyString : Val → Option String
  | .str ks => some (String.ofList ks)
  | _ => none

/-- what `load_tree` does with one entry (the value-carrying twin of `C12b.entryEffect`) -/
def entryValue (W : World) (s : Schema) (key value : Val) : EntryValue :=
  match keyString key with
  | some k => leafEntry W k value (leafOf (s.get k))
  | none => .stop

/-- the `(key, value)` writes of a load, in order: everything up to the first entry that raises (the value-carrying twin
    of `C12b.loadAssigned`) -/
def loadValues (W : World) (s : Schema) : List (Val × Val) → List (String × Val)
  | [] => []
  | (key, value) :: rest =>
    match entryValue W s key value with
    | .skip => loadValues W s rest
    | .assign k v => (k, v) :: loadValues W s rest
    | .stop => []

def EntryValue.effect : EntryValue → EntryEffect
  | .skip => .skip
  | .assign k _ => .assign k
  | .stop => .stop

theorem keyString_str (ks : List Char) : keyString (.str ks) = some (String.ofList ks) := rfl

theorem keyString_nonstr (key : Val) (h : ∀ ks, key ≠ .str ks) : keyString key = none := by
  cases key <;> first | rfl | exact absurd rfl (h _)

theorem entryValue_leaf (W : World) (s : Schema) (ks : List Char) (value : Val) {fs : FieldSpec} {m : LeafMeta}
    (hf : s.get (String.ofList ks) = some (.leaf fs m)) :
    entryValue W s (.str ks) value =
      (if (envValue W m).isSome then .skip else validatedEntry W fs (String.ofList ks) (toPython W.fe fs value)) := by
  simp only [entryValue, keyString_str, hf, leafOf, leafEntry]

theorem entryValue_nonstr (W : World) (s : Schema) (key value : Val) (h : ∀ ks, key ≠ .str ks) :
    entryValue W s key value = .stop := by
  simp only [entryValue, keyString_nonstr key h]

/-- forgetting the value gives `C12b.entryEffect` -/
theorem entryValue_effect (W : World) (s : Schema) (key value : Val) :
    (entryValue W s key value).effect = entryEffect W s key value := by
  by_cases hstr : ∃ ks, key = .str ks
  · obtain ⟨ks, rfl⟩ := hstr
    cases hl : leafOf (s.get (String.ofList ks)) with
    | none => simp only [entryValue, keyString_str, hl, leafEntry, entryEffect, EntryValue.effect]
    | some p =>
      obtain ⟨fs, m⟩ := p
      have hf := leafOf_some hl
      rw [entryValue_leaf W s ks value hf, entryEffect_leaf W s ks value hf]
      by_cases henv : (envValue W m).isSome = true
      · simp only [henv, if_true, EntryValue.effect]
      · simp only [henv, Bool.false_eq_true, if_false]
        cases hp : toPython W.fe fs value with
        | error e => rfl
        | ok u =>
          simp only [validatedEntry]
          cases hv : validate W.fe.toEnv fs u with
          | error e => simp [okB, EntryValue.effect]
          | ok v => simp [okB, EntryValue.effect]
  · have hne : ∀ ks, key ≠ .str ks := fun ks e => hstr ⟨ks, e⟩
    rw [entryValue_nonstr W s key value hne, entryEffect_nonstr W s key value hne]
    rfl

/-- **The keys of `loadValues` are `C12b.loadAssigned`**, in the same order. -/
theorem loadValues_keys (W : World) (s : Schema) : ∀ (tree : List (Val × Val)),
    (loadValues W s tree).map (·.1) = loadAssigned W s tree
  | [] => rfl
  | (key, value) :: rest => by
    have he := entryValue_effect W s key value
    have ih := loadValues_keys W s rest
    simp only [loadValues, loadAssigned]
    cases hv : entryValue W s key value with
    | skip => rw [hv] at he; simp only [EntryValue.effect] at he; simp only [← he]; exact ih
    | stop => rw [hv] at he; simp only [EntryValue.effect] at he; simp only [← he]; rfl
    | assign k v => rw [hv] at he; simp only [EntryValue.effect] at he; simp only [← he, List.map_cons, ih]

/-! ## 3. `loadTree` on declared leaf keys: slots and identity counter in closed form -/

/-- **The slots after `load_tree`** (returning or raising midway) over declared leaf keys are the slots before with the
    writes of `loadValues` applied in order — for *every* key — and the identity counter is returned as it was. -/
theorem loadTree_values (W : World) (fuel : Nat) (s : Schema) (dv : Bool) :
    ∀ (tree : List (Val × Val)) (c : Cfg) (n : Nat), OpOk s (.load tree dv) →
      (loadTree W (fuel + 1) s "" c tree dv n).cfg.get = Slots.putAll c.get (loadValues W s tree) ∧
      (loadTree W (fuel + 1) s "" c tree dv n).next = n
  | [], c, n, _ => by
    have h := loadTree_nil_cfg W (fuel + 1) s "" c dv n
    exact ⟨by rw [h.1]; rfl, h.2⟩
  | (key, value) :: rest, c, n, hok => by
    have hrest : OpOk s (.load rest dv) := fun ks v hm => hok ks v (List.mem_cons_of_mem _ hm)
    by_cases hstr : ∃ ks, key = .str ks
    · obtain ⟨ks, rfl⟩ := hstr
      obtain ⟨fs, m, hf⟩ := isLeafKey_get (hok ks value (List.mem_cons_self ..))
      have hval := entryValue_leaf W s ks value hf
      have heq := loadTree_cons_leaf W fuel s "" c ks value rest dv n hf
      by_cases henv : (envValue W m).isSome = true
      · simp only [henv, if_true] at hval heq
        rw [heq]
        simp only [loadValues, hval]
        exact loadTree_values W fuel s dv rest c n hrest
      · simp only [henv, Bool.false_eq_true, if_false] at hval heq
        cases hp : toPython W.fe fs value with
        | error e =>
          simp only [hp] at heq
          simp only [hp, validatedEntry] at hval
          rw [heq]
          simp [loadValues, hval, Slots.putAll]
        | ok u =>
          simp only [hp] at heq
          simp only [hp, validatedEntry] at hval
          cases hv : validate W.fe.toEnv fs u with
          | error e =>
            simp only [hv] at heq hval
            rw [heq]
            simp [loadValues, hval, Slots.putAll]
          | ok v =>
            simp only [hv] at heq hval
            rw [heq]
            simp only [loadValues, hval, Slots.putAll]
            have ih := loadTree_values W fuel s dv rest (c.setUser (String.ofList ks) (.val v)) n hrest
            rw [get_setUser] at ih
            exact ih
    · have hne : ∀ ks, key ≠ .str ks := fun ks e => hstr ⟨ks, e⟩
      rw [loadTree_cons_nonstr W (fuel + 1) s "" c key value rest dv n hne]
      simp [loadValues, entryValue_nonstr W s key value hne, Slots.putAll]

/-! ## 4. Who is in `loadValues` -/

/-- every write of a load comes from an entry of the tree whose key is a declared leaf that is **not** bound to a set
    environment variable, and stores that entry's decoded, validated value -/
theorem mem_loadValues {W : World} {s : Schema} : ∀ {tree : List (Val × Val)} {k : String} {v : Val},
    (k, v) ∈ loadValues W s tree → ∃ ks value fs m u, (Val.str ks, value) ∈ tree ∧ k = String.ofList ks ∧
      s.get k = some (.leaf fs m) ∧ envValue W m = none ∧ toPython W.fe fs value = .ok u ∧ validate W.fe.toEnv fs u = .ok v
  | [], k, v, h => by simp [loadValues] at h
  | (key, value) :: rest, k, v, h => by
    have lift : (k, v) ∈ loadValues W s rest → ∃ ks value' fs m u, (Val.str ks, value') ∈ (key, value) :: rest ∧
        k = String.ofList ks ∧ s.get k = some (.leaf fs m) ∧ envValue W m = none ∧ toPython W.fe fs value' = .ok u ∧
        validate W.fe.toEnv fs u = .ok v := by
      intro h'
      obtain ⟨ks, v1, fs, m, u, hm, r⟩ := mem_loadValues h'
      exact ⟨ks, v1, fs, m, u, List.mem_cons_of_mem _ hm, r⟩
    simp only [loadValues] at h
    cases he : entryValue W s key value with
    | skip => simp only [he] at h; exact lift h
    | stop => simp [he] at h
    | assign k0 v0 =>
      simp only [he, List.mem_cons, Prod.mk.injEq] at h
      rcases h with ⟨hk, hv⟩ | h
      · subst hk; subst hv
        by_cases hstr : ∃ ks, key = .str ks
        · obtain ⟨ks, rfl⟩ := hstr
          cases hl : leafOf (s.get (String.ofList ks)) with
          | none => simp [entryValue, keyString_str, hl, leafEntry] at he
          | some p =>
            obtain ⟨fs, m⟩ := p
            have hf := leafOf_some hl
            rw [entryValue_leaf W s ks value hf] at he
            by_cases henv : (envValue W m).isSome = true
            · simp [henv] at he
            · simp only [henv, Bool.false_eq_true, if_false] at he
              have henv' : envValue W m = none := by
                cases hx : envValue W m with
                | none => rfl
                | some x => simp [hx] at henv
              cases hp : toPython W.fe fs value with
              | error e => simp [hp, validatedEntry] at he
              | ok u =>
                simp only [hp, validatedEntry] at he
                cases hv : validate W.fe.toEnv fs u with
                | error e => simp [hv] at he
                | ok v1 =>
                  simp only [hv, EntryValue.assign.injEq] at he
                  obtain ⟨hk1, hv1⟩ := he
                  subst hk1; subst hv1
                  exact ⟨ks, value, fs, m, u, List.mem_cons_self .., rfl, hf, henv', hp, hv⟩
        · have hne : ∀ ks, key ≠ .str ks := fun ks e => hstr ⟨ks, e⟩
          rw [entryValue_nonstr W s key value hne] at he
          cases he
      · exact lift h

/-- a leaf bound to a set environment variable is never written by a load -/
theorem not_mem_loadAssigned_of_env {W : World} {s : Schema} {k : String} {fs : FieldSpec} {m : LeafMeta}
    (hf : s.get k = some (.leaf fs m)) (henv : (envValue W m).isSome = true) (tree : List (Val × Val)) :
    k ∉ loadAssigned W s tree := by
  intro hin
  rw [← loadValues_keys] at hin
  obtain ⟨p, hp, hk⟩ := List.mem_map.1 hin
  obtain ⟨k0, v⟩ := p
  simp only at hk
  subst hk
  obtain ⟨_, _, fs', m', _, _, _, hf', henv', _⟩ := mem_loadValues hp
  rw [hf] at hf'
  cases hf'
  rw [henv'] at henv
  cases henv

/-! ## 5. The default of a leaf bound to a set environment variable -/

/-- **`__setdefault__` of a field bound to a set variable**: for every field class that consults the environment
    (`usesBaseSetdefault`: everything but typed lists and dicts, finding F10), a variable whose text validates to a value
    other than `None` makes that value the default. -/
theorem leafDefault_env (W : World) (path k : String) (fs : FieldSpec) (m : LeafMeta) (text : Str) (v : Val)
    (hk : usesBaseSetdefault fs.kind = true) (henv : envValue W m = some text)
    (hv : validate W.fe.toEnv fs (.str text) = .ok v) (hnn : v ≠ .none) : leafDefault W path k fs m = .ok v := by
  unfold leafDefault
  cases hkind : fs.kind <;> simp [hkind, usesBaseSetdefault] at hk ⊢ <;> simp [henv, hv] <;>
    (cases v <;> first | (exact absurd rfl hnn) | rfl)

end Cinco.Config.ValueSpec
