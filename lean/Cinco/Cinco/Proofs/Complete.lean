import Cinco.Proofs.Sound
/-
  Completeness of validation on normal forms: the converse of `validate_sound` (Cinco/Proofs/Sound.lean).

  A value that satisfies what a field DECLARES (`Sat E f v`: it is of the field's stored type, within the declared
  constraints and in normal form) is accepted by `validate E f`, and returned as it is — for every declaration in
  `CompleteOk`, at every nesting depth of typed lists and dicts.  Every rule has a `…Rule_complete` lemma that mirrors
  its `…Rule_sat` lemma in Sound.lean; `validate_complete` lifts them over the nesting by structural recursion on
  the declaration.  No property of the environment is needed (`EnvOk` is not used in this file).
-/
namespace Cinco.Field
open Cinco Cinco.Num Cinco.Str

/-! ## 1. The declarations for which completeness is claimed -/

/-- string options that the canonical text `a.b.c.d/len` of a network passes unchanged whenever SOME text of the same
    network passes them (a decidable, sufficient condition):
    * `min_len ≤ 9` and `max_len ≥ 18` (a canonical text has 9 to 18 characters, `printNet_length`);
    * no pattern (whether every canonical text matches a pattern is not decided here);
    * the choices are closed under canonicalisation: with every choice that denotes a network, the canonical text of
      that network is a choice as well (so: no choices, or e.g. only canonical texts);
    * no character strip, or one that strips no digit (a canonical text begins and ends with a digit);
    * any case transform, the whitespace strip (a canonical text consists of ASCII digits, dots and one slash). -/
def StrOpts.canonSafe (o : StrOpts) : Bool :=
  (match o.minLen with | none => true | some m => decide (m ≤ 9)) &&
  (match o.maxLen with | none => true | some m => decide (18 ≤ m)) &&
  o.regex.isNone &&
  o.choices.all (fun c => match Net.parseNet c with
    | none => true
    | some np => o.choices.contains (Net.printNet np.1 np.2)) &&
  (match o.strip with | .off => true | .ws => true | .chars cs => cs.all (fun c => !c.isDigit))

mutual
  /-- the declarations for which "satisfies the declaration ⇒ accepted unchanged" is claimed.  Excluded:
      * a custom validator on the field itself, on a key / value field of a dict at any depth, or on the item field of a
        typed list (the catalogue function is arbitrary and `Sat` says nothing about its results); a custom validator on
        an `AnyField` item of a list is NOT excluded — the items of such a list are never validated;
      * `IPv4NetworkField` with string options outside `StrOpts.canonSafe` — a pattern, `min_len > 9`, `max_len < 18`,
        choices not closed under canonicalisation, a character strip that strips digits (finding F22: the options are
        checked on the input text, the canonical text that is held may violate them);
      * `FilenameField` with a non-empty start directory TOGETHER WITH string options (finding F25: the options are checked
        on the text as given, the resolved path that is held may violate them).  Without string options it is covered:
        under a start directory a held path is empty or absolute, and an absolute path is not resolved again. -/
  def CompleteOk : FieldSpec → Bool
    | .mk k _ c => c.isNone && CompleteOkKind k
  def CompleteOkOpt : Option FieldSpec → Bool
    | none => true
    | some f => CompleteOk f
  def CompleteOkKind : Kind → Bool
    | .any => true
    | .string _ => true
    | .int _ _ => true
    | .float _ _ => true
    | .bool => true
    | .bytes _ => true
    | .ipv4addr _ => true
    | .ipv4net o _ _ => o.canonSafe
    | .hostname _ _ => true
    | .filename o _ sd => o.plain || (match sd with | none => true | some d => d.isEmpty)
    | .url _ => true
    | .challenge _ => true
    | .secure _ => true
    | .list item => untypedItem item || CompleteOkOpt item
    | .dict k v => CompleteOkOpt k && CompleteOkOpt v
end

/-! ## 2. Every rule, one by one -/

theorem applyStrip_of_normal {st : Strip} {s : Str} (h : StripNormal st s) : applyStrip st s = s := by
  cases st with
  | off => rfl
  | ws => exact h
  | chars cs => exact h

theorem applyCase_of_normal {c : Option Case} {s : Str} (h : CaseNormal c s) : applyCase c s = s := by
  cases c with
  | none => rfl
  | some c =>
    cases c with
    | lower => exact h
    | upper => exact h

/-- a text in case- and strip-normal form is a fixed point of the string transforms -/
theorem transform_of_normal {o : StrOpts} {s : Str} (hc : CaseNormal o.case s) (hs : StripNormal o.strip s) :
    transform o s = s := by
  obtain ⟨mn, mx, re, ch, cs, st⟩ := o
  simp only at hc hs
  have h1 : applyStrip st s = s := applyStrip_of_normal hs
  cases cs with
  | none => simp only [transform, h1]
  | some c =>
    have h2 : applyCase (some c) s = s := applyCase_of_normal hc
    cases st with
    | off => simp only [transform, h1, h2]
    | ws => simp only [transform, h1, h2]
    | chars cs' =>
      have h3 : stripChars cs' s = s := hs
      simp only [transform, h1, h2, h3]

/-- the converse of `strChecks_sat` -/
theorem strChecks_of_sat {o : StrOpts} {req : Bool} {s : Str} (h : StrSat o req s) : strChecks o req s = true := by
  obtain ⟨mn, mx, re, ch, cs, st⟩ := o
  obtain ⟨h1, h2, h3, h4, h5, _, _⟩ := h
  simp only at h2 h3 h4 h5
  simp only [strChecks, Bool.and_eq_true]
  refine ⟨⟨⟨⟨?_, ?_⟩, ?_⟩, ?_⟩, ?_⟩
  · cases req with
    | false => rfl
    | true =>
      have hne := h1 rfl
      cases s with
      | nil => exact absurd rfl hne
      | cons _ _ => rfl
  · cases mn with
    | none => rfl
    | some m =>
      have := h2 m rfl
      simp only [Bool.not_eq_true', decide_eq_false_iff_not]
      omega
  · cases mx with
    | none => rfl
    | some m =>
      have := h3 m rfl
      simp only [Bool.not_eq_true', decide_eq_false_iff_not]
      omega
  · cases re with
    | none => rfl
    | some r => exact h4 r rfl
  · cases ch with
    | nil => rfl
    | cons c cs' =>
      have := h5 (by simp)
      simp only [List.isEmpty_cons, Bool.false_or]
      exact List.contains_iff_mem.2 this

/-- **`StringField._validate` is complete on normal forms** -/
theorem strRule_complete {o : StrOpts} {req : Bool} {s : Str} (h : StrSat o req s) : strRule o req (.str s) = .ok s := by
  simp only [strRule, transform_of_normal h.caseNormal h.stripNormal, strChecks_of_sat h, if_true]

theorem intRule_complete {mn mx : Option Num} {i : Int} (h1 : NotBelow (ofInt i) mn) (h2 : NotAbove (ofInt i) mx) :
    intRule mn mx (.int i) = .ok (.int i) := by
  simp only [intRule, (checkBounds_iff mn mx (ofInt i)).2 ⟨h1, h2⟩, if_true]

theorem floatRule_complete {E : Env} {mn mx : Option Num} {x : Flt} (h1 : NotBelow (ofFlt x) mn) (h2 : NotAbove (ofFlt x) mx) :
    floatRule E mn mx (.flt x) = .ok (.flt x) := by
  simp only [floatRule, (checkBounds_iff mn mx (ofFlt x)).2 ⟨h1, h2⟩, if_true]

theorem secureRule_complete {req : Bool} {s : Str} (h : req = true → s ≠ []) : secureRule req (.str s) = .ok (.str s) := by
  cases req with
  | false => simp [secureRule]
  | true =>
    have hne := h rfl
    cases s with
    | nil => exact absurd rfl hne
    | cons _ _ => simp [secureRule]

theorem addrRule_complete {o : StrOpts} {req : Bool} {s : Str} (hs : StrSat o req s) {n : Nat}
    (hp : Net.parseAddr s = some n) (he : s = Net.printAddr n) : addrRule o req (.str s) = .ok (.str s) := by
  simp only [addrRule, strRule_complete hs, bind, Except.bind, hp]
  rw [← he]

theorem hostRule_complete {o : StrOpts} {req a : Bool} {s : Str} (hs : StrSat o req s)
    (h : (a = true ∧ ∃ n, Net.parseAddr s = some n) ∨
         (Net.parseAddr s = none ∧
          (Regex.isMatch Generated.hostnameRe s = true ∨ Regex.isMatch Generated.netbiosRe s = true))) :
    hostRule o req a (.str s) = .ok (.str s) := by
  rcases h with ⟨ha, n, hp⟩ | ⟨hp, hm⟩
  · simp only [hostRule, strRule_complete hs, bind, Except.bind, hp, ha, if_true]
    rw [(Net.printAddr_of_parseAddr s n hp).1]
  · have hm' : (Regex.isMatch Generated.hostnameRe s || Regex.isMatch Generated.netbiosRe s) = true := by
      simpa using hm
    simp only [hostRule, strRule_complete hs, bind, Except.bind, hp, hm', if_true]

theorem urlRule_complete {E : Env} {o : StrOpts} {req : Bool} {s : Str} (hs : StrSat o req s) (hu : E.urlOk s = true) :
    urlRule E o req (.str s) = .ok (.str s) := by
  simp only [urlRule, strRule_complete hs, bind, Except.bind, hu, if_true]

/-! ### the canonical text of a network under the string options -/

theorem printNet_chars {n p : Nat} {c : Char} (h : c ∈ Net.printNet n p) : c.isDigit = true ∨ c = '.' ∨ c = '/' := by
  simp only [Net.printNet, Net.printAddr, List.mem_append, List.mem_singleton] at h
  rcases h with ((((((((h | h) | h) | h) | h) | h) | h) | h) | h)
  all_goals first
    | exact Or.inl (Net.isDigit_of_mem_natRepr h)
    | exact Or.inr (Or.inl h)
    | exact Or.inr (Or.inr h)

theorem digit_range {c : Char} (h : c.isDigit = true) : 48 ≤ c.toNat ∧ c.toNat ≤ 57 := by
  simp only [Char.isDigit, Bool.and_eq_true, decide_eq_true_eq] at h
  exact ⟨h.1, h.2⟩

theorem lowerChar_of_netChar {c : Char} (h : c.isDigit = true ∨ c = '.' ∨ c = '/') : lowerChar c = c := by
  rcases h with h | h | h
  · obtain ⟨a, b⟩ := digit_range h
    have e1 : (65 ≤ c.toNat && c.toNat ≤ 90) = false := by simp; omega
    have e2 : isLatin1Upper c.toNat = false := by simp [isLatin1Upper]; omega
    simp [lowerChar, e1, e2]
  · subst h; decide
  · subst h; decide

theorem upperChar_of_netChar {c : Char} (h : c.isDigit = true ∨ c = '.' ∨ c = '/') : upperChar c = c := by
  rcases h with h | h | h
  · obtain ⟨a, b⟩ := digit_range h
    have e1 : (97 ≤ c.toNat && c.toNat ≤ 122) = false := by simp; omega
    have e2 : isLatin1Lower c.toNat = false := by simp [isLatin1Lower]; omega
    simp [upperChar, e1, e2]
  · subst h; decide
  · subst h; decide

theorem isSpace_of_netChar {c : Char} (h : c.isDigit = true ∨ c = '.' ∨ c = '/') : isSpace c = false := by
  rcases h with h | h | h
  · exact isSpace_of_isDigit h
  · subst h; decide
  · subst h; decide

theorem printNet_lower (n p : Nat) : lower (Net.printNet n p) = Net.printNet n p :=
  map_eq_self _ (fun _ hc => lowerChar_of_netChar (printNet_chars hc))

theorem printNet_upper (n p : Nat) : upper (Net.printNet n p) = Net.printNet n p :=
  map_eq_self _ (fun _ hc => upperChar_of_netChar (printNet_chars hc))

theorem printNet_strip (n p : Nat) : strip (Net.printNet n p) = Net.printNet n p :=
  strip_eq_self (fun _ hc => isSpace_of_netChar (printNet_chars hc))

theorem printNet_ne_nil (n p : Nat) : Net.printNet n p ≠ [] := by
  simp [Net.printNet, Net.printAddr]

theorem natRepr_length_octet : ∀ k, k < 256 → 1 ≤ (Net.natRepr k).length ∧ (Net.natRepr k).length ≤ 3 := by
  decide +kernel

theorem natRepr_length_prefix : ∀ p, p ≤ 32 → 1 ≤ (Net.natRepr p).length ∧ (Net.natRepr p).length ≤ 2 := by
  decide +kernel

/-- a canonical network text has between 9 (`0.0.0.0/0`) and 18 (`100.100.100.100/32`) characters -/
theorem printNet_length (n p : Nat) (hp : p ≤ 32) :
    9 ≤ (Net.printNet n p).length ∧ (Net.printNet n p).length ≤ 18 := by
  have h1 := natRepr_length_octet (n / 16777216 % 256) (Nat.mod_lt _ (by omega))
  have h2 := natRepr_length_octet (n / 65536 % 256) (Nat.mod_lt _ (by omega))
  have h3 := natRepr_length_octet (n / 256 % 256) (Nat.mod_lt _ (by omega))
  have h4 := natRepr_length_octet (n % 256) (Nat.mod_lt _ (by omega))
  have h5 := natRepr_length_prefix p hp
  simp only [Net.printNet, Net.printAddr, List.length_append, List.length_cons, List.length_nil]
  omega

theorem parseNet_prefix_le {s : Str} {n p : Nat} (h : Net.parseNet s = some (n, p)) : p ≤ 32 := by
  unfold Net.parseNet at h
  split at h
  · rename_i a _
    cases ha : Net.parseAddr a with
    | none => simp [ha] at h
    | some m => simp [ha] at h; omega
  · rename_i a m _
    cases ha : Net.parseAddr a with
    | none => simp [ha] at h
    | some x =>
      cases hm : Net.parsePrefix m with
      | none => simp [ha, hm] at h
      | some q =>
        simp only [ha, hm] at h
        split at h
        · cases h; exact parsePrefix_le m p hm
        · cases h
  · cases h

theorem natRepr_ne_nil (k : Nat) : Net.natRepr k ≠ [] := Nat.toDigits_ne_nil

/-- a canonical network text begins with a digit -/
theorem printNet_head {n p : Nat} {c : Char} (h : (Net.printNet n p).head? = some c) : c.isDigit = true := by
  simp only [Net.printNet, Net.printAddr, List.append_assoc] at h
  cases hr : Net.natRepr (n / 16777216 % 256) with
  | nil => exact absurd hr (natRepr_ne_nil _)
  | cons x xs =>
    rw [hr] at h
    simp only [List.cons_append, List.head?_cons, Option.some.injEq] at h
    subst h
    exact Net.isDigit_of_mem_natRepr (k := n / 16777216 % 256) (by rw [hr]; simp)

/-- … and ends with one -/
theorem printNet_last {n p : Nat} {c : Char} (h : (Net.printNet n p).reverse.head? = some c) : c.isDigit = true := by
  simp only [Net.printNet, List.reverse_append] at h
  cases hr : (Net.natRepr p).reverse with
  | nil => exact absurd (List.reverse_eq_nil_iff.1 hr) (natRepr_ne_nil _)
  | cons x xs =>
    rw [hr] at h
    simp only [List.cons_append, List.head?_cons, Option.some.injEq] at h
    subst h
    have : x ∈ (Net.natRepr p).reverse := by rw [hr]; simp
    exact Net.isDigit_of_mem_natRepr (k := p) (by simpa using this)

theorem trim_eq_self_of_ends {q : Char → Bool} {s : Str} (h1 : ∀ c, s.head? = some c → q c = false)
    (h2 : ∀ c, s.reverse.head? = some c → q c = false) : dropWhileEnd q (s.dropWhile q) = s := by
  unfold dropWhileEnd
  rw [dropWhile_eq_self_of_head s h1, dropWhile_eq_self_of_head _ h2, List.reverse_reverse]

theorem contains_false_of_digit {cs : Str} (hcs : cs.all (fun c => !c.isDigit) = true) {c : Char} (hc : c.isDigit = true) :
    cs.contains c = false := by
  cases hm : cs.contains c with
  | false => rfl
  | true =>
    have hmem : c ∈ cs := List.contains_iff_mem.1 hm
    have := List.all_eq_true.1 hcs c hmem
    simp [hc] at this

theorem printNet_stripChars {cs : Str} (hcs : cs.all (fun c => !c.isDigit) = true) (n p : Nat) :
    stripChars cs (Net.printNet n p) = Net.printNet n p :=
  trim_eq_self_of_ends (fun _ hc => contains_false_of_digit hcs (printNet_head hc))
    (fun _ hc => contains_false_of_digit hcs (printNet_last hc))

/-- if some text of a network passes string options in `canonSafe`, so does the canonical text of that network -/
theorem strSat_canon {o : StrOpts} (ho : o.canonSafe = true) {req : Bool} {n p : Nat} {t : Str}
    (ht : StrSat o req t) (hpt : Net.parseNet t = some (n, p)) : StrSat o req (Net.printNet n p) := by
  obtain ⟨mn, mx, re, ch, cs, st⟩ := o
  simp only [StrOpts.canonSafe, Bool.and_eq_true, Option.isNone_iff_eq_none] at ho
  obtain ⟨⟨⟨⟨h1, h2⟩, h3⟩, h4⟩, h5⟩ := ho
  have hlen := printNet_length n p (parseNet_prefix_le hpt)
  refine ⟨fun _ => printNet_ne_nil n p, ?_, ?_, ?_, ?_, ?_, ?_⟩
  · intro m hm
    simp only at hm
    subst hm
    simp only [decide_eq_true_eq] at h1
    omega
  · intro m hm
    simp only at hm
    subst hm
    simp only [decide_eq_true_eq] at h2
    omega
  · intro r hr
    simp only at hr
    rw [h3] at hr
    cases hr
  · intro hne
    have hmem : t ∈ ch := ht.choices hne
    have := List.all_eq_true.1 h4 t hmem
    simp only [hpt] at this
    exact List.contains_iff_mem.1 this
  · cases cs with
    | none => trivial
    | some c =>
      cases c with
      | lower => exact printNet_lower n p
      | upper => exact printNet_upper n p
  · cases st with
    | off => trivial
    | ws => exact printNet_strip n p
    | chars cs' => exact printNet_stripChars h5 n p

theorem netRule_complete {o : StrOpts} (ho : o.canonSafe = true) {req : Bool} {minP maxP : Option Int} {s : Str} {n p : Nat}
    (he : s = Net.printNet n p) (hp : Net.parseNet s = some (n, p)) (hb : PrefixSat minP maxP p)
    (ht : ∃ t, StrSat o req t ∧ Net.parseNet t = some (n, p)) :
    netRule o req minP maxP (.str s) = .ok (.str s) := by
  subst he
  obtain ⟨t, hsat, hpt⟩ := ht
  have hb' := (prefixBad_iff minP maxP p).2 hb
  simp [netRule, strRule_complete (strSat_canon ho hsat hpt), bind, Except.bind, hp, hb']

/-- no usable start directory: the held path is the text itself, with all its string options -/
theorem fileRule_complete_nosd {E : Env} {o : StrOpts} {req : Bool} {ex : Exists} {sd : Option Str}
    (hsd : (match sd with | none => true | some d => d.isEmpty) = true) {s : Str}
    (hex : s = [] ∨ ExistsSat E ex s)
    (ht : ∃ t, StrSat o req t ∧ (s = t ∨ ∃ d, sd = some d ∧ d ≠ [] ∧ t ≠ [] ∧ E.isabs t = false ∧ s = E.resolve d t)) :
    fileRule E o req ex sd (.str s) = .ok (.str s) := by
  obtain ⟨t, hsat, hst⟩ := ht
  have hs : s = t := by
    rcases hst with h | ⟨d, hd, hne, _⟩
    · exact h
    · subst hd
      simp only [List.isEmpty_iff] at hsd
      exact absurd hsd hne
  subst hs
  have hfp : filePath E sd s = s := by
    cases sd with
    | none => rfl
    | some d =>
      simp only at hsd
      simp [filePath, hsd]
  cases s with
  | nil => simp [fileRule, strRule_complete hsat, bind, Except.bind]
  | cons c cs =>
    rcases hex with h | h
    · cases h
    · have hb := (fileBad_false_iff E ex _).2 h
      simp [fileRule, strRule_complete hsat, bind, Except.bind, hfp, hb]

/-! ### lists and dicts -/

/-- items that are fixed points of the item validator validate to themselves -/
theorem mapR_fixed {f : Val → R Val} : ∀ (xs : List Val), (∀ x ∈ xs, f x = .ok x) → mapR f xs = .ok xs
  | [], _ => rfl
  | x :: xs, h => by
    have h1 := h x (by simp)
    have ih := mapR_fixed xs (fun y hy => h y (by simp [hy]))
    simp [mapR, h1, ih, bind, Except.bind]

theorem isEmpty_false_of_req {α} {req : Bool} {xs : List α} (h : req = true → xs ≠ []) : (req && xs.isEmpty) = false := by
  cases req with
  | false => rfl
  | true =>
    have hne := h rfl
    cases xs with
    | nil => exact absurd rfl hne
    | cons _ _ => rfl

/-- no string options: a held path that is empty or absolute is accepted as it is, whatever the start directory (an
    absolute path is not resolved again) -/
theorem fileRule_complete_abs {E : Env} {o : StrOpts} (ho : o.plain = true) {req : Bool} {ex : Exists} {sd : Option Str} {s : Str}
    (habs : s = [] ∨ E.isabs s = true) (hreq : req = true → s ≠ []) (hex : s = [] ∨ ExistsSat E ex s) :
    fileRule E o req ex sd (.str s) = .ok (.str s) := by
  have hs : strRule o req (.str s) = .ok s := by
    rw [strRule_plain o ho, isEmpty_false_of_req hreq]
    rfl
  cases s with
  | nil => simp [fileRule, hs, bind, Except.bind]
  | cons c cs =>
    have habs' : E.isabs (c :: cs) = true := by
      rcases habs with h | h
      · cases h
      · exact h
    have hfp : filePath E sd (c :: cs) = c :: cs := by
      cases sd with
      | none => rfl
      | some d => simp [filePath, habs']
    rcases hex with h | h
    · cases h
    · have hb := (fileBad_false_iff E ex _).2 h
      simp [fileRule, hs, bind, Except.bind, hfp, hb]

/-- **`FilenameField._validate` is complete on normal forms**: without a usable start directory with every string option,
    with a start directory when there are no string options (the hypotheses are the clauses of `Sat`) -/
theorem fileRule_complete {E : Env} {o : StrOpts} {req : Bool} {ex : Exists} {sd : Option Str}
    (hg : (o.plain || (match sd with | none => true | some d => d.isEmpty)) = true) {s : Str}
    (hreq : req = true → s ≠ []) (hex : s = [] ∨ ExistsSat E ex s)
    (habs : ∀ d, sd = some d → d ≠ [] → s = [] ∨ E.isabs s = true)
    (ht : ∃ t, StrSat o req t ∧ (s = t ∨ ∃ d, sd = some d ∧ d ≠ [] ∧ t ≠ [] ∧ E.isabs t = false ∧ s = E.resolve d t)) :
    fileRule E o req ex sd (.str s) = .ok (.str s) := by
  cases sd with
  | none => exact fileRule_complete_nosd rfl hex ht
  | some d =>
    by_cases hd : d.isEmpty = true
    · exact fileRule_complete_nosd (sd := some d) hd hex ht
    · have hd' : d.isEmpty = false := by simpa using hd
      have ho : o.plain = true := by simpa [hd'] using hg
      exact fileRule_complete_abs ho (habs d rfl (by simpa using hd)) hreq hex

/-! ## 3. Completeness -/

mutual
  /-- **Validation is complete on normal forms**: a value that satisfies what the field declares is accepted, and returned
      as it is — at every nesting depth of typed lists and dicts. -/
  theorem validate_complete (E : Env) : ∀ (f : FieldSpec) (v : Val), CompleteOk f = true → Sat E f v → validate E f v = .ok v
    | .mk k req (some c), v, hok, _ => by simp [CompleteOk] at hok
    | .mk k req none, v, hok, h => by
      have hk : CompleteOkKind k = true := by simpa [CompleteOk] using hok
      simp only [Sat] at h
      rcases h with ⟨hv, hr⟩ | ⟨hv, hs⟩
      · subst hv; subst hr; simp [validate]
      · exact validate_nc_of_kind hv (validateKind_complete E k req v hk hs)
  theorem validateOpt_complete (E : Env) : ∀ (o : Option FieldSpec) (v : Val), CompleteOkOpt o = true → SatOpt E o v →
      validateOpt E o v = .ok v
    | none, v, _, _ => by simp only [validateOpt]
    | some f, v, hok, h => by
      simp only [validateOpt]
      simp only [CompleteOkOpt] at hok
      simp only [SatOpt] at h
      exact validate_complete E f v hok h
  theorem validateKind_complete (E : Env) : ∀ (k : Kind) (req : Bool) (v : Val), CompleteOkKind k = true →
      SatKind E k req v → validateKind E k req v = .ok v
    | .any, _, _, _, _ => by simp only [validateKind]
    | .string o, req, v, _, h => by
      simp only [SatKind] at h
      obtain ⟨s, hv, hs⟩ := h
      subst hv
      simp only [validateKind, strRule_complete hs, Except.map]
    | .int mn mx, req, v, _, h => by
      simp only [SatKind] at h
      obtain ⟨i, hv, h1, h2⟩ := h
      subst hv
      simp only [validateKind]; exact intRule_complete h1 h2
    | .float mn mx, req, v, _, h => by
      simp only [SatKind] at h
      obtain ⟨x, hv, h1, h2⟩ := h
      subst hv
      simp only [validateKind]; exact floatRule_complete h1 h2
    | .bool, req, v, _, h => by
      simp only [SatKind] at h
      obtain ⟨b, hv⟩ := h
      subst hv
      simp only [validateKind, boolRule]
    | .bytes _, req, v, _, h => by
      simp only [SatKind] at h
      obtain ⟨b, hv⟩ := h
      subst hv
      simp only [validateKind, bytesRule]
    | .ipv4addr o, req, v, _, h => by
      simp only [SatKind] at h
      obtain ⟨s, hv, hs, n, _, hp, he⟩ := h
      subst hv
      simp only [validateKind]; exact addrRule_complete hs hp he
    | .ipv4net o mn mx, req, v, hk, h => by
      simp only [SatKind] at h
      obtain ⟨s, n, p, hv, he, hp, hb, ht⟩ := h
      subst hv
      simp only [CompleteOkKind] at hk
      simp only [validateKind]; exact netRule_complete hk he hp hb ht
    | .hostname o a, req, v, _, h => by
      simp only [SatKind] at h
      obtain ⟨s, hv, hs, hh⟩ := h
      subst hv
      simp only [validateKind]; exact hostRule_complete hs hh
    | .filename o ex sd, req, v, hk, h => by
      simp only [SatKind] at h
      obtain ⟨s, hv, hreq, hex, habs, ht⟩ := h
      subst hv
      simp only [CompleteOkKind] at hk
      simp only [validateKind]; exact fileRule_complete hk hreq hex habs ht
    | .url o, req, v, _, h => by
      simp only [SatKind] at h
      obtain ⟨s, hv, hs, hu⟩ := h
      subst hv
      simp only [validateKind]; exact urlRule_complete hs hu
    | .challenge alg, req, v, _, h => by
      simp only [SatKind] at h
      obtain ⟨s, d, a, hv⟩ := h
      subst hv
      simp only [validateKind, challengeRule]
    | .secure _, req, v, _, h => by
      simp only [SatKind] at h
      obtain ⟨s, hv, hne⟩ := h
      subst hv
      simp only [validateKind]; exact secureRule_complete hne
    | .list item, req, v, hk, h => by
      simp only [SatKind] at h
      cases hu : untypedItem item with
      | true =>
        rw [if_pos hu] at h
        obtain ⟨xs, hv, hne⟩ := h
        have hre := isEmpty_false_of_req hne
        rcases hv with hv | hv
        · subst hv
          simp [validateKind, hre, validateItems_untyped xs hu]
        · subst hv
          simp [validateKind, hre, validateItems_untyped xs hu]
      | false =>
        rw [if_neg (by simp [hu])] at h
        obtain ⟨xs, hv, hne, hall⟩ := h
        subst hv
        have hre := isEmpty_false_of_req hne
        have hitem : CompleteOkOpt item = true := by simpa [CompleteOkKind, hu] using hk
        obtain ⟨f, hf, hfv⟩ := validateItems_typed (E := E) xs hu
        have hfix : mapR (fun x => validate E f x) xs = .ok xs := by
          apply mapR_fixed
          intro x hx
          have := validateOpt_complete E item x hitem (hall x hx)
          rw [hf] at this
          simpa [validateOpt] using this
        simp [validateKind, hre, hfv, hfix, Except.map]
    | .dict kf vf, req, v, hk, h => by
      simp only [SatKind] at h
      obtain ⟨kvs, hv, hne, hall, hnd⟩ := h
      subst hv
      have hre := isEmpty_false_of_req hne
      simp only [CompleteOkKind, Bool.and_eq_true] at hk
      obtain ⟨hkf, hvf⟩ := hk
      cases hnn : (kf.isNone && vf.isNone) with
      | true => simp [validateKind, hre, hnn]
      | false =>
        have hfix : mapEntries (fun x => validateOpt E kf x) (fun x => validateOpt E vf x) kvs = .ok kvs := by
          apply mapEntries_fixed
          · intro k hkm
            simp only [keysD, List.mem_map] at hkm
            obtain ⟨kv, hkv, rfl⟩ := hkm
            exact validateOpt_complete E kf kv.1 hkf (hall kv hkv).1
          · intro w hwm
            simp only [valsD, List.mem_map] at hwm
            obtain ⟨kv, hkv, rfl⟩ := hwm
            exact validateOpt_complete E vf kv.2 hvf (hall kv hkv).2
        simp [validateKind, hre, hnn, hfix, Except.map, buildDict_of_nodup kvs (hnd hnn)]
end

/-! ## 4. The guard of idempotence is inside the guard of completeness -/

theorem canonSafe_of_plain {o : StrOpts} (h : o.plain = true) : o.canonSafe = true := by
  obtain ⟨mn, mx, re, ch, cs, st⟩ := o
  simp only [StrOpts.plain, Bool.and_eq_true, Option.isNone_iff_eq_none, List.isEmpty_iff] at h
  obtain ⟨⟨⟨⟨⟨h1, h2⟩, h3⟩, h4⟩, _⟩, h6⟩ := h
  subst h1; subst h2; subst h3; subst h4
  cases st <;> simp at h6
  rfl

mutual
  /-- every declaration for which idempotence is claimed (`IdemOk`, C05) is one for which completeness is claimed -/
  theorem completeOk_of_idemOk : ∀ (f : FieldSpec), IdemOk f = true → CompleteOk f = true
    | .mk k _ c, h => by
      simp only [IdemOk, Bool.and_eq_true] at h
      simp only [CompleteOk, Bool.and_eq_true]
      exact ⟨h.1, completeOkKind_of_idemOkKind k h.2⟩
  theorem completeOkOpt_of_idemOkOpt : ∀ (o : Option FieldSpec), IdemOkOpt o = true → CompleteOkOpt o = true
    | none, _ => rfl
    | some f, h => by
      simp only [IdemOkOpt] at h
      simp only [CompleteOkOpt]
      exact completeOk_of_idemOk f h
  theorem completeOkKind_of_idemOkKind : ∀ (k : Kind), IdemOkKind k = true → CompleteOkKind k = true
    | .any, _ => rfl
    | .string _, _ => rfl
    | .int _ _, _ => rfl
    | .float _ _, _ => rfl
    | .bool, _ => rfl
    | .bytes _, _ => rfl
    | .ipv4addr _, _ => rfl
    | .ipv4net o _ _, h => by
      simp only [IdemOkKind] at h
      simp only [CompleteOkKind]
      exact canonSafe_of_plain h
    | .hostname _ _, _ => rfl
    | .filename o _ sd, h => by
      simp only [IdemOkKind] at h
      simp only [CompleteOkKind]
      exact h
    | .url _, _ => rfl
    | .challenge _, _ => rfl
    | .secure _, _ => rfl
    | .list item, h => by
      simp only [IdemOkKind] at h
      simp only [CompleteOkKind, Bool.or_eq_true]
      exact Or.inr (completeOkOpt_of_idemOkOpt item h)
    | .dict kf vf, h => by
      simp only [IdemOkKind, Bool.and_eq_true] at h
      simp only [CompleteOkKind, Bool.and_eq_true]
      exact ⟨completeOkOpt_of_idemOkOpt kf h.1, completeOkOpt_of_idemOkOpt vf h.2⟩
end

end Cinco.Field
