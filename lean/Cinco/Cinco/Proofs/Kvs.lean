import Cinco.Basic.Tree
namespace Cinco.Kvs
open Cinco

@[simp] theorem lookup_nil (k : String) : lookup k [] = none := rfl

theorem lookup_set_same (k : String) (v : Tree) (d : Kvs) : lookup k (set k v d) = some v := by
  induction d with
  | nil => simp [set, lookup]
  | cons hd tl ih =>
    obtain ⟨k', v'⟩ := hd
    by_cases h : k' = k <;> simp [set, lookup, h, ih]

theorem lookup_set_other {k k' : String} (h : k' ≠ k) (v : Tree) (d : Kvs) :
    lookup k (set k' v d) = lookup k d := by
  induction d with
  | nil => simp [set, lookup, h]
  | cons hd tl ih =>
    obtain ⟨k'', v''⟩ := hd
    by_cases h1 : k'' = k'
    · subst h1
      simp [set, lookup, h]
    · by_cases h2 : k'' = k
      · subst h2; simp [set, lookup, h1]
      · simp [set, lookup, h1, h2, ih]

theorem lookup_isSome_iff_mem (k : String) (d : Kvs) : (lookup k d).isSome ↔ k ∈ keys d := by
  induction d with
  | nil => simp [keys]
  | cons hd tl ih =>
    obtain ⟨k', v'⟩ := hd
    by_cases h : k' = k
    · simp [lookup, keys, h]
    · simp only [lookup, h, if_false, ih, keys, List.map_cons, List.mem_cons]
      constructor
      · intro hm; exact Or.inr hm
      · rintro (hm | hm)
        · exact absurd hm.symm h
        · exact hm

theorem lookup_eq_none_iff (k : String) (d : Kvs) : lookup k d = none ↔ k ∉ keys d := by
  rw [← lookup_isSome_iff_mem]; cases lookup k d <;> simp

theorem keys_set_mem {k : String} (v : Tree) {d : Kvs} (h : k ∈ keys d) : keys (set k v d) = keys d := by
  induction d with
  | nil => simp [keys] at h
  | cons hd tl ih =>
    obtain ⟨k', v'⟩ := hd
    by_cases h1 : k' = k
    · simp [set, keys, h1]
    · have : k ∈ keys tl := by
        simp only [keys, List.map_cons, List.mem_cons] at h
        rcases h with h | h
        · exact absurd h.symm h1
        · exact h
      simp only [set, h1, if_false, keys, List.map_cons]
      congr 1
      exact ih this

theorem keys_set_not_mem {k : String} (v : Tree) {d : Kvs} (h : k ∉ keys d) : keys (set k v d) = keys d ++ [k] := by
  induction d with
  | nil => simp [keys, set]
  | cons hd tl ih =>
    obtain ⟨k', v'⟩ := hd
    simp only [keys, List.map_cons, List.mem_cons, not_or] at h
    have h1 : ¬ k' = k := fun e => h.1 e.symm
    simp only [set, h1, if_false, keys, List.map_cons, List.cons_append]
    congr 1
    exact ih h.2

end Cinco.Kvs
