import Cinco.TreeIO.Include
import Cinco.Proofs.Kvs
namespace Cinco.Include
open Cinco Cinco.Kvs

theorem mergeVal_none (v : Tree) : mergeVal none v = v := by
  cases v <;> simp [mergeVal]

theorem lookup_combineInto (base : Kvs) (k : String) :
    ∀ (ch ret : Kvs), (keys ch).Nodup →
      lookup k (combineInto base ret ch) =
        match lookup k ch with
        | some v => some (mergeVal (lookup k base) v)
        | none => lookup k ret := by
  intro ch
  induction ch with
  | nil => intro ret _; simp [combineInto]
  | cons hd tl ih =>
    intro ret hnd
    obtain ⟨k', v⟩ := hd
    have hnd' : (keys tl).Nodup := by
      simp only [keys, List.map_cons, List.nodup_cons] at hnd; exact hnd.2
    have hk' : k' ∉ keys tl := by
      simp only [keys, List.map_cons, List.nodup_cons] at hnd; exact hnd.1
    rw [combineInto, ih _ hnd']
    by_cases h : k' = k
    · subst h
      have : lookup k' tl = none := (lookup_eq_none_iff _ _).2 hk'
      simp [lookup, this, lookup_set_same]
    · simp only [lookup, h, if_false]
      cases hl : lookup k tl with
      | some v' => rfl
      | none => simp [lookup_set_other h]

theorem keys_combineInto (base : Kvs) :
    ∀ (ch ret : Kvs), (keys ch).Nodup →
      keys (combineInto base ret ch) = keys ret ++ (keys ch).filter (fun k => decide (k ∉ keys ret)) := by
  intro ch
  induction ch with
  | nil => intro ret _; simp [combineInto, keys]
  | cons hd tl ih =>
    intro ret hnd
    obtain ⟨k', v⟩ := hd
    have hnd' : (keys tl).Nodup := by
      simp only [keys, List.map_cons, List.nodup_cons] at hnd; exact hnd.2
    have hk' : k' ∉ keys tl := by
      simp only [keys, List.map_cons, List.nodup_cons] at hnd; exact hnd.1
    rw [combineInto, ih _ hnd']
    by_cases hm : k' ∈ keys ret
    · rw [keys_set_mem _ hm]
      have hkc : keys ((k', v) :: tl) = k' :: keys tl := rfl
      rw [hkc, List.filter_cons]
      simp [hm]
    · rw [keys_set_not_mem _ hm]
      have hf : (keys tl).filter (fun k => decide (k ∉ keys ret ++ [k'])) =
                (keys tl).filter (fun k => decide (k ∉ keys ret)) := by
        apply List.filter_congr
        intro x hx
        have : x ≠ k' := fun e => hk' (e ▸ hx)
        simp [this]
      rw [hf]
      have hkc : keys ((k', v) :: tl) = k' :: keys tl := rfl
      rw [hkc, List.filter_cons]
      simp [hm]

end Cinco.Include
