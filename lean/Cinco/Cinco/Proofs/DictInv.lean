import Cinco.Props.C17
/-
  The typed dict (`DictProxy`) holds only validation results — after every operation, accepted or rejected, and along whole
  histories.  Mirror of `C17.list_inv` / `C17.list_run_inv` for the association-list dict of `Cinco/Proxy/DictProxy.lean`.

  "Validation result" is the notion of `C17.ItemOk` (`∃ u, validate E f u = .ok v`), taken through `validateOpt` because the
  key field and the value field of a dict are optional (`none` = `AnyField()`, which accepts everything unchanged): see
  `optOk_some` / `optOk_none`.
-/
namespace Cinco.Proxy.DictInv
open Cinco Cinco.Field Cinco.Proxy

/-! ### the invariant -/

/-- `v` is a result of validation by the optional field `f` -/
def OptOk (E : Env) (f : Option FieldSpec) (v : Val) : Prop := ∃ u, validateOpt E f u = .ok v

/-- for a declared field this is exactly the notion `list_inv` uses -/
theorem optOk_some (E : Env) (f : FieldSpec) (v : Val) : OptOk E (some f) v ↔ C17.ItemOk E f v := by
  unfold OptOk C17.ItemOk
  constructor
  · rintro ⟨u, hu⟩; exact ⟨u, by simpa [validateOpt] using hu⟩
  · rintro ⟨u, hu⟩; exact ⟨u, by simpa [validateOpt] using hu⟩

/-- an absent field (`AnyField()`) constrains nothing -/
theorem optOk_none (E : Env) (v : Val) : OptOk E none v := ⟨v, by simp [validateOpt]⟩

/-- an entry whose key is a validation result of the key field and whose value is one of the value field -/
def EntryOk (E : Env) (kf vf : Option FieldSpec) (kv : Val × Val) : Prop := OptOk E kf kv.1 ∧ OptOk E vf kv.2

/-- every key is a validation result of the key field and every value a validation result of the value field -/
def DictOk (E : Env) (kf vf : Option FieldSpec) (kvs : List (Val × Val)) : Prop := ∀ kv ∈ kvs, EntryOk E kf vf kv

/-- the only arguments that are stored without validation: the entries of `update(other)` when `other` is a proxy of the same
    key/value fields (the "compatible proxy" call form) — they are themselves validated entries.  Everything else
    (plain iterables, keywords, `|=`, `setdefault`, item assignment) is unconstrained. -/
def DOpOk (E : Env) (kf vf : Option FieldSpec) : DOp → Prop
  | .update pairs compat _ => compat = true → DictOk E kf vf pairs
  | _ => True

theorem dictOk_nil (E : Env) (kf vf : Option FieldSpec) : DictOk E kf vf [] := fun _ h => by cases h

theorem dictOk_of_subset {E : Env} {kf vf : Option FieldSpec} {d d' : List (Val × Val)} (h : DictOk E kf vf d)
    (hs : ∀ kv ∈ d', kv ∈ d) : DictOk E kf vf d' := fun kv hkv => h kv (hs kv hkv)

/-! ### the building blocks -/

theorem validateEntry_ok {E : Env} {kf vf : Option FieldSpec} {k v : Val} {kv : Val × Val}
    (h : validateEntry E kf vf k v = .ok kv) : EntryOk E kf vf kv := by
  unfold validateEntry at h
  cases hk : validateOpt E kf k with
  | error e => simp [hk] at h
  | ok k' =>
    cases hv : validateOpt E vf v with
    | error e => simp [hk, hv] at h
    | ok v' =>
      simp [hk, hv] at h
      subst h
      exact ⟨⟨k, hk⟩, ⟨v, hv⟩⟩

theorem validateEntries_ok {E : Env} {kf vf : Option FieldSpec} :
    ∀ {pairs ps : List (Val × Val)}, validateEntries E kf vf pairs = .ok ps → DictOk E kf vf ps
  | [], ps, h => by simp [validateEntries] at h; subst h; exact dictOk_nil E kf vf
  | (k, v) :: rest, ps, h => by
    simp only [validateEntries] at h
    cases he : validateEntry E kf vf k v with
    | error e => simp [he] at h
    | ok kv =>
      cases hr : validateEntries E kf vf rest with
      | error e => simp [he, hr] at h
      | ok r =>
        simp [he, hr] at h
        subst h
        intro x hx
        rcases List.mem_cons.mp hx with hx | hx
        · subst hx; exact validateEntry_ok he
        · exact validateEntries_ok hr x hx

theorem mem_dictSet {k v : Val} {x : Val × Val} : ∀ {d : List (Val × Val)}, x ∈ dictSet k v d → x ∈ d ∨ x = (k, v)
  | [], h => by simp [dictSet] at h; exact Or.inr h
  | (k', v') :: rest, h => by
    simp only [dictSet] at h
    by_cases hk : (k' == k) = true
    · rw [if_pos hk] at h
      have hkk : k' = k := by simpa using hk
      rcases List.mem_cons.mp h with h | h
      · exact Or.inr (by rw [h, hkk])
      · exact Or.inl (List.mem_cons_of_mem _ h)
    · rw [if_neg hk] at h
      rcases List.mem_cons.mp h with h | h
      · exact Or.inl (by rw [h]; exact List.mem_cons_self)
      · rcases mem_dictSet h with h | h
        · exact Or.inl (List.mem_cons_of_mem _ h)
        · exact Or.inr h

theorem dictSet_ok {E : Env} {kf vf : Option FieldSpec} {d : List (Val × Val)} {k v : Val}
    (hd : DictOk E kf vf d) (hkv : EntryOk E kf vf (k, v)) : DictOk E kf vf (dictSet k v d) := by
  intro x hx
  rcases mem_dictSet hx with h | h
  · exact hd x h
  · subst h; exact hkv

theorem setAll_ok {E : Env} {kf vf : Option FieldSpec} : ∀ {ps d : List (Val × Val)},
    DictOk E kf vf d → DictOk E kf vf ps → DictOk E kf vf (setAll d ps)
  | [], d, hd, _ => by simpa [setAll] using hd
  | p :: rest, d, hd, hp => by
    have h1 : DictOk E kf vf (dictSet p.1 p.2 d) := dictSet_ok hd (hp p (by simp))
    have := setAll_ok (ps := rest) h1 (fun x hx => hp x (by simp [hx]))
    simpa [setAll] using this

/-- keywords are stored one by one; whatever prefix was stored when one is rejected, the dict holds validated entries -/
theorem setSeq_dictOk {E : Env} {kf vf : Option FieldSpec} : ∀ {kw d : List (Val × Val)},
    DictOk E kf vf d → DictOk E kf vf (setSeq E kf vf d kw).1
  | [], d, hd => by simpa [setSeq] using hd
  | (k, v) :: rest, d, hd => by
    simp only [setSeq]
    cases he : validateEntry E kf vf k v with
    | error e => simpa using hd
    | ok kv =>
      obtain ⟨k', v'⟩ := kv
      simp only
      exact setSeq_dictOk (dictSet_ok hd (validateEntry_ok he))

theorem mem_dictDel {k : Val} {x : Val × Val} : ∀ {d : List (Val × Val)}, x ∈ dictDel k d → x ∈ d
  | [], h => by simp [dictDel] at h
  | (k', v') :: rest, h => by
    simp only [dictDel] at h
    by_cases hk : (k' == k) = true
    · rw [if_pos hk] at h; exact List.mem_cons_of_mem _ h
    · rw [if_neg hk] at h
      rcases List.mem_cons.mp h with h | h
      · rw [h]; exact List.mem_cons_self
      · exact List.mem_cons_of_mem _ (mem_dictDel h)

/-! ### the invariant holds after every operation -/

/-- **A typed dict only ever holds validation results, after every operation, accepted or rejected.**
    Operations covered: item assignment, `update` in every call form (plain iterable, compatible proxy, keywords, and their
    combinations), `setdefault`, `|=`, `pop`, `popitem`, `del`, `clear`.  A rejected `update` leaves either the dict as it
    was (a bad entry of the iterable: the iterable is validated as a whole first) or the dict after the whole iterable and a
    prefix of the keywords (a bad keyword) — validated entries in both cases.
    `ho` only speaks about the compatible-proxy form of `update` (see `DOpOk`); `dict_inv_needs_opOk` shows it is needed. -/
theorem dict_inv (E : Env) (kf vf : Option FieldSpec) (d : List (Val × Val)) (op : DOp)
    (hd : DictOk E kf vf d) (ho : DOpOk E kf vf op) : DictOk E kf vf (dstep E kf vf d op).1 := by
  cases op with
  | set k v =>
    simp only [dstep]
    cases he : validateEntry E kf vf k v with
    | error e => simpa using hd
    | ok kv =>
      obtain ⟨k', v'⟩ := kv
      exact dictSet_ok hd (validateEntry_ok he)
  | update pairs compat kw =>
    simp only [dstep]
    by_cases hp : pairs.isEmpty = true
    · simp only [hp, if_true]
      exact setSeq_dictOk hd
    · simp only [hp, Bool.false_eq_true, if_false]
      cases compat with
      | true =>
        simp only [if_true]
        exact setSeq_dictOk (setAll_ok hd (ho rfl))
      | false =>
        simp only [Bool.false_eq_true, if_false]
        cases hv : validateEntries E kf vf pairs with
        | error e => simpa [Except.map] using hd
        | ok ps =>
          simp only [Except.map]
          exact setSeq_dictOk (setAll_ok hd (validateEntries_ok hv))
  | setdefault k v =>
    simp only [dstep]
    cases hp : presentUnder E kf d k with
    | some old => simpa using hd
    | none =>
      simp only
      cases he : validateEntry E kf vf k (v.getD .none) with
      | error e => simpa using hd
      | ok kv =>
        obtain ⟨k', v'⟩ := kv
        simp only
        cases hl : dictLookup k' d with
        | some old => simpa using hd
        | none => exact dictSet_ok hd (validateEntry_ok he)
  | ior pairs =>
    simp only [dstep]
    by_cases hp : pairs.isEmpty = true
    · simp only [hp, if_true]; exact hd
    · simp only [hp, Bool.false_eq_true, if_false]
      cases hv : validateEntries E kf vf pairs with
      | error e => simpa using hd
      | ok ps => exact setAll_ok hd (validateEntries_ok hv)
  | pop k dflt =>
    simp only [dstep]
    cases hl : dictLookup k d with
    | some v => exact dictOk_of_subset hd (fun x hx => mem_dictDel hx)
    | none => cases dflt <;> simpa using hd
  | popitem =>
    simp only [dstep]
    cases hl : d.getLast? with
    | none => simpa using hd
    | some kv =>
      obtain ⟨k, v⟩ := kv
      exact dictOk_of_subset hd (fun x hx => (List.dropLast_sublist d).subset hx)
  | del k =>
    simp only [dstep]
    cases hl : dictLookup k d with
    | some v => exact dictOk_of_subset hd (fun x hx => mem_dictDel hx)
    | none => simpa using hd
  | clear => exact dictOk_nil E kf vf

/-- **…along whole histories** (induction over the operation sequence): starting from a dict of validated entries
    (e.g. the empty one), after any sequence of operations — each accepted or rejected — the dict holds validated entries. -/
theorem dict_run_inv (E : Env) (kf vf : Option FieldSpec) : ∀ (ops : List DOp) (d : List (Val × Val)),
    DictOk E kf vf d → (∀ op ∈ ops, DOpOk E kf vf op) →
    DictOk E kf vf (ops.foldl (fun s op => (dstep E kf vf s op).1) d)
  | [], _, h, _ => h
  | op :: rest, d, h, ho => by
    simp only [List.foldl_cons]
    exact dict_run_inv E kf vf rest _ (dict_inv E kf vf d op h (ho op (by simp))) (fun o hm => ho o (by simp [hm]))

/-- from the empty dict -/
theorem dict_run_inv_empty (E : Env) (kf vf : Option FieldSpec) (ops : List DOp) (ho : ∀ op ∈ ops, DOpOk E kf vf op) :
    DictOk E kf vf (ops.foldl (fun s op => (dstep E kf vf s op).1) []) :=
  dict_run_inv E kf vf ops [] (dictOk_nil E kf vf) ho

/-- without the compatible-proxy form every history is covered, with no hypothesis on the operations -/
theorem dict_run_inv_plain (E : Env) (kf vf : Option FieldSpec) (ops : List DOp) (d : List (Val × Val))
    (hd : DictOk E kf vf d) (hplain : ∀ pairs kw, DOp.update pairs true kw ∉ ops) :
    DictOk E kf vf (ops.foldl (fun s op => (dstep E kf vf s op).1) d) := by
  refine dict_run_inv E kf vf ops d hd ?_
  intro op hop
  cases op with
  | update pairs compat kw =>
    intro hc
    subst hc
    exact absurd hop (hplain pairs kw)
  | _ => trivial

/-- the premise on the compatible-proxy form cannot be dropped: the model stores such entries unvalidated
    (a bool-valued dict handed `{1: 5}` "from a compatible proxy" then holds the int 5, which no validation returns) -/
theorem dict_inv_needs_opOk :
    ¬ DictOk C17.env0 none (some (.mk .bool false none))
      (dstep C17.env0 none (some (.mk .bool false none)) [] (.update [(.int 1, .int 5)] true [])).1 := by
  intro h
  have h1 := (h (.int 1, .int 5) (by simp [dstep, setAll, dictSet, setSeq])).2
  obtain ⟨u, hu⟩ := h1
  cases u <;> simp [validateOpt, validate, validateKind, boolRule] at hu
  split at hu
  · cases hu
  · rename_i heq
    cases hu
    repeat' split at heq
    all_goals cases heq

/-! ### the key list stays duplicate-free -/

/-- the dict's keys, in insertion order -/
def dkeys (d : List (Val × Val)) : List Val := d.map Prod.fst

/-- the model's key equality is `==` on `Val`, which is structural equality -/
theorem val_beq_iff (a b : Val) : (a == b) = true ↔ a = b := by simp

theorem dkeys_cons (k v : Val) (d : List (Val × Val)) : dkeys ((k, v) :: d) = k :: dkeys d := rfl

theorem dkeys_dictSet (k v : Val) : ∀ (d : List (Val × Val)),
    dkeys (dictSet k v d) = if k ∈ dkeys d then dkeys d else dkeys d ++ [k]
  | [] => by simp [dictSet, dkeys]
  | (k', v') :: rest => by
    have ih := dkeys_dictSet k v rest
    by_cases hk : k' = k
    · subst hk
      have : dictSet k' v ((k', v') :: rest) = (k', v) :: rest := by simp [dictSet]
      rw [this, dkeys_cons, dkeys_cons, if_pos List.mem_cons_self]
    · have hd : dictSet k v ((k', v') :: rest) = (k', v') :: dictSet k v rest := by simp [dictSet, hk]
      rw [hd, dkeys_cons, dkeys_cons, ih]
      by_cases hm : k ∈ dkeys rest
      · rw [if_pos hm, if_pos (List.mem_cons_of_mem _ hm)]
      · have hm' : ¬ k ∈ k' :: dkeys rest := by
          intro h
          rcases List.mem_cons.mp h with h | h
          · exact hk h.symm
          · exact hm h
        rw [if_neg hm, if_neg hm']; rfl

theorem dictSet_keys_nodup {k v : Val} {d : List (Val × Val)} (h : (dkeys d).Nodup) : (dkeys (dictSet k v d)).Nodup := by
  rw [dkeys_dictSet]
  split
  · exact h
  · rename_i hk
    rw [List.nodup_append]
    refine ⟨h, by simp, ?_⟩
    intro a ha b hb
    simp at hb
    subst hb
    intro e; subst e; exact hk ha

theorem setAll_keys_nodup : ∀ {ps d : List (Val × Val)}, (dkeys d).Nodup → (dkeys (setAll d ps)).Nodup
  | [], d, h => by simpa [setAll] using h
  | p :: rest, d, h => by
    have := setAll_keys_nodup (ps := rest) (dictSet_keys_nodup (k := p.1) (v := p.2) h)
    simpa [setAll] using this

theorem setSeq_keys_nodup {E : Env} {kf vf : Option FieldSpec} : ∀ {kw d : List (Val × Val)},
    (dkeys d).Nodup → (dkeys (setSeq E kf vf d kw).1).Nodup
  | [], d, h => by simpa [setSeq] using h
  | (k, v) :: rest, d, h => by
    simp only [setSeq]
    cases he : validateEntry E kf vf k v with
    | error e => simpa using h
    | ok kv =>
      obtain ⟨k', v'⟩ := kv
      simp only
      exact setSeq_keys_nodup (dictSet_keys_nodup h)

theorem dictDel_sublist (k : Val) : ∀ (d : List (Val × Val)), (dictDel k d).Sublist d
  | [] => by simp [dictDel]
  | (k', v') :: rest => by
    simp only [dictDel]
    split
    · exact List.sublist_cons_self _ _
    · exact (dictDel_sublist k rest).cons_cons _

theorem dictDel_keys_nodup {k : Val} {d : List (Val × Val)} (h : (dkeys d).Nodup) : (dkeys (dictDel k d)).Nodup :=
  List.Nodup.sublist ((dictDel_sublist k d).map Prod.fst) h

/-- **The key list stays duplicate-free** (for the model's key equality, which is structural equality of values) after every
    operation, accepted or rejected, with NO hypothesis on the operation — not even for the compatible-proxy form of `update`,
    whose entries go through the same `d[k] = v`. -/
theorem dict_keys_nodup (E : Env) (kf vf : Option FieldSpec) (d : List (Val × Val)) (op : DOp)
    (hd : (dkeys d).Nodup) : (dkeys (dstep E kf vf d op).1).Nodup := by
  cases op with
  | set k v =>
    simp only [dstep]
    cases he : validateEntry E kf vf k v with
    | error e => simpa using hd
    | ok kv =>
      obtain ⟨k', v'⟩ := kv
      exact dictSet_keys_nodup hd
  | update pairs compat kw =>
    simp only [dstep]
    by_cases hp : pairs.isEmpty = true
    · simp only [hp, if_true]
      exact setSeq_keys_nodup hd
    · simp only [hp, Bool.false_eq_true, if_false]
      cases compat with
      | true =>
        simp only [if_true]
        exact setSeq_keys_nodup (setAll_keys_nodup hd)
      | false =>
        simp only [Bool.false_eq_true, if_false]
        cases hv : validateEntries E kf vf pairs with
        | error e => simpa [Except.map] using hd
        | ok ps =>
          simp only [Except.map]
          exact setSeq_keys_nodup (setAll_keys_nodup hd)
  | setdefault k v =>
    simp only [dstep]
    cases hp : presentUnder E kf d k with
    | some old => simpa using hd
    | none =>
      simp only
      cases he : validateEntry E kf vf k (v.getD .none) with
      | error e => simpa using hd
      | ok kv =>
        obtain ⟨k', v'⟩ := kv
        simp only
        cases hl : dictLookup k' d with
        | some old => simpa using hd
        | none => exact dictSet_keys_nodup hd
  | ior pairs =>
    simp only [dstep]
    by_cases hp : pairs.isEmpty = true
    · simp only [hp, if_true]; exact hd
    · simp only [hp, Bool.false_eq_true, if_false]
      cases hv : validateEntries E kf vf pairs with
      | error e => simpa using hd
      | ok ps => exact setAll_keys_nodup hd
  | pop k dflt =>
    simp only [dstep]
    cases hl : dictLookup k d with
    | some v => exact dictDel_keys_nodup hd
    | none => cases dflt <;> simpa using hd
  | popitem =>
    simp only [dstep]
    cases hl : d.getLast? with
    | none => simpa using hd
    | some kv =>
      obtain ⟨k, v⟩ := kv
      exact List.Nodup.sublist ((List.dropLast_sublist d).map Prod.fst) hd
  | del k =>
    simp only [dstep]
    cases hl : dictLookup k d with
    | some v => exact dictDel_keys_nodup hd
    | none => simpa using hd
  | clear => simp [dstep, dkeys]

/-- …along whole histories -/
theorem dict_run_keys_nodup (E : Env) (kf vf : Option FieldSpec) : ∀ (ops : List DOp) (d : List (Val × Val)),
    (dkeys d).Nodup → (dkeys (ops.foldl (fun s op => (dstep E kf vf s op).1) d)).Nodup
  | [], _, h => h
  | op :: rest, d, h => by
    simp only [List.foldl_cons]
    exact dict_run_keys_nodup E kf vf rest _ (dict_keys_nodup E kf vf d op h)

/-- both invariants together, from the empty dict, for any history -/
theorem dict_run_wf (E : Env) (kf vf : Option FieldSpec) (ops : List DOp) (ho : ∀ op ∈ ops, DOpOk E kf vf op) :
    let d := ops.foldl (fun s op => (dstep E kf vf s op).1) []
    DictOk E kf vf d ∧ (dkeys d).Nodup :=
  ⟨dict_run_inv_empty E kf vf ops ho, dict_run_keys_nodup E kf vf ops [] (by simp [dkeys])⟩

end Cinco.Proxy.DictInv
