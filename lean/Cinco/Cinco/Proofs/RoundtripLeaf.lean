import Cinco.Proofs.Roundtrip
import Cinco.Props.C05
/-
  Leaf-level companions of the round-trip theorem (Cinco/Proofs/Roundtrip.lean).

  Part 1 — what `to_basic` / `to_tree` write is plain data (`Val.plain`): `validate_shape`, `toBasic_plain`,
           `toTree_plain`, `toTree_keys`.
  Part 2 — the per-leaf codec hypothesis `CodecOk` of the round-trip theorem, discharged kind by kind
           (`codecOk_scalar` … `codecOk_dict`), combined in `codecOk_of_supported`, lifted to configurations in
           `codecOkAll_of_supported`.
  Part 3 — an example on which all hypotheses hold.
-/

/-! ## 0. Plain data -/

namespace Cinco

mutual
  /-- plain data: what JSON / YAML / … can carry (null, booleans, numbers, text, lists, maps with text keys) -/
  def Val.plain : Val → Bool
    | .none => true
    | .bool _ => true
    | .int _ => true
    | .flt _ => true
    | .str _ => true
    | .list xs => Val.plainList xs
    | .dict kvs => Val.plainKvs kvs
    | _ => false
  def Val.plainList : List Val → Bool
    | [] => true
    | x :: xs => Val.plain x && Val.plainList xs
  def Val.plainKvs : List (Val × Val) → Bool
    | [] => true
    | (.str _, v) :: rest => Val.plain v && Val.plainKvs rest
    | _ => false
end

def Val.isStr : Val → Bool
  | .str _ => true
  | _ => false

theorem Val.isStr_iff {v : Val} : v.isStr = true ↔ ∃ s, v = .str s := by
  cases v <;> simp [Val.isStr]

theorem Val.plainList_iff : ∀ (xs : List Val), Val.plainList xs = true ↔ ∀ x ∈ xs, x.plain = true
  | [] => by simp [Val.plainList]
  | x :: xs => by simp [Val.plainList, Val.plainList_iff xs]

theorem Val.plainKvs_iff : ∀ (kvs : List (Val × Val)),
    Val.plainKvs kvs = true ↔ ∀ kv ∈ kvs, kv.1.isStr = true ∧ kv.2.plain = true
  | [] => by simp [Val.plainKvs]
  | (k, v) :: rest => by
    cases k <;> simp [Val.plainKvs, Val.isStr, Val.plainKvs_iff rest]

theorem Val.plainKvs_append {a b : List (Val × Val)} (ha : Val.plainKvs a = true) (hb : Val.plainKvs b = true) :
    Val.plainKvs (a ++ b) = true := by
  rw [Val.plainKvs_iff] at ha hb ⊢
  intro kv hkv
  rcases List.mem_append.1 hkv with h | h
  · exact ha kv h
  · exact hb kv h

mutual
  /-- plain values are exactly those that denote a plain-data tree -/
  theorem Val.plain_iff_toTree : ∀ (v : Val), v.plain = true ↔ (v.toTree?).isSome = true
    | .none => by simp [Val.plain, Val.toTree?]
    | .bool _ => by simp [Val.plain, Val.toTree?]
    | .int _ => by simp [Val.plain, Val.toTree?]
    | .flt _ => by simp [Val.plain, Val.toTree?]
    | .str _ => by simp [Val.plain, Val.toTree?]
    | .bytes _ => by simp [Val.plain, Val.toTree?]
    | .tuple _ => by simp [Val.plain, Val.toTree?]
    | .digest _ _ _ => by simp [Val.plain, Val.toTree?]
    | .opaque _ => by simp [Val.plain, Val.toTree?]
    | .list xs => by
        simp only [Val.plain, Val.toTree?, Option.isSome_map]
        exact Val.plainList_iff_toTrees xs
    | .dict kvs => by
        simp only [Val.plain, Val.toTree?, Option.isSome_map]
        exact Val.plainKvs_iff_toKvs kvs
  theorem Val.plainList_iff_toTrees : ∀ (xs : List Val), Val.plainList xs = true ↔ (Val.toTrees? xs).isSome = true
    | [] => by simp [Val.plainList, Val.toTrees?]
    | x :: xs => by
        have h1 := Val.plain_iff_toTree x
        have h2 := Val.plainList_iff_toTrees xs
        simp only [Val.plainList, Val.toTrees?, Bool.and_eq_true, h1, h2]
        cases Val.toTree? x <;> cases Val.toTrees? xs <;> simp
  theorem Val.plainKvs_iff_toKvs : ∀ (kvs : List (Val × Val)), Val.plainKvs kvs = true ↔ (Val.toKvs? kvs).isSome = true
    | [] => by simp [Val.plainKvs, Val.toKvs?]
    | (k, v) :: rest => by
        have h1 := Val.plain_iff_toTree v
        have h2 := Val.plainKvs_iff_toKvs rest
        cases k <;> simp only [Val.plainKvs, Val.toKvs?, Bool.and_eq_true, h1, h2] <;> try simp
        cases Val.toTree? v <;> cases Val.toKvs? rest <;> simp
end

mutual
  /-- the in-memory image of a plain-data tree is plain (so `hE` of `toBasic_plain` holds of every encryption that returns
      `Val.ofTree _`, as the one of the wire environment does) -/
  theorem Val.ofTree_plain : ∀ (t : Tree), (Val.ofTree t).plain = true
    | .null => rfl
    | .bool _ => rfl
    | .int _ => rfl
    | .flt _ => rfl
    | .str _ => rfl
    | .list xs => by simp only [Val.ofTree, Val.plain]; exact Val.ofTrees_plain xs
    | .dict kvs => by simp only [Val.ofTree, Val.plain]; exact Val.ofKvs_plain kvs
  theorem Val.ofTrees_plain : ∀ (xs : List Tree), Val.plainList (Val.ofTrees xs) = true
    | [] => rfl
    | x :: xs => by simp only [Val.ofTrees, Val.plainList, Bool.and_eq_true]; exact ⟨Val.ofTree_plain x, Val.ofTrees_plain xs⟩
  theorem Val.ofKvs_plain : ∀ (kvs : List (String × Tree)), Val.plainKvs (Val.ofKvs kvs) = true
    | [] => rfl
    | (k, v) :: rest => by
      simp only [Val.ofKvs, Val.plainKvs, Bool.and_eq_true]; exact ⟨Val.ofTree_plain v, Val.ofKvs_plain rest⟩
end

end Cinco

/-! ## 1. Helper lemmas about the list / dict combinators and about `validate` -/

namespace Cinco.Field
open Cinco

theorem mapR_cons_ok {f : Val → R Val} {x : Val} {xs ys : List Val} (h : mapR f (x :: xs) = .ok ys) :
    ∃ y ys', f x = .ok y ∧ mapR f xs = .ok ys' ∧ ys = y :: ys' := by
  simp only [mapR] at h
  cases hx : f x with
  | error e => simp [hx, bind, Except.bind] at h
  | ok y =>
    cases hxs : mapR f xs with
    | error e => simp [hx, hxs, bind, Except.bind] at h
    | ok ys' =>
      simp [hx, hxs, bind, Except.bind] at h
      exact ⟨y, ys', rfl, rfl, h.symm⟩

theorem mapR_cons_of {f : Val → R Val} {x y : Val} {xs ys : List Val} (hx : f x = .ok y) (hxs : mapR f xs = .ok ys) :
    mapR f (x :: xs) = .ok (y :: ys) := by
  simp [mapR, hx, hxs, bind, Except.bind]

/-- every result of `mapR f` is a result of `f` on an item -/
theorem mapR_results {f : Val → R Val} : ∀ {xs ys : List Val}, mapR f xs = .ok ys → ∀ y ∈ ys, ∃ x ∈ xs, f x = .ok y
  | [], ys, h => by simp [mapR] at h; cases h; simp
  | x :: xs, ys, h => by
    obtain ⟨y, ys', hx, hxs, rfl⟩ := mapR_cons_ok h
    intro z hz
    rcases List.mem_cons.1 hz with rfl | hz
    · exact ⟨x, by simp, hx⟩
    · obtain ⟨x', hx', hfx⟩ := mapR_results hxs z hz
      exact ⟨x', List.mem_cons_of_mem _ hx', hfx⟩

theorem mapR_fixed_mem {f : Val → R Val} : ∀ {xs : List Val}, mapR f xs = .ok xs → ∀ x ∈ xs, f x = .ok x
  | [], _ => by simp
  | x :: xs, h => by
    obtain ⟨y, ys', hx, hxs, he⟩ := mapR_cons_ok h
    cases he
    intro z hz
    rcases List.mem_cons.1 hz with rfl | hz
    · exact hx
    · exact mapR_fixed_mem hxs z hz

theorem mapR_of_fixed {f : Val → R Val} : ∀ {xs : List Val}, (∀ x ∈ xs, f x = .ok x) → mapR f xs = .ok xs
  | [], _ => rfl
  | x :: xs, h => mapR_cons_of (h x (by simp)) (mapR_of_fixed (fun y hy => h y (List.mem_cons_of_mem _ hy)))

/-- encode every item, decode every item, validate every item: if each item survives, so does the list -/
theorem mapR_pipeline {f g h : Val → R Val} : ∀ {xs bs : List Val},
    (∀ x ∈ xs, ∀ b, f x = .ok b → (g b).bind h = .ok x) → mapR f xs = .ok bs →
    ∃ ds, mapR g bs = .ok ds ∧ mapR h ds = .ok xs
  | [], bs, _, hm => by simp [mapR] at hm; cases hm; exact ⟨[], rfl, rfl⟩
  | x :: xs, bs, hall, hm => by
    obtain ⟨b, bs', hx, hxs, rfl⟩ := mapR_cons_ok hm
    obtain ⟨ds, hg, hh⟩ := mapR_pipeline (fun y hy => hall y (List.mem_cons_of_mem _ hy)) hxs
    have h1 := hall x (by simp) b hx
    cases hgb : g b with
    | error e => simp [hgb, Except.bind] at h1
    | ok d =>
      simp only [hgb, Except.bind] at h1
      exact ⟨d :: ds, mapR_cons_of hgb hg, mapR_cons_of h1 hh⟩

theorem mapPairs_cons_ok {fk fv : Val → R Val} {k v : Val} {rest es : List (Val × Val)}
    (h : mapPairs fk fv ((k, v) :: rest) = .ok es) :
    ∃ k' v' rest', fk k = .ok k' ∧ fv v = .ok v' ∧ mapPairs fk fv rest = .ok rest' ∧ es = (k', v') :: rest' := by
  simp only [mapPairs] at h
  cases hk : fk k with
  | error e => simp [hk, bind, Except.bind] at h
  | ok k' =>
    cases hv : fv v with
    | error e => simp [hk, hv, bind, Except.bind] at h
    | ok v' =>
      cases hr : mapPairs fk fv rest with
      | error e => simp [hk, hv, hr, bind, Except.bind] at h
      | ok rest' =>
        simp [hk, hv, hr, bind, Except.bind] at h
        exact ⟨k', v', rest', rfl, rfl, rfl, h.symm⟩

theorem mapPairs_cons_of {fk fv : Val → R Val} {k v k' v' : Val} {rest rest' : List (Val × Val)}
    (hk : fk k = .ok k') (hv : fv v = .ok v') (hr : mapPairs fk fv rest = .ok rest') :
    mapPairs fk fv ((k, v) :: rest) = .ok ((k', v') :: rest') := by
  simp [mapPairs, hk, hv, hr, bind, Except.bind]

theorem mapEntries_cons_ok {fk fv : Val → R Val} {k v : Val} {rest es : List (Val × Val)}
    (h : mapEntries fk fv ((k, v) :: rest) = .ok es) :
    ∃ k' v' rest', fk k = .ok k' ∧ fv v = .ok v' ∧ mapEntries fk fv rest = .ok rest' ∧ es = (k', v') :: rest' := by
  simp only [mapEntries] at h
  cases hk : fk k with
  | error e => simp [hk] at h
  | ok k' =>
    cases hv : fv v with
    | error e => simp [hk, hv] at h
    | ok v' =>
      cases hr : mapEntries fk fv rest with
      | error e => simp [hk, hv, hr, bind, Except.bind] at h
      | ok rest' =>
        simp [hk, hv, hr, bind, Except.bind] at h
        exact ⟨k', v', rest', rfl, rfl, rfl, h.symm⟩

theorem mapEntries_cons_of {fk fv : Val → R Val} {k v k' v' : Val} {rest rest' : List (Val × Val)}
    (hk : fk k = .ok k') (hv : fv v = .ok v') (hr : mapEntries fk fv rest = .ok rest') :
    mapEntries fk fv ((k, v) :: rest) = .ok ((k', v') :: rest') := by
  simp [mapEntries, hk, hv, hr, bind, Except.bind]

/-- every entry produced by `mapPairs` comes from an entry of the input -/
theorem mapPairs_results {fk fv : Val → R Val} : ∀ {es es' : List (Val × Val)}, mapPairs fk fv es = .ok es' →
    ∀ kv' ∈ es', ∃ kv ∈ es, fk kv.1 = .ok kv'.1 ∧ fv kv.2 = .ok kv'.2
  | [], es', h => by simp [mapPairs] at h; cases h; simp
  | (k, v) :: rest, es', h => by
    obtain ⟨k', v', rest', hk, hv, hr, rfl⟩ := mapPairs_cons_ok h
    intro kv' hkv'
    rcases List.mem_cons.1 hkv' with rfl | hm
    · exact ⟨(k, v), by simp, hk, hv⟩
    · obtain ⟨kv, hkv, h1, h2⟩ := mapPairs_results hr kv' hm
      exact ⟨kv, List.mem_cons_of_mem _ hkv, h1, h2⟩

/-- every entry produced by `mapEntries` comes from an entry of the input -/
theorem mapEntries_results' {fk fv : Val → R Val} : ∀ {es es' : List (Val × Val)}, mapEntries fk fv es = .ok es' →
    ∀ kv' ∈ es', ∃ kv ∈ es, fk kv.1 = .ok kv'.1 ∧ fv kv.2 = .ok kv'.2
  | [], es', h => by simp [mapEntries] at h; cases h; simp
  | (k, v) :: rest, es', h => by
    obtain ⟨k', v', rest', hk, hv, hr, rfl⟩ := mapEntries_cons_ok h
    intro kv' hkv'
    rcases List.mem_cons.1 hkv' with rfl | hm
    · exact ⟨(k, v), by simp, hk, hv⟩
    · obtain ⟨kv, hkv, h1, h2⟩ := mapEntries_results' hr kv' hm
      exact ⟨kv, List.mem_cons_of_mem _ hkv, h1, h2⟩

theorem mapEntries_fixed_mem {fk fv : Val → R Val} : ∀ {es : List (Val × Val)}, mapEntries fk fv es = .ok es →
    ∀ kv ∈ es, fk kv.1 = .ok kv.1 ∧ fv kv.2 = .ok kv.2
  | [], _ => by simp
  | (k, v) :: rest, h => by
    obtain ⟨k', v', rest', hk, hv, hr, he⟩ := mapEntries_cons_ok h
    cases he
    intro kv hkv
    rcases List.mem_cons.1 hkv with rfl | hm
    · exact ⟨hk, hv⟩
    · exact mapEntries_fixed_mem hr kv hm

theorem mem_keysD {es : List (Val × Val)} {k : Val} : k ∈ keysD es ↔ ∃ kv ∈ es, kv.1 = k := by
  simp [keysD]

theorem mem_valsD {es : List (Val × Val)} {v : Val} : v ∈ valsD es ↔ ∃ kv ∈ es, kv.2 = v := by
  simp [valsD]

theorem mem_keysD_of_mem {es : List (Val × Val)} {kv : Val × Val} (h : kv ∈ es) : kv.1 ∈ keysD es :=
  mem_keysD.2 ⟨kv, h, rfl⟩

theorem mem_valsD_of_mem {es : List (Val × Val)} {kv : Val × Val} (h : kv ∈ es) : kv.2 ∈ valsD es :=
  mem_valsD.2 ⟨kv, h, rfl⟩

/-- a property of keys and a property of values that hold of every entry survive `buildDict` -/
theorem buildDict_forall {P Q : Val → Prop} {es : List (Val × Val)} (h : ∀ kv ∈ es, P kv.1 ∧ Q kv.2) :
    ∀ kv ∈ buildDict es, P kv.1 ∧ Q kv.2 := by
  intro kv hkv
  constructor
  · obtain ⟨kv0, h0, he⟩ := mem_keysD.1 (buildDict_keys_subset es _ (mem_keysD_of_mem hkv))
    rw [← he]; exact (h kv0 h0).1
  · obtain ⟨kv0, h0, he⟩ := mem_valsD.1 (buildDict_vals_subset es _ (mem_valsD_of_mem hkv))
    rw [← he]; exact (h kv0 h0).2

/-! ### `validate`, inverted -/

theorem validate_inv {E : Env} {k : Kind} {req : Bool} {c : Option String} {v w : Val}
    (h : validate E (.mk k req c) v = .ok w) :
    (v = .none ∧ req = false ∧ w = .none) ∨
    (v ≠ .none ∧ ∃ w', validateKind E k req v = .ok w' ∧
      (match c with | none => w = w' | some name => E.custom name w' = .ok w)) := by
  by_cases hv : v = .none
  · subst hv
    cases req <;> simp [validate] at h
    exact Or.inl ⟨rfl, rfl, h.symm⟩
  · refine Or.inr ⟨hv, ?_⟩
    rw [validate_of_ne_none E k req c v hv] at h
    cases hr : validateKind E k req v with
    | error e => simp [hr] at h
    | ok w' =>
      simp only [hr] at h
      refine ⟨w', rfl, ?_⟩
      cases c with
      | none => simp only [Except.ok.injEq] at h; exact h.symm
      | some name => exact h

theorem validate_inv_nc {E : Env} {k : Kind} {req : Bool} {v w : Val}
    (h : validate E (.mk k req none) v = .ok w) :
    (v = .none ∧ req = false ∧ w = .none) ∨ (v ≠ .none ∧ validateKind E k req v = .ok w) := by
  rcases validate_inv h with h | ⟨hv, w', hk, hw⟩
  · exact Or.inl h
  · simp only at hw
    subst hw
    exact Or.inr ⟨hv, hk⟩

theorem validate_nc_of_kind {E : Env} {k : Kind} {req : Bool} {v w : Val} (hv : v ≠ .none)
    (h : validateKind E k req v = .ok w) : validate E (.mk k req none) v = .ok w := by
  rw [validate_of_ne_none E k req none v hv, h]

/-- an item field that does not type the list: absent, or an `AnyField` -/
def untypedItem : Option FieldSpec → Bool
  | none => true
  | some (.mk k _ _) => k.isAny

theorem validateItems_untyped {E : Env} {item : Option FieldSpec} (xs : List Val) (h : untypedItem item = true) :
    validateItems E item xs = none := by
  cases item with
  | none => rfl
  | some f => obtain ⟨k, r, c⟩ := f; simp only [untypedItem] at h; simp [validateItems, h]

theorem validateItems_typed {E : Env} {item : Option FieldSpec} (xs : List Val) (h : untypedItem item = false) :
    ∃ f, item = some f ∧ validateItems E item xs = some (mapR (fun x => validate E f x) xs) := by
  cases item with
  | none => simp [untypedItem] at h
  | some f => obtain ⟨k, r, c⟩ := f; simp only [untypedItem] at h; exact ⟨_, rfl, by simp [validateItems, h]⟩

theorem validateKind_list_inv {E : Env} {item : Option FieldSpec} {req : Bool} {v w : Val}
    (h : validateKind E (.list item) req v = .ok w) :
    ∃ xs, (v = .list xs ∨ v = .tuple xs) ∧ (req && xs.isEmpty) = false ∧
      ((validateItems E item xs = none ∧ w = v) ∨ ∃ ys, validateItems E item xs = some (.ok ys) ∧ w = .list ys) := by
  simp only [validateKind] at h
  cases v with
  | list xs =>
    simp only at h
    by_cases hre : (req && xs.isEmpty) = true
    · simp [hre] at h
    · simp only [hre, Bool.false_eq_true, if_false] at h
      refine ⟨xs, Or.inl rfl, by simpa using hre, ?_⟩
      cases hvi : validateItems E item xs with
      | none => simp only [hvi, Except.ok.injEq] at h; exact Or.inl ⟨rfl, h.symm⟩
      | some r =>
        simp only [hvi] at h
        cases r with
        | error e => simp [Except.map] at h
        | ok ys => simp [Except.map] at h; exact Or.inr ⟨ys, rfl, h.symm⟩
  | tuple xs =>
    simp only at h
    by_cases hre : (req && xs.isEmpty) = true
    · simp [hre] at h
    · simp only [hre, Bool.false_eq_true, if_false] at h
      refine ⟨xs, Or.inr rfl, by simpa using hre, ?_⟩
      cases hvi : validateItems E item xs with
      | none => simp only [hvi, Except.ok.injEq] at h; exact Or.inl ⟨rfl, h.symm⟩
      | some r =>
        simp only [hvi] at h
        cases r with
        | error e => simp [Except.map] at h
        | ok ys => simp [Except.map] at h; exact Or.inr ⟨ys, rfl, h.symm⟩
  | _ => cases h

theorem validateKind_dict_inv {E : Env} {kf vf : Option FieldSpec} {req : Bool} {v w : Val}
    (h : validateKind E (.dict kf vf) req v = .ok w) :
    ∃ kvs, v = .dict kvs ∧ (req && kvs.isEmpty) = false ∧
      (((kf.isNone && vf.isNone) = true ∧ w = v) ∨
       ((kf.isNone && vf.isNone) = false ∧
        ∃ es, mapEntries (fun x => validateOpt E kf x) (fun x => validateOpt E vf x) kvs = .ok es ∧ w = .dict (buildDict es))) := by
  simp only [validateKind] at h
  cases v with
  | dict kvs =>
    simp only at h
    by_cases hre : (req && kvs.isEmpty) = true
    · simp [hre] at h
    · simp only [hre, Bool.false_eq_true, if_false] at h
      refine ⟨kvs, rfl, by simpa using hre, ?_⟩
      by_cases hnn : (kf.isNone && vf.isNone) = true
      · simp only [hnn, if_true, Except.ok.injEq] at h
        exact Or.inl ⟨hnn, h.symm⟩
      · simp only [hnn, Bool.false_eq_true, if_false] at h
        cases hm : mapEntries (fun x => validateOpt E kf x) (fun x => validateOpt E vf x) kvs with
        | error e => simp [hm, Except.map] at h
        | ok es =>
          simp [hm, Except.map] at h
          exact Or.inr ⟨Bool.eq_false_iff.2 hnn, es, rfl, h.symm⟩
  | _ => cases h

end Cinco.Field

/-! ## 2. The shape of validation results -/

namespace Cinco.Field
open Cinco

mutual
  /-- no custom validator, at any level of the declaration (a custom validator may return any value at all) -/
  def NoCustom : FieldSpec → Bool
    | .mk k _ c => c.isNone && NoCustomKind k
  def NoCustomOpt : Option FieldSpec → Bool
    | none => true
    | some f => NoCustom f
  def NoCustomKind : Kind → Bool
    | .list item => NoCustomOpt item
    | .dict k v => NoCustomOpt k && NoCustomOpt v
    | _ => true
end

mutual
  /-- the shape of what `validate` returns for a declaration without custom validators (`validate_shape`):
      `None` (only when the field is not required), or the shape of the kind -/
  def Shape : FieldSpec → Val → Prop
    | .mk k r _, v => (v = .none ∧ r = false) ∨ ShapeKind k v
  def ShapeOpt : Option FieldSpec → Val → Prop
    | none, _ => True
    | some f, v => Shape f v
  /-- per kind: text for the string-like kinds and for secrets, a number / boolean / byte string for those kinds, a
      digest triple for challenges; a list whose items have the shape of the item field (a tuple can only survive when
      the list is untyped); a dict whose keys and values have the shapes of the key and value fields, with pairwise
      distinct keys when it is typed -/
  def ShapeKind : Kind → Val → Prop
    | .any, _ => True
    | .string _, v => ∃ s, v = .str s
    | .int _ _, v => ∃ i, v = .int i
    | .float _ _, v => ∃ f, v = .flt f
    | .bool, v => ∃ b, v = .bool b
    | .bytes _, v => ∃ b, v = .bytes b
    | .ipv4addr _, v => ∃ s, v = .str s
    | .ipv4net _ _ _, v => ∃ s, v = .str s
    | .hostname _ _, v => ∃ s, v = .str s
    | .filename _ _ _, v => ∃ s, v = .str s
    | .url _, v => ∃ s, v = .str s
    | .challenge _, v => ∃ s d a, v = .digest s d a
    | .secure _, v => ∃ s, v = .str s
    | .list item, v => ∃ xs, (v = .list xs ∨ (v = .tuple xs ∧ untypedItem item = true)) ∧ ∀ x ∈ xs, ShapeOpt item x
    | .dict kf vf, v => ∃ kvs, v = .dict kvs ∧ (∀ kv ∈ kvs, ShapeOpt kf kv.1 ∧ ShapeOpt vf kv.2) ∧
        ((kf.isNone && vf.isNone) = false → (keysD kvs).Nodup)
end

theorem strRule_map_shape {o : StrOpts} {req : Bool} {v0 v : Val} (h : (strRule o req v0).map Val.str = .ok v) :
    ∃ s, v = .str s := by
  cases hs : strRule o req v0 with
  | error e => simp [hs, Except.map] at h
  | ok t => simp [hs, Except.map] at h; exact ⟨t, h.symm⟩

theorem intRule_shape {mn mx : Option Num.Num} {v0 v : Val} (h : intRule mn mx v0 = .ok v) : ∃ i, v = .int i := by
  cases v0 <;> simp only [intRule] at h <;> (repeat' split at h) <;> cases h <;> exact ⟨_, rfl⟩

theorem floatRule_shape {E : Env} {mn mx : Option Num.Num} {v0 v : Val} (h : floatRule E mn mx v0 = .ok v) : ∃ f, v = .flt f := by
  cases v0 <;> simp only [floatRule] at h <;> (repeat' split at h) <;> cases h <;> exact ⟨_, rfl⟩

theorem boolRule_shape {v0 v : Val} (h : boolRule v0 = .ok v) : ∃ b, v = .bool b := by
  cases v0 <;> simp only [boolRule] at h <;> (repeat' split at h) <;> cases h <;> exact ⟨_, rfl⟩

theorem bytesRule_shape {E : Env} {v0 v : Val} (h : bytesRule E v0 = .ok v) : ∃ b, v = .bytes b := by
  cases v0 <;> simp only [bytesRule] at h <;> cases h <;> exact ⟨_, rfl⟩

theorem addrRule_shape {o : StrOpts} {req : Bool} {v0 v : Val} (h : addrRule o req v0 = .ok v) : ∃ s, v = .str s := by
  simp only [addrRule] at h
  obtain ⟨t, _, h2⟩ := bind_ok h
  split at h2 <;> cases h2
  exact ⟨_, rfl⟩

theorem netRule_shape {o : StrOpts} {req : Bool} {mn mx : Option Int} {v0 v : Val} (h : netRule o req mn mx v0 = .ok v) :
    ∃ s, v = .str s := by
  simp only [netRule] at h
  obtain ⟨t, _, h2⟩ := bind_ok h
  (repeat' split at h2) <;> cases h2
  exact ⟨_, rfl⟩

theorem hostRule_shape {o : StrOpts} {req a : Bool} {v0 v : Val} (h : hostRule o req a v0 = .ok v) : ∃ s, v = .str s := by
  simp only [hostRule] at h
  obtain ⟨t, _, h2⟩ := bind_ok h
  (repeat' split at h2) <;> cases h2 <;> exact ⟨_, rfl⟩

theorem fileRule_shape {E : Env} {o : StrOpts} {req : Bool} {ex : Exists} {sd : Option Str} {v0 v : Val}
    (h : fileRule E o req ex sd v0 = .ok v) : ∃ s, v = .str s := by
  simp only [fileRule] at h
  obtain ⟨t, _, h2⟩ := bind_ok h
  (repeat' split at h2) <;> cases h2 <;> exact ⟨_, rfl⟩

theorem urlRule_shape {E : Env} {o : StrOpts} {req : Bool} {v0 v : Val} (h : urlRule E o req v0 = .ok v) : ∃ s, v = .str s := by
  simp only [urlRule] at h
  obtain ⟨t, _, h2⟩ := bind_ok h
  split at h2 <;> cases h2
  exact ⟨_, rfl⟩

theorem challengeRule_shape {E : Env} {alg : String} {v0 v : Val} (h : challengeRule E alg v0 = .ok v) :
    ∃ s d a, v = .digest s d a := by
  cases v0 <;> simp only [challengeRule] at h <;> cases h <;> exact ⟨_, _, _, rfl⟩

theorem secureRule_shape {req : Bool} {v0 v : Val} (h : secureRule req v0 = .ok v) : ∃ s, v = .str s := by
  cases v0 <;> simp only [secureRule] at h <;> (repeat' split at h) <;> cases h <;> exact ⟨_, rfl⟩

mutual
  /-- **The shape of validation results** (no custom validators): whatever the input, an accepted value has the shape of
      the declaration — at every nesting depth. -/
  theorem validate_shape (E : Env) : ∀ (f : FieldSpec) (v0 v : Val), NoCustom f = true → validate E f v0 = .ok v → Shape f v
    | .mk k req c, v0, v, hnc, h => by
      simp only [NoCustom, Bool.and_eq_true, Option.isNone_iff_eq_none] at hnc
      obtain ⟨hc, hk⟩ := hnc
      subst hc
      simp only [Shape]
      rcases validate_inv_nc h with ⟨_, hr, hw⟩ | ⟨_, hk'⟩
      · exact Or.inl ⟨hw, hr⟩
      · exact Or.inr (validateKind_shape E k req v0 v hk hk')
  theorem validateOpt_shape (E : Env) : ∀ (o : Option FieldSpec) (v0 v : Val), NoCustomOpt o = true →
      validateOpt E o v0 = .ok v → ShapeOpt o v
    | none, _, _, _, _ => trivial
    | some f, v0, v, hnc, h => by
      simp only [validateOpt] at h
      simp only [ShapeOpt]
      exact validate_shape E f v0 v (by simpa [NoCustomOpt] using hnc) h
  theorem validateKind_shape (E : Env) : ∀ (k : Kind) (req : Bool) (v0 v : Val), NoCustomKind k = true →
      validateKind E k req v0 = .ok v → ShapeKind k v
    | .any, _, _, _, _, _ => trivial
    | .string o, req, v0, v, _, h => by simp only [validateKind] at h; exact strRule_map_shape h
    | .int mn mx, req, v0, v, _, h => by simp only [validateKind] at h; exact intRule_shape h
    | .float mn mx, req, v0, v, _, h => by simp only [validateKind] at h; exact floatRule_shape h
    | .bool, req, v0, v, _, h => by simp only [validateKind] at h; exact boolRule_shape h
    | .bytes _, req, v0, v, _, h => by simp only [validateKind] at h; exact bytesRule_shape h
    | .ipv4addr o, req, v0, v, _, h => by simp only [validateKind] at h; exact addrRule_shape h
    | .ipv4net o mn mx, req, v0, v, _, h => by simp only [validateKind] at h; exact netRule_shape h
    | .hostname o a, req, v0, v, _, h => by simp only [validateKind] at h; exact hostRule_shape h
    | .filename o ex sd, req, v0, v, _, h => by simp only [validateKind] at h; exact fileRule_shape h
    | .url o, req, v0, v, _, h => by simp only [validateKind] at h; exact urlRule_shape h
    | .challenge alg, req, v0, v, _, h => by simp only [validateKind] at h; exact challengeRule_shape h
    | .secure _, req, v0, v, _, h => by simp only [validateKind] at h; exact secureRule_shape h
    | .list item, req, v0, v, hk, h => by
      have hitem : NoCustomOpt item = true := by simpa [NoCustomKind] using hk
      obtain ⟨xs, hv0, _, hcase⟩ := validateKind_list_inv h
      simp only [ShapeKind]
      rcases hcase with ⟨hvi, hw⟩ | ⟨ys, hvi, hw⟩
      · -- the list is untyped: returned as it is
        have hu : untypedItem item = true := by
          cases hu : untypedItem item with
          | true => rfl
          | false =>
            obtain ⟨f, _, hf⟩ := validateItems_typed (E := E) xs hu
            rw [hf] at hvi; cases hvi
        refine ⟨xs, ?_, ?_⟩
        · subst hw
          rcases hv0 with h1 | h1
          · exact Or.inl h1
          · exact Or.inr ⟨h1, hu⟩
        · intro x _
          cases item with
          | none => trivial
          | some f =>
            obtain ⟨k, r, c⟩ := f
            simp only [untypedItem] at hu
            cases k <;> simp [Kind.isAny] at hu
            simp only [ShapeOpt, Shape, ShapeKind]
            exact Or.inr trivial
      · refine ⟨ys, Or.inl hw, ?_⟩
        intro y hy
        cases hu : untypedItem item with
        | true => rw [validateItems_untyped xs hu] at hvi; cases hvi
        | false =>
          obtain ⟨f, hf, hfv⟩ := validateItems_typed (E := E) xs hu
          rw [hfv] at hvi
          simp only [Option.some.injEq] at hvi
          obtain ⟨x, _, hx⟩ := mapR_results hvi y hy
          exact validateOpt_shape E item x y hitem (by rw [hf]; simpa [validateOpt] using hx)
    | .dict kf vf, req, v0, v, hk, h => by
      have hkf : NoCustomOpt kf = true := by
        simp only [NoCustomKind, Bool.and_eq_true] at hk; exact hk.1
      have hvf : NoCustomOpt vf = true := by
        simp only [NoCustomKind, Bool.and_eq_true] at hk; exact hk.2
      obtain ⟨kvs, hv0, _, hcase⟩ := validateKind_dict_inv h
      simp only [ShapeKind]
      rcases hcase with ⟨hnn, hw⟩ | ⟨hnn, es, hm, hw⟩
      · refine ⟨kvs, by rw [hw, hv0], ?_, fun hc => by rw [hnn] at hc; cases hc⟩
        simp only [Bool.and_eq_true, Option.isNone_iff_eq_none] at hnn
        obtain ⟨h1, h2⟩ := hnn
        subst h1; subst h2
        intro kv _
        exact ⟨trivial, trivial⟩
      · refine ⟨buildDict es, hw, ?_, fun _ => buildDict_nodup es⟩
        apply buildDict_forall (P := ShapeOpt kf) (Q := ShapeOpt vf)
        intro kv' hkv'
        obtain ⟨kv, _, h1, h2⟩ := mapEntries_results' hm kv' hkv'
        exact ⟨validateOpt_shape E kf _ _ hkf h1, validateOpt_shape E vf _ _ hvf h2⟩
end

end Cinco.Field

/-! ## 3. What `to_basic` writes is plain data -/

namespace Cinco.Field
open Cinco

/-- kinds whose validation results are written by `to_basic` as text: usable as the key field of a typed dict -/
def Kind.strKey : Kind → Bool
  | .string _ => true
  | .ipv4addr _ => true
  | .ipv4net _ _ _ => true
  | .hostname _ _ => true
  | .filename _ _ _ => true
  | .url _ => true
  | .bytes _ => true
  | _ => false

/-- a key field whose written form is always text: a *required* field (a field that is not required accepts the key
    `None` and writes it as it is) of a text-like kind, without custom validator -/
def TypedKey : Option FieldSpec → Bool
  | some (.mk k r c) => r && c.isNone && k.strKey
  | none => false

mutual
  /-- declarations for which `to_basic` is shown to write plain data: no `AnyField`, no untyped list or dict, no custom
      validator — at every level; dict keys as in `TypedKey` -/
  def Typed : FieldSpec → Bool
    | .mk k _ c => c.isNone && TypedKind k
  def TypedOpt : Option FieldSpec → Bool
    | none => false
    | some f => Typed f
  def TypedKind : Kind → Bool
    | .any => false
    | .list item => TypedOpt item
    | .dict kf vf => TypedKey kf && TypedOpt vf
    | _ => true
end

theorem typedKey_noCustom : ∀ (o : Option FieldSpec), TypedKey o = true → NoCustomOpt o = true
  | none, h => by simp [TypedKey] at h
  | some (.mk k r c), h => by
    simp only [TypedKey, Bool.and_eq_true] at h
    cases k <;> simp [Kind.strKey] at h <;> simp [NoCustomOpt, NoCustom, NoCustomKind, h]

mutual
  theorem typed_noCustom : ∀ (f : FieldSpec), Typed f = true → NoCustom f = true
    | .mk k r c, h => by
      simp only [Typed, Bool.and_eq_true] at h
      simp only [NoCustom, Bool.and_eq_true]
      exact ⟨h.1, typedKind_noCustom k h.2⟩
  theorem typedOpt_noCustom : ∀ (o : Option FieldSpec), TypedOpt o = true → NoCustomOpt o = true
    | none, _ => rfl
    | some f, h => by
      simp only [TypedOpt] at h
      simp only [NoCustomOpt]
      exact typed_noCustom f h
  theorem typedKind_noCustom : ∀ (k : Kind), TypedKind k = true → NoCustomKind k = true
    | .list item, h => by
      simp only [TypedKind] at h
      simp only [NoCustomKind]
      exact typedOpt_noCustom item h
    | .dict kf vf, h => by
      simp only [TypedKind, Bool.and_eq_true] at h
      simp only [NoCustomKind, Bool.and_eq_true]
      exact ⟨typedKey_noCustom kf h.1, typedOpt_noCustom vf h.2⟩
    | .any, _ => rfl
    | .string _, _ => rfl
    | .int _ _, _ => rfl
    | .float _ _, _ => rfl
    | .bool, _ => rfl
    | .bytes _, _ => rfl
    | .ipv4addr _, _ => rfl
    | .ipv4net _ _ _, _ => rfl
    | .hostname _ _, _ => rfl
    | .filename _ _ _, _ => rfl
    | .url _, _ => rfl
    | .challenge _, _ => rfl
    | .secure _, _ => rfl
end

/-- `to_basic` of `None` is `None`, for every kind -/
theorem toBasicKind_none (E : CodecEnv) (k : Kind) : toBasicKind E k .none = .ok .none := by
  cases k <;> simp [toBasicKind, Val.truthy]

theorem toBasic_none (E : CodecEnv) (f : FieldSpec) : toBasic E f .none = .ok .none := by
  obtain ⟨k, r, c⟩ := f
  simp only [toBasic]
  exact toBasicKind_none E k

/-- a key accepted by a `TypedKey` field is written as text -/
theorem typedKey_toBasic {E : CodecEnv} : ∀ {o : Option FieldSpec} {k b : Val}, TypedKey o = true → ShapeOpt o k →
    toBasicOpt E o k = .ok b → b.isStr = true
  | none, _, _, h, _, _ => by simp [TypedKey] at h
  | some (.mk kk r c), k, b, h, hs, hb => by
    simp only [TypedKey, Bool.and_eq_true] at h
    obtain ⟨⟨hr, _⟩, hk⟩ := h
    subst hr
    simp only [ShapeOpt, Shape] at hs
    simp only [toBasicOpt, toBasic] at hb
    rcases hs with ⟨_, hf⟩ | hs
    · cases hf
    · cases kk <;> simp [Kind.strKey] at hk <;> simp only [ShapeKind] at hs <;> obtain ⟨s, rfl⟩ := hs <;>
        simp only [toBasicKind, Except.ok.injEq] at hb <;> subst hb <;> rfl

mutual
  theorem toBasic_plain_of_shape (E : CodecEnv) (hE : ∀ m s r, E.encryptS m s = some r → r.plain = true) :
      ∀ (f : FieldSpec) (v b : Val), Typed f = true → (v = .none ∨ Shape f v) → toBasic E f v = .ok b → b.plain = true
    | .mk k r c, v, b, ht, hs, h => by
      simp only [Typed, Bool.and_eq_true] at ht
      simp only [toBasic] at h
      refine toBasicKind_plain_of_shape E hE k v b ht.2 ?_ h
      rcases hs with hs | hs
      · exact Or.inl hs
      · simp only [Shape] at hs
        rcases hs with ⟨hs, _⟩ | hs
        · exact Or.inl hs
        · exact Or.inr hs
  theorem toBasicOpt_plain_of_shape (E : CodecEnv) (hE : ∀ m s r, E.encryptS m s = some r → r.plain = true) :
      ∀ (o : Option FieldSpec) (v b : Val), TypedOpt o = true → (v = .none ∨ ShapeOpt o v) → toBasicOpt E o v = .ok b →
        b.plain = true
    | none, _, _, ht, _, _ => by simp [TypedOpt] at ht
    | some f, v, b, ht, hs, h => by
      simp only [TypedOpt] at ht
      simp only [ShapeOpt] at hs
      simp only [toBasicOpt] at h
      exact toBasic_plain_of_shape E hE f v b ht hs h
  theorem toBasicKind_plain_of_shape (E : CodecEnv) (hE : ∀ m s r, E.encryptS m s = some r → r.plain = true) :
      ∀ (k : Kind) (v b : Val), TypedKind k = true → (v = .none ∨ ShapeKind k v) → toBasicKind E k v = .ok b →
        b.plain = true
    | .any, _, _, ht, _, _ => by simp [TypedKind] at ht
    | .string o, v, b, _, hs, h => by
      rcases hs with rfl | hs
      · rw [toBasicKind_none] at h; cases h; rfl
      · simp only [ShapeKind] at hs; obtain ⟨s, rfl⟩ := hs
        simp only [toBasicKind, Except.ok.injEq] at h; subst h; rfl
    | .int mn mx, v, b, _, hs, h => by
      rcases hs with rfl | hs
      · rw [toBasicKind_none] at h; cases h; rfl
      · simp only [ShapeKind] at hs; obtain ⟨s, rfl⟩ := hs
        simp only [toBasicKind, Except.ok.injEq] at h; subst h; rfl
    | .float mn mx, v, b, _, hs, h => by
      rcases hs with rfl | hs
      · rw [toBasicKind_none] at h; cases h; rfl
      · simp only [ShapeKind] at hs; obtain ⟨s, rfl⟩ := hs
        simp only [toBasicKind, Except.ok.injEq] at h; subst h; rfl
    | .bool, v, b, _, hs, h => by
      rcases hs with rfl | hs
      · rw [toBasicKind_none] at h; cases h; rfl
      · simp only [ShapeKind] at hs; obtain ⟨s, rfl⟩ := hs
        simp only [toBasicKind, Except.ok.injEq] at h; subst h; rfl
    | .bytes enc, v, b, _, hs, h => by
      rcases hs with rfl | hs
      · rw [toBasicKind_none] at h; cases h; rfl
      · simp only [ShapeKind] at hs; obtain ⟨s, rfl⟩ := hs
        simp only [toBasicKind, Except.ok.injEq] at h; subst h; rfl
    | .ipv4addr o, v, b, _, hs, h => by
      rcases hs with rfl | hs
      · rw [toBasicKind_none] at h; cases h; rfl
      · simp only [ShapeKind] at hs; obtain ⟨s, rfl⟩ := hs
        simp only [toBasicKind, Except.ok.injEq] at h; subst h; rfl
    | .ipv4net o mn mx, v, b, _, hs, h => by
      rcases hs with rfl | hs
      · rw [toBasicKind_none] at h; cases h; rfl
      · simp only [ShapeKind] at hs; obtain ⟨s, rfl⟩ := hs
        simp only [toBasicKind, Except.ok.injEq] at h; subst h; rfl
    | .hostname o a, v, b, _, hs, h => by
      rcases hs with rfl | hs
      · rw [toBasicKind_none] at h; cases h; rfl
      · simp only [ShapeKind] at hs; obtain ⟨s, rfl⟩ := hs
        simp only [toBasicKind, Except.ok.injEq] at h; subst h; rfl
    | .filename o ex sd, v, b, _, hs, h => by
      rcases hs with rfl | hs
      · rw [toBasicKind_none] at h; cases h; rfl
      · simp only [ShapeKind] at hs; obtain ⟨s, rfl⟩ := hs
        simp only [toBasicKind, Except.ok.injEq] at h; subst h; rfl
    | .url o, v, b, _, hs, h => by
      rcases hs with rfl | hs
      · rw [toBasicKind_none] at h; cases h; rfl
      · simp only [ShapeKind] at hs; obtain ⟨s, rfl⟩ := hs
        simp only [toBasicKind, Except.ok.injEq] at h; subst h; rfl
    | .challenge alg, v, b, _, hs, h => by
      rcases hs with rfl | hs
      · rw [toBasicKind_none] at h; cases h; rfl
      · simp only [ShapeKind] at hs; obtain ⟨s, d, a, rfl⟩ := hs
        simp only [toBasicKind, Except.ok.injEq] at h; subst h
        simp [digestToBasic, Val.plain, Val.plainKvs]
    | .secure m, v, b, _, hs, h => by
      rcases hs with rfl | hs
      · rw [toBasicKind_none] at h; cases h; rfl
      · simp only [ShapeKind] at hs; obtain ⟨s, rfl⟩ := hs
        simp only [toBasicKind] at h
        by_cases hse : s.isEmpty = true
        · rw [if_pos hse] at h; cases h; rfl
        · rw [if_neg hse] at h
          cases he : E.encryptS m s with
          | none => simp [he] at h
          | some r =>
            simp only [he, Except.ok.injEq] at h
            subst h
            exact hE m s r he
    | .list item, v, b, ht, hs, h => by
      rcases hs with rfl | hs
      · rw [toBasicKind_none] at h; cases h; rfl
      · simp only [TypedKind] at ht
        simp only [ShapeKind] at hs
        obtain ⟨xs, hv, hall⟩ := hs
        have hm : (mapR (fun x => toBasicOpt E item x) xs).map Val.list = .ok b := by
          rcases hv with rfl | ⟨rfl, _⟩ <;> simpa only [toBasicKind] using h
        cases hr : mapR (fun x => toBasicOpt E item x) xs with
        | error e => simp [hr, Except.map] at hm
        | ok bs =>
          simp [hr, Except.map] at hm
          subst hm
          simp only [Val.plain]
          rw [Val.plainList_iff]
          intro b' hb'
          obtain ⟨x, hx, hxb⟩ := mapR_results hr b' hb'
          exact toBasicOpt_plain_of_shape E hE item x b' ht (Or.inr (hall x hx)) hxb
    | .dict kf vf, v, b, ht, hs, h => by
      rcases hs with rfl | hs
      · rw [toBasicKind_none] at h; cases h; rfl
      · simp only [TypedKind, Bool.and_eq_true] at ht
        simp only [ShapeKind] at hs
        obtain ⟨kvs, rfl, hall, _⟩ := hs
        have hnn : (kf.isNone && vf.isNone) = false := by
          cases kf with
          | none => simp [TypedKey] at ht
          | some _ => rfl
        simp only [toBasicKind, hnn, Bool.false_eq_true, if_false] at h
        cases hr : mapPairs (fun x => toBasicOpt E kf x) (fun x => toBasicOpt E vf x) kvs with
        | error e => simp [hr, Except.map] at h
        | ok es =>
          simp [hr, Except.map] at h
          subst h
          simp only [Val.plain]
          rw [Val.plainKvs_iff]
          apply buildDict_forall (P := fun k => k.isStr = true) (Q := fun v => v.plain = true)
          intro kv' hkv'
          obtain ⟨kv, hkv, h1, h2⟩ := mapPairs_results hr kv' hkv'
          exact ⟨typedKey_toBasic ht.1 (hall kv hkv).1 h1,
            toBasicOpt_plain_of_shape E hE vf kv.2 kv'.2 ht.2 (Or.inr (hall kv hkv).2) h2⟩
end

/-- **What `to_basic` writes is plain data**: for a `Typed` declaration (no `AnyField`, no untyped container, no custom
    validator, text-like required dict keys) and a held value that is a validation result of the field or `None`,
    whatever `to_basic` returns is plain data — provided encryption returns plain data (`hE`). -/
theorem toBasic_plain (E : CodecEnv) (hE : ∀ m s r, E.encryptS m s = some r → r.plain = true)
    (fs : FieldSpec) (hT : Typed fs = true) (v : Val) (hv : v = .none ∨ ∃ v0, validate E.toEnv fs v0 = .ok v)
    (b : Val) (hb : toBasic E fs v = .ok b) : b.plain = true := by
  refine toBasic_plain_of_shape E hE fs v b hT ?_ hb
  rcases hv with hv | ⟨v0, hv0⟩
  · exact Or.inl hv
  · exact Or.inr (validate_shape E.toEnv fs v0 v (typed_noCustom fs hT) hv0)

end Cinco.Field

/-! ## 4. What `to_tree` writes: its keys, and plain data -/

namespace Cinco.Config
open Cinco Cinco.Field

/-- a declared field that `to_tree` (without virtual output) renders keeps a slot -/
theorem renderField_stores {W : World} {d : Nat} {c : Cfg} {mask : Option Str} {k : String} {f : SField} {v : Val}
    (h : renderField W d c false mask k f = some (some v)) : f.stores = true := by
  cases f <;> first | rfl | (simp [renderField] at h)

theorem toTreeFields_keys (W : World) (d : Nat) (c : Cfg) (mask : Option Str) :
    ∀ (fields : List (String × SField)) (t : List (Val × Val)), toTreeFields W d c false mask fields = some t →
      ∀ kv ∈ t, ∃ n f, kv.1 = .str n.toList ∧ (n, f) ∈ fields ∧ f.stores = true
  | [], t, h => by
    rw [toTreeFields] at h
    cases h
    simp
  | (k, f) :: rest, t, h => by
    rw [toTreeFields] at h
    cases hrf : renderField W d c false mask k f with
    | none => simp [hrf] at h
    | some ov =>
      cases htr : toTreeFields W d c false mask rest with
      | none => cases ov <;> simp [hrf, htr] at h
      | some t' =>
        have ih := toTreeFields_keys W d c mask rest t' htr
        cases ov with
        | none =>
          simp only [hrf, htr, Option.some.injEq] at h
          subst h
          intro kv hkv
          obtain ⟨n, f', h1, h2, h3⟩ := ih kv hkv
          exact ⟨n, f', h1, List.mem_cons_of_mem _ h2, h3⟩
        | some v =>
          simp only [hrf, htr, Option.some.injEq] at h
          subst h
          intro kv hkv
          rcases List.mem_cons.1 hkv with rfl | hkv
          · exact ⟨k, f, rfl, by simp, renderField_stores hrf⟩
          · obtain ⟨n, f', h1, h2, h3⟩ := ih kv hkv
            exact ⟨n, f', h1, List.mem_cons_of_mem _ h2, h3⟩

/-- `to_tree` is the rendered declared fields followed by the dynamically added ones -/
theorem toTree_succ_eq (W : World) (d : Nat) (s : Schema) (c : Cfg) (virt : Bool) (mask : Option Str) :
    toTree W (d + 1) s c virt mask =
      (toTreeFields W d c virt mask s.fields).map (fun declared => declared ++ c.dyn.filterMap (dynEntry s c)) := by
  rw [toTree]
  cases toTreeFields W d c virt mask s.fields <;> rfl

/-- **The keys `to_tree` writes** (no virtual output, any mask): every key is the name of a declared field that keeps a
    slot — never a virtual or instance-method field — or of a dynamically added field. -/
theorem toTree_keys (W : World) (fuel : Nat) (s : Schema) (c : Cfg) (mask : Option Str) (t : List (Val × Val))
    (h : toTree W fuel s c false mask = some t) :
    ∀ kv ∈ t, ∃ n : String, kv.1 = .str n.toList ∧
      ((∃ f, (n, f) ∈ s.fields ∧ f.stores = true) ∨ (n ∈ c.dyn ∧ s.get n = none)) := by
  cases fuel with
  | zero => rw [toTree] at h; cases h
  | succ d =>
    rw [toTree_succ_eq] at h
    cases htf : toTreeFields W d c false mask s.fields with
    | none => simp [htf] at h
    | some declared =>
      simp only [htf, Option.map_some, Option.some.injEq] at h
      subst h
      intro kv hkv
      rcases List.mem_append.1 hkv with hkv | hkv
      · obtain ⟨n, f, h1, h2, h3⟩ := toTreeFields_keys W d c mask s.fields declared htf kv hkv
        exact ⟨n, h1, Or.inl ⟨f, h2, h3⟩⟩
      · obtain ⟨n, hn, he⟩ := List.mem_filterMap.1 hkv
        obtain ⟨hk, v, _, rfl⟩ := dynEntry_some he
        exact ⟨n, rfl, Or.inr ⟨hn, hk⟩⟩

theorem toTreeFields_virtual (W : World) (d : Nat) (c : Cfg) (mask : Option Str) (n : String) (cst : Val) (hs : Bool) :
    ∀ (fields : List (String × SField)) (t : List (Val × Val)), toTreeFields W d c true mask fields = some t →
      (n, SField.virtual cst hs) ∈ fields → (Val.str n.toList, cst) ∈ t
  | [], t, _, hm => by cases hm
  | (k, f) :: rest, t, h, hm => by
    rw [toTreeFields] at h
    cases hrf : renderField W d c true mask k f with
    | none => simp [hrf] at h
    | some ov =>
      cases htr : toTreeFields W d c true mask rest with
      | none => cases ov <;> simp [hrf, htr] at h
      | some t' =>
        rcases List.mem_cons.1 hm with he | hm
        · cases he
          have hrf' : renderField W d c true mask n (.virtual cst hs) = some (some cst) := by simp [renderField]
          simp only [hrf', htr, Option.some.injEq] at h
          subst h
          simp
        · have ih := toTreeFields_virtual W d c mask n cst hs rest t' htr hm
          cases ov with
          | none => simp only [hrf, htr, Option.some.injEq] at h; subst h; exact ih
          | some v => simp only [hrf, htr, Option.some.injEq] at h; subst h; exact List.mem_cons_of_mem _ ih

/-- with virtual output, the key of every virtual field does appear, with the getter's value -/
theorem toTree_virtual (W : World) (fuel : Nat) (s : Schema) (c : Cfg) (mask : Option Str) (t : List (Val × Val))
    (h : toTree W fuel s c true mask = some t) (n : String) (cst : Val) (hs : Bool)
    (hm : (n, SField.virtual cst hs) ∈ s.fields) : (Val.str n.toList, cst) ∈ t := by
  cases fuel with
  | zero => rw [toTree] at h; cases h
  | succ d =>
    rw [toTree_succ_eq] at h
    cases htf : toTreeFields W d c true mask s.fields with
    | none => simp [htf] at h
    | some declared =>
      simp only [htf, Option.map_some, Option.some.injEq] at h
      subst h
      exact List.mem_append_left _ (toTreeFields_virtual W d c mask n cst hs s.fields declared htf hm)

/-- the clause of `AllCfgs` for one declared field -/
def CfgsAt (R : Schema → Cfg → Prop) : SField → Option Slot → Prop
  | .sub s', some (.node sub) => R s' sub
  | .ctype s' _, some (.node sub) => R s' sub
  | .cfgList s' _ _ _, some (.nodes cs) => ∀ x ∈ cs, R s' x
  | _, _ => True

/-- `Q s c` for the configuration and every configuration nested in it (sub-configurations, config types, items of lists
    of configurations), at every depth (to `fuel`) -/
def AllCfgs (Q : Schema → Cfg → Prop) : Nat → Schema → Cfg → Prop
  | 0, _, _ => True
  | d + 1, s, c => Q s c ∧ ∀ k f, s.get k = some f → CfgsAt (AllCfgs Q d) f (c.get k)

/-- the dynamically added fields of a configuration hold plain data -/
def DynPlain (s : Schema) (c : Cfg) : Prop :=
  ∀ k ∈ c.dyn, s.get k = none → ∀ v, c.get k = some (.val v) → v.plain = true

theorem dynPlain_of_nil {s : Schema} {c : Cfg} (h : c.dyn = []) : DynPlain s c := by
  intro k hk
  rw [h] at hk
  cases hk

/-- what `toTree_plain` asks of a held leaf value: the declaration is `Typed`, the value is a validation result or `None` -/
def PlainLeaf (E : CodecEnv) (fs : FieldSpec) (v : Val) : Prop :=
  Typed fs = true ∧ (v = .none ∨ ∃ v0, validate E.toEnv fs v0 = .ok v)

/-- the premises of `toTree_plain` at one fuel -/
def PlainAt (W : World) (d : Nat) : Prop :=
  ∀ (s : Schema) (c : Cfg) (t : List (Val × Val)), s.keysNodup = true → Shaped d s c →
    AllLeaves (PlainLeaf W.fe) d s c → AllCfgs DynPlain d s c → toTree W d s c false none = some t →
    Val.plainKvs t = true

theorem toTreeItems_plain {W : World} {d : Nat} (hrec : PlainAt W d) (s' : Schema) (hnd : s'.keysNodup = true) :
    ∀ (cs : List Cfg) (ts : List Val),
      (∀ x ∈ cs, Shaped d s' x ∧ AllLeaves (PlainLeaf W.fe) d s' x ∧ AllCfgs DynPlain d s' x) →
      toTreeItems W d s' false none cs = some ts → Val.plainList ts = true
  | [], ts, _, h => by
    rw [toTreeItems] at h
    cases h
    rfl
  | x :: rest, ts, hall, h => by
    rw [toTreeItems] at h
    cases hx : toTree W d s' x false none with
    | none => simp [hx] at h
    | some t =>
      cases hr : toTreeItems W d s' false none rest with
      | none => simp [hx, hr] at h
      | some ts' =>
        simp only [hx, hr, Option.some.injEq] at h
        subst h
        obtain ⟨h1, h2, h3⟩ := hall x (by simp)
        simp only [Val.plainList, Val.plain, Bool.and_eq_true]
        exact ⟨hrec s' x t hnd h1 h2 h3 hx,
          toTreeItems_plain hrec s' hnd rest ts' (fun y hy => hall y (List.mem_cons_of_mem _ hy)) hr⟩

theorem renderField_plain {W : World} {d : Nat} (hE : ∀ m s r, W.fe.encryptS m s = some r → r.plain = true)
    (hrec : PlainAt W d) {c : Cfg} {k : String} {f : SField} {v : Val}
    (hndf : f.every nodupKeys = true) (hsh : ShapedAt (Shaped d) c k f)
    (hl : LeavesAt (PlainLeaf W.fe) d f (c.get k)) (hq : CfgsAt (AllCfgs DynPlain d) f (c.get k))
    (hr : renderField W d c false none k f = some (some v)) : v.plain = true := by
  cases f with
  | virtual cst hs => simp [renderField] at hr
  | method => simp [renderField] at hr
  | leaf fs m =>
    obtain ⟨v0, hget⟩ := hsh
    rw [hget] at hl
    obtain ⟨hT, hv0⟩ : PlainLeaf W.fe fs v0 := hl
    simp only [renderField, hget, Option.isSome_none, Bool.and_false, Bool.false_eq_true, if_false] at hr
    cases htb : toBasic W.fe fs v0 with
    | error e => simp [htb] at hr
    | ok b =>
      simp only [htb, Option.some.injEq] at hr
      subst hr
      exact toBasic_plain W.fe hE fs hT v0 hv0 b htb
  | sub s' =>
    obtain ⟨sub, hget, hshs⟩ := hsh
    rw [hget] at hl hq
    simp only [renderField, hget] at hr
    cases ht : toTree W d s' sub false none with
    | none => simp [ht] at hr
    | some t =>
      simp only [ht, Option.map_some, Option.some.injEq] at hr
      subst hr
      simp only [Val.plain]
      exact hrec s' sub t (by simpa [SField.every, Schema.keysNodup] using hndf) hshs hl hq ht
  | ctype s' kf =>
    obtain ⟨sub, hget, hshs⟩ := hsh
    rw [hget] at hl hq
    simp only [renderField, hget] at hr
    cases ht : toTree W d s' sub false none with
    | none => simp [ht] at hr
    | some t =>
      simp only [ht, Option.map_some, Option.some.injEq] at hr
      subst hr
      simp only [Val.plain]
      exact hrec s' sub t (by simpa [SField.every, Schema.keysNodup] using hndf) hshs hl hq ht
  | cfgList s' it req m =>
    rcases hsh with ⟨_, hget⟩ | ⟨cs, hget, _, hall⟩
    · simp only [renderField, hget, Option.some.injEq] at hr
      subst hr
      rfl
    · rw [hget] at hl hq
      simp only [renderField, hget] at hr
      cases ht : toTreeItems W d s' false none cs with
      | none => simp [ht] at hr
      | some ts =>
        simp only [ht, Option.map_some, Option.some.injEq] at hr
        subst hr
        simp only [Val.plain]
        exact toTreeItems_plain hrec s' (by simpa [SField.every, Schema.keysNodup] using hndf) cs ts
          (fun x hx => ⟨hall x hx, hl x hx, hq x hx⟩) ht

theorem toTreeFields_plain {W : World} {d : Nat} (hE : ∀ m s r, W.fe.encryptS m s = some r → r.plain = true)
    (hrec : PlainAt W d) (s : Schema) (c : Cfg) (hnd : s.keysNodup = true)
    (hsh : ∀ k f, s.get k = some f → ShapedAt (Shaped d) c k f)
    (hl : ∀ k f, s.get k = some f → LeavesAt (PlainLeaf W.fe) d f (c.get k))
    (hq : ∀ k f, s.get k = some f → CfgsAt (AllCfgs DynPlain d) f (c.get k)) :
    ∀ (fields : List (String × SField)) (t : List (Val × Val)), (∀ k f, (k, f) ∈ fields → s.get k = some f) →
      toTreeFields W d c false none fields = some t → Val.plainKvs t = true
  | [], t, _, h => by
    rw [toTreeFields] at h
    cases h
    rfl
  | (k, f) :: rest, t, hsub, h => by
    rw [toTreeFields] at h
    have hk : s.get k = some f := hsub k f (by simp)
    cases hrf : renderField W d c false none k f with
    | none => simp [hrf] at h
    | some ov =>
      cases htr : toTreeFields W d c false none rest with
      | none => cases ov <;> simp [hrf, htr] at h
      | some t' =>
        have ih := toTreeFields_plain hE hrec s c hnd hsh hl hq rest t'
          (fun k' f' hm => hsub k' f' (List.mem_cons_of_mem _ hm)) htr
        cases ov with
        | none => simp only [hrf, htr, Option.some.injEq] at h; subst h; exact ih
        | some v =>
          simp only [hrf, htr, Option.some.injEq] at h
          subst h
          simp only [Val.plainKvs, Bool.and_eq_true]
          exact ⟨renderField_plain hE hrec (keysNodup_get hnd hk) (hsh k f hk) (hl k f hk) (hq k f hk) hrf, ih⟩

theorem plainAt_all (W : World) (hE : ∀ m s r, W.fe.encryptS m s = some r → r.plain = true) : ∀ d, PlainAt W d
  | 0 => by
    intro s c t _ _ _ _ ht
    rw [toTree] at ht
    cases ht
  | d + 1 => by
    intro s c t hnd hsh hl hq ht
    rw [toTree_succ_eq] at ht
    cases htf : toTreeFields W d c false none s.fields with
    | none => simp [htf] at ht
    | some declared =>
      simp only [htf, Option.map_some, Option.some.injEq] at ht
      subst ht
      apply Val.plainKvs_append
      · exact toTreeFields_plain hE (plainAt_all W hE d) s c hnd hsh.2 (allLeaves_succ_iff.1 hl) hq.2 s.fields declared
          (fun k f hm => mem_lookup_of_nodup (keysNodup_fields hnd) hm) htf
      · rw [Val.plainKvs_iff]
        intro kv hkv
        obtain ⟨n, hn, he⟩ := List.mem_filterMap.1 hkv
        obtain ⟨hk, v, hv, rfl⟩ := dynEntry_some he
        exact ⟨rfl, hq.1 n hn hk v hv⟩

/-- **What `to_tree` writes is plain data** (no virtual output, no mask).  Premises: keys distinct at every level (`to_tree`
    renders every declaration, the premises below speak of the first one of each key); `Shaped` (one slot of the right shape
    per declared storing field); every held leaf, at every depth, is of a `Typed` declaration and is a validation result of
    its field or `None`; the dynamically added fields, at every depth, hold plain data (`dynPlain_of_nil`: in particular when
    there are none); encryption returns plain data. -/
theorem toTree_plain (W : World) (hE : ∀ m s r, W.fe.encryptS m s = some r → r.plain = true)
    (fuel : Nat) (s : Schema) (c : Cfg) (t : List (Val × Val))
    (hnd : s.keysNodup = true) (hsh : Shaped fuel s c) (hl : AllLeaves (PlainLeaf W.fe) fuel s c)
    (hdyn : AllCfgs DynPlain fuel s c) (ht : toTree W fuel s c false none = some t) :
    (Val.dict t).plain = true := by
  simp only [Val.plain]
  exact plainAt_all W hE fuel s c t hnd hsh hl hdyn ht

end Cinco.Config

/-! ## 5. The codec of each field kind -/

namespace Cinco.Field
open Cinco

/-- the exact form of the codec property: what `to_basic` writes for the held value is decoded by `to_python` and accepted by
    `validate`, and the result is the held value itself -/
def Exact (E : CodecEnv) (fs : FieldSpec) (v : Val) : Prop :=
  ∀ b, toBasic E fs v = .ok b → (toPython E fs b).bind (validate E.toEnv fs) = .ok v

theorem toBasic_custom (E : CodecEnv) (k : Kind) (r : Bool) (c : Option String) (v : Val) :
    toBasic E (.mk k r c) v = toBasic E (.mk k r none) v := by simp only [toBasic]

theorem toPython_custom (E : CodecEnv) (k : Kind) (r : Bool) (c : Option String) (v : Val) :
    toPython E (.mk k r c) v = toPython E (.mk k r none) v := by simp only [toPython]

/-- kinds stored as they are -/
def Kind.idCoded : Kind → Bool
  | .any => true
  | .string _ => true
  | .int _ _ => true
  | .float _ _ => true
  | .bool => true
  | .ipv4addr _ => true
  | .ipv4net _ _ _ => true
  | .hostname _ _ => true
  | .filename _ _ _ => true
  | .url _ => true
  | _ => false

theorem idCoded_codec (E : CodecEnv) {k : Kind} (hk : k.idCoded = true) (r : Bool) (c : Option String) (v : Val) :
    toBasic E (.mk k r c) v = .ok v ∧ toPython E (.mk k r c) v = .ok v := by
  rw [toBasic_custom, toPython_custom]
  exact C05.scalar_codec E k r v (by cases k <;> simp_all [Kind.idCoded])

/-- (a) identity-coded kinds: every fixed point of validation survives exactly (custom validators included) -/
theorem exact_idCoded {E : CodecEnv} {k : Kind} {r : Bool} {c : Option String} {v : Val} (hk : k.idCoded = true)
    (hfix : validate E.toEnv (.mk k r c) v = .ok v) : Exact E (.mk k r c) v := by
  intro b hb
  obtain ⟨h1, h2⟩ := idCoded_codec E hk r c v
  rw [h1] at hb
  cases hb
  rw [h2]
  exact hfix

/-- (b) bytes, both encodings -/
theorem exact_bytes {E : CodecEnv} {enc : Enc} {r : Bool} {c : Option String} {v : Val}
    (hfix : validate E.toEnv (.mk (.bytes enc) r c) v = .ok v) : Exact E (.mk (.bytes enc) r c) v := by
  intro b hb
  cases v with
  | none =>
    simp only [toBasic, toBasicKind, Except.ok.injEq] at hb
    subst hb
    simp only [toPython, toPythonKind, Except.bind]
    exact hfix
  | bytes x =>
    have h := C05.bytes_codec E enc r x
    rw [toBasic_custom] at hb
    rw [hb] at h
    simp only [Except.bind] at h
    rw [toPython_custom, h]
    exact hfix
  | _ => simp [toBasic, toBasicKind] at hb

/-- (c) digests of the field's own algorithm (a digest of another algorithm is a fixed point of validation too, but comes
    back relabelled with the field's algorithm: finding F23) -/
theorem exact_challenge {E : CodecEnv} {alg : String} {r : Bool} {c : Option String} {v : Val}
    (hfix : validate E.toEnv (.mk (.challenge alg) r c) v = .ok v) (hown : ∀ s d a, v = .digest s d a → a = alg) :
    Exact E (.mk (.challenge alg) r c) v := by
  intro b hb
  cases v with
  | none =>
    simp only [toBasic, toBasicKind, Except.ok.injEq] at hb
    subst hb
    simp only [toPython, toPythonKind, Except.bind]
    exact hfix
  | digest s d a =>
    have ha := hown s d a rfl
    subst ha
    have h := C05.challenge_codec E a r s d
    rw [toBasic_custom] at hb
    rw [hb] at h
    simp only [Except.bind] at h
    rw [toPython_custom, h]
    exact hfix
  | _ => simp [toBasic, toBasicKind] at hb

/-- the fixed points of a `SecureField` are `None` and text -/
theorem secure_fixed_shape {E : Env} {m : String} {r : Bool} {c : Option String} {v w : Val}
    (h : validate E (.mk (.secure m) r c) v = .ok w) : v = .none ∨ ∃ s, v = .str s ∧ (r && s.isEmpty) = false := by
  rcases validate_inv h with ⟨h1, _⟩ | ⟨_, w', hk, _⟩
  · exact Or.inl h1
  · simp only [validateKind] at hk
    cases v with
    | str s =>
      simp only [secureRule] at hk
      by_cases hc : (r && s.isEmpty) = true
      · rw [if_pos hc] at hk; cases hk
      · exact Or.inr ⟨s, rfl, Bool.eq_false_iff.2 hc⟩
    | _ => simp [secureRule] at hk

/-- (d) secrets, except the empty one (which is written as `None` and comes back as `None`: `codecOk_secure`) -/
theorem exact_secure {E : CodecEnv} {m : String} {r : Bool} {c : Option String} {v : Val}
    (hS : ∀ m s r, s ≠ [] → E.encryptS m s = some r → E.decryptS r = some (some s)) (hN : E.decryptS .none = some none)
    (hfix : validate E.toEnv (.mk (.secure m) r c) v = .ok v) (hne : v ≠ .str []) : Exact E (.mk (.secure m) r c) v := by
  intro b hb
  rcases secure_fixed_shape hfix with rfl | ⟨s, rfl, _⟩
  · simp [toBasic, toBasicKind, Val.truthy] at hb
    subst hb
    simp only [toPython, toPythonKind, hN, Except.bind]
    exact hfix
  · cases s with
    | nil => exact absurd rfl hne
    | cons a l =>
      simp only [toBasic, toBasicKind, List.isEmpty_cons, Bool.false_eq_true, if_false] at hb
      cases he : E.encryptS m (a :: l) with
      | none => simp [he] at hb
      | some x =>
        simp only [he, Except.ok.injEq] at hb
        subst hb
        simp only [toPython, toPythonKind, hS m (a :: l) x (by simp) he, Except.bind]
        exact hfix

/-! ### Lists -/

theorem toBasicOpt_untyped {E : CodecEnv} {item : Option FieldSpec} (hu : untypedItem item = true) (x : Val) :
    toBasicOpt E item x = .ok x := by
  cases item with
  | none => rfl
  | some f =>
    obtain ⟨k, r, c⟩ := f
    simp only [untypedItem] at hu
    cases k <;> simp [Kind.isAny] at hu
    simp [toBasicOpt, toBasic, toBasicKind]

theorem decodeItems_untyped {E : CodecEnv} {item : Option FieldSpec} (hu : untypedItem item = true) (v : Val) :
    decodeItems E item v = none := by
  cases item with
  | none => rfl
  | some f => obtain ⟨k, r, c⟩ := f; simp only [untypedItem] at hu; simp [decodeItems, hu]

/-- (g) untyped lists (no item field, or an `AnyField`): everything but a tuple survives exactly — `to_basic` writes a
    tuple as a list, and nothing turns it back -/
theorem exact_list_untyped {E : CodecEnv} {item : Option FieldSpec} {r : Bool} {c : Option String} {v : Val}
    (hu : untypedItem item = true) (hfix : validate E.toEnv (.mk (.list item) r c) v = .ok v) (hnt : ∀ xs, v ≠ .tuple xs) :
    Exact E (.mk (.list item) r c) v := by
  intro b hb
  have hb' : b = v := by
    cases v with
    | none => simp only [toBasic, toBasicKind, Except.ok.injEq] at hb; exact hb.symm
    | list xs =>
      simp only [toBasic, toBasicKind] at hb
      rw [mapR_of_fixed (fun x _ => toBasicOpt_untyped hu x)] at hb
      simp only [Except.map, Except.ok.injEq] at hb
      exact hb.symm
    | tuple xs => exact absurd rfl (hnt xs)
    | _ => simp [toBasic, toBasicKind] at hb
  subst hb'
  simp only [toPython, toPythonKind, decodeItems_untyped hu, Except.bind]
  exact hfix

theorem toPythonKind_list_typed {E : CodecEnv} {k : Kind} {r : Bool} {c : Option String} (hany : k.isAny = false)
    {bs ds xs : List Val} (hg : mapR (fun x => toPython E (.mk k r c) x) bs = .ok ds)
    (hh : mapR (fun x => validate E.toEnv (.mk k r c) x) ds = .ok xs) :
    toPythonKind E (.list (some (.mk k r c))) (.list bs) = .ok (.list xs) := by
  simp [toPythonKind, decodeItems, validateItems, hany, hg, hh, Except.map]

/-- the fixed points of a typed list field (no custom validator on the list itself) are `None` and lists of fixed points of
    the item field -/
theorem list_fixed_shape {E : Env} {item : Option FieldSpec} {req : Bool} {v : Val} (hu : untypedItem item = false)
    (hfix : validate E (.mk (.list item) req none) v = .ok v) :
    v = .none ∨ ∃ xs, v = .list xs ∧ ∀ x ∈ xs, validateOpt E item x = .ok x := by
  rcases validate_inv_nc hfix with ⟨h1, _⟩ | ⟨_, hk⟩
  · exact Or.inl h1
  · obtain ⟨xs, hv, _, hcase⟩ := validateKind_list_inv hk
    obtain ⟨f, hf, hvi⟩ := validateItems_typed (E := E) xs hu
    rcases hcase with ⟨hn, _⟩ | ⟨ys, hys, hw⟩
    · rw [hvi] at hn; cases hn
    · rw [hvi] at hys
      simp only [Option.some.injEq] at hys
      rcases hv with hv | hv
      · rw [hv] at hw
        cases hw
        refine Or.inr ⟨xs, hv, ?_⟩
        intro x hx
        rw [hf]
        simp only [validateOpt]
        exact mapR_fixed_mem hys x hx
      · rw [hv] at hw; cases hw

/-- (e) typed lists: a held list of fixed points of the item field survives exactly when each item does -/
theorem exact_list_typed {E : CodecEnv} {item : Option FieldSpec} {req : Bool} {v : Val} (hu : untypedItem item = false)
    (hfix : validate E.toEnv (.mk (.list item) req none) v = .ok v) (hne : v ≠ .none)
    (hitems : ∀ xs, v = .list xs → ∀ x ∈ xs, validateOpt E.toEnv item x = .ok x →
      ∀ b, toBasicOpt E item x = .ok b → (toPythonOpt E item b).bind (fun y => validateOpt E.toEnv item y) = .ok x) :
    Exact E (.mk (.list item) req none) v := by
  intro b hb
  rcases list_fixed_shape hu hfix with h0 | ⟨xs, rfl, hfx⟩
  · exact absurd h0 hne
  · cases item with
    | none => simp [untypedItem] at hu
    | some f =>
      obtain ⟨k, r, c⟩ := f
      simp only [untypedItem] at hu
      simp only [toBasic, toBasicKind] at hb
      cases hm : mapR (fun x => toBasicOpt E (some (.mk k r c)) x) xs with
      | error e => simp [hm, Except.map] at hb
      | ok bs =>
        simp [hm, Except.map] at hb
        subst hb
        obtain ⟨ds, hg, hh⟩ := mapR_pipeline (f := fun x => toBasicOpt E (some (.mk k r c)) x)
          (g := fun x => toPython E (.mk k r c) x) (h := fun x => validate E.toEnv (.mk k r c) x)
          (fun x hx b hxb => by
            have := hitems xs rfl x hx (hfx x hx) b hxb
            simpa only [toPythonOpt, validateOpt] using this) hm
        simp only [toPython, toPythonKind_list_typed hu hg hh, Except.bind]
        exact hfix

/-- an unset typed list is written as `None` and loads as the empty list, which the field accepts when it is not required -/
theorem list_none_codec {E : CodecEnv} {item : Option FieldSpec} (hu : untypedItem item = false) :
    toPython E (.mk (.list item) false none) .none = .ok (.list []) ∧
    validate E.toEnv (.mk (.list item) false none) (.list []) = .ok (.list []) := by
  cases item with
  | none => simp [untypedItem] at hu
  | some f =>
    obtain ⟨k, r, c⟩ := f
    simp only [untypedItem] at hu
    constructor
    · simp [toPython, toPythonKind, decodeItems, hu, iterForList, validateItems, mapR, Except.map]
    · simp [validate, validateKind, validateItems, hu, mapR, Except.map]

/-! ### Dicts -/

theorem dictSet_length (k v : Val) (d : List (Val × Val)) :
    (dictSet k v d).length = if k ∈ keysD d then d.length else d.length + 1 := by
  by_cases hm : k ∈ keysD d
  · rw [if_pos hm]
    have := congrArg List.length (dictSet_keys_mem v hm)
    simpa [keysD] using this
  · rw [if_neg hm, dictSet_not_mem v hm]
    simp

theorem foldl_dictSet_length_le : ∀ (es acc : List (Val × Val)),
    (es.foldl (fun a (kv : Val × Val) => dictSet kv.1 kv.2 a) acc).length ≤ acc.length + es.length
  | [], acc => by simp
  | (k, v) :: rest, acc => by
    simp only [List.foldl_cons, List.length_cons]
    have ih := foldl_dictSet_length_le rest (dictSet k v acc)
    have h1 := dictSet_length k v acc
    split at h1 <;> omega

theorem foldl_dictSet_eq_of_length : ∀ (es acc : List (Val × Val)),
    (es.foldl (fun a (kv : Val × Val) => dictSet kv.1 kv.2 a) acc).length = acc.length + es.length →
    es.foldl (fun a (kv : Val × Val) => dictSet kv.1 kv.2 a) acc = acc ++ es
  | [], acc, _ => by simp
  | (k, v) :: rest, acc, h => by
    simp only [List.foldl_cons, List.length_cons] at h ⊢
    have hle := foldl_dictSet_length_le rest (dictSet k v acc)
    have h1 := dictSet_length k v acc
    by_cases hm : k ∈ keysD acc
    · rw [if_pos hm] at h1; omega
    · rw [if_neg hm] at h1
      have := foldl_dictSet_eq_of_length rest (dictSet k v acc) (by omega)
      rw [this, dictSet_not_mem v hm]
      simp

/-- a dict that loses no entry when rebuilt is rebuilt as itself -/
theorem buildDict_eq_of_length (es : List (Val × Val)) (h : (buildDict es).length = es.length) : buildDict es = es := by
  unfold buildDict at h ⊢
  have := foldl_dictSet_eq_of_length es [] (by simpa using h)
  simpa using this

theorem mapEntries_length {fk fv : Val → R Val} : ∀ {es es' : List (Val × Val)}, mapEntries fk fv es = .ok es' →
    es'.length = es.length
  | [], es', h => by simp [mapEntries] at h; cases h; rfl
  | (k, v) :: rest, es', h => by
    obtain ⟨k', v', rest', _, _, hr, rfl⟩ := mapEntries_cons_ok h
    simp [mapEntries_length hr]

/-- every entry given to `mapEntries` has its image among the results -/
theorem mapEntries_forward {fk fv : Val → R Val} : ∀ {es es' : List (Val × Val)}, mapEntries fk fv es = .ok es' →
    ∀ kv ∈ es, ∃ kv' ∈ es', fk kv.1 = .ok kv'.1 ∧ fv kv.2 = .ok kv'.2
  | [], _, _ => by simp
  | (k, v) :: rest, es', h => by
    obtain ⟨k', v', rest', hk, hv, hr, rfl⟩ := mapEntries_cons_ok h
    intro kv hkv
    rcases List.mem_cons.1 hkv with rfl | hm
    · exact ⟨(k', v'), by simp, hk, hv⟩
    · obtain ⟨kv', hkv', h1, h2⟩ := mapEntries_forward hr kv hm
      exact ⟨kv', List.mem_cons_of_mem _ hkv', h1, h2⟩

/-- the fixed points of a typed dict field (no custom validator on the dict itself) are `None` and dicts with pairwise
    distinct keys whose keys and values are fixed points of the key and value fields -/
theorem dict_fixed_shape {E : Env} {kf vf : Option FieldSpec} {req : Bool} {v : Val} (hnn : (kf.isNone && vf.isNone) = false)
    (hfix : validate E (.mk (.dict kf vf) req none) v = .ok v) :
    v = .none ∨ ∃ kvs, v = .dict kvs ∧ (keysD kvs).Nodup ∧
      mapEntries (fun x => validateOpt E kf x) (fun x => validateOpt E vf x) kvs = .ok kvs := by
  rcases validate_inv_nc hfix with ⟨h1, _⟩ | ⟨_, hk⟩
  · exact Or.inl h1
  · obtain ⟨kvs, hv, _, hcase⟩ := validateKind_dict_inv hk
    rcases hcase with ⟨hc, _⟩ | ⟨_, es, hm, hw⟩
    · rw [hnn] at hc; cases hc
    · rw [hv] at hw
      simp only [Val.dict.injEq] at hw
      have hlen : (buildDict es).length = es.length := by rw [← hw, mapEntries_length hm]
      have hes : es = kvs := by rw [hw]; exact (buildDict_eq_of_length es hlen).symm
      subst hes
      exact Or.inr ⟨es, hv, by rw [hw]; exact buildDict_nodup es, hm⟩

/-- encode every entry, decode every entry, validate every entry: if each key and each value survives, and the keys are
    pairwise distinct, then the keys stay pairwise distinct at every stage and the entries come back -/
theorem dict_pipeline {fk fv gk gv hk hv : Val → R Val} : ∀ {kvs bs : List (Val × Val)},
    (∀ kv ∈ kvs, (∀ b, fk kv.1 = .ok b → (gk b).bind hk = .ok kv.1) ∧ (∀ b, fv kv.2 = .ok b → (gv b).bind hv = .ok kv.2)) →
    (keysD kvs).Nodup → mapPairs fk fv kvs = .ok bs →
    ∃ ds, (keysD bs).Nodup ∧ mapPairs gk gv bs = .ok ds ∧ (keysD ds).Nodup ∧ mapEntries hk hv ds = .ok kvs
  | [], bs, _, _, hm => by
    simp [mapPairs] at hm
    cases hm
    exact ⟨[], by simp [keysD], rfl, by simp [keysD], rfl⟩
  | (k, v) :: rest, bs, hall, hnd, hm => by
    obtain ⟨bk, bv, bs', hfk, hfv, hr, rfl⟩ := mapPairs_cons_ok hm
    simp only [keysD, List.map_cons, List.nodup_cons] at hnd
    have hnd' : (keysD rest).Nodup := hnd.2
    have hall' : ∀ kv ∈ rest, (∀ b, fk kv.1 = .ok b → (gk b).bind hk = .ok kv.1) ∧
        (∀ b, fv kv.2 = .ok b → (gv b).bind hv = .ok kv.2) := fun kv h => hall kv (List.mem_cons_of_mem _ h)
    obtain ⟨ds', hnb, hg, hnds, hh⟩ := dict_pipeline hall' hnd' hr
    have h1 := (hall (k, v) (by simp)).1 bk hfk
    have h2 := (hall (k, v) (by simp)).2 bv hfv
    cases hgk : gk bk with
    | error e => simp [hgk, Except.bind] at h1
    | ok dk =>
      cases hgv : gv bv with
      | error e => simp [hgv, Except.bind] at h2
      | ok dv =>
        simp only [hgk, Except.bind] at h1
        simp only [hgv, Except.bind] at h2
        refine ⟨(dk, dv) :: ds', ?_, mapPairs_cons_of hgk hgv hg, ?_, mapEntries_cons_of h1 h2 hh⟩
        · simp only [keysD, List.map_cons, List.nodup_cons]
          refine ⟨?_, hnb⟩
          intro hmem
          obtain ⟨kv', hkv', he⟩ := mem_keysD.1 hmem
          obtain ⟨kv, hkv, h3, _⟩ := mapPairs_results hr kv' hkv'
          rw [he] at h3
          have h4 := (hall' kv hkv).1 bk h3
          simp only [hgk, Except.bind, h1, Except.ok.injEq] at h4
          exact hnd.1 (by rw [h4]; exact mem_keysD_of_mem hkv)
        · simp only [keysD, List.map_cons, List.nodup_cons]
          refine ⟨?_, hnds⟩
          intro hmem
          obtain ⟨e, he, hee⟩ := mem_keysD.1 hmem
          obtain ⟨kv, hkv, h3, _⟩ := mapEntries_forward hh e he
          rw [hee, h1] at h3
          simp only [Except.ok.injEq] at h3
          exact hnd.1 (by rw [h3]; exact mem_keysD_of_mem hkv)

theorem toPythonKind_dict_typed {E : CodecEnv} {kf vf : Option FieldSpec} (hnn : (kf.isNone && vf.isNone) = false)
    {bs ds es : List (Val × Val)}
    (h1 : mapPairs (fun x => toPythonOpt E kf x) (fun x => toPythonOpt E vf x) bs = .ok ds)
    (h2 : mapEntries (fun x => validateOpt E.toEnv kf x) (fun x => validateOpt E.toEnv vf x) (buildDict ds) = .ok es) :
    toPythonKind E (.dict kf vf) (.dict bs) = .ok (.dict (buildDict es)) := by
  simp [toPythonKind, hnn, h1, h2, Except.map]

/-- (f) typed dicts: a held dict survives exactly when each key and each value does (the keys of a fixed point are pairwise
    distinct, and exact survival of the keys keeps their written and decoded forms pairwise distinct) -/
theorem exact_dict_typed {E : CodecEnv} {kf vf : Option FieldSpec} {req : Bool} {v : Val}
    (hnn : (kf.isNone && vf.isNone) = false)
    (hfix : validate E.toEnv (.mk (.dict kf vf) req none) v = .ok v) (hne : v ≠ .none)
    (hent : ∀ kvs, v = .dict kvs → ∀ kv ∈ kvs,
      (validateOpt E.toEnv kf kv.1 = .ok kv.1 → ∀ b, toBasicOpt E kf kv.1 = .ok b →
        (toPythonOpt E kf b).bind (fun y => validateOpt E.toEnv kf y) = .ok kv.1) ∧
      (validateOpt E.toEnv vf kv.2 = .ok kv.2 → ∀ b, toBasicOpt E vf kv.2 = .ok b →
        (toPythonOpt E vf b).bind (fun y => validateOpt E.toEnv vf y) = .ok kv.2)) :
    Exact E (.mk (.dict kf vf) req none) v := by
  intro b hb
  rcases dict_fixed_shape hnn hfix with h0 | ⟨kvs, rfl, hnd, hme⟩
  · exact absurd h0 hne
  · simp only [toBasic, toBasicKind, hnn, Bool.false_eq_true, if_false] at hb
    cases hm : mapPairs (fun x => toBasicOpt E kf x) (fun x => toBasicOpt E vf x) kvs with
    | error e => simp [hm, Except.map] at hb
    | ok bs =>
      simp [hm, Except.map] at hb
      subst hb
      have hfixed := mapEntries_fixed_mem hme
      obtain ⟨ds, hnb, hg, hnds, hh⟩ := dict_pipeline (fk := fun x => toBasicOpt E kf x) (fv := fun x => toBasicOpt E vf x)
        (gk := fun x => toPythonOpt E kf x) (gv := fun x => toPythonOpt E vf x)
        (hk := fun x => validateOpt E.toEnv kf x) (hv := fun x => validateOpt E.toEnv vf x)
        (fun kv hkv => ⟨(hent kvs rfl kv hkv).1 (hfixed kv hkv).1, (hent kvs rfl kv hkv).2 (hfixed kv hkv).2⟩) hnd hm
      rw [buildDict_of_nodup bs hnb]
      have hh' : mapEntries (fun x => validateOpt E.toEnv kf x) (fun x => validateOpt E.toEnv vf x) (buildDict ds) = .ok kvs := by
        rw [buildDict_of_nodup ds hnds]; exact hh
      simp only [toPython, toPythonKind_dict_typed hnn hg hh', buildDict_of_nodup kvs hnd, Except.bind]
      exact hfix

/-- (g) untyped dicts are stored as they are -/
theorem exact_dict_untyped {E : CodecEnv} {kf vf : Option FieldSpec} {r : Bool} {c : Option String} {v : Val}
    (hnn : (kf.isNone && vf.isNone) = true) (hfix : validate E.toEnv (.mk (.dict kf vf) r c) v = .ok v) :
    Exact E (.mk (.dict kf vf) r c) v := by
  intro b hb
  have hb' : b = v := by
    cases v <;> simp [toBasic, toBasicKind, hnn] at hb <;> exact hb.symm
  subst hb'
  simp only [toPython, toPythonKind, hnn, if_true, Except.bind]
  exact hfix

/-- an unset typed dict is written as `None` and loads as the empty dict, which the field accepts when it is not required -/
theorem dict_none_codec {E : CodecEnv} {kf vf : Option FieldSpec} (hnn : (kf.isNone && vf.isNone) = false) :
    toPython E (.mk (.dict kf vf) false none) .none = .ok (.dict []) ∧
    validate E.toEnv (.mk (.dict kf vf) false none) (.dict []) = .ok (.dict []) := by
  constructor
  · simp [toPython, toPythonKind, hnn, iterForDict, Val.truthy, mapEntries, Except.map, buildDict]
  · simp [validate, validateKind, hnn, mapEntries, Except.map, buildDict]

end Cinco.Field

/-! ## 6. The combined codec theorem -/

namespace Cinco.Field
open Cinco

/-- a list with a typing item field, or a dict with a key or value field: `to_python` rebuilds the validating proxy -/
def Kind.typedContainer : Kind → Bool
  | .list item => !untypedItem item
  | .dict kf vf => !(kf.isNone && vf.isNone)
  | _ => false

mutual
  /-- the declarations covered by `codecOk_of_supported`: every kind, with any options, with or without custom validator —
      except that a *typed* list or dict field must not itself carry a custom validator (its fixed points would say nothing
      about its items), at every nesting level -/
  def Supported : FieldSpec → Bool
    | .mk k _ c => (c.isNone || !k.typedContainer) && SupportedKind k
  def SupportedOpt : Option FieldSpec → Bool
    | none => true
    | some f => Supported f
  def SupportedKind : Kind → Bool
    | .list item => SupportedOpt item
    | .dict kf vf => SupportedOpt kf && SupportedOpt vf
    | _ => true
end

mutual
  /-- the held values that survive save + reload *exactly*: everything, except
      * a digest labelled with another algorithm than the field's (finding F23),
      * the empty secret (written as `None`),
      * `None` under a typed list / dict field (loads as `[]` / `{}`),
      * a tuple under an untyped list field (written as a list),
      at every nesting level.  At top level the second and third are the normalisations `LeafSame` allows (`TopCanon`); inside a
      list or dict they are not. -/
  def Canon : FieldSpec → Val → Prop
    | .mk k _ _, v => CanonKind k v
  def CanonOpt : Option FieldSpec → Val → Prop
    | none, _ => True
    | some f, v => Canon f v
  def CanonKind : Kind → Val → Prop
    | .challenge alg, v => ∀ s d a, v = .digest s d a → a = alg
    | .secure _, v => v ≠ .str []
    | .list item, v => (untypedItem item = true ∧ ∀ xs, v ≠ .tuple xs) ∨
        (untypedItem item = false ∧ v ≠ .none ∧ ∀ xs, v = .list xs → ∀ x ∈ xs, CanonOpt item x)
    | .dict kf vf, v => (kf.isNone && vf.isNone) = true ∨
        (v ≠ .none ∧ ∀ kvs, v = .dict kvs → ∀ kv ∈ kvs, CanonOpt kf kv.1 ∧ CanonOpt vf kv.2)
    | _, _ => True
end

mutual
  /-- **Exact survival**, for every supported declaration, every fixed point of its validation, at every nesting depth. -/
  theorem exact_codec (E : CodecEnv)
      (hS : ∀ m s r, s ≠ [] → E.encryptS m s = some r → E.decryptS r = some (some s)) (hN : E.decryptS .none = some none) :
      ∀ (fs : FieldSpec) (v : Val), Supported fs = true → validate E.toEnv fs v = .ok v → Canon fs v → Exact E fs v
    | .mk (.list item) req c, v, hsup, hfix, hcan => by
      by_cases hu : untypedItem item = true
      · simp only [Canon, CanonKind] at hcan
        rcases hcan with ⟨_, hnt⟩ | ⟨hu', _⟩
        · exact exact_list_untyped hu hfix hnt
        · rw [hu] at hu'; cases hu'
      · have hu' : untypedItem item = false := Bool.eq_false_iff.2 hu
        simp only [Supported, SupportedKind, Kind.typedContainer, hu', Bool.and_eq_true] at hsup
        obtain ⟨hc, hitem⟩ := hsup
        have hc : c = none := by simpa using hc
        subst hc
        simp only [Canon, CanonKind] at hcan
        rcases hcan with ⟨h1, _⟩ | ⟨_, hne, hall⟩
        · exact absurd h1 hu
        · exact exact_list_typed hu' hfix hne
            (fun xs hxs x hx hvx b hb => exactOpt_codec E hS hN item x hitem hvx (hall xs hxs x hx) b hb)
    | .mk (.dict kf vf) req c, v, hsup, hfix, hcan => by
      by_cases hnn : (kf.isNone && vf.isNone) = true
      · exact exact_dict_untyped hnn hfix
      · have hnn' : (kf.isNone && vf.isNone) = false := Bool.eq_false_iff.2 hnn
        simp only [Supported, SupportedKind, Kind.typedContainer, hnn', Bool.and_eq_true] at hsup
        obtain ⟨hc, hkf, hvf⟩ := hsup
        have hc : c = none := by simpa using hc
        subst hc
        simp only [Canon, CanonKind] at hcan
        rcases hcan with h1 | ⟨hne, hall⟩
        · exact absurd h1 hnn
        · exact exact_dict_typed hnn' hfix hne
            (fun kvs hkvs kv hkv =>
              ⟨fun hvk b hb => exactOpt_codec E hS hN kf kv.1 hkf hvk (hall kvs hkvs kv hkv).1 b hb,
               fun hvv b hb => exactOpt_codec E hS hN vf kv.2 hvf hvv (hall kvs hkvs kv hkv).2 b hb⟩)
    | .mk .any req c, v, _, hfix, _ => exact_idCoded rfl hfix
    | .mk (.string o) req c, v, _, hfix, _ => exact_idCoded rfl hfix
    | .mk (.int mn mx) req c, v, _, hfix, _ => exact_idCoded rfl hfix
    | .mk (.float mn mx) req c, v, _, hfix, _ => exact_idCoded rfl hfix
    | .mk .bool req c, v, _, hfix, _ => exact_idCoded rfl hfix
    | .mk (.ipv4addr o) req c, v, _, hfix, _ => exact_idCoded rfl hfix
    | .mk (.ipv4net o mn mx) req c, v, _, hfix, _ => exact_idCoded rfl hfix
    | .mk (.hostname o a) req c, v, _, hfix, _ => exact_idCoded rfl hfix
    | .mk (.filename o ex sd) req c, v, _, hfix, _ => exact_idCoded rfl hfix
    | .mk (.url o) req c, v, _, hfix, _ => exact_idCoded rfl hfix
    | .mk (.bytes enc) req c, v, _, hfix, _ => exact_bytes hfix
    | .mk (.challenge alg) req c, v, _, hfix, hcan => exact_challenge hfix (by simpa only [Canon, CanonKind] using hcan)
    | .mk (.secure m) req c, v, _, hfix, hcan => exact_secure hS hN hfix (by simpa only [Canon, CanonKind] using hcan)
  theorem exactOpt_codec (E : CodecEnv)
      (hS : ∀ m s r, s ≠ [] → E.encryptS m s = some r → E.decryptS r = some (some s)) (hN : E.decryptS .none = some none) :
      ∀ (o : Option FieldSpec) (v : Val), SupportedOpt o = true → validateOpt E.toEnv o v = .ok v → CanonOpt o v →
        ∀ b, toBasicOpt E o v = .ok b → (toPythonOpt E o b).bind (fun y => validateOpt E.toEnv o y) = .ok v
    | none, v, _, _, _, b, hb => by
      simp only [toBasicOpt, Except.ok.injEq] at hb
      subst hb
      simp only [toPythonOpt, validateOpt, Except.bind]
    | some f, v, hsup, hfix, hcan, b, hb => by
      simp only [SupportedOpt] at hsup
      simp only [validateOpt] at hfix
      simp only [CanonOpt] at hcan
      simp only [toBasicOpt] at hb
      simp only [toPythonOpt, validateOpt]
      exact exact_codec E hS hN f v hsup hfix hcan b hb
end

/-- what `codecOk_of_supported` asks of the held value besides being a fixed point of validation: it survives exactly
    (`Canon`), or it is one of the two normal forms that `LeafSame` lets through at top level -/
def TopCanon (fs : FieldSpec) (v : Val) : Prop :=
  Canon fs v ∨ (v = .none ∧ fs.kind.typedContainer = true) ∨ (v = .str [] ∧ ∃ m, fs.kind = .secure m)

/-- kinds under which every fixed point survives exactly -/
def Kind.leafy : Kind → Bool
  | .bytes _ => true
  | k => k.idCoded

def FlatOpt : Option FieldSpec → Bool
  | none => true
  | some (.mk k _ _) => k.leafy

/-- declarations for which *every* fixed point of validation satisfies `TopCanon` (so that `codecOk_of_flat` has no condition on
    the held value): identity-coded kinds, bytes, secrets; typed lists and dicts whose item / key / value fields are of
    identity-coded kinds or bytes (and which carry no custom validator themselves); untyped dicts.  Not: challenges (a digest
    of a foreign algorithm is a fixed point), untyped lists (a tuple is a fixed point), containers of containers or of secrets
    (`None` / the empty secret inside a container are fixed points that come back changed). -/
def Flat : FieldSpec → Bool
  | .mk (.list item) _ c => !untypedItem item && c.isNone && FlatOpt item
  | .mk (.dict kf vf) _ c => (kf.isNone && vf.isNone) || (c.isNone && FlatOpt kf && FlatOpt vf)
  | .mk (.challenge _) _ _ => false
  | .mk _ _ _ => true

theorem leafy_props {k : Kind} (h : k.leafy = true) : k.typedContainer = false ∧ SupportedKind k = true ∧ ∀ v, CanonKind k v := by
  cases k <;> simp [Kind.leafy, Kind.idCoded] at h <;> simp [Kind.typedContainer, SupportedKind, CanonKind]

theorem flatOpt_props : ∀ {o : Option FieldSpec}, FlatOpt o = true → SupportedOpt o = true ∧ ∀ v, CanonOpt o v
  | none, _ => ⟨rfl, fun _ => trivial⟩
  | some (.mk k r c), h => by
    simp only [FlatOpt] at h
    obtain ⟨h1, h2, h3⟩ := leafy_props h
    refine ⟨?_, fun v => ?_⟩
    · simp [SupportedOpt, Supported, h1, h2]
    · simp only [CanonOpt, Canon]; exact h3 v

theorem flat_supported : ∀ {fs : FieldSpec}, Flat fs = true → Supported fs = true
  | .mk k r c, h => by
    cases k with
    | list item =>
      simp only [Flat, Bool.and_eq_true] at h
      obtain ⟨⟨_, hc⟩, hi⟩ := h
      simp [Supported, SupportedKind, hc, (flatOpt_props hi).1]
    | dict kf vf =>
      simp only [Flat, Bool.or_eq_true, Bool.and_eq_true] at h
      rcases h with h | ⟨⟨hc, h1⟩, h2⟩
      · simp only [Option.isNone_iff_eq_none] at h
        obtain ⟨rfl, rfl⟩ := h
        simp [Supported, SupportedKind, SupportedOpt, Kind.typedContainer]
      · simp [Supported, SupportedKind, hc, (flatOpt_props h1).1, (flatOpt_props h2).1]
    | challenge alg => simp [Flat] at h
    | _ => simp [Supported, SupportedKind, Kind.typedContainer]

theorem flat_topCanon : ∀ {fs : FieldSpec}, Flat fs = true → ∀ v, TopCanon fs v
  | .mk k r c, h, v => by
    cases k with
    | list item =>
      simp only [Flat, Bool.and_eq_true, Bool.not_eq_true'] at h
      obtain ⟨⟨hu, _⟩, hi⟩ := h
      by_cases hv : v = .none
      · exact Or.inr (Or.inl ⟨hv, by simp [FieldSpec.kind, Kind.typedContainer, hu]⟩)
      · refine Or.inl ?_
        simp only [Canon, CanonKind]
        exact Or.inr ⟨hu, hv, fun xs _ x _ => (flatOpt_props hi).2 x⟩
    | dict kf vf =>
      simp only [Flat, Bool.or_eq_true, Bool.and_eq_true] at h
      rcases h with h | ⟨⟨_, h1⟩, h2⟩
      · refine Or.inl ?_
        simp only [Canon, CanonKind]
        exact Or.inl (by simpa using h)
      · by_cases hnn : (kf.isNone && vf.isNone) = true
        · refine Or.inl ?_
          simp only [Canon, CanonKind]
          exact Or.inl hnn
        · by_cases hv : v = .none
          · exact Or.inr (Or.inl ⟨hv, by simp only [FieldSpec.kind, Kind.typedContainer, Bool.eq_false_iff.2 hnn]; rfl⟩)
          · refine Or.inl ?_
            simp only [Canon, CanonKind]
            exact Or.inr ⟨hv, fun kvs _ kv _ => ⟨(flatOpt_props h1).2 kv.1, (flatOpt_props h2).2 kv.2⟩⟩
    | secure m =>
      by_cases hv : v = .str []
      · exact Or.inr (Or.inr ⟨hv, m, rfl⟩)
      · refine Or.inl ?_
        simp only [Canon, CanonKind]
        exact hv
    | challenge alg => simp [Flat] at h
    | _ => exact Or.inl (by simp only [Canon, CanonKind])

end Cinco.Field

namespace Cinco.Config
open Cinco Cinco.Field

theorem codecOk_of_exact {W : World} {fs : FieldSpec} {v : Val} (h : Exact W.fe fs v) : CodecOk W fs v :=
  fun b hb => ⟨v, h b hb, Or.inl rfl⟩

/-- the empty secret: written as `None`, comes back as `None` -/
theorem codecOk_secure_empty (W : World) (hN : W.fe.decryptS .none = some none) {m : String} {r : Bool} {c : Option String}
    (hfix : validate W.fe.toEnv (.mk (.secure m) r c) (.str []) = .ok (.str [])) :
    CodecOk W (.mk (.secure m) r c) (.str []) := by
  intro b hb
  simp [toBasic, toBasicKind] at hb
  subst hb
  have hr : r = false := by
    rcases secure_fixed_shape hfix with h | ⟨s, hs, hr⟩
    · cases h
    · cases hs
      simpa using hr
  subst hr
  refine ⟨.none, ?_, Or.inr (Or.inr (Or.inr ⟨rfl, rfl, m, rfl⟩))⟩
  simp only [toPython, toPythonKind, hN, Except.bind]
  simp [validate]

/-- an unset typed list: written as `None`, comes back as `[]` -/
theorem codecOk_list_none (W : World) {item : Option FieldSpec} {r : Bool} (hu : untypedItem item = false)
    (hfix : validate W.fe.toEnv (.mk (.list item) r none) .none = .ok .none) : CodecOk W (.mk (.list item) r none) .none := by
  intro b hb
  have hr : r = false := by cases r <;> simp [validate] at hfix ⊢
  subst hr
  simp only [toBasic, toBasicKind, Except.ok.injEq] at hb
  subst hb
  obtain ⟨h1, h2⟩ := list_none_codec (E := W.fe) hu
  refine ⟨.list [], ?_, Or.inr (Or.inl ⟨rfl, rfl, item, rfl⟩)⟩
  rw [h1]
  exact h2

/-- an unset typed dict: written as `None`, comes back as `{}` -/
theorem codecOk_dict_none (W : World) {kf vf : Option FieldSpec} {r : Bool} (hnn : (kf.isNone && vf.isNone) = false)
    (hfix : validate W.fe.toEnv (.mk (.dict kf vf) r none) .none = .ok .none) : CodecOk W (.mk (.dict kf vf) r none) .none := by
  intro b hb
  have hr : r = false := by cases r <;> simp [validate] at hfix ⊢
  subst hr
  simp only [toBasic, toBasicKind, Except.ok.injEq] at hb
  subst hb
  obtain ⟨h1, h2⟩ := dict_none_codec (E := W.fe) hnn
  refine ⟨.dict [], ?_, Or.inr (Or.inr (Or.inl ⟨rfl, rfl, kf, vf, rfl⟩))⟩
  rw [h1]
  exact h2

/-- **The per-leaf codec hypothesis of the round-trip theorem, discharged**: for every `Supported` declaration and every held
    value that is a fixed point of its validation (in particular `None` under a field that is not required) and satisfies
    `TopCanon` (see `Canon` for the four exceptions, each of which is a counterexample), under the two laws of the
    encryption environment: decryption inverts encryption of non-empty secrets (`hS`), and `None` decrypts to `None` (`hN`). -/
theorem codecOk_of_supported (W : World)
    (hS : ∀ m s r, s ≠ [] → W.fe.encryptS m s = some r → W.fe.decryptS r = some (some s))
    (hN : W.fe.decryptS .none = some none)
    (fs : FieldSpec) (hsup : Supported fs = true) (v : Val) (hfix : validate W.fe.toEnv fs v = .ok v) (hcan : TopCanon fs v) :
    CodecOk W fs v := by
  rcases hcan with hcan | ⟨hv, htc⟩ | ⟨hv, m, hm⟩
  · exact codecOk_of_exact (exact_codec W.fe hS hN fs v hsup hfix hcan)
  · obtain ⟨k, r, c⟩ := fs
    subst hv
    simp only [FieldSpec.kind] at htc
    have hc : c = none := by
      simp only [Supported, htc, Bool.and_eq_true] at hsup
      simpa using hsup.1
    subst hc
    cases k <;> simp only [Kind.typedContainer, Bool.not_eq_true', Bool.false_eq_true] at htc
    · exact codecOk_list_none W htc hfix
    · exact codecOk_dict_none W htc hfix
  · obtain ⟨k, r, c⟩ := fs
    simp only [FieldSpec.kind] at hm
    subst hm
    subst hv
    exact codecOk_secure_empty W hN hfix

/-- the same without any condition on the held value beyond being a fixed point, for `Flat` declarations -/
theorem codecOk_of_flat (W : World)
    (hS : ∀ m s r, s ≠ [] → W.fe.encryptS m s = some r → W.fe.decryptS r = some (some s))
    (hN : W.fe.decryptS .none = some none)
    (fs : FieldSpec) (hflat : Flat fs = true) (v : Val) (hfix : validate W.fe.toEnv fs v = .ok v) : CodecOk W fs v :=
  codecOk_of_supported W hS hN fs (flat_supported hflat) v hfix (flat_topCanon hflat v)

/-- …and for a held value that is a *validation result* of a `Flat` declaration within the idempotence guard `IdemOk`
    (validation results are fixed points by `C05.validate_idem`, which needs `EnvOk` of `os.path`) -/
theorem codecOk_of_flat_result (W : World)
    (hS : ∀ m s r, s ≠ [] → W.fe.encryptS m s = some r → W.fe.decryptS r = some (some s))
    (hN : W.fe.decryptS .none = some none) (hEnv : EnvOk W.fe.toEnv)
    (fs : FieldSpec) (hflat : Flat fs = true) (hidem : IdemOk fs = true) (v0 v : Val)
    (h : validate W.fe.toEnv fs v0 = .ok v) : CodecOk W fs v :=
  codecOk_of_flat W hS hN fs hflat v (C05.validate_idem W.fe.toEnv hEnv fs v0 v hidem h)

/-! ### Kind by kind -/

/-- (a) identity-coded kinds (string, int, float, bool, IPv4 address / network, hostname, filename, URL, any), with any
    options and any custom validator -/
theorem codecOk_scalar (W : World) {k : Kind} (hk : k.idCoded = true) (r : Bool) (c : Option String) (v : Val)
    (hfix : validate W.fe.toEnv (.mk k r c) v = .ok v) : CodecOk W (.mk k r c) v :=
  codecOk_of_exact (exact_idCoded hk hfix)

/-- (b) bytes -/
theorem codecOk_bytes (W : World) (enc : Enc) (r : Bool) (c : Option String) (v : Val)
    (hfix : validate W.fe.toEnv (.mk (.bytes enc) r c) v = .ok v) : CodecOk W (.mk (.bytes enc) r c) v :=
  codecOk_of_exact (exact_bytes hfix)

/-- (c) challenges: `None`, or a digest of the field's own algorithm -/
theorem codecOk_challenge (W : World) (alg : String) (r : Bool) (c : Option String) (v : Val)
    (hfix : validate W.fe.toEnv (.mk (.challenge alg) r c) v = .ok v) (hown : ∀ s d a, v = .digest s d a → a = alg) :
    CodecOk W (.mk (.challenge alg) r c) v :=
  codecOk_of_exact (exact_challenge hfix hown)

/-- (d) secrets: every fixed point (`None`, the empty secret, a non-empty secret) -/
theorem codecOk_secure (W : World)
    (hS : ∀ m s r, s ≠ [] → W.fe.encryptS m s = some r → W.fe.decryptS r = some (some s))
    (hN : W.fe.decryptS .none = some none) (m : String) (r : Bool) (c : Option String) (v : Val)
    (hfix : validate W.fe.toEnv (.mk (.secure m) r c) v = .ok v) : CodecOk W (.mk (.secure m) r c) v :=
  codecOk_of_flat W hS hN _ rfl v hfix

/-- (e) typed lists: `None`, or a list whose items survive exactly -/
theorem codecOk_list (W : World)
    (hS : ∀ m s r, s ≠ [] → W.fe.encryptS m s = some r → W.fe.decryptS r = some (some s))
    (hN : W.fe.decryptS .none = some none) (item : Option FieldSpec) (r : Bool) (v : Val)
    (hu : untypedItem item = false) (hsup : SupportedOpt item = true)
    (hfix : validate W.fe.toEnv (.mk (.list item) r none) v = .ok v)
    (hcan : ∀ xs, v = .list xs → ∀ x ∈ xs, CanonOpt item x) : CodecOk W (.mk (.list item) r none) v := by
  refine codecOk_of_supported W hS hN _ (by simp [Supported, SupportedKind, hsup]) v hfix ?_
  by_cases hv : v = .none
  · exact Or.inr (Or.inl ⟨hv, by simp [FieldSpec.kind, Kind.typedContainer, hu]⟩)
  · refine Or.inl ?_
    simp only [Canon, CanonKind]
    exact Or.inr ⟨hu, hv, hcan⟩

/-- (f) typed dicts: `None`, or a dict whose keys and values survive exactly -/
theorem codecOk_dict (W : World)
    (hS : ∀ m s r, s ≠ [] → W.fe.encryptS m s = some r → W.fe.decryptS r = some (some s))
    (hN : W.fe.decryptS .none = some none) (kf vf : Option FieldSpec) (r : Bool) (v : Val)
    (hnn : (kf.isNone && vf.isNone) = false) (hkf : SupportedOpt kf = true) (hvf : SupportedOpt vf = true)
    (hfix : validate W.fe.toEnv (.mk (.dict kf vf) r none) v = .ok v)
    (hcan : ∀ kvs, v = .dict kvs → ∀ kv ∈ kvs, CanonOpt kf kv.1 ∧ CanonOpt vf kv.2) : CodecOk W (.mk (.dict kf vf) r none) v := by
  refine codecOk_of_supported W hS hN _ (by simp [Supported, SupportedKind, hkf, hvf]) v hfix ?_
  by_cases hv : v = .none
  · exact Or.inr (Or.inl ⟨hv, by simp only [FieldSpec.kind, Kind.typedContainer, hnn]; rfl⟩)
  · refine Or.inl ?_
    simp only [Canon, CanonKind]
    exact Or.inr ⟨hv, hcan⟩

/-- (g) untyped lists (everything but a tuple) -/
theorem codecOk_list_untyped (W : World) (item : Option FieldSpec) (r : Bool) (c : Option String) (v : Val)
    (hu : untypedItem item = true) (hfix : validate W.fe.toEnv (.mk (.list item) r c) v = .ok v) (hnt : ∀ xs, v ≠ .tuple xs) :
    CodecOk W (.mk (.list item) r c) v :=
  codecOk_of_exact (exact_list_untyped hu hfix hnt)

/-- (g) untyped dicts -/
theorem codecOk_dict_untyped (W : World) (r : Bool) (c : Option String) (v : Val)
    (hfix : validate W.fe.toEnv (.mk (.dict none none) r c) v = .ok v) : CodecOk W (.mk (.dict none none) r c) v :=
  codecOk_of_exact (exact_dict_untyped rfl hfix)

/-! ### Whole configurations -/

theorem allLeaves_of_schema_and {P P1 : FieldSpec → Val → Prop} {Q : FieldSpec → Prop}
    (hPQ : ∀ fs v, Q fs → P1 fs v → P fs v) :
    ∀ (d : Nat) (s : Schema) (c : Cfg), SchemaLeaves Q d s → AllLeaves P1 d s c → AllLeaves P d s c
  | 0, _, _, _, _ => trivial
  | d + 1, s, c, h, h1 => by
    refine allLeaves_succ_iff.2 ?_
    intro k f hk
    have hq := h k f hk
    have hp := allLeaves_succ_iff.1 h1 k f hk
    cases f with
    | leaf fs m => cases hc : c.get k with
      | none => trivial
      | some sl => cases sl with
        | val v => rw [hc] at hp; exact hPQ fs v hq hp
        | node _ => trivial
        | nodes _ => trivial
    | sub s' => cases hc : c.get k with
      | none => trivial
      | some sl => cases sl with
        | val v => trivial
        | node sub => rw [hc] at hp; exact allLeaves_of_schema_and hPQ d s' sub hq hp
        | nodes _ => trivial
    | ctype s' kf => cases hc : c.get k with
      | none => trivial
      | some sl => cases sl with
        | val v => trivial
        | node sub => rw [hc] at hp; exact allLeaves_of_schema_and hPQ d s' sub hq hp
        | nodes _ => trivial
    | cfgList s' it req m => cases hc : c.get k with
      | none => trivial
      | some sl => cases sl with
        | val v => trivial
        | node sub => trivial
        | nodes cs => rw [hc] at hp; exact fun x hx => allLeaves_of_schema_and hPQ d s' x hq (hp x hx)
    | virtual _ _ => cases c.get k <;> trivial
    | method => cases c.get k <;> trivial

/-- what `codecOkAll_of_supported` asks of a held leaf value -/
def HeldOk (W : World) (fs : FieldSpec) (v : Val) : Prop :=
  validate W.fe.toEnv fs v = .ok v ∧ TopCanon fs v

/-- **`CodecOkAll`, discharged**: every leaf declaration of the schema, at every depth, is `Supported`; every held leaf
    value, at every depth, is a fixed point of its field's validation and satisfies `TopCanon`. -/
theorem codecOkAll_of_supported (W : World)
    (hS : ∀ m s r, s ≠ [] → W.fe.encryptS m s = some r → W.fe.decryptS r = some (some s))
    (hN : W.fe.decryptS .none = some none) (d : Nat) (s : Schema) (c : Cfg)
    (hsup : SchemaLeaves (fun fs => Supported fs = true) d s) (hheld : AllLeaves (HeldOk W) d s c) : CodecOkAll W d s c :=
  allLeaves_of_schema_and (fun fs v hq hp => codecOk_of_supported W hS hN fs hq v hp.1 hp.2) d s c hsup hheld

/-- for schemas with `Flat` leaf declarations only: every held leaf value is a fixed point of its field's validation -/
theorem codecOkAll_of_flat (W : World)
    (hS : ∀ m s r, s ≠ [] → W.fe.encryptS m s = some r → W.fe.decryptS r = some (some s))
    (hN : W.fe.decryptS .none = some none) (d : Nat) (s : Schema) (c : Cfg)
    (hflat : SchemaLeaves (fun fs => Flat fs = true) d s)
    (hheld : AllLeaves (fun fs v => validate W.fe.toEnv fs v = .ok v) d s c) : CodecOkAll W d s c :=
  allLeaves_of_schema_and (fun fs v hq hp => codecOk_of_flat W hS hN fs hq v hp) d s c hflat hheld

end Cinco.Config

/-! ## 7. The conditions on the held value are needed: four fixed points of validation that do not come back -/

namespace Cinco.Config
open Cinco Cinco.Field

/-- a world whose "encryption" is the identity on text: it satisfies `hE`, `hS` and `hN` -/
def lfWorld : World where
  environ := fun _ => none
  fe := { parseFloat := fun _ => none, fsKind := fun _ => .absent, isabs := fun _ => false, resolve := fun _ t => t,
          urlOk := fun _ => false, salt := fun _ => [], hash := fun _ b => b, utf8 := fun _ => [],
          custom := fun _ v => .ok v,
          encryptS := fun _ s => some (.str s),
          decryptS := fun v => match v with
            | .none => some none
            | .str s => some (some s)
            | _ => none }

theorem lfWorld_plain : ∀ m s r, lfWorld.fe.encryptS m s = some r → r.plain = true := by
  intro m s r h
  simp only [lfWorld, Option.some.injEq] at h
  subst h
  rfl

theorem lfWorld_dec_enc : ∀ m s r, s ≠ [] → lfWorld.fe.encryptS m s = some r → lfWorld.fe.decryptS r = some (some s) := by
  intro m s r _ h
  simp only [lfWorld, Option.some.injEq] at h
  subst h
  rfl

theorem lfWorld_dec_none : lfWorld.fe.decryptS .none = some none := rfl

/-- a digest labelled with a foreign algorithm is accepted by a `ChallengeField` and kept as it is, but is written without
    its label and comes back labelled with the field's algorithm (finding F23) -/
theorem codecOk_false_foreign_digest :
    validate lfWorld.fe.toEnv (.mk (.challenge "md5") false none) (.digest [] [] "sha1") = .ok (.digest [] [] "sha1") ∧
    ¬ CodecOk lfWorld (.mk (.challenge "md5") false none) (.digest [] [] "sha1") := by
  refine ⟨by decide +kernel, fun h => ?_⟩
  obtain ⟨v', hv', hl⟩ := h _ rfl
  have : (toPython lfWorld.fe (.mk (.challenge "md5") false none) (digestToBasic [] [])).bind
      (validate lfWorld.fe.toEnv (.mk (.challenge "md5") false none)) = .ok (.digest [] [] "md5") := by decide +kernel
  rw [this] at hv'
  cases hv'
  rcases hl with h | ⟨h, _⟩ | ⟨h, _⟩ | ⟨h, _⟩ <;> exact absurd h (by decide)

/-- `None` inside a list of (not required) lists is a fixed point of validation, but comes back as `[]` -/
theorem codecOk_false_none_item :
    let fs : FieldSpec := .mk (.list (some (.mk (.list (some (.mk (.int none none) false none))) false none))) false none
    validate lfWorld.fe.toEnv fs (.list [.none]) = .ok (.list [.none]) ∧ ¬ CodecOk lfWorld fs (.list [.none]) := by
  refine ⟨by decide +kernel, fun h => ?_⟩
  obtain ⟨v', hv', hl⟩ := h (.list [.none]) (by decide +kernel)
  have : (toPython lfWorld.fe (.mk (.list (some (.mk (.list (some (.mk (.int none none) false none))) false none))) false none)
      (.list [.none])).bind
      (validate lfWorld.fe.toEnv (.mk (.list (some (.mk (.list (some (.mk (.int none none) false none))) false none))) false none)) =
      .ok (.list [.list []]) := by decide +kernel
  rw [this] at hv'
  cases hv'
  rcases hl with h | ⟨h, _⟩ | ⟨h, _⟩ | ⟨h, _⟩ <;> exact absurd h (by decide)

/-- the empty secret inside a list of (not required) secrets is a fixed point of validation, but comes back as `None` -/
theorem codecOk_false_empty_secret_item :
    let fs : FieldSpec := .mk (.list (some (.mk (.secure "aes") false none))) false none
    validate lfWorld.fe.toEnv fs (.list [.str []]) = .ok (.list [.str []]) ∧ ¬ CodecOk lfWorld fs (.list [.str []]) := by
  refine ⟨by decide +kernel, fun h => ?_⟩
  obtain ⟨v', hv', hl⟩ := h (.list [.none]) (by decide +kernel)
  have : (toPython lfWorld.fe (.mk (.list (some (.mk (.secure "aes") false none))) false none) (.list [.none])).bind
      (validate lfWorld.fe.toEnv (.mk (.list (some (.mk (.secure "aes") false none))) false none)) =
      .ok (.list [.none]) := by decide +kernel
  rw [this] at hv'
  cases hv'
  rcases hl with h | ⟨h, _⟩ | ⟨h, _⟩ | ⟨h, _⟩ <;> exact absurd h (by decide)

/-- a tuple held by an untyped list field is a fixed point of validation, but is written as a list and comes back as a list -/
theorem codecOk_false_tuple :
    validate lfWorld.fe.toEnv (.mk (.list none) false none) (.tuple [.int 1]) = .ok (.tuple [.int 1]) ∧
    ¬ CodecOk lfWorld (.mk (.list none) false none) (.tuple [.int 1]) := by
  refine ⟨by decide +kernel, fun h => ?_⟩
  obtain ⟨v', hv', hl⟩ := h (.list [.int 1]) (by decide +kernel)
  have : (toPython lfWorld.fe (.mk (.list none) false none) (.list [.int 1])).bind
      (validate lfWorld.fe.toEnv (.mk (.list none) false none)) = .ok (.list [.int 1]) := by decide +kernel
  rw [this] at hv'
  cases hv'
  rcases hl with h | ⟨h, _⟩ | ⟨h, _⟩ | ⟨h, _⟩ <;> exact absurd h (by decide)

/-- a dict key field that is not required accepts the key `None`, which `to_basic` writes as it is: not plain data -/
theorem toBasic_not_plain_none_key :
    let fs : FieldSpec := .mk (.dict (some (.mk (.string {}) false none)) (some (.mk (.int none none) false none))) false none
    validate lfWorld.fe.toEnv fs (.dict [(.none, .int 1)]) = .ok (.dict [(.none, .int 1)]) ∧
    toBasic lfWorld.fe fs (.dict [(.none, .int 1)]) = .ok (.dict [(.none, .int 1)]) ∧
    (Val.dict [(.none, .int 1)]).plain = false := by
  refine ⟨by decide +kernel, by decide +kernel, rfl⟩

end Cinco.Config

/-! ## 8. Non-vacuity: the hypotheses of `toTree_plain` and `codecOkAll_of_supported` hold together on an example -/

namespace Cinco.Config
open Cinco Cinco.Field

def lfStr : FieldSpec := .mk (.string { strip := .ws }) true none
def lfBytes : FieldSpec := .mk (.bytes .base64) false none
def lfInts : FieldSpec := .mk (.list (some (.mk (.int none none) true none))) false none
def lfBool : FieldSpec := .mk .bool false none
def lfSecret : FieldSpec := .mk (.secure "aes") false none

def lfSub : Schema := .mk [("flag", .leaf lfBool {}), ("secret", .leaf lfSecret { sensitive := true })] false []
def lfSchema : Schema :=
  .mk [("name", .leaf lfStr {}),
       ("blob", .leaf lfBytes {}),
       ("nums", .leaf lfInts {}),
       ("sub", .sub lfSub),
       ("v", .virtual (.int 7) false)] false []

def lfSubCfg : Cfg := .mk 1 [("flag", .val (.bool true)), ("secret", .val (.str "pw".toList))] [] [] none true
def lfCfg : Cfg :=
  .mk 0 [("name", .val (.str "ab".toList)), ("blob", .val (.bytes [1, 2, 255])), ("nums", .val (.list [.int 1, .int 2])),
         ("sub", .node lfSubCfg)] [] [] none false

/-- the tree `to_tree` writes for the example -/
def lfTree : List (Val × Val) :=
  [(.str "name".toList, .str "ab".toList),
   (.str "blob".toList, .str "AQL/".toList),
   (.str "nums".toList, .list [.int 1, .int 2]),
   (.str "sub".toList, .dict [(.str "flag".toList, .bool true), (.str "secret".toList, .str "pw".toList)])]

theorem lf_toTree : toTree lfWorld 2 lfSchema lfCfg false none = some lfTree := by
  have h1 : toBasic lfWorld.fe lfStr (.str ['a', 'b']) = .ok (.str ['a', 'b']) := by decide +kernel
  have h2 : toBasic lfWorld.fe lfBytes (.bytes [1, 2, 255]) = .ok (.str ['A', 'Q', 'L', '/']) := by decide +kernel
  have h3 : toBasic lfWorld.fe lfInts (.list [.int 1, .int 2]) = .ok (.list [.int 1, .int 2]) := by decide +kernel
  have h4 : toBasic lfWorld.fe lfBool (.bool true) = .ok (.bool true) := by decide +kernel
  have h5 : toBasic lfWorld.fe lfSecret (.str ['p', 'w']) = .ok (.str ['p', 'w']) := by decide +kernel
  simp [toTree, toTreeFields, renderField, lfSchema, lfCfg, lfSub, lfSubCfg, Schema.fields, Cfg.get, Cfg.slots, Cfg.dyn,
    getSlot, h1, h2, h3, h4, h5, lfTree]

theorem lf_shaped : Shaped 2 lfSchema lfCfg := by
  refine ⟨Or.inl rfl, forall_get_cons ?_ (forall_get_cons ?_ (forall_get_cons ?_ (forall_get_cons ?_ (forall_get_cons ?_ (forall_get_nil _ _)))))⟩
  · exact ⟨_, rfl⟩
  · exact ⟨_, rfl⟩
  · exact ⟨_, rfl⟩
  · exact ⟨lfSubCfg, rfl, Or.inl rfl, forall_get_cons ⟨_, rfl⟩ (forall_get_cons ⟨_, rfl⟩ (forall_get_nil _ _))⟩
  · trivial

/-- every held leaf is of a `Typed` declaration and is a validation result: `"ab"` is what the string field (which strips
    white space) returns for `" ab "`, the list of ints what the list field returns for the tuple `("1", 2.0)` -/
theorem lf_plainLeaves : AllLeaves (PlainLeaf lfWorld.fe) 2 lfSchema lfCfg := by
  refine forall_get_cons ?_ (forall_get_cons ?_ (forall_get_cons ?_ (forall_get_cons ?_ (forall_get_cons ?_ (forall_get_nil _ _)))))
  · exact ⟨rfl, Or.inr ⟨.str " ab ".toList, by decide +kernel⟩⟩
  · exact ⟨rfl, Or.inr ⟨.bytes [1, 2, 255], by decide +kernel⟩⟩
  · exact ⟨rfl, Or.inr ⟨.tuple [.str "1".toList, .flt (.dy 2 0)], by decide +kernel⟩⟩
  · exact forall_get_cons ⟨rfl, Or.inr ⟨.int 5, by decide +kernel⟩⟩
      (forall_get_cons ⟨rfl, Or.inr ⟨.str "pw".toList, by decide +kernel⟩⟩ (forall_get_nil _ _))
  · trivial

theorem lf_dynPlain : AllCfgs DynPlain 2 lfSchema lfCfg := by
  refine ⟨dynPlain_of_nil rfl, forall_get_cons ?_ (forall_get_cons ?_ (forall_get_cons ?_ (forall_get_cons ?_ (forall_get_cons ?_ (forall_get_nil _ _)))))⟩
  · trivial
  · trivial
  · trivial
  · exact ⟨dynPlain_of_nil rfl, forall_get_cons trivial (forall_get_cons trivial (forall_get_nil _ _))⟩
  · trivial

theorem lf_supported : SchemaLeaves (fun fs => Supported fs = true) 2 lfSchema := by
  refine forall_get_cons ?_ (forall_get_cons ?_ (forall_get_cons ?_ (forall_get_cons ?_ (forall_get_cons ?_ (forall_get_nil _ _)))))
  · rfl
  · rfl
  · rfl
  · exact forall_get_cons rfl (forall_get_cons rfl (forall_get_nil _ _))
  · trivial

/-- every held leaf is a fixed point of its field's validation and survives exactly (`Canon`) -/
theorem lf_heldOk : AllLeaves (HeldOk lfWorld) 2 lfSchema lfCfg := by
  refine forall_get_cons ?_ (forall_get_cons ?_ (forall_get_cons ?_ (forall_get_cons ?_ (forall_get_cons ?_ (forall_get_nil _ _)))))
  · exact ⟨by decide +kernel, flat_topCanon rfl _⟩
  · exact ⟨by decide +kernel, flat_topCanon rfl _⟩
  · refine ⟨by decide +kernel, Or.inl ?_⟩
    simp only [lfInts, Canon, CanonKind]
    exact Or.inr ⟨rfl, by simp, fun _ _ _ _ => trivial⟩
  · exact forall_get_cons ⟨by decide +kernel, flat_topCanon rfl _⟩
      (forall_get_cons ⟨by decide +kernel, Or.inl (by simp [lfSecret, Canon, CanonKind])⟩ (forall_get_nil _ _))
  · trivial

/-- **Non-vacuity**: a schema with a string field, a bytes field, a list-of-int field, a nested sub-configuration (holding a
    secret) and a virtual field; the tree written is `lfTree` — the bytes in base64, the virtual field left out —, it is plain
    data by `toTree_plain`, and the codec hypothesis of the round-trip theorem holds by `codecOkAll_of_supported`. -/
theorem leaf_example :
    toTree lfWorld 2 lfSchema lfCfg false none = some lfTree ∧ (Val.dict lfTree).plain = true ∧
    CodecOkAll lfWorld 2 lfSchema lfCfg :=
  ⟨lf_toTree,
   toTree_plain lfWorld lfWorld_plain 2 lfSchema lfCfg lfTree (by decide) lf_shaped lf_plainLeaves lf_dynPlain lf_toTree,
   codecOkAll_of_supported lfWorld lfWorld_dec_enc lfWorld_dec_none 2 lfSchema lfCfg lf_supported lf_heldOk⟩

example : (Val.dict lfTree).plain = true := by decide +kernel

/-- the keys of the example tree, by `toTree_keys`: none of them is the virtual field -/
example : ∀ kv ∈ lfTree, kv.1 ≠ .str "v".toList := by
  intro kv hkv
  obtain ⟨n, hn, h⟩ := toTree_keys lfWorld 2 lfSchema lfCfg none lfTree lf_toTree kv hkv
  rcases h with ⟨f, hf, hst⟩ | ⟨hd, _⟩
  · intro he
    rw [hn] at he
    have hn' : n = "v" := by
      have := congrArg (fun v => match v with | Val.str s => String.ofList s | _ => "") he
      simpa using this
    subst hn'
    simp [lfSchema, Schema.fields] at hf
    subst hf
    cases hst
  · cases hd

end Cinco.Config
