import Cinco.Field.Codec
namespace Cinco.Field
open Cinco

theorem Val.beq_eq (a b : Val) : (a == b) = decide (a = b) := by
  by_cases h : a = b
  · subst h; simp
  · simp [h]

theorem mapR_ok_length {f : Val → R Val} : ∀ {xs ys : List Val}, mapR f xs = .ok ys → ys.length = xs.length
  | [], ys, h => by simp [mapR] at h; cases h; rfl
  | x :: xs, ys, h => by
    simp only [mapR] at h
    cases hx : f x with
    | error e => simp [hx, bind, Except.bind] at h
    | ok y =>
      cases hxs : mapR f xs with
      | error e => simp [hx, hxs, bind, Except.bind] at h
      | ok ys' =>
        simp [hx, hxs, bind, Except.bind] at h
        cases h
        simp [mapR_ok_length hxs]

/-- if `f` is idempotent on its own results, so is `mapR f` -/
theorem mapR_idem {f : Val → R Val} (hf : ∀ v v', f v = .ok v' → f v' = .ok v') :
    ∀ {xs ys : List Val}, mapR f xs = .ok ys → mapR f ys = .ok ys
  | [], ys, h => by simp [mapR] at h; cases h; rfl
  | x :: xs, ys, h => by
    simp only [mapR] at h
    cases hx : f x with
    | error e => simp [hx, bind, Except.bind] at h
    | ok y =>
      cases hxs : mapR f xs with
      | error e => simp [hx, hxs, bind, Except.bind] at h
      | ok ys' =>
        simp [hx, hxs, bind, Except.bind] at h
        cases h
        simp [mapR, hf x y hx, mapR_idem hf hxs, bind, Except.bind]

theorem mapR_isEmpty {f : Val → R Val} {xs ys : List Val} (h : mapR f xs = .ok ys) : ys.isEmpty = xs.isEmpty := by
  have := mapR_ok_length h
  cases xs <;> cases ys <;> simp_all

end Cinco.Field

namespace Cinco.Field
open Cinco

def keysD (es : List (Val × Val)) : List Val := es.map (·.1)
def valsD (es : List (Val × Val)) : List Val := es.map (·.2)

theorem dictSet_keys_mem {k : Val} (v : Val) : ∀ {d : List (Val × Val)}, k ∈ keysD d → keysD (dictSet k v d) = keysD d
  | [], h => by simp [keysD] at h
  | (k', v') :: rest, h => by
    by_cases hk : k' = k
    · simp [dictSet, keysD, hk]
    · have hm : k ∈ keysD rest := by
        simp only [keysD, List.map_cons, List.mem_cons] at h
        rcases h with h | h
        · exact absurd h.symm hk
        · exact h
      have := dictSet_keys_mem v hm
      simp only [dictSet, Val.beq_eq, hk, decide_false, Bool.false_eq_true, if_false, keysD, List.map_cons, List.cons.injEq, true_and]
      exact this

theorem dictSet_not_mem {k : Val} (v : Val) : ∀ {d : List (Val × Val)}, k ∉ keysD d → dictSet k v d = d ++ [(k, v)]
  | [], _ => rfl
  | (k', v') :: rest, h => by
    simp only [keysD, List.map_cons, List.mem_cons, not_or] at h
    have hk : ¬ k' = k := fun e => h.1 e.symm
    simp only [dictSet, Val.beq_eq, hk, decide_false, Bool.false_eq_true, if_false, List.cons_append, List.cons.injEq, true_and]
    exact dictSet_not_mem v h.2

theorem dictSet_vals_subset {k v : Val} : ∀ {d : List (Val × Val)} {x : Val}, x ∈ valsD (dictSet k v d) → x = v ∨ x ∈ valsD d
  | [], x, h => by simp [dictSet, valsD] at h; exact Or.inl h
  | (k', v') :: rest, x, h => by
    by_cases hk : k' = k
    · simp only [dictSet, Val.beq_eq, hk, decide_true, if_true, valsD, List.map_cons, List.mem_cons] at h
      rcases h with h | h
      · exact Or.inl h
      · exact Or.inr (by simp [valsD, h])
    · simp only [dictSet, Val.beq_eq, hk, decide_false, Bool.false_eq_true, if_false, valsD, List.map_cons, List.mem_cons] at h
      rcases h with h | h
      · exact Or.inr (by simp [valsD, h])
      · rcases dictSet_vals_subset (d := rest) (by simpa [valsD] using h) with h' | h'
        · exact Or.inl h'
        · exact Or.inr (by simp only [valsD, List.map_cons, List.mem_cons]; exact Or.inr (by simpa [valsD] using h'))

theorem dictSet_keys_nodup {k v : Val} {d : List (Val × Val)} (h : (keysD d).Nodup) : (keysD (dictSet k v d)).Nodup := by
  by_cases hm : k ∈ keysD d
  · rw [dictSet_keys_mem v hm]; exact h
  · rw [dictSet_not_mem v hm]
    simp only [keysD, List.map_append, List.map_cons, List.map_nil]
    refine List.nodup_append.2 ⟨h, by simp, ?_⟩
    intro a ha b hb hab
    simp at hb; subst hb; subst hab
    exact hm ha

theorem dictSet_keys_subset {k v : Val} {d : List (Val × Val)} {x : Val} (h : x ∈ keysD (dictSet k v d)) : x = k ∨ x ∈ keysD d := by
  by_cases hm : k ∈ keysD d
  · rw [dictSet_keys_mem v hm] at h; exact Or.inr h
  · rw [dictSet_not_mem v hm] at h
    simp only [keysD, List.map_append, List.map_cons, List.map_nil, List.mem_append, List.mem_singleton] at h
    rcases h with h | h
    · exact Or.inr h
    · exact Or.inl h

theorem foldl_dictSet_props : ∀ (es acc : List (Val × Val)), (keysD acc).Nodup →
    (keysD (es.foldl (fun a (kv : Val × Val) => dictSet kv.1 kv.2 a) acc)).Nodup ∧
    (∀ x ∈ keysD (es.foldl (fun a (kv : Val × Val) => dictSet kv.1 kv.2 a) acc), x ∈ keysD acc ∨ x ∈ keysD es) ∧
    (∀ x ∈ valsD (es.foldl (fun a (kv : Val × Val) => dictSet kv.1 kv.2 a) acc), x ∈ valsD acc ∨ x ∈ valsD es)
  | [], acc, h => ⟨h, fun x hx => Or.inl hx, fun x hx => Or.inl hx⟩
  | (k, v) :: rest, acc, h => by
    have ih := foldl_dictSet_props rest (dictSet k v acc) (dictSet_keys_nodup h)
    simp only [List.foldl_cons]
    refine ⟨ih.1, ?_, ?_⟩
    · intro x hx
      rcases ih.2.1 x hx with h1 | h1
      · rcases dictSet_keys_subset h1 with h2 | h2
        · exact Or.inr (by simp [keysD, h2])
        · exact Or.inl h2
      · exact Or.inr (by simp only [keysD, List.map_cons, List.mem_cons]; exact Or.inr (by simpa [keysD] using h1))
    · intro x hx
      rcases ih.2.2 x hx with h1 | h1
      · rcases dictSet_vals_subset h1 with h2 | h2
        · exact Or.inr (by simp [valsD, h2])
        · exact Or.inl h2
      · exact Or.inr (by simp only [valsD, List.map_cons, List.mem_cons]; exact Or.inr (by simpa [valsD] using h1))

theorem buildDict_nodup (es : List (Val × Val)) : (keysD (buildDict es)).Nodup :=
  (foldl_dictSet_props es [] (by simp [keysD])).1

theorem buildDict_keys_subset (es : List (Val × Val)) : ∀ x ∈ keysD (buildDict es), x ∈ keysD es := by
  intro x hx
  rcases (foldl_dictSet_props es [] (by simp [keysD])).2.1 x hx with h | h
  · simp [keysD] at h
  · exact h

theorem buildDict_vals_subset (es : List (Val × Val)) : ∀ x ∈ valsD (buildDict es), x ∈ valsD es := by
  intro x hx
  rcases (foldl_dictSet_props es [] (by simp [keysD])).2.2 x hx with h | h
  · simp [valsD] at h
  · exact h

theorem foldl_dictSet_append : ∀ (es acc : List (Val × Val)), (keysD es).Nodup → (∀ k ∈ keysD es, k ∉ keysD acc) →
    es.foldl (fun a (kv : Val × Val) => dictSet kv.1 kv.2 a) acc = acc ++ es
  | [], acc, _, _ => by simp
  | (k, v) :: rest, acc, hn, hd => by
    simp only [keysD, List.map_cons, List.nodup_cons] at hn
    have hk : k ∉ keysD acc := hd k (by simp [keysD])
    simp only [List.foldl_cons]
    rw [dictSet_not_mem v hk, foldl_dictSet_append rest _ hn.2]
    · simp
    · intro k' hk' hmem
      simp only [keysD, List.map_append, List.map_cons, List.map_nil, List.mem_append, List.mem_singleton] at hmem
      rcases hmem with hmem | hmem
      · exact hd k' (by simp only [keysD, List.map_cons, List.mem_cons]; exact Or.inr hk') hmem
      · subst hmem; exact hn.1 hk'

/-- a dict that already has distinct keys is rebuilt as itself -/
theorem buildDict_of_nodup (es : List (Val × Val)) (h : (keysD es).Nodup) : buildDict es = es := by
  unfold buildDict
  rw [foldl_dictSet_append es [] h (by simp [keysD])]
  simp

theorem buildDict_isEmpty (es : List (Val × Val)) : (buildDict es).isEmpty = es.isEmpty := by
  cases es with
  | nil => rfl
  | cons e rest =>
    have : ∀ x ∈ keysD [e], x ∈ keysD (buildDict (e :: rest)) := by
      intro x hx
      simp [keysD] at hx
      subst hx
      -- the first key inserted stays in the dict
      have hgen : ∀ (es acc : List (Val × Val)) (k : Val), k ∈ keysD acc → k ∈ keysD (es.foldl (fun a (kv : Val × Val) => dictSet kv.1 kv.2 a) acc) := by
        intro es
        induction es with
        | nil => intro acc k h; exact h
        | cons hd tl ih =>
          intro acc k h
          simp only [List.foldl_cons]
          apply ih
          by_cases hm : hd.1 ∈ keysD acc
          · rw [dictSet_keys_mem _ hm]; exact h
          · rw [dictSet_not_mem _ hm]; simp [keysD]; exact Or.inl (by simpa [keysD] using h)
      unfold buildDict
      simp only [List.foldl_cons]
      apply hgen
      simp [dictSet, keysD]
    have hne : buildDict (e :: rest) ≠ [] := by
      intro h0
      have := this e.1 (by simp [keysD])
      simp [h0, keysD] at this
    cases hb : buildDict (e :: rest) with
    | nil => exact absurd hb hne
    | cons _ _ => rfl

/-- entries that are fixed points of the key and value validators validate to themselves -/
theorem mapEntries_fixed {fk fv : Val → R Val} : ∀ (es : List (Val × Val)),
    (∀ k ∈ keysD es, fk k = .ok k) → (∀ v ∈ valsD es, fv v = .ok v) → mapEntries fk fv es = .ok es
  | [], _, _ => rfl
  | (k, v) :: rest, hk, hv => by
    have h1 := hk k (by simp [keysD])
    have h2 := hv v (by simp [valsD])
    have ih := mapEntries_fixed rest (fun x hx => hk x (by simp only [keysD, List.map_cons, List.mem_cons]; exact Or.inr hx))
      (fun x hx => hv x (by simp only [valsD, List.map_cons, List.mem_cons]; exact Or.inr hx))
    simp [mapEntries, h1, h2, ih, bind, Except.bind]

/-- the results of `mapEntries` are results of the key / value validators -/
theorem mapEntries_results {fk fv : Val → R Val} : ∀ {es es' : List (Val × Val)}, mapEntries fk fv es = .ok es' →
    (∀ k' ∈ keysD es', ∃ k, fk k = .ok k') ∧ (∀ v' ∈ valsD es', ∃ v, fv v = .ok v')
  | [], es', h => by simp [mapEntries] at h; cases h; simp [keysD, valsD]
  | (k, v) :: rest, es', h => by
    simp only [mapEntries] at h
    cases hk : fk k with
    | error e => simp [hk] at h
    | ok k' =>
      cases hv : fv v with
      | error e => simp [hk, hv] at h
      | ok v' =>
        cases hr : mapEntries fk fv rest with
        | error e => simp [hk, hv, hr, bind, Except.bind] at h
        | ok rest' =>
          simp [hk, hv, hr, bind, Except.bind] at h
          cases h
          have ih := mapEntries_results hr
          constructor
          · intro x hx
            simp only [keysD, List.map_cons, List.mem_cons] at hx
            rcases hx with hx | hx
            · exact ⟨k, hx ▸ hk⟩
            · exact ih.1 x (by simpa [keysD] using hx)
          · intro x hx
            simp only [valsD, List.map_cons, List.mem_cons] at hx
            rcases hx with hx | hx
            · exact ⟨v, hx ▸ hv⟩
            · exact ih.2 x (by simpa [valsD] using hx)

theorem mapEntries_isEmpty {fk fv : Val → R Val} : ∀ {es es' : List (Val × Val)}, mapEntries fk fv es = .ok es' → es'.isEmpty = es.isEmpty
  | [], es', h => by simp [mapEntries] at h; cases h; rfl
  | (k, v) :: rest, es', h => by
    simp only [mapEntries] at h
    cases hk : fk k with
    | error e => simp [hk] at h
    | ok k' =>
      cases hv : fv v with
      | error e => simp [hk, hv] at h
      | ok v' =>
        cases hr : mapEntries fk fv rest with
        | error e => simp [hk, hv, hr, bind, Except.bind] at h
        | ok rest' => simp [hk, hv, hr, bind, Except.bind] at h; cases h; rfl

/-- **dict idempotence**: validating a validated, rebuilt dict again gives the same dict -/
theorem dict_idem {fk fv : Val → R Val} (hfk : ∀ v v', fk v = .ok v' → fk v' = .ok v') (hfv : ∀ v v', fv v = .ok v' → fv v' = .ok v')
    {es es' : List (Val × Val)} (h : mapEntries fk fv es = .ok es') :
    (mapEntries fk fv (buildDict es')).map buildDict = .ok (buildDict es') := by
  have hres := mapEntries_results h
  have hfix : mapEntries fk fv (buildDict es') = .ok (buildDict es') := by
    apply mapEntries_fixed
    · intro k hk
      obtain ⟨k0, hk0⟩ := hres.1 k (buildDict_keys_subset es' k hk)
      exact hfk k0 k hk0
    · intro v hv
      obtain ⟨v0, hv0⟩ := hres.2 v (buildDict_vals_subset es' v hv)
      exact hfv v0 v hv0
  rw [hfix]
  simp [Except.map, buildDict_of_nodup _ (buildDict_nodup es')]

end Cinco.Field
