import Cinco.Stub.Gen
/-
  Helper lemmas for C20: how `readFrom` / `hasSlash` (Python's reading of a parameter list) act on the pieces
  `get_method_annotation` assembles.
-/
namespace Cinco.C20
open Cinco Cinco.Stub

theorem readFrom_map_argItem (bs st : Bool) (ps : List Param) (rest : List Item) :
    readFrom bs st (ps.map argItem ++ rest) =
      ps.map (fun p => (p.name, if bs then PKind.posOnly else if st then .kwOnly else .pos)) ++
        readFrom bs st rest := by
  induction ps with
  | nil => rfl
  | cons p r ih => simp [argItem, readFrom, ih]

theorem hasSlash_map_argItem (ps : List Param) (rest : List Item) :
    hasSlash (ps.map argItem ++ rest) = hasSlash rest := by
  induction ps with
  | nil => rfl
  | cons p r ih => simp [argItem, hasSlash, ih]

theorem hasSlash_tail (m : Method) : hasSlash (starPart m ++ kwPart m) = false := by
  have hk : hasSlash (kwPart m) = false := by unfold kwPart; cases m.varkw <;> rfl
  unfold starPart
  cases hko : m.kwonly with
  | nil => cases m.varargs <;> simp [hasSlash, hk]
  | cons k ks =>
    cases m.varargs <;>
      simp only [List.cons_append, hasSlash, ← List.map_cons, hasSlash_map_argItem, hk]

theorem readFrom_tail (m : Method) :
    readFrom false false (starPart m ++ kwPart m) =
      (match m.varargs with | some v => [(v, PKind.varArgs)] | none => []) ++
      m.kwonly.map (fun p => (p.name, PKind.kwOnly)) ++
      (match m.varkw with | some k => [(k, PKind.varKw)] | none => []) := by
  have hk : ∀ st, readFrom false st (kwPart m) =
      (match m.varkw with | some k => [(k, PKind.varKw)] | none => []) := by
    intro st; unfold kwPart; cases m.varkw <;> rfl
  unfold starPart
  cases hko : m.kwonly with
  | nil => cases m.varargs <;> simp [readFrom, hk]
  | cons k ks =>
    cases m.varargs <;>
      simp only [List.cons_append, readFrom, ← List.map_cons, readFrom_map_argItem, hk] <;> simp

end Cinco.C20
