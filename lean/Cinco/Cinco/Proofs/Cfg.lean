import Cinco.Config.Ops
namespace Cinco.Config
open Cinco Cinco.Field

theorem getSlot_setSlot_same (k : String) (s : Slot) : ∀ (l : List (String × Slot)), getSlot k (setSlot k s l) = some s
  | [] => by simp [setSlot, getSlot]
  | (a, b) :: tl => by
    by_cases h : a = k
    · subst h; simp [setSlot, getSlot]
    · simp [setSlot, getSlot, h, getSlot_setSlot_same k s tl]

theorem getSlot_setSlot_other {k k' : String} (h : k' ≠ k) (s : Slot) : ∀ (l : List (String × Slot)), getSlot k' (setSlot k s l) = getSlot k' l
  | [] => by simp [setSlot, getSlot, Ne.symm h]
  | (a, b) :: tl => by
    by_cases h1 : a = k
    · subst h1
      have : ¬ a = k' := fun e => h e.symm
      simp [setSlot, getSlot, this]
    · by_cases h2 : a = k'
      · subst h2; simp [setSlot, getSlot, h1]
      · simp [setSlot, getSlot, h1, h2, getSlot_setSlot_other h s tl]

/-- writing back what is already there changes nothing -/
theorem setSlot_of_get {k : String} {s : Slot} : ∀ {l : List (String × Slot)}, getSlot k l = some s → setSlot k s l = l
  | [], h => by simp [getSlot] at h
  | (a, b) :: tl, h => by
    by_cases h1 : a = k
    · subst h1
      simp [getSlot] at h
      subst h
      simp [setSlot]
    · simp only [getSlot, h1, if_false] at h
      simp [setSlot, h1, setSlot_of_get h]

theorem Cfg.eta (c : Cfg) : Cfg.mk c.oid c.slots c.defaults c.dyn c.keyfile c.linked = c := by
  cases c; rfl

theorem Cfg.set_of_get {c : Cfg} {k : String} {s : Slot} (h : c.get k = some s) : c.set k s = c := by
  cases c with
  | mk o sl d dy kf li =>
    simp only [Cfg.get, Cfg.slots] at h
    simp [Cfg.set, Cfg.withSlots, Cfg.slots, Cfg.oid, Cfg.defaults, Cfg.dyn, Cfg.keyfile, Cfg.linked, setSlot_of_get h]

theorem Cfg.get_setUser_same (c : Cfg) (k : String) (s : Slot) : (c.setUser k s).get k = some s := by
  simp [Cfg.setUser, Cfg.get, Cfg.set, Cfg.withDefaults, Cfg.withSlots, Cfg.slots, getSlot_setSlot_same]

theorem Cfg.get_setUser_other (c : Cfg) {k k' : String} (h : k' ≠ k) (s : Slot) : (c.setUser k s).get k' = c.get k' := by
  simp [Cfg.setUser, Cfg.get, Cfg.set, Cfg.withDefaults, Cfg.withSlots, Cfg.slots, getSlot_setSlot_other h]

theorem Cfg.get_setDefault_same (c : Cfg) (k : String) (s : Slot) : (c.setDefault k s).get k = some s := by
  simp [Cfg.setDefault, Cfg.get, Cfg.set, Cfg.withDefaults, Cfg.withSlots, Cfg.slots, getSlot_setSlot_same]

theorem Cfg.get_setDefault_other (c : Cfg) {k k' : String} (h : k' ≠ k) (s : Slot) : (c.setDefault k s).get k' = c.get k' := by
  simp [Cfg.setDefault, Cfg.get, Cfg.set, Cfg.withDefaults, Cfg.withSlots, Cfg.slots, getSlot_setSlot_other h]

theorem Cfg.defaults_setUser (c : Cfg) (k : String) (s : Slot) : (c.setUser k s).defaults = c.defaults.filter (· != k) := by
  simp [Cfg.setUser, Cfg.withDefaults, Cfg.defaults]

theorem Cfg.defaults_setDefault_mem (c : Cfg) (k : String) (s : Slot) : k ∈ (c.setDefault k s).defaults := by
  cases c with
  | mk o sl d dy kf li =>
    simp only [Cfg.setDefault, Cfg.withDefaults, Cfg.defaults, Cfg.set, Cfg.withSlots]
    by_cases h : k ∈ d
    · simp [h]
    · simp [h]

@[simp] theorem Cfg.get_withDyn (c : Cfg) (d : List String) (k : String) : (c.withDyn d).get k = c.get k := by
  cases c; rfl
@[simp] theorem Cfg.get_withLinked (c : Cfg) (l : Bool) (k : String) : (c.withLinked l).get k = c.get k := by
  cases c; rfl
@[simp] theorem Cfg.get_withDefaults (c : Cfg) (d : List String) (k : String) : (c.withDefaults d).get k = c.get k := by
  cases c; rfl

theorem partitionDot_append : ∀ (k rest : List Char), '.' ∉ k → partitionDot (k ++ '.' :: rest) = (k, some rest)
  | [], rest, _ => by simp [partitionDot]
  | x :: xs, rest, h => by
    have hx : (x == '.') = false := by
      simp only [beq_eq_false_iff_ne, ne_eq]; intro e; subst e; exact h (by simp)
    have ih := partitionDot_append xs rest (fun hm => h (by simp [hm]))
    simp [partitionDot, hx, ih]

end Cinco.Config
