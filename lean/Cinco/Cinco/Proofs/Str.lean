import Cinco.Basic.Str
namespace Cinco.Str

theorem dropWhile_eq_self_of_head {p : Char → Bool} : ∀ (s : Str), (∀ c, s.head? = some c → p c = false) → s.dropWhile p = s
  | [], _ => rfl
  | c :: rest, h => by simp [List.dropWhile, h c rfl]

theorem strip_eq_self {s : Str} (h : ∀ c ∈ s, isSpace c = false) : strip s = s := by
  unfold strip dropWhileEnd
  have h1 : s.dropWhile isSpace = s := dropWhile_eq_self_of_head s (by
    intro c hc
    cases s with
    | nil => simp at hc
    | cons a t => simp at hc; subst hc; exact h _ (by simp))
  rw [h1]
  have h2 : s.reverse.dropWhile isSpace = s.reverse := dropWhile_eq_self_of_head _ (by
    intro c hc
    have : c ∈ s.reverse := List.mem_of_mem_head? hc
    exact h c (by simpa using this))
  rw [h2, List.reverse_reverse]

theorem isSpace_of_isDigit {c : Char} (h : c.isDigit = true) : isSpace c = false := by
  have : 48 ≤ c.toNat ∧ c.toNat ≤ 57 := by
    simp only [Char.isDigit, Bool.and_eq_true, decide_eq_true_eq] at h
    constructor
    · exact h.1
    · exact h.2
  simp only [isSpace]
  obtain ⟨a, b⟩ := this
  have e1 : (9 ≤ c.toNat && c.toNat ≤ 13) = false := by simp; omega
  have e2 : (28 ≤ c.toNat && c.toNat ≤ 32) = false := by simp; omega
  have e3 : (0x2000 ≤ c.toNat && c.toNat ≤ 0x200a) = false := by simp; omega
  simp [e1, e2, e3]
  omega

theorem digitsOk_of_all_digits : ∀ (s : Str) (prev : Bool), (∀ c ∈ s, c.isDigit = true) → (s ≠ [] ∨ prev = true) → digitsOk prev s = true
  | [], prev, _, h => by cases h with
    | inl h => exact absurd rfl h
    | inr h => simpa [digitsOk] using h
  | c :: rest, prev, hd, _ => by
    have hc : c.isDigit = true := hd c (by simp)
    simp only [digitsOk, hc, if_true]
    exact digitsOk_of_all_digits rest true (fun x hx => hd x (by simp [hx])) (Or.inr rfl)

theorem filter_underscore_of_all_digits (s : Str) (hd : ∀ c ∈ s, c.isDigit = true) : s.filter (· != '_') = s := by
  apply List.filter_eq_self.2
  intro c hc
  have := hd c hc
  simp only [bne_iff_ne, ne_eq]
  intro e
  subst e
  simp [Char.isDigit] at this

theorem natOfDigits_toDigits (n : Nat) : natOfDigits (Nat.toDigits 10 n) = some n := by
  have hd : ∀ c ∈ Nat.toDigits 10 n, c.isDigit = true :=
    fun c hc => Nat.isDigit_of_mem_toDigits (by omega) (by omega) hc
  unfold natOfDigits
  rw [digitsOk_of_all_digits _ false hd (Or.inl Nat.toDigits_ne_nil), filter_underscore_of_all_digits _ hd]
  simp

/-- **`int(str(i)) == i`** for the model's `str(int)` and `int(text)`. -/
theorem pyInt_intRepr (i : Int) : pyInt (intRepr i) = some i := by
  unfold intRepr pyInt
  rw [Int.toString_eq_repr, Int.repr_eq_if]
  by_cases h : 0 ≤ i
  · simp only [h, if_true, Nat.toList_repr]
    have hd : ∀ c ∈ Nat.toDigits 10 i.toNat, c.isDigit = true :=
      fun c hc => Nat.isDigit_of_mem_toDigits (by omega) (by omega) hc
    rw [strip_eq_self (fun c hc => isSpace_of_isDigit (hd c hc))]
    cases hl : Nat.toDigits 10 i.toNat with
    | nil => exact absurd hl Nat.toDigits_ne_nil
    | cons c rest =>
      have hc : c.isDigit = true := hd c (by simp [hl])
      have hm : c ≠ '-' := by intro e; subst e; simp [Char.isDigit] at hc
      have hp : c ≠ '+' := by intro e; subst e; simp [Char.isDigit] at hc
      have : natOfDigits (c :: rest) = some i.toNat := by rw [← hl]; exact natOfDigits_toDigits _
      split
      · next r heq => simp at heq; exact absurd heq.1 hm
      · next r heq => simp at heq; exact absurd heq.1 hp
      · simp [this]; omega
  · simp only [h, if_false, String.toList_append, Nat.toList_repr]
    have hd : ∀ c ∈ Nat.toDigits 10 (-i).toNat, c.isDigit = true :=
      fun c hc => Nat.isDigit_of_mem_toDigits (by omega) (by omega) hc
    have hs : strip ("-".toList ++ Nat.toDigits 10 (-i).toNat) = '-' :: Nat.toDigits 10 (-i).toNat := by
      apply strip_eq_self
      intro c hc
      simp at hc
      rcases hc with hc | hc
      · subst hc; decide
      · exact isSpace_of_isDigit (hd c hc)
    rw [hs]
    simp [natOfDigits_toDigits]
    omega

end Cinco.Str
