import Cinco.Config.Paths
import Cinco.Proofs.Cfg
import Cinco.Proofs.Inv
import Cinco.Props.C01
/-
  The ways of naming a field agree: enumeration (`get_all_fields`) vs. lookup by components vs. dotted lookup on
  schema and configuration; the command-line override touches only what it is given.
-/
namespace Cinco.Config
open Cinco Cinco.Field

/-! ## 1. Enumeration = lookup (by components) -/

/-- `lookupPath` on the field list of a schema, with the path split into head and tail -/
def lookupL (fs : List (String × SField)) (k : String) (rest : List String) : Option SField :=
  match rest with
  | [] => lookupField k fs
  | _ :: _ =>
    match lookupField k fs with
    | some (.sub s') => lookupPath s' rest
    | _ => none

theorem lookupPath_cons (s : Schema) (k : String) (rest : List String) :
    lookupPath s (k :: rest) = lookupL s.fields k rest := by
  cases rest with
  | nil => simp [lookupPath, lookupL, Schema.get]
  | cons k2 r => rw [lookupPath.eq_3]; rfl

theorem lookupL_isSome {fs : List (String × SField)} {k : String} {rest : List String} {f : SField}
    (h : lookupL fs k rest = some f) : lookupField k fs ≠ none := by
  intro hn
  cases rest with
  | nil => simp [lookupL, hn] at h
  | cons k2 r => simp [lookupL, hn] at h

theorem lookupL_cons_ne {k0 k : String} (f0 : SField) (tl : List (String × SField)) (rest : List String) (hne : k0 ≠ k) :
    lookupL ((k0, f0) :: tl) k rest = lookupL tl k rest := by
  cases rest with
  | nil => simp [lookupL, lookupField, hne]
  | cons k2 r => simp [lookupL, lookupField, hne]

theorem lookupL_cons_same (k : String) (f0 : SField) (tl : List (String × SField)) :
    lookupL ((k, f0) :: tl) k [] = some f0 := by
  simp [lookupL, lookupField]

theorem lookupL_cons_sub (k : String) (s' : Schema) (tl : List (String × SField)) (k2 : String) (r : List String) :
    lookupL ((k, .sub s') :: tl) k (k2 :: r) = lookupPath s' (k2 :: r) := by
  simp [lookupL, lookupField]

mutual
  theorem allPaths_sound (pfx : List String) : ∀ (s : Schema), s.keysNodup = true → ∀ p f, (p, f) ∈ allPaths pfx s →
      ∃ k rest, p = pfx ++ k :: rest ∧ lookupPath s (k :: rest) = some f
    | .mk fields d v, hnd, p, f, hm => by
      simp only [Schema.keysNodup, Schema.every, Bool.and_eq_true] at hnd
      rw [allPaths] at hm
      obtain ⟨k, rest, hp, hl⟩ := allPathsList_sound pfx fields hnd.1 hnd.2 p f hm
      exact ⟨k, rest, hp, by rw [lookupPath_cons]; exact hl⟩
  theorem allPathsList_sound (pfx : List String) : ∀ (fs : List (String × SField)), nodupKeys fs = true →
      everyFields nodupKeys fs = true → ∀ p f, (p, f) ∈ allPathsList pfx fs →
      ∃ k rest, p = pfx ++ k :: rest ∧ lookupL fs k rest = some f
    | [], _, _, p, f, hm => by simp [allPathsList] at hm
    | (k0, f0) :: tl, hnd, hev, p, f, hm => by
      simp only [nodupKeys, Bool.and_eq_true, Option.isNone_iff_eq_none] at hnd
      simp only [everyFields, Bool.and_eq_true] at hev
      have htail : (p, f) ∈ allPathsList pfx tl → ∃ k rest, p = pfx ++ k :: rest ∧ lookupL ((k0, f0) :: tl) k rest = some f := by
        intro hm'
        obtain ⟨k, rest, hp, hl⟩ := allPathsList_sound pfx tl hnd.2 hev.2 p f hm'
        refine ⟨k, rest, hp, ?_⟩
        have hne : k0 ≠ k := by
          intro e; subst e; exact lookupL_isSome hl hnd.1
        rw [lookupL_cons_ne _ _ _ hne]; exact hl
      have hhere : (p, f) = (pfx ++ [k0], f0) → ∃ k rest, p = pfx ++ k :: rest ∧ lookupL ((k0, f0) :: tl) k rest = some f := by
        intro e
        cases e
        exact ⟨k0, [], rfl, lookupL_cons_same _ _ _⟩
      cases f0 with
      | sub s' =>
        rw [allPathsList] at hm
        simp only [List.mem_cons, List.mem_append] at hm
        rcases hm with e | hb | ht
        · exact hhere e
        · simp only [SField.every] at hev
          obtain ⟨k, rest, hp, hl⟩ := allPaths_sound (pfx ++ [k0]) s' hev.1 p f hb
          refine ⟨k0, k :: rest, by simp [hp], ?_⟩
          rw [lookupL_cons_sub]; exact hl
        · exact htail ht
      | leaf _ _ | ctype _ _ | cfgList _ _ _ _ | virtual _ _ | method =>
        simp only [allPathsList, List.nil_append, List.mem_cons] at hm
        rcases hm with e | ht
        · exact hhere e
        · exact htail ht
end

/-- every entry of the enumeration with prefix `pfx` is `pfx ++ ks` for a non-empty `ks` that looks up to the same field -/
theorem enum_lookup_pfx (pfx : List String) (s : Schema) (hnd : s.keysNodup = true) :
    ∀ p f, (p, f) ∈ allPaths pfx s → ∃ ks, ks ≠ [] ∧ p = pfx ++ ks ∧ lookupPath s ks = some f := by
  intro p f hm
  obtain ⟨k, rest, hp, hl⟩ := allPaths_sound pfx s hnd p f hm
  exact ⟨k :: rest, by simp, hp, hl⟩

/-- **Enumeration ⊆ lookup**: every `(path, field)` that `get_all_fields` yields is what lookup by that path returns. -/
theorem enum_lookup (s : Schema) (hnd : s.keysNodup = true) :
    ∀ ks f, (ks, f) ∈ allPaths [] s → lookupPath s ks = some f := by
  intro ks f hm
  obtain ⟨k, rest, hp, hl⟩ := allPaths_sound [] s hnd ks f hm
  simp only [List.nil_append] at hp
  rw [hp]; exact hl

/-! ### converse: lookup ⊆ enumeration (no distinctness needed) -/

theorem lookupField_mem_allPathsList (pfx : List String) {k : String} {f : SField} :
    ∀ {fs : List (String × SField)}, lookupField k fs = some f → (pfx ++ [k], f) ∈ allPathsList pfx fs
  | [], h => by simp [lookupField] at h
  | (k0, f0) :: tl, h => by
    simp only [lookupField] at h
    split at h
    · rename_i e; subst e; cases h
      cases f <;> simp [allPathsList]
    · have ih := lookupField_mem_allPathsList pfx h
      cases f0 <;> simp [allPathsList, ih]

theorem lookupField_sub_subset (pfx : List String) {k : String} {s' : Schema} {x : List String × SField} :
    ∀ {fs : List (String × SField)}, lookupField k fs = some (.sub s') → x ∈ allPaths (pfx ++ [k]) s' → x ∈ allPathsList pfx fs
  | [], h, _ => by simp [lookupField] at h
  | (k0, f0) :: tl, h, hx => by
    simp only [lookupField] at h
    split at h
    · rename_i e; subst e; cases h
      simp [allPathsList, hx]
    · have ih := lookupField_sub_subset pfx h hx
      cases f0 <;> simp [allPathsList, ih]

theorem lookup_enum_pfx : ∀ (ks : List String) (pfx : List String) (s : Schema) (f : SField),
    lookupPath s ks = some f → (pfx ++ ks, f) ∈ allPaths pfx s
  | [], _, _, _, h => by simp [lookupPath] at h
  | [k], pfx, .mk fields d v, f, h => by
    rw [lookupPath.eq_2] at h
    rw [allPaths]
    exact lookupField_mem_allPathsList pfx h
  | k :: k2 :: r, pfx, .mk fields d v, f, h => by
    rw [lookupPath.eq_3] at h
    rw [allPaths]
    split at h
    · rename_i s' hg
      have ih := lookup_enum_pfx (k2 :: r) (pfx ++ [k]) s' f h
      have : pfx ++ k :: k2 :: r = pfx ++ [k] ++ k2 :: r := by simp
      rw [this]
      exact lookupField_sub_subset pfx hg ih
    · cases h

/-- **Lookup ⊆ enumeration**: whatever lookup by components finds is listed by `get_all_fields` under that path. -/
theorem lookup_enum (s : Schema) : ∀ ks f, lookupPath s ks = some f → (ks, f) ∈ allPaths [] s := by
  intro ks f h
  simpa using lookup_enum_pfx ks [] s f h

/-- enumeration and lookup by components name the same fields -/
theorem enum_iff_lookup (s : Schema) (hnd : s.keysNodup = true) (ks : List String) (f : SField) :
    (ks, f) ∈ allPaths [] s ↔ lookupPath s ks = some f :=
  ⟨enum_lookup s hnd ks f, lookup_enum s ks f⟩

/-! ## 2. String level: dotted lookup on the schema = lookup by components -/

/-- the characters of the dotted rendering of a path -/
def dottedChars : List String → List Char
  | [] => []
  | [k] => k.toList
  | k :: rest => k.toList ++ '.' :: dottedChars rest

theorem dottedChars_cons2 (k k2 : String) (r : List String) :
    dottedChars (k :: k2 :: r) = k.toList ++ '.' :: dottedChars (k2 :: r) := by
  rw [dottedChars]
  intro h; cases h

/-- `dottedChars` is the character list of `renderPath` -/
theorem dottedChars_eq_renderPath : ∀ (ks : List String), dottedChars ks = (renderPath ks).toList
  | [] => by simp [dottedChars, renderPath]
  | [k] => by simp [dottedChars, renderPath]
  | k :: k2 :: r => by
    have ih := dottedChars_eq_renderPath (k2 :: r)
    rw [dottedChars_cons2, ih]
    simp [renderPath, String.toList_intercalate, List.intercalate]

/-- path components as they can occur in a dotted key: non-empty, without a dot -/
def goodKeys (ks : List String) : Prop := ∀ k ∈ ks, k ≠ "" ∧ '.' ∉ k.toList

theorem goodKeys_tail {k : String} {ks : List String} (h : goodKeys (k :: ks)) : goodKeys ks :=
  fun x hx => h x (List.mem_cons_of_mem _ hx)

theorem dottedChars_ne_nil {k : String} {r : List String} (h : goodKeys (k :: r)) : dottedChars (k :: r) ≠ [] := by
  have hk := (h k (by simp)).1
  have : k.toList ≠ [] := by
    intro e
    apply hk
    rw [← String.ofList_toList (s := k), e]
  cases r with
  | nil => simpa [dottedChars] using this
  | cons k2 r => rw [dottedChars_cons2]; simp

theorem schemaLookup_dotted : ∀ (fuel : Nat) (s : Schema) (ks : List String), goodKeys ks → ks ≠ [] → ks.length ≤ fuel →
    schemaLookup fuel s (dottedChars ks) = lookupPath s ks
  | _, _, [], _, hne, _ => absurd rfl hne
  | 0, _, _ :: _, _, _, hl => by simp at hl
  | fuel + 1, s, [k], hg, _, _ => by
    have hk := (hg k (by simp)).2
    simp only [schemaLookup, dottedChars, partitionDot_no_dot _ hk, String.ofList_toList, lookupPath]
  | fuel + 1, s, k :: k2 :: r, hg, _, hl => by
    have hk := (hg k (by simp)).2
    have hg' := goodKeys_tail hg
    rw [dottedChars_cons2, lookupPath.eq_3]
    simp only [schemaLookup, partitionDot_append _ _ hk, String.ofList_toList]
    cases hs : s.get k with
    | none => rfl
    | some f =>
      cases f with
      | sub s' =>
        have hne : (dottedChars (k2 :: r)).isEmpty = false := by
          have := dottedChars_ne_nil hg'
          cases hd : dottedChars (k2 :: r) with
          | nil => exact absurd hd this
          | cons _ _ => rfl
        simp only [hne, Bool.false_eq_true, if_false]
        exact schemaLookup_dotted fuel s' (k2 :: r) hg' (by simp) (by simp at hl ⊢; omega)
      | _ => rfl

theorem dottedChars_isEmpty {k : String} {r : List String} (h : goodKeys (k :: r)) : (dottedChars (k :: r)).isEmpty = false := by
  have := dottedChars_ne_nil h
  cases hd : dottedChars (k :: r) with
  | nil => exact absurd hd this
  | cons _ _ => rfl

/-- the same, stated on the library's rendering of the path -/
theorem schemaLookup_renderPath (fuel : Nat) (s : Schema) (ks : List String) (hg : goodKeys ks) (hne : ks ≠ [])
    (hl : ks.length ≤ fuel) : schemaLookup fuel s (renderPath ks).toList = lookupPath s ks := by
  rw [← dottedChars_eq_renderPath]; exact schemaLookup_dotted fuel s ks hg hne hl

/-! ## 3. Configuration side: dotted lookup = chained access -/

/-- `c[k1][k2]...[kn]` -/
def chain : Cfg → List String → Option Slot
  | _, [] => none
  | c, [k] => c.get k
  | c, k :: rest =>
    match c.get k with
    | some (.node sub) => chain sub rest
    | _ => none

theorem chain_cons2 (c : Cfg) (k k2 : String) (r : List String) :
    chain c (k :: k2 :: r) = match c.get k with
      | some (.node sub) => chain sub (k2 :: r)
      | _ => none := by
  rw [chain]
  intro h; cases h

theorem cfgLookup_dotted : ∀ (fuel : Nat) (c : Cfg) (ks : List String), goodKeys ks → ks ≠ [] → ks.length ≤ fuel →
    cfgLookup fuel c (dottedChars ks) = chain c ks
  | _, _, [], _, hne, _ => absurd rfl hne
  | 0, _, _ :: _, _, _, hl => by simp at hl
  | fuel + 1, c, [k], hg, _, _ => by
    have hk := (hg k (by simp)).2
    simp only [cfgLookup, dottedChars, partitionDot_no_dot _ hk, String.ofList_toList, chain]
  | fuel + 1, c, k :: k2 :: r, hg, _, hl => by
    have hk := (hg k (by simp)).2
    have hg' := goodKeys_tail hg
    rw [dottedChars_cons2, chain_cons2]
    simp only [cfgLookup, partitionDot_append _ _ hk, String.ofList_toList]
    cases hs : c.get k with
    | none => rfl
    | some sl =>
      cases sl with
      | node sub => exact cfgLookup_dotted fuel sub (k2 :: r) hg' (by simp) (by simp at hl ⊢; omega)
      | _ => rfl

theorem cfgContains_dotted : ∀ (fuel : Nat) (c : Cfg) (ks : List String), goodKeys ks → ks ≠ [] → ks.length ≤ fuel →
    cfgContains fuel c (dottedChars ks) = (chain c ks).isSome
  | _, _, [], _, hne, _ => absurd rfl hne
  | 0, _, _ :: _, _, _, hl => by simp at hl
  | fuel + 1, c, [k], hg, _, _ => by
    have hk := (hg k (by simp)).2
    simp only [cfgContains, dottedChars, partitionDot_no_dot _ hk, String.ofList_toList, chain]
  | fuel + 1, c, k :: k2 :: r, hg, _, hl => by
    have hk := (hg k (by simp)).2
    have hg' := goodKeys_tail hg
    rw [dottedChars_cons2, chain_cons2]
    simp only [cfgContains, partitionDot_append _ _ hk, String.ofList_toList]
    cases hs : c.get k with
    | none => rfl
    | some sl =>
      cases sl with
      | node sub => exact cfgContains_dotted fuel sub (k2 :: r) hg' (by simp) (by simp at hl ⊢; omega)
      | _ => rfl

/-- membership is definedness of lookup -/
theorem cfgContains_eq_isSome (fuel : Nat) (c : Cfg) (ks : List String) (hg : goodKeys ks) (hne : ks ≠ [])
    (hl : ks.length ≤ fuel) : cfgContains fuel c (dottedChars ks) = (cfgLookup fuel c (dottedChars ks)).isSome := by
  rw [cfgContains_dotted fuel c ks hg hne hl, cfgLookup_dotted fuel c ks hg hne hl]

/-! ## 4. The command-line override touches only what it is given -/

/-- `config[dotted] = value` changes no top-level key other than the first component of `dotted` -/
theorem setItem_frame (W : World) (fuel : Nat) (s : Schema) (path : String) (c : Cfg) (dotted : List Char) (a : Arg) (n : Nat)
    (k' : String) (hne : String.ofList (partitionDot dotted).1 ≠ k') :
    (setItem W fuel s path c dotted a n).cfg.get k' = c.get k' := by
  cases fuel with
  | zero => simp [setItem]
  | succ fuel =>
    unfold setItem
    rcases hp : partitionDot dotted with ⟨k, o⟩
    rw [hp] at hne
    simp only at hne
    cases o with
    | none => exact C01.set_frame W (fuel + 1) s path c _ k' a n (Ne.symm hne)
    | some rest =>
      simp only
      split
      · exact C01.set_frame W (fuel + 1) s path c _ k' a n (Ne.symm hne)
      · split
        · rfl
        · rfl
        · split
          · exact Cfg.get_set_other c (Ne.symm hne) _
          · rfl

def overrideStep (W : World) (fuel : Nat) (s : Schema) (ignore : List String) (o : Out) (kv : String × Option Val) : Out :=
  match o.err with
  | some _ => o
  | none =>
    match kv.2 with
    | none => o
    | some v => if ignore.contains kv.1 then o else setItem W fuel s "" o.cfg kv.1.toList (.val v) o.next

theorem cmdlineOverride_eq_foldl (W : World) (fuel : Nat) (s : Schema) (c : Cfg) (ns : List (String × Option Val))
    (ignore : List String) (n : Nat) :
    cmdlineOverride W fuel s c ns ignore n = ns.foldl (overrideStep W fuel s ignore) { cfg := c, next := n } := rfl

/-- the entry is not supplied (`None`) or its key is ignored -/
def notSupplied (ignore : List String) (kv : String × Option Val) : Bool := kv.2.isNone || ignore.contains kv.1

theorem overrideStep_notSupplied (W : World) (fuel : Nat) (s : Schema) (ignore : List String) (o : Out)
    (kv : String × Option Val) (h : notSupplied ignore kv = true) : overrideStep W fuel s ignore o kv = o := by
  unfold overrideStep
  split
  · rfl
  · split
    · rfl
    · rename_i v hv
      simp only [notSupplied, hv, Option.isNone_some, Bool.false_or] at h
      rw [if_pos h]

theorem foldl_overrideStep_notSupplied (W : World) (fuel : Nat) (s : Schema) (ignore : List String) :
    ∀ (ns : List (String × Option Val)) (o : Out), (∀ kv ∈ ns, notSupplied ignore kv = true) →
      ns.foldl (overrideStep W fuel s ignore) o = o
  | [], _, _ => rfl
  | kv :: tl, o, h => by
    rw [List.foldl_cons, overrideStep_notSupplied W fuel s ignore o kv (h kv (by simp))]
    exact foldl_overrideStep_notSupplied W fuel s ignore tl o (fun x hx => h x (List.mem_cons_of_mem _ hx))

/-- if nothing is supplied (every entry is `None` or ignored), the override is the identity and allocates nothing -/
theorem override_nothing_supplied (W : World) (fuel : Nat) (s : Schema) (c : Cfg) (ns : List (String × Option Val))
    (ignore : List String) (n : Nat) (h : ∀ kv ∈ ns, kv.2 = none ∨ ignore.contains kv.1 = true) :
    cmdlineOverride W fuel s c ns ignore n = { cfg := c, next := n } := by
  rw [cmdlineOverride_eq_foldl]
  apply foldl_overrideStep_notSupplied
  intro kv hkv
  rcases h kv hkv with h1 | h1
  · simp [notSupplied, h1]
  · simp only [notSupplied, h1, Bool.or_true]

/-- in particular for the namespace of an empty command line -/
theorem override_empty_cmdline (W : World) (fuel : Nat) (s : Schema) (c : Cfg) (opts : List OptSpec) (ignore : List String) (n : Nat) :
    cmdlineOverride W fuel s c (parseArgs opts []) ignore n = { cfg := c, next := n } := by
  apply override_nothing_supplied
  intro kv hkv
  left
  simp only [parseArgs, List.reverse_nil, List.find?_nil, List.mem_map] at hkv
  obtain ⟨d, _, rfl⟩ := hkv
  rfl

/-- the top-level key a dotted name starts with -/
def firstComponent (d : String) : String := String.ofList (partitionDot d.toList).1

/-- does some supplied, non-ignored entry of the namespace start with top-level key `k'`? -/
def touches (ns : List (String × Option Val)) (ignore : List String) (k' : String) : Bool :=
  ns.any (fun kv => !notSupplied ignore kv && firstComponent kv.1 == k')

theorem overrideStep_frame (W : World) (fuel : Nat) (s : Schema) (ignore : List String) (o : Out)
    (kv : String × Option Val) (k' : String) (h : (!notSupplied ignore kv && firstComponent kv.1 == k') = false) :
    (overrideStep W fuel s ignore o kv).cfg.get k' = o.cfg.get k' := by
  unfold overrideStep
  split
  · rfl
  · split
    · rfl
    · rename_i v hv
      split
      · rfl
      · rename_i hi
        apply setItem_frame
        intro e
        have hi' : ignore.contains kv.1 = false := by simpa using hi
        simp only [notSupplied, hv, hi', firstComponent, e, Option.isNone_some, Bool.or_self, Bool.not_false,
          Bool.true_and, beq_self_eq_true] at h
        cases h

theorem foldl_overrideStep_frame (W : World) (fuel : Nat) (s : Schema) (ignore : List String) (k' : String) :
    ∀ (ns : List (String × Option Val)) (o : Out), touches ns ignore k' = false →
      (ns.foldl (overrideStep W fuel s ignore) o).cfg.get k' = o.cfg.get k'
  | [], _, _ => rfl
  | kv :: tl, o, h => by
    simp only [touches, List.any_cons, Bool.or_eq_false_iff] at h
    rw [List.foldl_cons, foldl_overrideStep_frame W fuel s ignore k' tl _ h.2]
    exact overrideStep_frame W fuel s ignore o kv k' h.1

/-- a top-level key that no supplied, non-ignored entry starts with keeps its slot -/
theorem override_frame (W : World) (fuel : Nat) (s : Schema) (c : Cfg) (ns : List (String × Option Val))
    (ignore : List String) (n : Nat) (k' : String) (h : touches ns ignore k' = false) :
    (cmdlineOverride W fuel s c ns ignore n).cfg.get k' = c.get k' := by
  rw [cmdlineOverride_eq_foldl]
  exact foldl_overrideStep_frame W fuel s ignore k' ns _ h

/-! ## 5. The generated parser: one destination per scalar field, two for booleans -/

theorem parser_dests (s : Schema) :
    (genParser s).map (·.dest) = (allFields s).flatMap (fun (p, f) => match f with
      | .leaf fs _ => (match optKindOf fs.kind with
          | some .store => [p]
          | some .flag => [p, p]
          | none => [])
      | _ => []) := by
  unfold genParser
  rw [List.map_flatMap]
  congr 1
  funext ⟨p, f⟩
  cases f with
  | leaf fs m =>
    simp only
    cases optKindOf fs.kind with
    | none => rfl
    | some o => cases o <;> rfl
  | _ => rfl

end Cinco.Config
