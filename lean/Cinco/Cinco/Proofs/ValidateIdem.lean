import Cinco.Proofs.FieldLemmas
/-
  Idempotence of validation, kind by kind, then lifted over nesting (lists / dicts) by structural recursion
  on the declaration.  The facts about the string and network primitives are collected in `Prims` and are
  discharged in Cinco/Proofs/StrIdem.lean and Cinco/Proofs/NetRoundtrip.lean.
-/
namespace Cinco.Field
open Cinco Cinco.Num Cinco.Str

/-- facts about the modelled primitives that idempotence rests on -/
structure Prims : Prop where
  strRule_idem : ∀ (o : StrOpts) (req : Bool) (v : Val) (t : Str), strRule o req v = .ok t → strRule o req (.str t) = .ok t
  printAddr_of_parseAddr : ∀ (s : Str) (n : Nat), Net.parseAddr s = some n → Net.printAddr n = s
  parseNet_canonical : ∀ (s : Str) (n p : Nat), Net.parseNet s = some (n, p) → Net.parseNet (Net.printNet n p) = some (n, p)

/-- what idempotence of `FilenameField` needs from `os.path`: a resolved path is absolute, the empty path is not -/
structure EnvOk (E : Env) : Prop where
  resolve_abs : ∀ sd t, E.isabs (E.resolve sd t) = true
  empty_not_abs : E.isabs [] = false

def StrOpts.plain (o : StrOpts) : Bool :=
  o.minLen.isNone && o.maxLen.isNone && o.regex.isNone && o.choices.isEmpty && o.case.isNone && (match o.strip with | .off => true | _ => false)

mutual
  /-- the declarations for which idempotence is claimed: no custom validator anywhere; an IPv4NetworkField, and a
      FilenameField with a start directory, only without StringField options (findings F22 / F25) -/
  def IdemOk : FieldSpec → Bool
    | .mk k _ c => c.isNone && IdemOkKind k
  def IdemOkOpt : Option FieldSpec → Bool
    | none => true
    | some f => IdemOk f
  def IdemOkKind : Kind → Bool
    | .ipv4net o _ _ => o.plain
    | .filename o _ sd => o.plain || (match sd with | none => true | some d => d.isEmpty)
    | .list item => IdemOkOpt item
    | .dict k v => IdemOkOpt k && IdemOkOpt v
    | _ => true
end

theorem strRule_plain (o : StrOpts) (h : o.plain = true) (req : Bool) (s : Str) :
    strRule o req (.str s) = if req && s.isEmpty then .error .value else .ok s := by
  obtain ⟨mn, mx, re, ch, cs, st⟩ := o
  simp only [StrOpts.plain, Bool.and_eq_true, Option.isNone_iff_eq_none, List.isEmpty_iff] at h
  obtain ⟨⟨⟨⟨⟨h1, h2⟩, h3⟩, h4⟩, h5⟩, h6⟩ := h
  subst h1; subst h2; subst h3; subst h4; subst h5
  cases st <;> simp at h6
  cases req <;> cases hs : s.isEmpty <;> simp [strRule, transform, applyStrip, strChecks, hs]

theorem intRule_idem (mn mx : Option Num) (v v' : Val) (h : intRule mn mx v = .ok v') : intRule mn mx v' = .ok v' := by
  cases v <;> simp only [intRule] at h <;> try (cases h; done)
  · split at h <;> cases h; simp [intRule, *]
  · split at h
    · split at h <;> cases h; simp [intRule, *]
    · cases h
    · cases h
  · split at h
    · split at h <;> cases h; simp [intRule, *]
    · cases h

theorem floatRule_idem (E : Env) (mn mx : Option Num) (v v' : Val) (h : floatRule E mn mx v = .ok v') : floatRule E mn mx v' = .ok v' := by
  cases v <;> simp only [floatRule] at h <;> try (cases h; done)
  · (repeat' split at h) <;> cases h; simp [floatRule, *]
  · split at h <;> cases h; simp [floatRule, *]
  · split at h
    · split at h <;> cases h; simp [floatRule, *]
    · cases h

theorem boolRule_idem (v v' : Val) (h : boolRule v = .ok v') : boolRule v' = .ok v' := by
  cases v <;> simp only [boolRule] at h <;> try (cases h; done)
  all_goals first
    | (cases h; rfl)
    | (split at h
       · cases h; rfl
       · split at h <;> cases h; rfl)

theorem bytesRule_idem (E : Env) (v v' : Val) (h : bytesRule E v = .ok v') : bytesRule E v' = .ok v' := by
  cases v <;> simp only [bytesRule] at h <;> cases h <;> rfl

theorem challengeRule_idem (E : Env) (alg : String) (v v' : Val) (h : challengeRule E alg v = .ok v') : challengeRule E alg v' = .ok v' := by
  cases v <;> simp only [challengeRule] at h <;> cases h <;> rfl

theorem secureRule_idem (req : Bool) (v v' : Val) (h : secureRule req v = .ok v') : secureRule req v' = .ok v' := by
  cases v <;> simp only [secureRule] at h <;> try (cases h; done)
  split at h <;> cases h
  simp [secureRule, *]

theorem bind_ok {α β} {x : R α} {f : α → R β} {b : β} (h : x >>= f = .ok b) : ∃ a, x = .ok a ∧ f a = .ok b := by
  cases x with
  | error e => simp [bind, Except.bind] at h
  | ok a => exact ⟨a, rfl, by simpa [bind, Except.bind] using h⟩

theorem addrRule_idem (P : Prims) (o : StrOpts) (req : Bool) (v v' : Val) (h : addrRule o req v = .ok v') : addrRule o req v' = .ok v' := by
  unfold addrRule at h
  obtain ⟨t, ht, h2⟩ := bind_ok h
  cases hp : Net.parseAddr t with
  | none => simp [hp] at h2
  | some n =>
    simp only [hp] at h2
    cases h2
    rw [P.printAddr_of_parseAddr t n hp]
    simp [addrRule, P.strRule_idem o req v t ht, hp, bind, Except.bind, P.printAddr_of_parseAddr t n hp]

theorem hostRule_idem (P : Prims) (o : StrOpts) (req a : Bool) (v v' : Val) (h : hostRule o req a v = .ok v') : hostRule o req a v' = .ok v' := by
  unfold hostRule at h
  obtain ⟨t, ht, h2⟩ := bind_ok h
  cases hp : Net.parseAddr t with
  | none =>
    simp only [hp] at h2
    split at h2
    · cases h2
      simp [hostRule, P.strRule_idem o req v t ht, hp, bind, Except.bind, *]
    · cases h2
  | some n =>
    simp only [hp] at h2
    split at h2
    · cases h2
      rw [P.printAddr_of_parseAddr t n hp]
      simp [hostRule, P.strRule_idem o req v t ht, hp, bind, Except.bind, P.printAddr_of_parseAddr t n hp, *]
    · cases h2

theorem urlRule_idem (P : Prims) (E : Env) (o : StrOpts) (req : Bool) (v v' : Val) (h : urlRule E o req v = .ok v') : urlRule E o req v' = .ok v' := by
  unfold urlRule at h
  obtain ⟨t, ht, h2⟩ := bind_ok h
  split at h2
  · cases h2
    simp [urlRule, P.strRule_idem o req v t ht, bind, Except.bind, *]
  · cases h2

theorem netRule_idem (P : Prims) (o : StrOpts) (ho : o.plain = true) (req : Bool) (mn mx : Option Int) (v v' : Val)
    (h : netRule o req mn mx v = .ok v') : netRule o req mn mx v' = .ok v' := by
  unfold netRule at h
  obtain ⟨t, ht, h2⟩ := bind_ok h
  cases hp : Net.parseNet t with
  | none => simp [hp] at h2
  | some np =>
    obtain ⟨n, p⟩ := np
    simp only [hp] at h2
    cases hb : prefixBad mn mx p with
    | true => simp [hb] at h2
    | false =>
      simp [hb] at h2
      subst h2
      -- the canonical text is non-empty, so the plain string rule accepts it unchanged
      have hne : (Net.printNet n p).isEmpty = false := by
        simp [Net.printNet, Net.printAddr]
      have hs : strRule o req (.str (Net.printNet n p)) = .ok (Net.printNet n p) := by
        rw [strRule_plain o ho]; simp [hne]
      simp [netRule, hs, P.parseNet_canonical t n p hp, bind, Except.bind, hb]

theorem fileRule_idem (P : Prims) (E : Env) (hE : EnvOk E) (o : StrOpts) (req : Bool) (ex : Exists) (sd : Option Str)
    (hg : (o.plain || (match sd with | none => true | some d => d.isEmpty)) = true) (v v' : Val)
    (h : fileRule E o req ex sd v = .ok v') : fileRule E o req ex sd v' = .ok v' := by
  unfold fileRule at h
  obtain ⟨t, ht, h2⟩ := bind_ok h
  have hidem := P.strRule_idem o req v t ht
  by_cases hte : t.isEmpty = true
  · simp only [hte, if_true] at h2
    cases h2
    simp [fileRule, hidem, hte, bind, Except.bind]
  · have hte' : t.isEmpty = false := by simpa using hte
    simp only [hte', Bool.false_eq_true, if_false] at h2
    -- case 1: the path is the text itself (no usable start directory, or the text is absolute)
    have same_path : filePath E sd t = t → fileRule E o req ex sd v' = .ok v' := by
      intro hp
      simp only [hp] at h2
      cases hb : fileBad E ex t with
      | true => simp [hb] at h2
      | false =>
        simp [hb] at h2
        subst h2
        simp [fileRule, hidem, hte', hp, hb, bind, Except.bind]
    cases sd with
    | none => exact same_path rfl
    | some d =>
      by_cases hd : d.isEmpty = true
      · exact same_path (by simp [filePath, hd])
      · have hd' : d.isEmpty = false := by simpa using hd
        have hop : o.plain = true := by simpa [hd'] using hg
        by_cases hab : E.isabs t = true
        · exact same_path (by simp [filePath, hab])
        · have hab' : E.isabs t = false := by simpa using hab
          have hfp : filePath E (some d) t = E.resolve d t := by simp [filePath, hab', hd']
          simp only [hfp] at h2
          cases hb : fileBad E ex (E.resolve d t) with
          | true => simp [hb] at h2
          | false =>
            simp [hb] at h2
            subst h2
            have hra := hE.resolve_abs d t
            have hrne : (E.resolve d t).isEmpty = false := by
              cases hr : E.resolve d t with
              | nil => rw [hr, hE.empty_not_abs] at hra; cases hra
              | cons _ _ => rfl
            have hs : strRule o req (.str (E.resolve d t)) = .ok (E.resolve d t) := by
              rw [strRule_plain o hop]; simp [hrne]
            have hfp2 : filePath E (some d) (E.resolve d t) = E.resolve d t := by simp [filePath, hra]
            simp [fileRule, hs, hrne, hfp2, hb, bind, Except.bind]

theorem validate_of_ne_none (E : Env) (k : Kind) (req : Bool) (c : Option String) (v : Val) (hv : v ≠ .none) :
    validate E (.mk k req c) v =
      (match validateKind E k req v with
       | .error e => .error e
       | .ok v' => match c with
          | some name => E.custom name v'
          | none => .ok v') := by
  cases v <;> first | (exact absurd rfl hv) | (simp only [validate] <;> rfl)

theorem validateKind_ne_none (E : Env) (k : Kind) (req : Bool) (v v' : Val) (hv : v ≠ .none)
    (h : validateKind E k req v = .ok v') : v' ≠ .none := by
  intro e
  subst e
  cases k with
  | any => simp only [validateKind] at h; cases h; exact hv rfl
  | string o =>
    simp only [validateKind] at h
    cases hs : strRule o req v <;> simp [hs, Except.map] at h
  | int mn mx =>
    simp only [validateKind] at h
    cases v <;> simp only [intRule] at h <;> (repeat' split at h) <;> cases h
  | float mn mx =>
    simp only [validateKind] at h
    cases v <;> simp only [floatRule] at h <;> (repeat' split at h) <;> cases h
  | bool =>
    simp only [validateKind] at h
    cases v <;> simp only [boolRule] at h <;> (repeat' split at h) <;> cases h
  | bytes enc =>
    simp only [validateKind] at h
    cases v <;> simp only [bytesRule] at h <;> cases h
  | ipv4addr o =>
    simp only [validateKind, addrRule] at h
    obtain ⟨t, _, h2⟩ := bind_ok h
    split at h2 <;> cases h2
  | ipv4net o mn mx =>
    simp only [validateKind, netRule] at h
    obtain ⟨t, _, h2⟩ := bind_ok h
    (repeat' split at h2) <;> cases h2
  | hostname o a =>
    simp only [validateKind, hostRule] at h
    obtain ⟨t, _, h2⟩ := bind_ok h
    (repeat' split at h2) <;> cases h2
  | filename o ex sd =>
    simp only [validateKind, fileRule] at h
    obtain ⟨t, _, h2⟩ := bind_ok h
    (repeat' split at h2) <;> cases h2
  | url o =>
    simp only [validateKind, urlRule] at h
    obtain ⟨t, _, h2⟩ := bind_ok h
    split at h2 <;> cases h2
  | challenge alg =>
    simp only [validateKind] at h
    cases v <;> simp only [challengeRule] at h <;> cases h
  | secure m =>
    simp only [validateKind] at h
    cases v <;> simp only [secureRule] at h <;> (repeat' split at h) <;> cases h
  | list item =>
    simp only [validateKind] at h
    cases v with
    | list xs =>
      simp only at h
      split at h
      · cases h
      · cases hvi : validateItems E item xs with
        | none => simp [hvi] at h
        | some r => cases r <;> simp [hvi, Except.map] at h
    | tuple xs =>
      simp only at h
      split at h
      · cases h
      · cases hvi : validateItems E item xs with
        | none => simp [hvi] at h
        | some r => cases r <;> simp [hvi, Except.map] at h
    | _ => cases h
  | dict kf vf =>
    simp only [validateKind] at h
    cases v with
    | dict kvs =>
      simp only at h
      split at h
      · cases h
      · split at h
        · cases h
        · cases hm : mapEntries (fun x => validateOpt E kf x) (fun x => validateOpt E vf x) kvs <;> simp [hm, Except.map] at h
    | _ => cases h

mutual
  /-- **Validation is idempotent**: validating an accepted result again returns the same value and never rejects it. -/
  theorem validate_idem (P : Prims) (E : Env) (hE : EnvOk E) :
      ∀ (f : FieldSpec) (v v' : Val), IdemOk f = true → validate E f v = .ok v' → validate E f v' = .ok v'
    | .mk k req c, v, v', hok, h => by
      simp only [IdemOk, Bool.and_eq_true, Option.isNone_iff_eq_none] at hok
      obtain ⟨hc, hk⟩ := hok
      subst hc
      by_cases hv : v = .none
      · subst hv
        cases req <;> simp [validate] at h
        subst h
        simp [validate]
      · rw [validate_of_ne_none E k req none v hv] at h
        cases hr : validateKind E k req v with
        | error e => simp [hr] at h
        | ok w =>
          simp only [hr] at h
          cases h
          have hne := validateKind_ne_none E k req v v' hv hr
          rw [validate_of_ne_none E k req none v' hne, validateKind_idem P E hE k req v v' hk hr]
  theorem validateOpt_idem (P : Prims) (E : Env) (hE : EnvOk E) :
      ∀ (o : Option FieldSpec) (v v' : Val), IdemOkOpt o = true →
        validateOpt E o v = .ok v' → validateOpt E o v' = .ok v'
    | none, v, v', _, h => by simp only [validateOpt] at h ⊢ <;> exact h
    | some f, v, v', hok, h => by
      simp only [validateOpt] at h ⊢
      exact validate_idem P E hE f v v' (by simpa [IdemOkOpt] using hok) h
  theorem validateItems_idem (P : Prims) (E : Env) (hE : EnvOk E) :
      ∀ (o : Option FieldSpec) (xs ys : List Val), IdemOkOpt o = true →
        validateItems E o xs = some (.ok ys) → validateItems E o ys = some (.ok ys)
    | none, xs, ys, _, h => by simp [validateItems] at h
    | some (.mk k r c), xs, ys, hok, h => by
      simp only [validateItems] at h ⊢
      by_cases ha : k.isAny = true
      · simp [ha] at h
      · simp only [ha, Bool.false_eq_true, if_false, Option.some.injEq] at h ⊢
        exact mapR_idem (fun a b hab => validate_idem P E hE (.mk k r c) a b (by simpa [IdemOkOpt] using hok) hab) h
  theorem validateKind_idem (P : Prims) (E : Env) (hE : EnvOk E) :
      ∀ (k : Kind) (req : Bool) (v v' : Val), IdemOkKind k = true → validateKind E k req v = .ok v' → validateKind E k req v' = .ok v'
    | .any, req, v, v', _, h => by simp only [validateKind] at h ⊢ <;> exact h
    | .string o, req, v, v', _, h => by
      simp only [validateKind] at h ⊢
      cases hs : strRule o req v with
      | error e => simp [hs, Except.map] at h
      | ok t =>
        simp [hs, Except.map] at h
        subst h
        simp [P.strRule_idem o req v t hs, Except.map]
    | .int mn mx, req, v, v', _, h => by simp only [validateKind] at h ⊢; exact intRule_idem mn mx v v' h
    | .float mn mx, req, v, v', _, h => by simp only [validateKind] at h ⊢; exact floatRule_idem E mn mx v v' h
    | .bool, req, v, v', _, h => by simp only [validateKind] at h ⊢; exact boolRule_idem v v' h
    | .bytes _, req, v, v', _, h => by simp only [validateKind] at h ⊢; exact bytesRule_idem E v v' h
    | .ipv4addr o, req, v, v', _, h => by simp only [validateKind] at h ⊢; exact addrRule_idem P o req v v' h
    | .ipv4net o mn mx, req, v, v', hk, h => by
      simp only [validateKind] at h ⊢
      exact netRule_idem P o (by simpa [IdemOkKind] using hk) req mn mx v v' h
    | .hostname o a, req, v, v', _, h => by simp only [validateKind] at h ⊢; exact hostRule_idem P o req a v v' h
    | .filename o ex sd, req, v, v', hk, h => by
      simp only [validateKind] at h ⊢
      exact fileRule_idem P E hE o req ex sd (by simpa [IdemOkKind] using hk) v v' h
    | .url o, req, v, v', _, h => by simp only [validateKind] at h ⊢; exact urlRule_idem P E o req v v' h
    | .challenge alg, req, v, v', _, h => by simp only [validateKind] at h ⊢; exact challengeRule_idem E alg v v' h
    | .secure _, req, v, v', _, h => by simp only [validateKind] at h ⊢; exact secureRule_idem req v v' h
    | .list item, req, v, v', hk, h => by
      have hitem : IdemOkOpt item = true := by simpa [IdemOkKind] using hk
      simp only [validateKind] at h
      cases v with
      | list xs =>
        simp only at h
        by_cases hre : (req && xs.isEmpty) = true
        · simp [hre] at h
        · simp only [hre, Bool.false_eq_true, if_false] at h
          cases hvi : validateItems E item xs with
          | none =>
            simp only [hvi] at h
            cases h
            simp [validateKind, hre, hvi]
          | some r =>
            simp only [hvi] at h
            cases r with
            | error e => simp [Except.map] at h
            | ok ys =>
              simp [Except.map] at h
              subst h
              have h2 := validateItems_idem P E hE item xs ys hitem hvi
              have hemp : ys.isEmpty = xs.isEmpty := by
                cases item with
                | none => simp [validateItems] at hvi
                | some f =>
                  obtain ⟨k, r, c⟩ := f
                  simp only [validateItems] at hvi
                  by_cases ha : k.isAny = true
                  · simp [ha] at hvi
                  · simp only [ha, Bool.false_eq_true, if_false, Option.some.injEq] at hvi
                    exact mapR_isEmpty hvi
              simp [validateKind, hemp, hre, h2, Except.map]
      | tuple xs =>
        simp only at h
        by_cases hre : (req && xs.isEmpty) = true
        · simp [hre] at h
        · simp only [hre, Bool.false_eq_true, if_false] at h
          cases hvi : validateItems E item xs with
          | none =>
            simp only [hvi] at h
            cases h
            simp [validateKind, hre, hvi]
          | some r =>
            simp only [hvi] at h
            cases r with
            | error e => simp [Except.map] at h
            | ok ys =>
              simp [Except.map] at h
              subst h
              have h2 := validateItems_idem P E hE item xs ys hitem hvi
              have hemp : ys.isEmpty = xs.isEmpty := by
                cases item with
                | none => simp [validateItems] at hvi
                | some f =>
                  obtain ⟨k, r, c⟩ := f
                  simp only [validateItems] at hvi
                  by_cases ha : k.isAny = true
                  · simp [ha] at hvi
                  · simp only [ha, Bool.false_eq_true, if_false, Option.some.injEq] at hvi
                    exact mapR_isEmpty hvi
              simp [validateKind, hemp, hre, h2, Except.map]
      | _ => cases h
    | .dict kf vf, req, v, v', hk, h => by
      have hkf : IdemOkOpt kf = true := by
        simp only [IdemOkKind, Bool.and_eq_true] at hk; exact hk.1
      have hvf : IdemOkOpt vf = true := by
        simp only [IdemOkKind, Bool.and_eq_true] at hk; exact hk.2
      simp only [validateKind] at h
      cases v with
      | dict kvs =>
        simp only at h
        by_cases hre : (req && kvs.isEmpty) = true
        · simp [hre] at h
        · simp only [hre, Bool.false_eq_true, if_false] at h
          by_cases hnn : (kf.isNone && vf.isNone) = true
          · simp only [hnn, if_true] at h
            cases h
            simp [validateKind, hre, hnn]
          · simp only [hnn, Bool.false_eq_true, if_false] at h
            cases hm : mapEntries (fun x => validateOpt E kf x) (fun x => validateOpt E vf x) kvs with
            | error e => simp [hm, Except.map] at h
            | ok es =>
              simp [hm, Except.map] at h
              subst h
              have hd := dict_idem (fk := fun x => validateOpt E kf x) (fv := fun x => validateOpt E vf x)
                (fun a b hab => validateOpt_idem P E hE kf a b hkf hab)
                (fun a b hab => validateOpt_idem P E hE vf a b hvf hab) hm
              have hemp : (buildDict es).isEmpty = kvs.isEmpty := by
                rw [buildDict_isEmpty, mapEntries_isEmpty hm]
              cases hm2 : mapEntries (fun x => validateOpt E kf x) (fun x => validateOpt E vf x) (buildDict es) with
              | error e => simp [hm2, Except.map] at hd
              | ok es2 =>
                simp [hm2, Except.map] at hd
                simp [validateKind, hemp, hre, hnn, hm2, Except.map, hd]
      | _ => cases h
end

end Cinco.Field
