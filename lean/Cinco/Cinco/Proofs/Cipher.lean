import Cinco.Crypto.Cipher
namespace Cinco.Crypto

theorem xorKey_length (key p : Bytes) : (xorKey key p).length = p.length := by
  simp [xorKey]

theorem xor_cancel (b k : UInt8) : (b ^^^ k) ^^^ k = b := by
  rw [UInt8.xor_assoc, UInt8.xor_self, UInt8.xor_zero]

theorem xorKey_getElem? (key p : Bytes) (i : Nat) :
    (xorKey key p)[i]? = p[i]?.map (fun b => match key[i % key.length]? with
      | some k => b ^^^ k
      | none => b) := by
  simp only [xorKey, List.getElem?_mapIdx]
  cases p[i]? <;> rfl

theorem xorKey_involutive (key p : Bytes) : xorKey key (xorKey key p) = p := by
  apply List.ext_getElem?
  intro i
  rw [xorKey_getElem?, xorKey_getElem?]
  cases p[i]? with
  | none => rfl
  | some b =>
    cases key[i % key.length]? with
    | none => rfl
    | some k => simp [xor_cancel]

theorem xorB_cancel : ∀ (b iv : Bytes), b.length ≤ iv.length → xorB (xorB b iv) iv = b
  | [], _, _ => by simp [xorB]
  | x :: xs, [], h => by simp at h
  | x :: xs, y :: ys, h => by
    have := xorB_cancel xs ys (by simpa using h)
    simp only [xorB, List.zipWith_cons_cons, List.cons.injEq] at this ⊢
    exact ⟨xor_cancel x y, this⟩

theorem xorB_length (a b : Bytes) : (xorB a b).length = min a.length b.length := by
  simp [xorB]

theorem padLen_pos (n : Nat) : 0 < padLen n ∧ padLen n ≤ 16 := by
  unfold padLen; omega

theorem pad_length (p : Bytes) : (pad p).length % 16 = 0 ∧ 16 ≤ (pad p).length := by
  simp only [pad, List.length_append, List.length_replicate, padLen]
  omega

theorem unpad_pad (p : Bytes) : unpad (pad p) = some p := by
  have hl := pad_length p
  have hn := padLen_pos p.length
  have hlast : (pad p).getLast? = some (UInt8.ofNat (padLen p.length)) := by
    unfold pad
    rw [List.getLast?_append]
    have : (List.replicate (padLen p.length) (UInt8.ofNat (padLen p.length))).getLast? = some (UInt8.ofNat (padLen p.length)) := by
      rw [List.getLast?_replicate]; simp; omega
    simp [this]
  have hton : (UInt8.ofNat (padLen p.length)).toNat = padLen p.length := by
    simp [UInt8.toNat_ofNat']; omega
  unfold unpad
  have h0 : ¬ ((pad p).length = 0 ∨ (pad p).length % 16 ≠ 0) := by omega
  rw [if_neg h0, hlast]
  simp only [hton]
  have h1 : ¬ (padLen p.length = 0 ∨ padLen p.length > 16) := by omega
  rw [if_neg h1]
  have hlen : (pad p).length - padLen p.length = p.length := by
    simp [pad]
  rw [hlen]
  have hdrop : (pad p).drop p.length = List.replicate (padLen p.length) (UInt8.ofNat (padLen p.length)) := by
    simp [pad]
  have htake : (pad p).take p.length = p := by
    simp [pad]
  rw [hdrop, htake]
  simp

theorem flatten_blocksAux : ∀ (n : Nat) (d : Bytes), d.length ≤ n → (blocksAux n d).flatten = d
  | 0, d, h => by
    have : d = [] := List.eq_nil_of_length_eq_zero (by omega)
    simp [blocksAux, this]
  | n + 1, d, h => by
    unfold blocksAux
    by_cases he : d.isEmpty
    · simp [he, List.isEmpty_iff.1 he]
    · simp only [he, Bool.false_eq_true, if_false, List.flatten_cons]
      have hne : d ≠ [] := by intro e; simp [e] at he
      have hpos : 0 < d.length := List.length_pos_iff.2 hne
      rw [flatten_blocksAux n (d.drop 16) (by simp; omega)]
      exact List.take_append_drop 16 d

theorem flatten_blocks (d : Bytes) : (blocks d).flatten = d := flatten_blocksAux _ _ (Nat.le_refl _)

theorem blocksAux_len : ∀ (n : Nat) (d : Bytes), d.length ≤ n → d.length % 16 = 0 → ∀ b ∈ blocksAux n d, b.length = 16
  | 0, d, _, _ => by simp [blocksAux]
  | n + 1, d, h, hm => by
    unfold blocksAux
    by_cases he : d.isEmpty
    · simp [he]
    · simp only [he, Bool.false_eq_true, if_false, List.mem_cons]
      have hne : d ≠ [] := by intro e; simp [e] at he
      have hpos : 0 < d.length := List.length_pos_iff.2 hne
      intro b hb
      rcases hb with hb | hb
      · subst hb; simp; omega
      · exact blocksAux_len n (d.drop 16) (by simp; omega) (by simp; omega) b hb

theorem blocks_len (d : Bytes) (hm : d.length % 16 = 0) : ∀ b ∈ blocks d, b.length = 16 :=
  blocksAux_len _ _ (Nat.le_refl _) hm

theorem blocksAux_flatten : ∀ (bs : List Bytes) (n : Nat), (∀ b ∈ bs, b.length = 16) → bs.flatten.length ≤ n →
    blocksAux n bs.flatten = bs
  | [], n, _, _ => by cases n <;> simp [blocksAux]
  | b :: bs, 0, h, hn => by
    have hb := h b (by simp)
    have : (b :: bs).flatten.length = b.length + bs.flatten.length := by
      rw [List.flatten_cons, List.length_append]
    omega
  | b :: bs, n + 1, h, hn => by
    have hb := h b (by simp)
    have hlen : (b :: bs).flatten.length = b.length + bs.flatten.length := by
      rw [List.flatten_cons, List.length_append]
    have hne : (b ++ bs.flatten).isEmpty = false := by
      cases b with
      | nil => simp at hb
      | cons x xs => simp
    have ht : (b ++ bs.flatten).take 16 = b := by
      rw [List.take_append_of_le_length (by omega)]; simp [← hb]
    have hd : (b ++ bs.flatten).drop 16 = bs.flatten := by
      rw [← hb]; simp
    rw [List.flatten_cons]
    unfold blocksAux
    rw [hne, ht, hd, blocksAux_flatten bs n (fun x hx => h x (by simp [hx])) (by omega)]
    simp

theorem blocks_flatten (bs : List Bytes) (h : ∀ b ∈ bs, b.length = 16) : blocks bs.flatten = bs :=
  blocksAux_flatten bs _ h (Nat.le_refl _)

theorem cbcEnc_len (C : BlockCipher) (hC : C.Lawful) (k : Bytes) :
    ∀ (bs : List Bytes) (iv : Bytes), iv.length = 16 → (∀ b ∈ bs, b.length = 16) → ∀ c ∈ cbcEnc C k iv bs, c.length = 16
  | [], _, _, _ => by simp [cbcEnc]
  | b :: bs, iv, hiv, h => by
    have hb := h b (by simp)
    have hx : (xorB b iv).length = 16 := by rw [xorB_length]; omega
    intro c hc
    simp only [cbcEnc, List.mem_cons] at hc
    rcases hc with hc | hc
    · subst hc; exact hC.enc_len k _ hx
    · exact cbcEnc_len C hC k bs _ (hC.enc_len k _ hx) (fun x hx' => h x (by simp [hx'])) c hc

theorem cbcDec_cbcEnc (C : BlockCipher) (hC : C.Lawful) (k : Bytes) :
    ∀ (bs : List Bytes) (iv : Bytes), iv.length = 16 → (∀ b ∈ bs, b.length = 16) → cbcDec C k iv (cbcEnc C k iv bs) = bs
  | [], _, _, _ => by simp [cbcEnc, cbcDec]
  | b :: bs, iv, hiv, h => by
    have hb := h b (by simp)
    have hx : (xorB b iv).length = 16 := by rw [xorB_length]; omega
    simp only [cbcEnc, cbcDec, hC.dec_enc k _ hx, List.cons.injEq]
    exact ⟨xorB_cancel b iv (by omega), cbcDec_cbcEnc C hC k bs _ (hC.enc_len k _ hx) (fun x hx' => h x (by simp [hx']))⟩

theorem cbcEnc_length (C : BlockCipher) (k : Bytes) : ∀ (bs : List Bytes) (iv : Bytes), (cbcEnc C k iv bs).length = bs.length
  | [], _ => rfl
  | b :: bs, iv => by simp [cbcEnc, cbcEnc_length C k bs]

theorem flatten_length_of_len16 : ∀ (bs : List Bytes), (∀ b ∈ bs, b.length = 16) → bs.flatten.length = 16 * bs.length
  | [], _ => rfl
  | b :: bs, h => by
    simp only [List.flatten_cons, List.length_append, List.length_cons]
    rw [flatten_length_of_len16 bs (fun x hx => h x (by simp [hx])), h b (by simp)]
    omega

end Cinco.Crypto
