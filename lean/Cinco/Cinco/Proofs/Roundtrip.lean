import Cinco.Proofs.Inv
import Cinco.Props.C11
/-
  Saving and re-loading a configuration reproduces it.

  `roundtrip` / `roundtrip_into` / `roundtrip_validate` (section 7): if `to_tree` (no virtual output, no mask) of a
  configuration `c` of schema `s` returns `t`, then `load_tree` of `t` into a freshly built configuration of `s` does not
  fail and yields a configuration that holds, under every declared persistent field at every depth (sub-configurations,
  config types, every item of lists of configurations) and under every dynamically added field, the value `c` held — up
  to the normalisations of `LeafSame` (an unset list / dict field may come back empty, an empty secret comes back unset)
  and an unset list of configurations coming back empty.  The codec of the individual field kinds is a hypothesis
  (`CodecOk`, per leaf value held).

  Sections 1–2: the relation `SameValues` and the combined premise `Ready` used by the induction.  Sections 3–5: the
  induction (`rtAt_all`).  Section 6: validation transfers along `SameValues` (`validate_transfer`).  Section 7: the
  premises one by one and the theorems.  Section 8: how to read `SameValues`.  Section 9: an example on which all premises
  hold.
-/
namespace Cinco.Config
open Cinco Cinco.Field

/-! ## 1. The relation "holds the same values" -/

/-- the value `v'` a leaf of field `fs` holds after save + reload, compared with the value `v` it held before:
    the same, or one of the two normalisations the property allows -/
def LeafSame (fs : FieldSpec) (v v' : Val) : Prop :=
  v' = v ∨
  (v = .none ∧ v' = .list [] ∧ ∃ it, fs.kind = .list it) ∨
  (v = .none ∧ v' = .dict [] ∧ ∃ kf vf, fs.kind = .dict kf vf) ∨
  (v = .str [] ∧ v' = .none ∧ ∃ m, fs.kind = .secure m)

/-- element-wise relation between two lists of configurations of the same length -/
def ListSame (R : Cfg → Cfg → Prop) : List Cfg → List Cfg → Prop
  | [], [] => True
  | a :: as, b :: bs => R a b ∧ ListSame R as bs
  | _, _ => False

/-- does a configuration keep a slot for this field?  (virtual and instance-method fields compute their value) -/
def SField.stores : SField → Bool
  | .virtual _ _ => false
  | .method => false
  | _ => true

/-- `x` holds nothing under keys that are undeclared or declared as non-storing fields -/
def OnlyStored (s : Schema) (x : Cfg) : Prop :=
  ∀ k, (∀ f, s.get k = some f → f.stores = false) → x.get k = none

/-- what `c'` holds outside the declared storing fields: the dynamically added value fields of `c`, and nothing that `c`
    did not hold -/
def Extras (s : Schema) (c c' : Cfg) : Prop :=
  (∀ k, k ∈ c.dyn → s.get k = none → ∀ v, c.get k = some (.val v) → c'.get k = some (.val v)) ∧
  (∀ k, (∀ f, s.get k = some f → f.stores = false) → ∀ sl, c'.get k = some sl → c.get k = some sl)

/-- `c'` holds, under every declared key and at every depth, the same value as `c` (up to the allowed normalisations), the
    same dynamically added values, and nothing else.  The fuel must exceed the nesting depth of `c`: at fuel `0` the relation
    is *false*, so `SameValues W d s c c'` really compares every level down to the leaves (`sameValues_mono`: more fuel
    changes nothing). -/
def SameValues (W : World) : Nat → Schema → Cfg → Cfg → Prop
  | 0, _, _, _ => False
  | d + 1, s, c, c' => Extras s c c' ∧ ∀ k f, s.get k = some f →
      match f, c.get k, c'.get k with
      | .leaf fs _, some (.val v), some (.val v') => LeafSame fs v v'
      | .sub s', some (.node a), some (.node b) => SameValues W d s' a b
      | .ctype s' _, some (.node a), some (.node b) => SameValues W d s' a b
      | .cfgList s' _ _ _, some (.nodes as), some (.nodes bs) => ListSame (SameValues W d s') as bs
      | .cfgList _ _ _ _, some (.val .none), some (.nodes []) => True
      | .virtual _ _, _, _ => True
      | .method, _, _ => True
      | _, _, _ => False

/-- the clause of `SameValues` for one declared field -/
def SlotSame (W : World) (d : Nat) : SField → Option Slot → Option Slot → Prop
  | .leaf fs _, some (.val v), some (.val v') => LeafSame fs v v'
  | .sub s', some (.node a), some (.node b) => SameValues W d s' a b
  | .ctype s' _, some (.node a), some (.node b) => SameValues W d s' a b
  | .cfgList s' _ _ _, some (.nodes as), some (.nodes bs) => ListSame (SameValues W d s') as bs
  | .cfgList _ _ _ _, some (.val .none), some (.nodes []) => True
  | .virtual _ _, _, _ => True
  | .method, _, _ => True
  | _, _, _ => False

theorem sameValues_succ_iff {W : World} {d : Nat} {s : Schema} {c c' : Cfg} :
    SameValues W (d + 1) s c c' ↔
      Extras s c c' ∧ ∀ k f, s.get k = some f → SlotSame W d f (c.get k) (c'.get k) := Iff.rfl

/-! ## 2. Premises -/

/-- the per-leaf codec hypothesis (discharged elsewhere, per field kind): what `to_basic` writes for the held value is decoded
    by `to_python` and accepted by `validate`, and the result is the held value up to the allowed normalisations -/
def CodecOk (W : World) (fs : FieldSpec) (v : Val) : Prop :=
  ∀ b, toBasic W.fe fs v = .ok b → ∃ v', (toPython W.fe fs b).bind (validate W.fe.toEnv fs) = .ok v' ∧ LeafSame fs v v'

/-- what is asked of a nested configuration `sub` of schema `s'` (a sub-configuration, a config type, or an item of a list of
    configurations), which `load_tree` re-creates from scratch and validates before storing it:
    * a fresh configuration of `s'` can be built;
    * validation passes on every configuration that holds the same values as `sub` and nothing else. -/
def NestedOk (W : World) (d : Nat) (s' : Schema) (kf : Option String) (sub : Cfg) : Prop :=
  (∀ path n, ∃ fresh n1, build W path true kf s' n = .ok (fresh, n1)) ∧
  (∀ path x, SameValues W d s' sub x → validateCfg W (d + 1) s' path x = none)

/-- all the premises on the saved configuration, at every depth (to `fuel`), in the form the induction uses; section 7 splits
    them into `SchemaReady`, `Shaped`, `CodecOkAll`, `StableAll`, `ValidDeep` (`ready_of_parts`) -/
def Ready (W : World) : Nat → Schema → Cfg → Prop
  | 0, _, _ => True
  | d + 1, s, c => (c.dyn = [] ∨ s.dynamic = true) ∧ ∀ k f, s.get k = some f →
      match f with
      | .leaf fs m => envValue W m = none ∧ ∃ v, c.get k = some (.val v) ∧ CodecOk W fs v
      | .sub s' => ∃ sub, c.get k = some (.node sub) ∧ Ready W d s' sub ∧ NestedOk W d s' none sub
      | .ctype s' kf => ∃ sub, c.get k = some (.node sub) ∧ Ready W d s' sub ∧ NestedOk W d s' kf sub
      | .cfgList s' _ req m => envValue W m = none ∧
          ((req = false ∧ c.get k = some (.val .none)) ∨
           ∃ cs, c.get k = some (.nodes cs) ∧ (req = true → cs ≠ []) ∧ ∀ x ∈ cs, Ready W d s' x ∧ NestedOk W d s' none x)
      | .virtual _ _ => True
      | .method => True

/-- the clause of `Ready` for one declared field -/
def FieldReady (W : World) (d : Nat) (c : Cfg) (k : String) : SField → Prop
  | .leaf fs m => envValue W m = none ∧ ∃ v, c.get k = some (.val v) ∧ CodecOk W fs v
  | .sub s' => ∃ sub, c.get k = some (.node sub) ∧ Ready W d s' sub ∧ NestedOk W d s' none sub
  | .ctype s' kf => ∃ sub, c.get k = some (.node sub) ∧ Ready W d s' sub ∧ NestedOk W d s' kf sub
  | .cfgList s' _ req m => envValue W m = none ∧
      ((req = false ∧ c.get k = some (.val .none)) ∨
       ∃ cs, c.get k = some (.nodes cs) ∧ (req = true → cs ≠ []) ∧ ∀ x ∈ cs, Ready W d s' x ∧ NestedOk W d s' none x)
  | .virtual _ _ => True
  | .method => True

theorem ready_succ_iff {W : World} {d : Nat} {s : Schema} {c : Cfg} :
    Ready W (d + 1) s c ↔ (c.dyn = [] ∨ s.dynamic = true) ∧ ∀ k f, s.get k = some f → FieldReady W d c k f := Iff.rfl

/-! ## 3. `load_tree`, one entry at a time -/

theorem loadTree_nil (W : World) (fuel : Nat) (s : Schema) (path : String) (c : Cfg) (dv : Bool) (n : Nat) :
    loadTree W fuel s path c [] dv n =
      (if dv then { cfg := c, err := validateCfg W (fuel + 1) s path c, next := n } else { cfg := c, next := n }) := by
  unfold loadTree
  rfl

theorem loadTree_cons_key (W : World) (fuel : Nat) (s : Schema) (path : String) (c : Cfg) (k : String) (value : Val)
    (rest : List (Val × Val)) (dv : Bool) (n : Nat) :
    loadTree W fuel s path c ((.str k.toList, value) :: rest) dv n =
      (match decodeEntry W s path c k value with
       | none => loadTree W fuel s path c rest dv n
       | some (.error e) => { cfg := c, err := some e, next := n }
       | some (.ok a) =>
         let o := setValue W fuel s path c k a n
         (match o.err with
          | some e => { cfg := o.cfg, err := some e, next := o.next }
          | none => loadTree W fuel s path o.cfg rest dv o.next)) := by
  conv => lhs; unfold loadTree
  simp only [String.ofList_toList]
  rfl

/-- a load with validation is the load without, followed by the validation of the result -/
theorem loadTree_true (W : World) (fuel : Nat) (s : Schema) (path : String) :
    ∀ (t : List (Val × Val)) (c : Cfg) (n : Nat), (loadTree W fuel s path c t false n).err = none →
      (loadTree W fuel s path c t true n).cfg = (loadTree W fuel s path c t false n).cfg ∧
      (loadTree W fuel s path c t true n).err = validateCfg W (fuel + 1) s path (loadTree W fuel s path c t false n).cfg
  | [], c, n, _ => by
    simp [loadTree_nil]
  | (key, value) :: rest, c, n, h => by
    unfold loadTree at h ⊢
    cases key <;> first | (simp at h; done) | skip
    rename_i ks
    simp only at h ⊢
    generalize decodeEntry W s path c (String.ofList ks) value = dec at h ⊢
    cases dec with
    | none => exact loadTree_true W fuel s path rest c n h
    | some r =>
      cases r with
      | error e => simp at h
      | ok a =>
        simp only at h ⊢
        cases he : (setValue W fuel s path c (String.ofList ks) a n).err with
        | some e => simp [he] at h
        | none =>
          simp only [he] at h ⊢
          exact loadTree_true W fuel s path rest _ _ h


/-! ## 4. A fresh configuration holds nothing under undeclared keys -/

theorem setDefault_get_other (W : World) (path k : String) (f : SField) (c : Cfg) (n : Nat) (c1 : Cfg) (n1 : Nat)
    (h : setDefault W path k f c n = .ok (c1, n1)) : ∀ k', k' ≠ k → c1.get k' = c.get k' := by
  intro k' hk'
  have key : ∀ sl, (c.setDefault k sl).get k' = c.get k' := fun sl => Cfg.get_setDefault_other c hk' sl
  unfold setDefault at h
  repeat' split at h
  all_goals first
    | (cases h; done)
    | (simp only [Except.ok.injEq, Prod.mk.injEq] at h; obtain ⟨rfl, _⟩ := h; first | exact key _ | rfl)


theorem setDefault_nonstoring (W : World) (path k : String) (f : SField) (c : Cfg) (n : Nat) (hf : f.stores = false) :
    setDefault W path k f c n = .ok (c, n) := by
  cases f <;> simp [SField.stores] at hf <;> simp [setDefault]

theorem buildFields_get_other (W : World) (path : String) :
    ∀ (fs : List (String × SField)) (c : Cfg) (n : Nat) (c' : Cfg) (n' : Nat), nodupKeys fs = true →
      buildFields W path fs c n = .ok (c', n') →
      ∀ k, (∀ f, lookupField k fs = some f → f.stores = false) → c'.get k = c.get k
  | [], c, n, c', n', _, h, k, _ => by
    simp only [buildFields] at h
    cases h; rfl
  | (k0, f) :: rest, c, n, c', n', hnd, h, k, hl => by
    simp only [nodupKeys, Bool.and_eq_true, Option.isNone_iff_eq_none] at hnd
    simp only [buildFields] at h
    by_cases hkk : k0 = k
    · subst hkk
      have hf : f.stores = false := hl f (by simp [lookupField])
      rw [setDefault_nonstoring W path k0 f c n hf] at h
      simp only at h
      exact buildFields_get_other W path rest c n c' n' hnd.2 h k0 (fun f' hf' => by rw [hnd.1] at hf'; cases hf')
    · cases hs : setDefault W path k0 f c n with
      | error e => simp [hs] at h
      | ok r =>
        obtain ⟨c1, n1⟩ := r
        simp only [hs] at h
        rw [buildFields_get_other W path rest c1 n1 c' n' hnd.2 h k (fun f' hf' => hl f' (by simp [lookupField, hkk, hf']))]
        exact setDefault_get_other W path k0 f c n c1 n1 hs k (fun e => hkk e.symm)

theorem keysNodup_fields {s : Schema} (h : s.keysNodup = true) : nodupKeys s.fields = true := by
  cases s with
  | mk fields dyn vs =>
    simp only [Schema.keysNodup, Schema.every, Bool.and_eq_true] at h
    exact h.1

/-- a freshly built configuration holds nothing under undeclared keys or keys of non-storing fields -/
theorem build_onlyStored (W : World) (path : String) (linked : Bool) (kf : Option String) (s : Schema) (n : Nat)
    (c : Cfg) (n' : Nat) (hnd : s.keysNodup = true) (h : build W path linked kf s n = .ok (c, n')) : OnlyStored s c := by
  intro k hk
  have hnf := keysNodup_fields hnd
  cases s with
  | mk fields dyn vs =>
    simp only [build] at h
    rw [buildFields_get_other W path fields _ _ _ _ hnf h k hk]
    rfl

/-! ## 5. The round trip -/

theorem keysNodup_get {s : Schema} {k : String} {f : SField} (h : s.keysNodup = true) (hk : s.get k = some f) :
    f.every nodupKeys = true := by
  cases s with
  | mk fields dyn vs =>
    simp only [Schema.keysNodup, Schema.every, Bool.and_eq_true] at h
    exact everyFields_lookup h.2 hk

theorem getField_of_get {s : Schema} {k : String} {f : SField} (c : Cfg) (hk : s.get k = some f) :
    getField s c k = .declared f := by
  simp [getField, hk]

/-- the statement at fuel `d`, loading without validation into a configuration `c0` that holds nothing under
    non-storing keys (its declared slots may hold anything: every one of them is overwritten) -/
def RtAt (W : World) (d : Nat) : Prop :=
  ∀ (s : Schema) (c : Cfg) (t : List (Val × Val)) (path : String) (c0 : Cfg) (n : Nat),
    s.keysNodup = true → Ready W d s c → toTree W d s c false none = some t → OnlyStored s c0 →
    (loadTree W d s path c0 t false n).err = none ∧
    SameValues W d s c (loadTree W d s path c0 t false n).cfg

/-- a nested configuration: loaded with validation into a fresh configuration -/
theorem rt_nested {W : World} {d : Nat} (hrt : RtAt W d) (s' : Schema) (kf : Option String) (sub : Cfg)
    (t : List (Val × Val)) (path : String) (fresh : Cfg) (n n1 : Nat)
    (hnd : s'.keysNodup = true) (hr : Ready W d s' sub) (hn : NestedOk W d s' kf sub)
    (ht : toTree W d s' sub false none = some t) (hb : build W path true kf s' n = .ok (fresh, n1)) :
    (loadTree W d s' path fresh t true n1).err = none ∧
    SameValues W d s' sub (loadTree W d s' path fresh t true n1).cfg := by
  obtain ⟨he, hsame⟩ := hrt s' sub t path fresh n1 hnd hr ht (build_onlyStored W path true kf s' n fresh n1 hnd hb)
  obtain ⟨hc, hv⟩ := loadTree_true W d s' path t fresh n1 he
  rw [hc, hv]
  exact ⟨hn.2 path _ hsame, hsame⟩


theorem listSame_length {R : Cfg → Cfg → Prop} : ∀ {as bs : List Cfg}, ListSame R as bs → bs.length = as.length
  | [], [], _ => rfl
  | [], _ :: _, h => by simp [ListSame] at h
  | _ :: _, [], h => by simp [ListSame] at h
  | _ :: as, _ :: bs, h => by
    simp only [ListSame] at h
    simp [listSame_length h.2]

/-- the items of a list of configurations -/
theorem rt_items {W : World} {d : Nat} (hrt : RtAt W d) (s' : Schema) (path k : String) (hnd : s'.keysNodup = true) :
    ∀ (cs : List Cfg) (tl : List Val) (pos : Nat) (acc : List Cfg) (n : Nat),
      (∀ x ∈ cs, Ready W d s' x ∧ NestedOk W d s' none x) → toTreeItems W d s' false none cs = some tl →
      ∃ cs' n', loadItems W d s' path k pos tl acc n = (.ok (acc.reverse ++ cs'), n') ∧ ListSame (SameValues W d s') cs cs'
  | [], tl, pos, acc, n, _, h => by
    rw [toTreeItems] at h
    cases h
    refine ⟨[], n, ?_, trivial⟩
    unfold loadItems
    simp
  | x :: rest, tl, pos, acc, n, hall, h => by
    rw [toTreeItems] at h
    cases hx : toTree W d s' x false none with
    | none => simp [hx] at h
    | some t =>
      cases hr : toTreeItems W d s' false none rest with
      | none => simp [hx, hr] at h
      | some ts =>
        simp only [hx, hr, Option.some.injEq] at h
        subst h
        obtain ⟨hrx, hnx⟩ := hall x (by simp)
        obtain ⟨fresh, n1, hb⟩ := hnx.1 (itemPath path k pos) n
        obtain ⟨he, hsame⟩ := rt_nested hrt s' none x t (itemPath path k pos) fresh n n1 hnd hrx hnx hx hb
        obtain ⟨cs', n', hl, hls⟩ := rt_items hrt s' path k hnd rest ts (pos + 1)
          ((loadTree W d s' (itemPath path k pos) fresh t true n1).cfg :: acc)
          (loadTree W d s' (itemPath path k pos) fresh t true n1).next
          (fun y hy => hall y (by simp [hy])) hr
        refine ⟨(loadTree W d s' (itemPath path k pos) fresh t true n1).cfg :: cs', n', ?_, ⟨hsame, hls⟩⟩
        unfold loadItems
        simp only [hb, he]
        rw [hl]
        simp


/-- one rendered entry, loaded back: it is decoded, assigned without error to its own key only, and the slot stored holds
    the same value as the slot it was rendered from -/
theorem rt_step {W : World} {d : Nat} (hrt : RtAt W d) (s : Schema) (path : String) (c c0 : Cfg) (n : Nat)
    (k : String) (f : SField) (v : Val)
    (hnd : s.keysNodup = true) (hk : s.get k = some f) (hr : FieldReady W d c k f)
    (hrender : renderField W d c false none k f = some (some v)) :
    ∃ a slot, decodeEntry W s path c0 k v = some (.ok a) ∧
      (setValue W (d + 1) s path c0 k a n).err = none ∧
      (setValue W (d + 1) s path c0 k a n).cfg = c0.setUser k slot ∧
      SlotSame W d f (c.get k) (some slot) := by
  have hg := getField_of_get c0 hk
  cases f with
  | virtual cst hs => simp [renderField] at hrender
  | method => simp [renderField] at hrender
  | leaf fs m =>
    obtain ⟨henv, v0, hget, hcodec⟩ := hr
    simp only [renderField, hget, Option.isSome_none, Bool.and_false, Bool.false_eq_true, if_false] at hrender
    cases htb : toBasic W.fe fs v0 with
    | error e => simp [htb] at hrender
    | ok b =>
      simp only [htb, Option.some.injEq] at hrender
      subst hrender
      obtain ⟨v', hbind, hsame⟩ := hcodec b htb
      cases htp : toPython W.fe fs b with
      | error e => simp [htp, Except.bind] at hbind
      | ok v1 =>
        simp only [htp, Except.bind] at hbind
        refine ⟨.val v1, .val v', ?_, ?_, ?_, ?_⟩
        · simp [decodeEntry, hg, henv, htp]
        · unfold setValue
          simp [hg, hbind]
        · unfold setValue
          simp [hg, hbind]
        · rw [hget]
          exact hsame
  | sub s' =>
    obtain ⟨sub, hget, hrs, hns⟩ := hr
    simp only [renderField, hget] at hrender
    cases ht : toTree W d s' sub false none with
    | none => simp [ht] at hrender
    | some t =>
      simp only [ht, Option.map_some, Option.some.injEq] at hrender
      subst hrender
      have hnd' : s'.keysNodup = true := by
        have := keysNodup_get hnd hk
        simpa [SField.every, Schema.keysNodup] using this
      obtain ⟨fresh, n1, hb⟩ := hns.1 (joinPath path k) n
      obtain ⟨he, hsame⟩ := rt_nested hrt s' none sub t (joinPath path k) fresh n n1 hnd' hrs hns ht hb
      refine ⟨.val (.dict t), .node (loadTree W d s' (joinPath path k) fresh t true n1).cfg, ?_, ?_, ?_, ?_⟩
      · simp [decodeEntry, hg]
      · unfold setValue
        simp only [hg]
        unfold setSub
        simp [hb, he]
      · unfold setValue
        simp only [hg]
        unfold setSub
        simp [hb, he]
      · rw [hget]
        exact hsame
  | ctype s' kf =>
    obtain ⟨sub, hget, hrs, hns⟩ := hr
    simp only [renderField, hget] at hrender
    cases ht : toTree W d s' sub false none with
    | none => simp [ht] at hrender
    | some t =>
      simp only [ht, Option.map_some, Option.some.injEq] at hrender
      subst hrender
      have hnd' : s'.keysNodup = true := by
        have := keysNodup_get hnd hk
        simpa [SField.every, Schema.keysNodup] using this
      obtain ⟨fresh, n1, hb⟩ := hns.1 (joinPath path k) n
      obtain ⟨he, hsame⟩ := rt_nested hrt s' kf sub t (joinPath path k) fresh n n1 hnd' hrs hns ht hb
      refine ⟨.val (.dict t), .node (loadTree W d s' (joinPath path k) fresh t true n1).cfg, ?_, ?_, ?_, ?_⟩
      · simp [decodeEntry, hg]
      · unfold setValue
        simp only [hg]
        unfold setSub
        simp [hb, he]
      · unfold setValue
        simp only [hg]
        unfold setSub
        simp [hb, he]
      · rw [hget]
        exact hsame
  | cfgList s' it req m =>
    obtain ⟨henv, hr⟩ := hr
    rcases hr with ⟨hreq, hget⟩ | ⟨cs, hget, hne, hall⟩
    · simp only [renderField, hget, Option.some.injEq] at hrender
      subst hrender
      subst hreq
      refine ⟨.val (.list []), .nodes [], ?_, ?_, ?_, ?_⟩
      · simp [decodeEntry, hg, henv, Val.truthy]
      · unfold setValue
        simp only [hg]
        unfold loadItems
        simp
      · unfold setValue
        simp only [hg]
        unfold loadItems
        simp
      · rw [hget]
        trivial
    · simp only [renderField, hget] at hrender
      cases ht : toTreeItems W d s' false none cs with
      | none => simp [ht] at hrender
      | some tl =>
        simp only [ht, Option.map_some, Option.some.injEq] at hrender
        subst hrender
        have hnd' : s'.keysNodup = true := by
          have := keysNodup_get hnd hk
          simpa [SField.every, Schema.keysNodup] using this
        obtain ⟨cs', n', hl, hls⟩ := rt_items hrt s' path k hnd' cs tl 0 [] n hall ht
        simp only [List.reverse_nil, List.nil_append] at hl
        have hemp : (req && cs'.isEmpty) = false := by
          cases req with
          | false => rfl
          | true =>
            have h1 := hne rfl
            have h2 := listSame_length hls
            cases cs' with
            | nil => cases cs with
              | nil => exact absurd rfl h1
              | cons _ _ => simp at h2
            | cons _ _ => rfl
        refine ⟨.val (.list tl), .nodes cs', ?_, ?_, ?_, ?_⟩
        · simp [decodeEntry, hg, henv]
        · unfold setValue
          simp [hg, hl, hemp]
        · unfold setValue
          simp [hg, hl, hemp]
        · rw [hget]
          exact hls


/-- a field that `to_tree` leaves out although it is ready is a virtual or instance-method field -/
theorem slotSame_of_skipped {W : World} {d : Nat} {c : Cfg} {k : String} {f : SField}
    (hr : FieldReady W d c k f) (hrender : renderField W d c false none k f = some none) (x : Option Slot) :
    SlotSame W d f (c.get k) x := by
  cases f with
  | virtual cst hs => cases c.get k <;> trivial
  | method => cases c.get k <;> trivial
  | leaf fs m =>
    obtain ⟨_, v0, hget, _⟩ := hr
    simp only [renderField, hget, Option.isSome_none, Bool.and_false, Bool.false_eq_true, if_false] at hrender
    split at hrender <;> cases hrender
  | sub s' =>
    obtain ⟨sub, hget, _, _⟩ := hr
    simp only [renderField, hget] at hrender
    cases ht : toTree W d s' sub false none <;> simp [ht] at hrender
  | ctype s' kf =>
    obtain ⟨sub, hget, _, _⟩ := hr
    simp only [renderField, hget] at hrender
    cases ht : toTree W d s' sub false none <;> simp [ht] at hrender
  | cfgList s' it req m =>
    obtain ⟨_, hr⟩ := hr
    rcases hr with ⟨_, hget⟩ | ⟨cs, hget, _, _⟩
    · simp [renderField, hget] at hrender
    · simp only [renderField, hget] at hrender
      cases ht : toTreeItems W d s' false none cs <;> simp [ht] at hrender

/-- the loop of `to_tree` over the declared fields, loaded back entry by entry -/
theorem rt_fields {W : World} {d : Nat} (hrt : RtAt W d) (s : Schema) (path : String) (c : Cfg)
    (hnd : s.keysNodup = true) (hr : ∀ k f, s.get k = some f → FieldReady W d c k f) :
    ∀ (fields : List (String × SField)) (t : List (Val × Val)) (c0 : Cfg) (n : Nat),
      nodupKeys fields = true → (∀ k f, lookupField k fields = some f → s.get k = some f) →
      toTreeFields W d c false none fields = some t →
      (loadTree W (d + 1) s path c0 t false n).err = none ∧
      (∀ k, (∀ f, lookupField k fields = some f → f.stores = false) →
        (loadTree W (d + 1) s path c0 t false n).cfg.get k = c0.get k) ∧
      (∀ k f, lookupField k fields = some f → SlotSame W d f (c.get k) ((loadTree W (d + 1) s path c0 t false n).cfg.get k))
  | [], t, c0, n, _, _, h => by
    rw [toTreeFields] at h
    cases h
    simp [loadTree_nil, lookupField]
  | (k, f) :: rest, t, c0, n, hnf, hsub, h => by
    simp only [nodupKeys, Bool.and_eq_true, Option.isNone_iff_eq_none] at hnf
    have hk : s.get k = some f := hsub k f (by simp [lookupField])
    have hfr := hr k f hk
    have hne : ∀ k' f', lookupField k' rest = some f' → ¬ k = k' := by
      intro k' f' hl e
      subst e
      rw [hnf.1] at hl
      cases hl
    have hsub' : ∀ k' f', lookupField k' rest = some f' → s.get k' = some f' :=
      fun k' f' hl => hsub k' f' (by simp [lookupField, hne k' f' hl, hl])
    rw [toTreeFields] at h
    cases hrf : renderField W d c false none k f with
    | none => simp [hrf] at h
    | some ov =>
      cases htr : toTreeFields W d c false none rest with
      | none => cases ov <;> simp [hrf, htr] at h
      | some t' =>
        cases ov with
        | none =>
          simp only [hrf, htr, Option.some.injEq] at h
          subst h
          obtain ⟨ih0, ih1, ih2⟩ := rt_fields hrt s path c hnd hr rest t' c0 n hnf.2 hsub' htr
          refine ⟨ih0, ?_, ?_⟩
          · intro k' hl
            by_cases hkk : k = k'
            · subst hkk
              exact ih1 k (fun f' hf' => by rw [hnf.1] at hf'; cases hf')
            · exact ih1 k' (fun f' hf' => hl f' (by simp [lookupField, hkk, hf']))
          · intro k' f' hl
            simp only [lookupField] at hl
            split at hl
            · rename_i hkk
              cases hl
              subst hkk
              exact slotSame_of_skipped hfr hrf _
            · exact ih2 k' f' hl
        | some v =>
          simp only [hrf, htr, Option.some.injEq] at h
          subst h
          obtain ⟨a, slot, hdec, herr, hcfg, hslot⟩ := rt_step hrt s path c c0 n k f v hnd hk hfr hrf
          obtain ⟨ih0, ih1, ih2⟩ := rt_fields hrt s path c hnd hr rest t' (c0.setUser k slot)
            (setValue W (d + 1) s path c0 k a n).next hnf.2 hsub' htr
          rw [loadTree_cons_key]
          simp only [hdec, herr, hcfg]
          refine ⟨ih0, ?_, ?_⟩
          · intro k' hl
            by_cases hkk : k = k'
            · subst hkk
              have hst : f.stores = false := hl f (by simp [lookupField])
              cases f <;> simp [SField.stores] at hst <;> simp [renderField] at hrf
            · rw [ih1 k' (fun f' hf' => hl f' (by simp [lookupField, hkk, hf']))]
              exact Cfg.get_setUser_other c0 (fun e => hkk e.symm) slot
          · intro k' f' hl
            simp only [lookupField] at hl
            split at hl
            · rename_i hkk
              cases hl
              subst hkk
              rw [ih1 k (fun f' hf' => by rw [hnf.1] at hf'; cases hf'), Cfg.get_setUser_same]
              exact hslot
            · exact ih2 k' f' hl

/-- the entry `to_tree` appends for a dynamically added field -/
def dynEntry (s : Schema) (c : Cfg) (k : String) : Option (Val × Val) :=
  if (s.get k).isSome then none else
    match c.get k with
    | some (.val v) => some (Val.str k.toList, v)
    | _ => none

theorem dynEntry_some {s : Schema} {c : Cfg} {k : String} {e : Val × Val} (h : dynEntry s c k = some e) :
    s.get k = none ∧ ∃ v, c.get k = some (.val v) ∧ e = (Val.str k.toList, v) := by
  unfold dynEntry at h
  cases hk : s.get k with
  | some f => simp [hk] at h
  | none =>
    simp only [hk, Option.isSome_none, Bool.false_eq_true, if_false] at h
    split at h
    · rename_i v hv
      cases h
      exact ⟨rfl, v, hv, rfl⟩
    · cases h

theorem dynEntry_of {s : Schema} {c : Cfg} {k : String} {v : Val} (hk : s.get k = none) (hv : c.get k = some (.val v)) :
    dynEntry s c k = some (Val.str k.toList, v) := by
  simp [dynEntry, hk, hv]

theorem loadTree_append (W : World) (fuel : Nat) (s : Schema) (path : String) (t2 : List (Val × Val)) :
    ∀ (t1 : List (Val × Val)) (c : Cfg) (n : Nat), (loadTree W fuel s path c t1 false n).err = none →
      loadTree W fuel s path c (t1 ++ t2) false n =
        loadTree W fuel s path (loadTree W fuel s path c t1 false n).cfg t2 false (loadTree W fuel s path c t1 false n).next
  | [], c, n, _ => by
    simp [loadTree_nil]
  | (key, value) :: rest, c, n, h => by
    cases key
    case str ks =>
      rw [List.cons_append]
      simp only [loadTree_cons_str] at h ⊢
      generalize decodeArg W s path c (String.ofList ks) value = dec at h ⊢
      cases dec with
      | none => exact loadTree_append W fuel s path t2 rest c n h
      | some r =>
        cases r with
        | error e => simp at h
        | ok a =>
          simp only at h ⊢
          cases he : (setValue W fuel s path c (String.ofList ks) a n).err with
          | some e => simp [he] at h
          | none =>
            simp only [he] at h ⊢
            exact loadTree_append W fuel s path t2 rest _ _ h
    all_goals
      unfold loadTree at h
      simp at h

theorem decodeEntry_undeclared (W : World) (s : Schema) (path : String) (cur : Cfg) (k : String) (v : Val)
    (hk : s.get k = none) : decodeEntry W s path cur k v = some (.ok (.val v)) := by
  unfold decodeEntry
  cases hg : getField s cur k with
  | declared f =>
    have := getField_declared hg
    rw [hk] at this
    cases this
  | _ => rfl

/-- an assignment to an undeclared key of a dynamic schema stores the value as it is, and touches nothing else -/
theorem setValue_undeclared (W : World) (d : Nat) (s : Schema) (path : String) (cur : Cfg) (k : String) (v : Val) (n : Nat)
    (hk : s.get k = none) (hd : s.dynamic = true) :
    (setValue W (d + 1) s path cur k (.val v) n).err = none ∧
    (setValue W (d + 1) s path cur k (.val v) n).cfg.get k = some (.val v) ∧
    (∀ k', k' ≠ k → (setValue W (d + 1) s path cur k (.val v) n).cfg.get k' = cur.get k') := by
  unfold setValue
  cases hg : getField s cur k with
  | declared f =>
    have := getField_declared hg
    rw [hk] at this
    cases this
  | missing =>
    simp only [hd, Bool.not_true, Bool.false_eq_true, if_false]
    refine ⟨by first | rfl | trivial, Cfg.get_setUser_same _ _ _, fun k' h => ?_⟩
    rw [Cfg.get_setUser_other _ h]
    simp
  | dynamic =>
    exact ⟨rfl, Cfg.get_setUser_same _ _ _, fun k' h => Cfg.get_setUser_other _ h _⟩

/-- the dynamically added fields, loaded back one by one -/
theorem rt_extras (W : World) (d : Nat) (s : Schema) (path : String) (c : Cfg) :
    ∀ (ks : List String) (cur : Cfg) (n : Nat), (ks ≠ [] → s.dynamic = true) →
      (loadTree W (d + 1) s path cur (ks.filterMap (dynEntry s c)) false n).err = none ∧
      (∀ k', (k' ∉ ks ∨ s.get k' ≠ none ∨ ∀ v, c.get k' ≠ some (.val v)) →
        (loadTree W (d + 1) s path cur (ks.filterMap (dynEntry s c)) false n).cfg.get k' = cur.get k') ∧
      (∀ k', k' ∈ ks → s.get k' = none → ∀ v, c.get k' = some (.val v) →
        (loadTree W (d + 1) s path cur (ks.filterMap (dynEntry s c)) false n).cfg.get k' = some (.val v))
  | [], cur, n, _ => by
    simp [loadTree_nil]
  | k :: ks, cur, n, hd => by
    have hdyn : s.dynamic = true := hd (by simp)
    cases he : dynEntry s c k with
    | none =>
      simp only [List.filterMap_cons, he]
      obtain ⟨ih0, ihA, ihB⟩ := rt_extras W d s path c ks cur n (fun _ => hdyn)
      refine ⟨ih0, ?_, ?_⟩
      · intro k' h
        apply ihA
        rcases h with h | h | h
        · exact Or.inl (fun hm => h (List.mem_cons_of_mem _ hm))
        · exact Or.inr (Or.inl h)
        · exact Or.inr (Or.inr h)
      · intro k' hm hk' v hv
        rcases List.mem_cons.1 hm with rfl | hm
        · rw [dynEntry_of hk' hv] at he
          cases he
        · exact ihB k' hm hk' v hv
    | some e =>
      obtain ⟨hk, v, hv, rfl⟩ := dynEntry_some he
      obtain ⟨hs0, hs1, hs2⟩ := setValue_undeclared W d s path cur k v n hk hdyn
      obtain ⟨ih0, ihA, ihB⟩ := rt_extras W d s path c ks (setValue W (d + 1) s path cur k (.val v) n).cfg
        (setValue W (d + 1) s path cur k (.val v) n).next (fun _ => hdyn)
      simp only [List.filterMap_cons, he]
      rw [loadTree_cons_key, decodeEntry_undeclared W s path cur k v hk]
      simp only [hs0]
      refine ⟨ih0, ?_, ?_⟩
      · intro k' h
        have hne : k' ≠ k := by
          intro e
          subst e
          rcases h with h | h | h
          · exact h (by simp)
          · exact h hk
          · exact h v hv
        rw [ihA k' ?_, hs2 k' hne]
        rcases h with h | h | h
        · exact Or.inl (fun hm => h (List.mem_cons_of_mem _ hm))
        · exact Or.inr (Or.inl h)
        · exact Or.inr (Or.inr h)
      · intro k' hm hk' v' hv'
        by_cases hin : k' ∈ ks
        · exact ihB k' hin hk' v' hv'
        · rcases List.mem_cons.1 hm with rfl | hm
          · rw [ihA k' (Or.inl hin), hs1]
            rw [hv] at hv'
            cases hv'
            rfl
          · exact absurd hm hin

theorem rtAt_all (W : World) : ∀ d, RtAt W d
  | 0 => by
    intro s c t path c0 n _ _ ht _
    rw [toTree] at ht
    cases ht
  | d + 1 => by
    intro s c t path c0 n hnd hr ht hc0
    rw [ready_succ_iff] at hr
    obtain ⟨hdyn, hr⟩ := hr
    rw [toTree] at ht
    cases htf : toTreeFields W d c false none s.fields with
    | none => simp [htf] at ht
    | some declared =>
      simp only [htf] at ht
      change some (declared ++ c.dyn.filterMap (dynEntry s c)) = some t at ht
      cases ht
      obtain ⟨h0, h1, h2⟩ := rt_fields (rtAt_all W d) s path c hnd hr s.fields declared c0 n (keysNodup_fields hnd)
        (fun _ _ h => h) htf
      rw [loadTree_append W (d + 1) s path _ declared c0 n h0]
      obtain ⟨e0, eA, eB⟩ := rt_extras W d s path c c.dyn (loadTree W (d + 1) s path c0 declared false n).cfg
        (loadTree W (d + 1) s path c0 declared false n).next
        (fun hne => by
          rcases hdyn with h | h
          · exact absurd h hne
          · exact h)
      refine ⟨e0, sameValues_succ_iff.2 ⟨⟨?_, ?_⟩, ?_⟩⟩
      · intro k hm hk v hv
        exact eB k hm hk v hv
      · intro k hk sl hsl
        by_cases hB : k ∈ c.dyn ∧ s.get k = none ∧ ∃ v, c.get k = some (.val v)
        · obtain ⟨hm, hkn, v, hv⟩ := hB
          rw [eB k hm hkn v hv] at hsl
          cases hsl
          exact hv
        · have hA : k ∉ c.dyn ∨ s.get k ≠ none ∨ ∀ v, c.get k ≠ some (.val v) := by
            by_cases h1 : k ∈ c.dyn
            · by_cases h2 : s.get k = none
              · exact Or.inr (Or.inr (fun v hv => hB ⟨h1, h2, v, hv⟩))
              · exact Or.inr (Or.inl h2)
            · exact Or.inl h1
          rw [eA k hA, h1 k hk, hc0 k hk] at hsl
          cases hsl
      · intro k f hk
        rw [eA k (Or.inr (Or.inl (by rw [hk]; simp)))]
        exact h2 k f hk

/-! ## 6. Validation passes on the reloaded configuration when it passed on the saved one -/

theorem slotSame_leaf_inv {W : World} {d : Nat} {fs : FieldSpec} {m : LeafMeta} {a b : Option Slot}
    (h : SlotSame W d (.leaf fs m) a b) : ∃ v v', a = some (.val v) ∧ b = some (.val v') ∧ LeafSame fs v v' := by
  rcases a with _ | (v | ca | as) <;> rcases b with _ | (v' | cb | bs) <;>
    first | exact False.elim h | exact ⟨_, _, rfl, rfl, h⟩

theorem slotSame_sub_inv {W : World} {d : Nat} {s' : Schema} {a b : Option Slot}
    (h : SlotSame W d (.sub s') a b) : ∃ ca cb, a = some (.node ca) ∧ b = some (.node cb) ∧ SameValues W d s' ca cb := by
  rcases a with _ | (v | ca | as) <;> rcases b with _ | (v' | cb | bs) <;>
    first | exact False.elim h | exact ⟨_, _, rfl, rfl, h⟩

theorem slotSame_ctype_inv {W : World} {d : Nat} {s' : Schema} {kf : Option String} {a b : Option Slot}
    (h : SlotSame W d (.ctype s' kf) a b) : ∃ ca cb, a = some (.node ca) ∧ b = some (.node cb) ∧ SameValues W d s' ca cb := by
  rcases a with _ | (v | ca | as) <;> rcases b with _ | (v' | cb | bs) <;>
    first | exact False.elim h | exact ⟨_, _, rfl, rfl, h⟩

theorem slotSame_list_inv {W : World} {d : Nat} {s' : Schema} {it req : Bool} {m : LeafMeta} {a b : Option Slot}
    (h : SlotSame W d (.cfgList s' it req m) a b) :
    (a = some (.val .none) ∧ b = some (.nodes [])) ∨
    ∃ as bs, a = some (.nodes as) ∧ b = some (.nodes bs) ∧ ListSame (SameValues W d s') as bs := by
  rcases a with _ | (v | ca | as) <;> rcases b with _ | (v' | cb | bs) <;>
    first
    | exact False.elim h
    | exact Or.inr ⟨_, _, rfl, rfl, h⟩
    | (cases v <;> first | exact False.elim h | (cases bs <;> first | exact False.elim h | exact Or.inl ⟨rfl, rfl⟩))


theorem mem_lookup_of_nodup : ∀ {l : List (String × SField)} {k : String} {f : SField},
    nodupKeys l = true → (k, f) ∈ l → lookupField k l = some f
  | [], _, _, _, h => by cases h
  | (k0, f0) :: rest, k, f, hnd, h => by
    simp only [nodupKeys, Bool.and_eq_true, Option.isNone_iff_eq_none] at hnd
    rcases List.mem_cons.mp h with h | h
    · cases h
      simp [lookupField]
    · have ih := mem_lookup_of_nodup hnd.2 h
      have hne : ¬ k0 = k := by
        intro e
        subst e
        rw [hnd.1] at ih
        cases ih
      simp [lookupField, hne, ih]

theorem leafSame_truthy {fs : FieldSpec} {v v' : Val} (h : LeafSame fs v v') : v'.truthy = v.truthy := by
  rcases h with rfl | ⟨rfl, rfl, _⟩ | ⟨rfl, rfl, _⟩ | ⟨rfl, rfl, _⟩ <;> simp [Val.truthy]

/-- a leaf value whose allowed normal forms validate whenever it does -/
def LeafStable (W : World) (fs : FieldSpec) (v : Val) : Prop :=
  ∀ v', LeafSame fs v v' → (∃ r, validate W.fe.toEnv fs v = .ok r) → ∃ r', validate W.fe.toEnv fs v' = .ok r'

/-- `P fs v` for every leaf value `v` held under a declared leaf field `fs`, at every depth (to `fuel`) -/
def AllLeaves (P : FieldSpec → Val → Prop) : Nat → Schema → Cfg → Prop
  | 0, _, _ => True
  | d + 1, s, c => ∀ k f, s.get k = some f →
      match f, c.get k with
      | .leaf fs _, some (.val v) => P fs v
      | .sub s', some (.node sub) => AllLeaves P d s' sub
      | .ctype s' _, some (.node sub) => AllLeaves P d s' sub
      | .cfgList s' _ _ _, some (.nodes cs) => ∀ x ∈ cs, AllLeaves P d s' x
      | _, _ => True

theorem featureEnabled_back {W : World} {d : Nat} {s : Schema} {c x : Cfg} (hnd : s.keysNodup = true)
    (hsame : ∀ k f, s.get k = some f → SlotSame W d f (c.get k) (x.get k)) (h : featureEnabled s x = true) :
    featureEnabled s c = true := by
  unfold featureEnabled at h ⊢
  rw [List.all_eq_true] at h ⊢
  intro kf hmem
  obtain ⟨k, f⟩ := kf
  have hx := h (k, f) hmem
  cases f with
  | leaf fs m =>
    simp only at hx ⊢
    by_cases hf : m.isFlag = true
    · simp only [hf, if_true] at hx ⊢
      obtain ⟨v, v', hc, hxx, hl⟩ := slotSame_leaf_inv (hsame k _ (mem_lookup_of_nodup (keysNodup_fields hnd) hmem))
      rw [hc]
      rw [hxx] at hx
      simp only at hx ⊢
      rw [← leafSame_truthy hl]
      exact hx
    · simp [hf]
  | _ => rfl

/-- an integer found in the reloaded configuration was there before -/
theorem get_int_back {W : World} {d : Nat} {s : Schema} {c x : Cfg} (hos : Extras s c x)
    (hsame : ∀ k f, s.get k = some f → SlotSame W d f (c.get k) (x.get k)) {k : String} {i : Int}
    (hx : x.get k = some (.val (.int i))) : c.get k = some (.val (.int i)) := by
  cases hk : s.get k with
  | none => exact hos.2 k (fun f hf => by rw [hk] at hf; cases hf) _ hx
  | some f =>
    have hs := hsame k f hk
    cases f with
    | virtual cst hst => exact hos.2 k (fun f hf => by rw [hk] at hf; cases hf; rfl) _ hx
    | method => exact hos.2 k (fun f hf => by rw [hk] at hf; cases hf; rfl) _ hx
    | leaf fs m =>
      obtain ⟨v, v', hc, hxx, hl⟩ := slotSame_leaf_inv hs
      rw [hxx] at hx
      cases hx
      rw [hc]
      rcases hl with h | ⟨_, h, _⟩ | ⟨_, h, _⟩ | ⟨_, h, _⟩
      · rw [h]
      · cases h
      · cases h
      · cases h
    | sub s' =>
      obtain ⟨ca, cb, _, hxx, _⟩ := slotSame_sub_inv hs
      rw [hxx] at hx; cases hx
    | ctype s' kf =>
      obtain ⟨ca, cb, _, hxx, _⟩ := slotSame_ctype_inv hs
      rw [hxx] at hx; cases hx
    | cfgList s' it req m =>
      rcases slotSame_list_inv hs with ⟨_, hxx⟩ | ⟨as, bs, _, hxx, _⟩
      · rw [hxx] at hx; cases hx
      · rw [hxx] at hx; cases hx

theorem schemaValidator_transfer {W : World} {d : Nat} {s : Schema} {c x : Cfg} (hos : Extras s c x)
    (hsame : ∀ k f, s.get k = some f → SlotSame W d f (c.get k) (x.get k)) (name : String)
    (h : schemaValidator name c = true) : schemaValidator name x = true := by
  unfold schemaValidator at h ⊢
  split
  · simp at h
  · simp only at h
    split
    · rename_i a b ha hb
      rw [get_int_back hos hsame ha, get_int_back hos hsame hb] at h
      exact h
    · rfl
  · rfl


/-- the clause of `AllLeaves` for one declared field -/
def LeavesAt (P : FieldSpec → Val → Prop) (d : Nat) : SField → Option Slot → Prop
  | .leaf fs _, some (.val v) => P fs v
  | .sub s', some (.node sub) => AllLeaves P d s' sub
  | .ctype s' _, some (.node sub) => AllLeaves P d s' sub
  | .cfgList s' _ _ _, some (.nodes cs) => ∀ x ∈ cs, AllLeaves P d s' x
  | _, _ => True

theorem allLeaves_succ_iff {P : FieldSpec → Val → Prop} {d : Nat} {s : Schema} {c : Cfg} :
    AllLeaves P (d + 1) s c ↔ ∀ k f, s.get k = some f → LeavesAt P d f (c.get k) := Iff.rfl

/-- **Validation transfers along `SameValues`**: if the saved configuration validates, so does every configuration that holds
    the same values and nothing else — provided the normal forms of its leaf values validate (`LeafStable`). -/
theorem validate_transfer (W : World) : ∀ (d F : Nat) (s : Schema) (c x : Cfg) (p p' : String),
    s.keysNodup = true → SameValues W d s c x → AllLeaves (LeafStable W) d s c →
    validateCfg W F s p c = none → validateCfg W F s p' x = none
  | 0, _, _, _, _, _, _, _, hsame, _, _ => False.elim hsame
  | d + 1, 0, s, c, x, p, p', _, _, _, h => by
    rw [validateCfg] at h
    cases h
  | d + 1, F + 1, s, c, x, p, p', hnd, hsame, hst, h => by
    obtain ⟨hos, hslots⟩ := sameValues_succ_iff.1 hsame
    rw [C11.validateCfg_none_iff] at h ⊢
    by_cases hen : featureEnabled s x = true
    · have henc := featureEnabled_back hnd hslots hen
      rcases h with h | ⟨hall, hvs⟩
      · rw [henc] at h; cases h
      · refine Or.inr ⟨?_, fun v hv => schemaValidator_transfer hos hslots v (hvs v hv)⟩
        intro kf hmem
        obtain ⟨k, f⟩ := kf
        have hk : s.get k = some f := mem_lookup_of_nodup (keysNodup_fields hnd) hmem
        have hslot := hslots k f hk
        have hp := hall (k, f) hmem
        have hl := allLeaves_succ_iff.1 hst k f hk
        simp only at hp ⊢
        cases f with
        | virtual cst hs => simp [fieldProblem]
        | method => simp [fieldProblem]
        | leaf fs m =>
          obtain ⟨v, v', hc, hx, hsm⟩ := slotSame_leaf_inv hslot
          simp only [fieldProblem, hc, hx] at hp ⊢
          rw [hc] at hl
          cases hv : validate W.fe.toEnv fs v with
          | error e => simp [hv] at hp
          | ok r =>
            obtain ⟨r', hr'⟩ := hl v' hsm ⟨r, hv⟩
            simp [hr']
        | sub s' =>
          obtain ⟨ca, cb, hc, hx, hsm⟩ := slotSame_sub_inv hslot
          simp only [fieldProblem, hc, hx] at hp ⊢
          rw [hc] at hl
          have hnd' : s'.keysNodup = true := by
            have := keysNodup_get hnd hk
            simpa [SField.every, Schema.keysNodup] using this
          exact validate_transfer W d F s' ca cb _ _ hnd' hsm hl hp
        | ctype s' kf =>
          obtain ⟨ca, cb, hc, hx, hsm⟩ := slotSame_ctype_inv hslot
          simp only [fieldProblem, hc, hx] at hp ⊢
          rw [hc] at hl
          have hnd' : s'.keysNodup = true := by
            have := keysNodup_get hnd hk
            simpa [SField.every, Schema.keysNodup] using this
          exact validate_transfer W d F s' ca cb _ _ hnd' hsm hl hp
        | cfgList s' it req m =>
          rcases slotSame_list_inv hslot with ⟨hc, hx⟩ | ⟨as, bs, hc, hx, hls⟩
          · simp only [fieldProblem, hc, hx] at hp ⊢
            cases req <;> simp at hp ⊢
          · simp only [fieldProblem, hc, hx] at hp ⊢
            have := isEmpty_eq_of_length_eq (listSame_length hls)
            rw [this]
            cases hh : (req && as.isEmpty) <;> simp [hh] at hp ⊢
    · exact Or.inl (by simpa using hen)


/-- leaves of fields without a custom validator are stable: an unset list / dict field accepts the empty list / dict, and a
    secure field that accepts the empty string is not required, hence accepts `None` -/
theorem leafStable_of_custom_none (W : World) (fs : FieldSpec) (v : Val) (h : fs.custom = none) : LeafStable W fs v := by
  cases fs with
  | mk kind req cust =>
    simp only [FieldSpec.custom] at h
    subst h
    intro v' hl hr
    rcases hl with rfl | ⟨rfl, rfl, it, hk⟩ | ⟨rfl, rfl, kf, vf, hk⟩ | ⟨rfl, rfl, m, hk⟩
    · exact hr
    · simp only [FieldSpec.kind] at hk
      subst hk
      obtain ⟨r, hr⟩ := hr
      have hreq : req = false := by
        cases req
        · rfl
        · simp [validate] at hr
      subst hreq
      cases it with
      | none => exact ⟨.list [], by simp [validate, validateKind, validateItems]⟩
      | some f =>
        cases f with
        | mk k r c =>
          by_cases hany : k.isAny = true
          · exact ⟨.list [], by simp [validate, validateKind, validateItems, hany]⟩
          · exact ⟨.list [], by simp [validate, validateKind, validateItems, hany, mapR, Except.map]⟩
    · simp only [FieldSpec.kind] at hk
      subst hk
      obtain ⟨r, hr⟩ := hr
      have hreq : req = false := by
        cases req
        · rfl
        · simp [validate] at hr
      subst hreq
      by_cases hb : (kf.isNone && vf.isNone) = true
      · exact ⟨.dict [], by simp [validate, validateKind, hb]⟩
      · exact ⟨.dict (buildDict []), by simp [validate, validateKind, hb, mapEntries, Except.map]⟩
    · simp only [FieldSpec.kind] at hk
      subst hk
      obtain ⟨r, hr⟩ := hr
      have hreq : req = false := by
        cases req
        · rfl
        · simp [validate, validateKind, secureRule] at hr
      subst hreq
      exact ⟨.none, by simp [validate]⟩

/-- leaves of fields that are not list, dict or secure fields come back unchanged, hence are stable -/
theorem leafStable_of_kind (W : World) (fs : FieldSpec) (v : Val)
    (h1 : ∀ it, fs.kind ≠ .list it) (h2 : ∀ kf vf, fs.kind ≠ .dict kf vf) (h3 : ∀ m, fs.kind ≠ .secure m) :
    LeafStable W fs v := by
  intro v' hl hr
  rcases hl with rfl | ⟨_, _, it, hk⟩ | ⟨_, _, kf, vf, hk⟩ | ⟨_, _, m, hk⟩
  · exact hr
  · exact absurd hk (h1 it)
  · exact absurd hk (h2 kf vf)
  · exact absurd hk (h3 m)


/-! ## 7. The premises, one by one, and the theorems -/

/-- a fresh configuration of `s'` can be built under a parent (any path, any next object identity) -/
def Buildable (W : World) (kf : Option String) (s' : Schema) : Prop :=
  ∀ path n, ∃ fresh n1, build W path true kf s' n = .ok (fresh, n1)

/-- the clause of `SchemaReady` for one declared field -/
def SchemaReadyAt (W : World) (R : Schema → Prop) : SField → Prop
  | .leaf _ m => envValue W m = none
  | .sub s' => Buildable W none s' ∧ R s'
  | .ctype s' kf => Buildable W kf s' ∧ R s'
  | .cfgList s' _ _ m => envValue W m = none ∧ Buildable W none s' ∧ R s'
  | .virtual _ _ => True
  | .method => True

/-- the schema side: no field is bound to a set environment variable (`load_tree` skips such keys), and every nested schema
    can be instantiated (`load_tree` re-creates nested configurations), at every depth (to `fuel`) -/
def SchemaReady (W : World) : Nat → Schema → Prop
  | 0, _ => True
  | d + 1, s => ∀ k f, s.get k = some f → SchemaReadyAt W (SchemaReady W d) f

/-- the clause of `Shaped` for one declared field -/
def ShapedAt (R : Schema → Cfg → Prop) (c : Cfg) (k : String) : SField → Prop
  | .leaf _ _ => ∃ v, c.get k = some (.val v)
  | .sub s' => ∃ sub, c.get k = some (.node sub) ∧ R s' sub
  | .ctype s' _ => ∃ sub, c.get k = some (.node sub) ∧ R s' sub
  | .cfgList s' _ req _ =>
      (req = false ∧ c.get k = some (.val .none)) ∨
      ∃ cs, c.get k = some (.nodes cs) ∧ (req = true → cs ≠ []) ∧ ∀ x ∈ cs, R s' x
  | .virtual _ _ => True
  | .method => True

/-- the saved configuration has dynamic fields only if its schema is dynamic, and holds, for every declared storing field, a
    slot of the right shape: a value for a leaf, a configuration for a sub-schema / config type, and for a list of
    configurations either a list (non-empty when the field is required) or `None` (only when it is not required); at every
    depth (to `fuel`).  Every built configuration has these slots; the two `required` conditions are what `_set_value` itself
    enforces. -/
def Shaped : Nat → Schema → Cfg → Prop
  | 0, _, _ => True
  | d + 1, s, c => (c.dyn = [] ∨ s.dynamic = true) ∧ ∀ k f, s.get k = some f → ShapedAt (Shaped d) c k f

/-- every leaf value held, at every depth, satisfies the codec hypothesis -/
def CodecOkAll (W : World) : Nat → Schema → Cfg → Prop := AllLeaves (CodecOk W)

/-- every leaf value held, at every depth, is stable (see `leafStable_of_custom_none`, `leafStable_of_kind`) -/
def StableAll (W : World) : Nat → Schema → Cfg → Prop := AllLeaves (LeafStable W)

/-- the clause of `ValidDeep` for one declared field -/
def ValidAt (W : World) (d : Nat) (R : Schema → Cfg → Prop) : SField → Option Slot → Prop
  | .sub s', some (.node sub) => (∃ p, validateCfg W (d + 1) s' p sub = none) ∧ R s' sub
  | .ctype s' _, some (.node sub) => (∃ p, validateCfg W (d + 1) s' p sub = none) ∧ R s' sub
  | .cfgList s' _ _ _, some (.nodes cs) => ∀ x ∈ cs, (∃ p, validateCfg W (d + 1) s' p x = none) ∧ R s' x
  | _, _ => True

/-- every nested configuration (sub-configuration, config type, item of a list of configurations) validates, at every depth
    (to `fuel`): `load_tree` validates each of them when it re-creates it, whatever its own `validate` argument -/
def ValidDeep (W : World) : Nat → Schema → Cfg → Prop
  | 0, _, _ => True
  | d + 1, s, c => ∀ k f, s.get k = some f → ValidAt W d (ValidDeep W d) f (c.get k)

/-- a way to discharge `CodecOk`: `to_basic`, `to_python` and `validate` all leave the held value as it is -/
theorem codecOk_of_fixed {W : World} {fs : FieldSpec} {v : Val} (hb : ∀ b, toBasic W.fe fs v = .ok b → b = v)
    (hp : toPython W.fe fs v = .ok v) (hv : validate W.fe.toEnv fs v = .ok v) : CodecOk W fs v := by
  intro b h
  cases hb b h
  exact ⟨v, by simp [hp, Except.bind, hv], Or.inl rfl⟩

/-- `Q fs` for every leaf field declared in the schema, at every depth (to `fuel`) -/
def SchemaLeaves (Q : FieldSpec → Prop) : Nat → Schema → Prop
  | 0, _ => True
  | d + 1, s => ∀ k f, s.get k = some f →
      match f with
      | .leaf fs _ => Q fs
      | .sub s' => SchemaLeaves Q d s'
      | .ctype s' _ => SchemaLeaves Q d s'
      | .cfgList s' _ _ _ => SchemaLeaves Q d s'
      | _ => True

/-- a property of leaf values that follows from a property of their fields holds of every configuration of the schema -/
theorem allLeaves_of_schema {P : FieldSpec → Val → Prop} {Q : FieldSpec → Prop} (hPQ : ∀ fs v, Q fs → P fs v) :
    ∀ (d : Nat) (s : Schema) (c : Cfg), SchemaLeaves Q d s → AllLeaves P d s c
  | 0, _, _, _ => trivial
  | d + 1, s, c, h => by
    refine allLeaves_succ_iff.2 ?_
    intro k f hk
    have hq := h k f hk
    cases f with
    | leaf fs m => cases hc : c.get k with
      | none => trivial
      | some sl => cases sl with
        | val v => exact hPQ fs v hq
        | node _ => trivial
        | nodes _ => trivial
    | sub s' => cases hc : c.get k with
      | none => trivial
      | some sl => cases sl with
        | val v => trivial
        | node sub => exact allLeaves_of_schema hPQ d s' sub hq
        | nodes _ => trivial
    | ctype s' kf => cases hc : c.get k with
      | none => trivial
      | some sl => cases sl with
        | val v => trivial
        | node sub => exact allLeaves_of_schema hPQ d s' sub hq
        | nodes _ => trivial
    | cfgList s' it req m => cases hc : c.get k with
      | none => trivial
      | some sl => cases sl with
        | val v => trivial
        | node sub => trivial
        | nodes cs => exact fun x _ => allLeaves_of_schema hPQ d s' x hq
    | virtual _ _ => cases c.get k <;> trivial
    | method => cases c.get k <;> trivial

/-- without custom validators every configuration is stable -/
theorem stableAll_of_no_custom (W : World) (d : Nat) (s : Schema) (c : Cfg)
    (h : SchemaLeaves (fun fs => fs.custom = none) d s) : StableAll W d s c :=
  allLeaves_of_schema (fun fs v hq => leafStable_of_custom_none W fs v hq) d s c h

/-- whether the `__setdefault__` of a leaf field returns does not depend on the path, the configuration or the counter -/
theorem setDefault_leaf_shape (W : World) (f : FieldSpec) (m : LeafMeta) (k : String) :
    (∃ X, ∀ path c n, setDefault W path k (.leaf f m) c n = .ok (c.setDefault k (.val X), n)) ∨
    (∀ path c n, ∃ e, setDefault W path k (.leaf f m) c n = .error e) := by
  unfold setDefault
  repeat' split
  all_goals first
    | exact Or.inl ⟨_, fun _ _ _ => rfl⟩
    | exact Or.inr (fun _ _ _ => ⟨_, rfl⟩)

mutual
  theorem build_indep (W : World) : ∀ (s : Schema) (path : String) (linked : Bool) (kf : Option String) (n : Nat) (c : Cfg) (n' : Nat),
      build W path linked kf s n = .ok (c, n') →
      ∀ (path' : String) (linked' : Bool) (kf' : Option String) (n2 : Nat), ∃ c2 n3, build W path' linked' kf' s n2 = .ok (c2, n3)
    | .mk fields dyn vs, path, linked, kf, n, c, n', h, path', linked', kf', n2 => by
      simp only [build] at h ⊢
      exact buildFields_indep W fields path _ _ c n' h path' _ _
  theorem buildFields_indep (W : World) : ∀ (fs : List (String × SField)) (path : String) (c : Cfg) (n : Nat) (c' : Cfg) (n' : Nat),
      buildFields W path fs c n = .ok (c', n') →
      ∀ (path' : String) (c2 : Cfg) (n2 : Nat), ∃ c3 n3, buildFields W path' fs c2 n2 = .ok (c3, n3)
    | [], path, c, n, c', n', _, path', c2, n2 => ⟨c2, n2, by simp [buildFields]⟩
    | (k, f) :: rest, path, c, n, c', n', h, path', c2, n2 => by
      simp only [buildFields] at h ⊢
      cases hs : setDefault W path k f c n with
      | error e => simp [hs] at h
      | ok r =>
        obtain ⟨c1, n1⟩ := r
        simp only [hs] at h
        obtain ⟨c3, n3, hs2⟩ := setDefault_indep W f k path c n c1 n1 hs path' c2 n2
        simp only [hs2]
        exact buildFields_indep W rest path c1 n1 c' n' h path' c3 n3
  theorem setDefault_indep (W : World) : ∀ (f : SField) (k path : String) (c : Cfg) (n : Nat) (c1 : Cfg) (n1 : Nat),
      setDefault W path k f c n = .ok (c1, n1) →
      ∀ (path' : String) (c2 : Cfg) (n2 : Nat), ∃ c3 n3, setDefault W path' k f c2 n2 = .ok (c3, n3)
    | .leaf f m, k, path, c, n, c1, n1, h, path', c2, n2 => by
      rcases setDefault_leaf_shape W f m k with ⟨X, hX⟩ | hE
      · exact ⟨_, _, hX path' c2 n2⟩
      · obtain ⟨e, he⟩ := hE path c n
        rw [he] at h
        cases h
    | .sub s, k, path, c, n, c1, n1, h, path', c2, n2 => by
      simp only [setDefault] at h ⊢
      cases hb : build W (joinPath path k) true none s n with
      | error e => simp [hb] at h
      | ok r =>
        obtain ⟨sub, n'⟩ := r
        obtain ⟨sub2, n3, hb2⟩ := build_indep W s _ _ _ _ _ _ hb (joinPath path' k) true none n2
        simp [hb2]
    | .ctype s kf, k, path, c, n, c1, n1, h, path', c2, n2 => by
      simp only [setDefault] at h ⊢
      cases hb : build W (joinPath path k) true kf s n with
      | error e => simp [hb] at h
      | ok r =>
        obtain ⟨sub, n'⟩ := r
        obtain ⟨sub2, n3, hb2⟩ := build_indep W s _ _ _ _ _ _ hb (joinPath path' k) true kf n2
        simp [hb2]
    | .cfgList s it req m, k, path, c, n, c1, n1, h, path', c2, n2 => by
      simp only [setDefault] at h ⊢
      split at h <;> first | (cases h; done) | simp_all
    | .virtual _ _, k, path, c, n, c1, n1, h, path', c2, n2 => ⟨c2, n2, by simp [setDefault]⟩
    | .method, k, path, c, n, c1, n1, h, path', c2, n2 => ⟨c2, n2, by simp [setDefault]⟩
end


theorem buildFields_ok_lookup (W : World) (path : String) :
    ∀ (fs : List (String × SField)) (c : Cfg) (n : Nat) (c' : Cfg) (n' : Nat), buildFields W path fs c n = .ok (c', n') →
      ∀ k f, lookupField k fs = some f → ∃ c1 n1 c2 n2, setDefault W path k f c1 n1 = .ok (c2, n2)
  | [], _, _, _, _, _, k, f, hl => by simp [lookupField] at hl
  | (k0, f0) :: rest, c, n, c', n', h, k, f, hl => by
    simp only [buildFields] at h
    cases hs : setDefault W path k0 f0 c n with
    | error e => simp [hs] at h
    | ok r =>
      obtain ⟨c1, n1⟩ := r
      simp only [hs] at h
      simp only [lookupField] at hl
      split at hl
      · rename_i hkk
        cases hl
        subst hkk
        exact ⟨c, n, c1, n1, hs⟩
      · exact buildFields_ok_lookup W path rest c1 n1 c' n' h k f hl

/-- a schema that can be instantiated once can be instantiated anywhere -/
theorem buildable_of_build {W : World} {s : Schema} {path : String} {linked : Bool} {kf : Option String} {n : Nat} {c : Cfg} {n' : Nat}
    (h : build W path linked kf s n = .ok (c, n')) (kf' : Option String) : Buildable W kf' s :=
  fun path' n2 => build_indep W s path linked kf n c n' h path' true kf' n2

/-- the clause of `SchemaLoadable` for one declared field -/
def SchemaLoadableAt (W : World) (R : Schema → Prop) : SField → Prop
  | .leaf _ m => envValue W m = none
  | .sub s' => R s'
  | .ctype s' _ => R s'
  | .cfgList s' _ _ m => envValue W m = none ∧ Buildable W none s' ∧ R s'
  | .virtual _ _ => True
  | .method => True

/-- `SchemaReady` for a schema that is known to be instantiable (e.g. because a fresh configuration of it was built): no field
    is bound to a set environment variable, and the item schema of every list of configurations can be instantiated (building
    the enclosing configuration does not show that: the list starts empty); at every depth (to `fuel`) -/
def SchemaLoadable (W : World) : Nat → Schema → Prop
  | 0, _ => True
  | d + 1, s => ∀ k f, s.get k = some f → SchemaLoadableAt W (SchemaLoadable W d) f

theorem schemaReady_of_build (W : World) : ∀ (d : Nat) (s : Schema) (path : String) (linked : Bool) (kf : Option String)
    (n : Nat) (c : Cfg) (n' : Nat), build W path linked kf s n = .ok (c, n') → SchemaLoadable W d s → SchemaReady W d s
  | 0, _, _, _, _, _, _, _, _, _ => trivial
  | d + 1, s, path, linked, kf, n, c, n', hb, hsl => by
    intro k f hk
    have h1 : SchemaLoadableAt W (SchemaLoadable W d) f := hsl k f hk
    have hsd : ∃ c1 n1 c2 n2, setDefault W path k f c1 n1 = .ok (c2, n2) := by
      cases s with
      | mk fields dyn vs =>
        simp only [build] at hb
        exact buildFields_ok_lookup W path fields _ _ _ _ hb k f hk
    obtain ⟨c1, n1, c2, n2, hsd⟩ := hsd
    cases f with
    | virtual _ _ => trivial
    | method => trivial
    | leaf fs m => exact h1
    | sub s' =>
      simp only [setDefault] at hsd
      cases hb' : build W (joinPath path k) true none s' n1 with
      | error e => simp [hb'] at hsd
      | ok r =>
        obtain ⟨sub, n3⟩ := r
        exact ⟨buildable_of_build hb' none, schemaReady_of_build W d s' _ _ _ _ _ _ hb' h1⟩
    | ctype s' kf' =>
      simp only [setDefault] at hsd
      cases hb' : build W (joinPath path k) true kf' s' n1 with
      | error e => simp [hb'] at hsd
      | ok r =>
        obtain ⟨sub, n3⟩ := r
        exact ⟨buildable_of_build hb' kf', schemaReady_of_build W d s' _ _ _ _ _ _ hb' h1⟩
    | cfgList s' it req m =>
      obtain ⟨fresh, n3, hb'⟩ := h1.2.1 "" 0
      exact ⟨h1.1, h1.2.1, schemaReady_of_build W d s' _ _ _ _ _ _ hb' h1.2.2⟩

theorem ready_of_parts (W : World) : ∀ (d : Nat) (s : Schema) (c : Cfg),
    s.keysNodup = true → SchemaReady W d s → Shaped d s c → CodecOkAll W d s c → StableAll W d s c → ValidDeep W d s c →
    Ready W d s c
  | 0, _, _, _, _, _, _, _, _ => trivial
  | d + 1, s, c, hnd, hsr, hsh, hco, hst, hvd => by
    obtain ⟨hdyn, hsh⟩ := hsh
    refine ready_succ_iff.2 ⟨hdyn, ?_⟩
    intro k f hk
    have h1 : SchemaReadyAt W (SchemaReady W d) f := hsr k f hk
    have h2 : ShapedAt (Shaped d) c k f := hsh k f hk
    have h3 : LeavesAt (CodecOk W) d f (c.get k) := hco k f hk
    have h4 : LeavesAt (LeafStable W) d f (c.get k) := hst k f hk
    have h5 : ValidAt W d (ValidDeep W d) f (c.get k) := hvd k f hk
    have nested : ∀ s' kf sub, s'.keysNodup = true → Buildable W kf s' → SchemaReady W d s' → Shaped d s' sub →
        AllLeaves (CodecOk W) d s' sub → AllLeaves (LeafStable W) d s' sub →
        (∃ p, validateCfg W (d + 1) s' p sub = none) → ValidDeep W d s' sub →
        Ready W d s' sub ∧ NestedOk W d s' kf sub := by
      intro s' kf sub hnd' hb hsr' hsh' hco' hst' hv hvd'
      refine ⟨ready_of_parts W d s' sub hnd' hsr' hsh' hco' hst' hvd', hb, ?_⟩
      intro path x hsame
      obtain ⟨p, hp⟩ := hv
      exact validate_transfer W d (d + 1) s' sub x p path hnd' hsame hst' hp
    cases f with
    | virtual cst hs => trivial
    | method => trivial
    | leaf fs m =>
      obtain ⟨v, hget⟩ := h2
      rw [hget] at h3
      exact ⟨h1, v, hget, h3⟩
    | sub s' =>
      obtain ⟨sub, hget, hshs⟩ := h2
      rw [hget] at h3 h4 h5
      have hnd' : s'.keysNodup = true := by
        have := keysNodup_get hnd hk
        simpa [SField.every, Schema.keysNodup] using this
      exact ⟨sub, hget, nested s' none sub hnd' h1.1 h1.2 hshs h3 h4 h5.1 h5.2⟩
    | ctype s' kf =>
      obtain ⟨sub, hget, hshs⟩ := h2
      rw [hget] at h3 h4 h5
      have hnd' : s'.keysNodup = true := by
        have := keysNodup_get hnd hk
        simpa [SField.every, Schema.keysNodup] using this
      exact ⟨sub, hget, nested s' kf sub hnd' h1.1 h1.2 hshs h3 h4 h5.1 h5.2⟩
    | cfgList s' it req m =>
      have hnd' : s'.keysNodup = true := by
        have := keysNodup_get hnd hk
        simpa [SField.every, Schema.keysNodup] using this
      refine ⟨h1.1, ?_⟩
      rcases h2 with h2 | ⟨cs, hget, hne, hall⟩
      · exact Or.inl h2
      · rw [hget] at h3 h4 h5
        exact Or.inr ⟨cs, hget, hne, fun x hx =>
          nested s' none x hnd' h1.2.1 h1.2.2 (hall x hx) (h3 x hx) (h4 x hx) (h5 x hx).1 (h5 x hx).2⟩

/-- **Save, then load into a fresh configuration without validation: nothing fails, and every declared persistent field, at
    every depth, holds the value it held** (up to the two normalisations of `LeafSame`, and an unset list of configurations
    coming back as the empty list); so does every dynamically added value field, and nothing else is held.

Premises, and why each is there:
* `hnd` — keys distinct at every level: `to_tree` renders every declaration in order whereas `load_tree` resolves a key to its
  *first* declaration;
* `hsr : SchemaLoadable` — no leaf / list-of-configurations field is bound to a set environment variable (`load_tree` skips
  those keys, so the default, not the saved value, would be found); the item schema of every list of configurations can be
  instantiated (for sub-configurations and config types this follows from `hb`, see `schemaReady_of_build`);
* `hsh : Shaped` — `c` has dynamic fields only if its schema is dynamic (else `load_tree` raises `AttributeError`), and one slot
  of the right shape per declared storing field (a missing slot is left out by `to_tree` and the default would be found);
* `hco : CodecOkAll` — the per-leaf codec hypothesis, discharged elsewhere per field kind;
* `hvd : ValidDeep`, `hst : StableAll` — nested configurations are re-created by `load_tree` *with* validation, so each of them
  must validate, and the normal forms of its leaf values must validate too (automatic without custom validators);
* `ht` — `to_tree` returned; its fuel is the fuel of everything else, and `SameValues` at that fuel reaches every leaf;
* `hb` — `c0` is freshly built (used through `OnlyStored s c0` and to instantiate nested schemas, see `roundtrip_into`). -/
theorem roundtrip (W : World) (fuel : Nat) (s : Schema) (c : Cfg) (t : List (Val × Val)) (c0 : Cfg) (n0 n1 : Nat)
    (hnd : s.keysNodup = true) (hsr : SchemaLoadable W fuel s) (hsh : Shaped fuel s c) (hco : CodecOkAll W fuel s c)
    (hst : StableAll W fuel s c) (hvd : ValidDeep W fuel s c)
    (ht : toTree W fuel s c false none = some t) (hb : build W "" false none s n0 = .ok (c0, n1)) :
    (loadTree W fuel s "" c0 t false n1).err = none ∧
    SameValues W fuel s c (loadTree W fuel s "" c0 t false n1).cfg :=
  rtAt_all W fuel s c t "" c0 n1 hnd
    (ready_of_parts W fuel s c hnd (schemaReady_of_build W fuel s _ _ _ _ _ _ hb hsr) hsh hco hst hvd) ht
    (build_onlyStored W "" false none s n0 c0 n1 hnd hb)

/-- the same into *any* configuration that holds nothing under non-storing keys, at any path: whatever its declared slots
    held is overwritten (`SchemaReady` instead of `SchemaLoadable`: no build of `s` is at hand) -/
theorem roundtrip_into (W : World) (fuel : Nat) (s : Schema) (c : Cfg) (t : List (Val × Val)) (path : String) (c0 : Cfg) (n : Nat)
    (hnd : s.keysNodup = true) (hsr : SchemaReady W fuel s) (hsh : Shaped fuel s c) (hco : CodecOkAll W fuel s c)
    (hst : StableAll W fuel s c) (hvd : ValidDeep W fuel s c)
    (ht : toTree W fuel s c false none = some t) (hc0 : OnlyStored s c0) :
    (loadTree W fuel s path c0 t false n).err = none ∧
    SameValues W fuel s c (loadTree W fuel s path c0 t false n).cfg :=
  rtAt_all W fuel s c t path c0 n hnd (ready_of_parts W fuel s c hnd hsr hsh hco hst hvd) ht hc0

/-- **…and with validation**, when the saved configuration itself validates (`hv`): the load does not fail either, and
    returns the same configuration as the load without validation. -/
theorem roundtrip_validate (W : World) (fuel : Nat) (s : Schema) (c : Cfg) (t : List (Val × Val)) (c0 : Cfg) (n0 n1 : Nat)
    (hnd : s.keysNodup = true) (hsr : SchemaLoadable W fuel s) (hsh : Shaped fuel s c) (hco : CodecOkAll W fuel s c)
    (hst : StableAll W fuel s c) (hvd : ValidDeep W fuel s c) (hv : ∃ p, validateCfg W (fuel + 1) s p c = none)
    (ht : toTree W fuel s c false none = some t) (hb : build W "" false none s n0 = .ok (c0, n1)) :
    (loadTree W fuel s "" c0 t true n1).err = none ∧
    SameValues W fuel s c (loadTree W fuel s "" c0 t true n1).cfg := by
  obtain ⟨he, hsame⟩ := roundtrip W fuel s c t c0 n0 n1 hnd hsr hsh hco hst hvd ht hb
  obtain ⟨hc, hve⟩ := loadTree_true W fuel s "" t c0 n1 he
  obtain ⟨p, hp⟩ := hv
  rw [hc, hve]
  exact ⟨validate_transfer W fuel (fuel + 1) s c _ p "" hnd hsame hst hp, hsame⟩


/-! ## 8. Reading `SameValues` -/

/-- a declared leaf holds the same value (up to the allowed normalisations) -/
theorem sameValues_leaf {W : World} {d : Nat} {s : Schema} {c c' : Cfg} (h : SameValues W (d + 1) s c c')
    {k : String} {fs : FieldSpec} {m : LeafMeta} (hk : s.get k = some (.leaf fs m)) :
    ∃ v v', c.get k = some (.val v) ∧ c'.get k = some (.val v') ∧ LeafSame fs v v' :=
  slotSame_leaf_inv ((sameValues_succ_iff.1 h).2 k _ hk)

/-- a declared sub-configuration holds the same values, one level down -/
theorem sameValues_sub {W : World} {d : Nat} {s : Schema} {c c' : Cfg} (h : SameValues W (d + 1) s c c')
    {k : String} {s' : Schema} (hk : s.get k = some (.sub s')) :
    ∃ a b, c.get k = some (.node a) ∧ c'.get k = some (.node b) ∧ SameValues W d s' a b :=
  slotSame_sub_inv ((sameValues_succ_iff.1 h).2 k _ hk)

theorem sameValues_ctype {W : World} {d : Nat} {s : Schema} {c c' : Cfg} (h : SameValues W (d + 1) s c c')
    {k : String} {s' : Schema} {kf : Option String} (hk : s.get k = some (.ctype s' kf)) :
    ∃ a b, c.get k = some (.node a) ∧ c'.get k = some (.node b) ∧ SameValues W d s' a b :=
  slotSame_ctype_inv ((sameValues_succ_iff.1 h).2 k _ hk)

/-- a declared list of configurations has the same length and holds, item by item, the same values (an unset list comes back
    empty) -/
theorem sameValues_items {W : World} {d : Nat} {s : Schema} {c c' : Cfg} (h : SameValues W (d + 1) s c c')
    {k : String} {s' : Schema} {it req : Bool} {m : LeafMeta} (hk : s.get k = some (.cfgList s' it req m)) :
    (c.get k = some (.val .none) ∧ c'.get k = some (.nodes [])) ∨
    ∃ as bs, c.get k = some (.nodes as) ∧ c'.get k = some (.nodes bs) ∧ ListSame (SameValues W d s') as bs :=
  slotSame_list_inv ((sameValues_succ_iff.1 h).2 k _ hk)

theorem listSame_imp {R R' : Cfg → Cfg → Prop} (hR : ∀ a b, R a b → R' a b) :
    ∀ {as bs : List Cfg}, ListSame R as bs → ListSame R' as bs
  | [], [], _ => trivial
  | [], _ :: _, h => False.elim h
  | _ :: _, [], h => False.elim h
  | _ :: _, _ :: _, h => ⟨hR _ _ h.1, listSame_imp hR h.2⟩

/-- `SameValues` does not depend on the fuel once it holds: more fuel compares the same levels -/
theorem sameValues_mono {W : World} : ∀ {d : Nat} {s : Schema} {c c' : Cfg}, SameValues W d s c c' → SameValues W (d + 1) s c c'
  | 0, _, _, _, h => False.elim h
  | d + 1, s, c, c', h => by
    obtain ⟨hos, hsl⟩ := sameValues_succ_iff.1 h
    refine sameValues_succ_iff.2 ⟨hos, ?_⟩
    intro k f hk
    have := hsl k f hk
    cases f with
    | virtual _ _ => cases c.get k <;> trivial
    | method => cases c.get k <;> trivial
    | leaf fs m =>
      obtain ⟨v, v', hc, hx, hl⟩ := slotSame_leaf_inv this
      rw [hc, hx]; exact hl
    | sub s' =>
      obtain ⟨a, b, hc, hx, hl⟩ := slotSame_sub_inv this
      rw [hc, hx]; exact sameValues_mono hl
    | ctype s' kf =>
      obtain ⟨a, b, hc, hx, hl⟩ := slotSame_ctype_inv this
      rw [hc, hx]; exact sameValues_mono hl
    | cfgList s' it req m =>
      rcases slotSame_list_inv this with ⟨hc, hx⟩ | ⟨as, bs, hc, hx, hl⟩
      · rw [hc, hx]; trivial
      · rw [hc, hx]; exact listSame_imp (fun _ _ => sameValues_mono) hl

/-! ## 9. Non-vacuity: the premises hold together on an example -/

def rtWorld : World where
  environ := fun _ => none
  fe := { parseFloat := fun _ => none, fsKind := fun _ => .absent, isabs := fun _ => false, resolve := fun _ t => t,
          urlOk := fun _ => false, salt := fun _ => [], hash := fun _ b => b, utf8 := fun _ => [],
          custom := fun _ v => .ok v, encryptS := fun _ _ => none, decryptS := fun _ => none }

def rtBool : FieldSpec := .mk .bool false none
def rtItem : Schema := .mk [("n", .leaf rtBool {})] false []
def rtSub : Schema := .mk [("flag", .leaf rtBool { default := .const (.bool true) })] true []
def rtSchema : Schema :=
  .mk [("x", .leaf rtBool { default := .const (.bool true) }),
       ("tags", .leaf (.mk (.list (some rtBool)) false none) {}),
       ("sub", .sub rtSub),
       ("items", .cfgList rtItem false false { default := .const (.list []) }),
       ("v", .virtual (.int 0) false)] false []

def rtSubCfg : Cfg := .mk 1 [("flag", .val (.bool false)), ("extra", .val (.int 3))] [] ["extra"] none true
def rtItemCfg : Cfg := .mk 2 [("n", .val (.bool true))] [] [] none true
def rtCfg : Cfg :=
  .mk 0 [("x", .val (.bool false)), ("tags", .val .none), ("sub", .node rtSubCfg), ("items", .nodes [rtItemCfg])] [] [] none false

theorem forall_get_nil {P : String → SField → Prop} (dyn : Bool) (vs : List String) :
    ∀ k f, (Schema.mk [] dyn vs).get k = some f → P k f := by
  intro k f h; cases h

theorem forall_get_cons {P : String → SField → Prop} {k0 : String} {f0 : SField} {rest : List (String × SField)} {dyn : Bool} {vs : List String}
    (h0 : P k0 f0) (hr : ∀ k f, (Schema.mk rest dyn vs).get k = some f → P k f) :
    ∀ k f, (Schema.mk ((k0, f0) :: rest) dyn vs).get k = some f → P k f := by
  intro k f h
  simp only [Schema.get, Schema.fields, lookupField] at h
  split at h
  · rename_i hk; cases h; subst hk; exact h0
  · exact hr k f h

theorem rt_build_item : Buildable rtWorld none rtItem := by
  intro path n
  simp [build, buildFields, setDefault, rtItem, rtBool, envValue, FieldSpec.kind]

theorem rt_schemaLoadable : SchemaLoadable rtWorld 2 rtSchema := by
  refine forall_get_cons ?_ (forall_get_cons ?_ (forall_get_cons ?_ (forall_get_cons ?_ (forall_get_cons ?_ (forall_get_nil _ _)))))
  · rfl
  · rfl
  · exact forall_get_cons rfl (forall_get_nil _ _)
  · exact ⟨rfl, rt_build_item, forall_get_cons rfl (forall_get_nil _ _)⟩
  · trivial

theorem rt_shaped : Shaped 2 rtSchema rtCfg := by
  refine ⟨Or.inl rfl, forall_get_cons ?_ (forall_get_cons ?_ (forall_get_cons ?_ (forall_get_cons ?_ (forall_get_cons ?_ (forall_get_nil _ _)))))⟩
  · exact ⟨_, rfl⟩
  · exact ⟨_, rfl⟩
  · exact ⟨rtSubCfg, rfl, Or.inr rfl, forall_get_cons ⟨_, rfl⟩ (forall_get_nil _ _)⟩
  · refine Or.inr ⟨[rtItemCfg], rfl, fun _ => by simp, ?_⟩
    intro x hx
    simp only [List.mem_singleton] at hx
    subst hx
    exact ⟨Or.inl rfl, forall_get_cons ⟨_, rfl⟩ (forall_get_nil _ _)⟩
  · trivial

theorem rt_codec_bool (b : Bool) : CodecOk rtWorld rtBool (.bool b) := by
  intro v hv
  simp only [rtBool, toBasic, toBasicKind, Except.ok.injEq] at hv
  subst hv
  exact ⟨.bool b, by simp [rtBool, toPython, toPythonKind, validate, validateKind, boolRule, Except.bind], Or.inl rfl⟩

theorem rt_codec_tags : CodecOk rtWorld (.mk (.list (some rtBool)) false none) .none := by
  intro v hv
  simp only [toBasic, toBasicKind, Except.ok.injEq] at hv
  subst hv
  refine ⟨.list [], ?_, Or.inr (Or.inl ⟨rfl, rfl, _, rfl⟩)⟩
  simp [rtBool, toPython, toPythonKind, decodeItems, Kind.isAny, iterForList, validateItems, mapR, Except.map, validate, validateKind,
    Except.bind]

theorem rt_codecOk : CodecOkAll rtWorld 2 rtSchema rtCfg := by
  refine forall_get_cons ?_ (forall_get_cons ?_ (forall_get_cons ?_ (forall_get_cons ?_ (forall_get_cons ?_ (forall_get_nil _ _)))))
  · exact rt_codec_bool false
  · exact rt_codec_tags
  · exact forall_get_cons (rt_codec_bool false) (forall_get_nil _ _)
  · intro x hx
    simp only [List.mem_singleton] at hx
    subst hx
    exact forall_get_cons (rt_codec_bool true) (forall_get_nil _ _)
  · trivial

theorem rt_stable : StableAll rtWorld 2 rtSchema rtCfg := by
  refine forall_get_cons ?_ (forall_get_cons ?_ (forall_get_cons ?_ (forall_get_cons ?_ (forall_get_cons ?_ (forall_get_nil _ _)))))
  · exact leafStable_of_custom_none _ _ _ rfl
  · exact leafStable_of_custom_none _ _ _ rfl
  · exact forall_get_cons (leafStable_of_custom_none _ _ _ rfl) (forall_get_nil _ _)
  · intro x hx
    simp only [List.mem_singleton] at hx
    subst hx
    exact forall_get_cons (leafStable_of_custom_none _ _ _ rfl) (forall_get_nil _ _)
  · trivial

theorem rt_validDeep : ValidDeep rtWorld 2 rtSchema rtCfg := by
  refine forall_get_cons ?_ (forall_get_cons ?_ (forall_get_cons ?_ (forall_get_cons ?_ (forall_get_cons ?_ (forall_get_nil _ _)))))
  · trivial
  · trivial
  · refine ⟨⟨"", ?_⟩, forall_get_cons trivial (forall_get_nil _ _)⟩
    simp [validateCfg, featureEnabled, validateFields, fieldProblem, rtSub, rtSubCfg, Schema.fields, Schema.validators, Cfg.get,
      Cfg.slots, getSlot, rtBool, validate, validateKind, boolRule]
  · intro x hx
    simp only [List.mem_singleton] at hx
    subst hx
    refine ⟨⟨"", ?_⟩, forall_get_cons trivial (forall_get_nil _ _)⟩
    simp [validateCfg, featureEnabled, validateFields, fieldProblem, rtItem, rtItemCfg, Schema.fields, Schema.validators, Cfg.get,
      Cfg.slots, getSlot, rtBool, validate, validateKind, boolRule]
  · trivial


theorem rt_toTree : ∃ t, toTree rtWorld 2 rtSchema rtCfg false none = some t := by
  simp [toTree, toTreeFields, renderField, toTreeItems, rtSchema, rtCfg, rtSub, rtSubCfg, rtItem, rtItemCfg, Schema.fields, Cfg.get,
    Cfg.slots, Cfg.dyn, getSlot, rtBool, toBasic, toBasicKind]

theorem rt_build : ∃ c0 n1, build rtWorld "" false none rtSchema 0 = .ok (c0, n1) := by
  simp [build, buildFields, setDefault, rtSchema, rtSub, rtBool, envValue, FieldSpec.kind, Default.value]

theorem rt_valid : ∃ p, validateCfg rtWorld 3 rtSchema p rtCfg = none := by
  refine ⟨"", ?_⟩
  simp [validateCfg, featureEnabled, validateFields, fieldProblem, rtSchema, rtCfg, rtSub, rtSubCfg, Schema.fields, Schema.validators,
    Cfg.get, Cfg.slots, getSlot, rtBool, validate, validateKind, boolRule]

/-- **Non-vacuity**: the premises of the round-trip theorems hold together for a schema with a plain leaf, an unset typed list
    (which comes back as `[]`), a dynamic sub-configuration holding a dynamically added field, a list of configurations and a
    virtual field. -/
theorem roundtrip_example : ∃ t c0 n1, toTree rtWorld 2 rtSchema rtCfg false none = some t ∧
    build rtWorld "" false none rtSchema 0 = .ok (c0, n1) ∧
    (loadTree rtWorld 2 rtSchema "" c0 t true n1).err = none ∧
    SameValues rtWorld 2 rtSchema rtCfg (loadTree rtWorld 2 rtSchema "" c0 t true n1).cfg := by
  obtain ⟨t, ht⟩ := rt_toTree
  obtain ⟨c0, n1, hb⟩ := rt_build
  exact ⟨t, c0, n1, ht, hb, roundtrip_validate rtWorld 2 rtSchema rtCfg t c0 0 n1 (by decide) rt_schemaLoadable rt_shaped rt_codecOk
    rt_stable rt_validDeep rt_valid ht hb⟩

end Cinco.Config
