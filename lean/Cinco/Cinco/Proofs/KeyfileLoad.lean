import Cinco.Proofs.Inv
import Cinco.Proofs.Keys
import Cinco.Props.C03
/-
  Where key-file names come from after a build or a load (finding F19 in general).

  The library lets an application assign a key file to any (sub-)configuration; a config type may declare one
  (`SField.ctype s' kf`).  `load_tree` / assignment of a map REPLACES sub-configuration objects by newly built ones, so an
  assigned name is lost while a declared one comes back.  This file proves it in general:

  (a) `build_keyfile`                — a built configuration carries exactly the key file it was built with;
  (b) `loadTree_keyfile`, `setValue_keyfile`, `setSub_keyfile`, `setItem_keyfile`
                                     — the OWNER's own key file never changes through these operations, whatever the outcome;
  (c) `SchemaKeys`, `build_schemaKeys`, `loadTree_schemaKeys`, `setValue_schemaKeys`, `setItem_schemaKeys`,
      `rebuilt_keyfile` / `rebuilt_has_schema_keys` (a map assigned to a sub-configuration slot),
      `loadTree_schema_keys_at` (+ `_map`, `_deep`), `assigned_key_lost`, `declared_key_restored`,
      `loadTree_untouched`, `unmentioned_key_kept`, `loadTree_sub_value_is_map`;
  (d) `Schema.noDeclaredKey`, `namedKeys_subset_root`, `one_key_per_tree`, `built_one_key`, `loaded_one_key`,
      `reload_same_key_of_schemaKeys` (the premise `huni` of `C03.reload_same_key_partial`, derived).

  Counterexamples showing the added hypotheses are needed: `build_schemaKeys_needs_nodup`, `one_key_needs_noDeclaredKey`;
  how the invariant gets broken: `setKeyAt_breaks`.
-/
namespace Cinco.Config.KeyfileLoad
open Cinco Cinco.Field Cinco.Config

/-! ## (a) `build` / `__setdefault__` and the key file of the configuration being filled -/

@[simp] theorem Cfg.keyfile_set (c : Cfg) (k : String) (s : Slot) : (c.set k s).keyfile = c.keyfile := rfl
@[simp] theorem Cfg.keyfile_setDefault (c : Cfg) (k : String) (s : Slot) : (c.setDefault k s).keyfile = c.keyfile := rfl
@[simp] theorem Cfg.keyfile_setUser (c : Cfg) (k : String) (s : Slot) : (c.setUser k s).keyfile = c.keyfile := rfl
@[simp] theorem Cfg.keyfile_withDyn (c : Cfg) (l : List String) : (c.withDyn l).keyfile = c.keyfile := rfl
@[simp] theorem Cfg.keyfile_withLinked (c : Cfg) (l : Bool) : (c.withLinked l).keyfile = c.keyfile := rfl
@[simp] theorem Cfg.keyfile_withDefaults (c : Cfg) (l : List String) : (c.withDefaults l).keyfile = c.keyfile := rfl
@[simp] theorem Cfg.keyfile_withKeyfile (c : Cfg) (l : Option String) : (c.withKeyfile l).keyfile = l := rfl

theorem setDefault_shape (W : World) (path k : String) (f : SField) (c : Cfg) (n : Nat) (c1 : Cfg) (n1 : Nat)
    (h : setDefault W path k f c n = .ok (c1, n1)) : c1 = c ∨ ∃ slot, c1 = c.setDefault k slot := by
  cases f with
  | leaf fs m =>
    simp only [setDefault] at h
    repeat' split at h
    all_goals first
      | (cases h; done)
      | (simp only [Except.ok.injEq, Prod.mk.injEq] at h; exact Or.inr ⟨_, h.1.symm⟩)
  | sub s' =>
    simp only [setDefault] at h
    cases hb : build W (joinPath path k) true none s' n with
    | error e => simp [hb] at h
    | ok r =>
      obtain ⟨sub, n'⟩ := r
      simp only [hb, Except.ok.injEq, Prod.mk.injEq] at h
      exact Or.inr ⟨_, h.1.symm⟩
  | ctype s' kf =>
    simp only [setDefault] at h
    cases hb : build W (joinPath path k) true kf s' n with
    | error e => simp [hb] at h
    | ok r =>
      obtain ⟨sub, n'⟩ := r
      simp only [hb, Except.ok.injEq, Prod.mk.injEq] at h
      exact Or.inr ⟨_, h.1.symm⟩
  | cfgList s' it req m =>
    simp only [setDefault] at h
    repeat' split at h
    all_goals first
      | (cases h; done)
      | (simp only [Except.ok.injEq, Prod.mk.injEq] at h; exact Or.inr ⟨_, h.1.symm⟩)
  | virtual v st => simp only [setDefault, Except.ok.injEq, Prod.mk.injEq] at h; exact Or.inl h.1.symm
  | method => simp only [setDefault, Except.ok.injEq, Prod.mk.injEq] at h; exact Or.inl h.1.symm

theorem setDefault_keyfile (W : World) (path k : String) (f : SField) (c : Cfg) (n : Nat) (c1 : Cfg) (n1 : Nat)
    (h : setDefault W path k f c n = .ok (c1, n1)) : c1.keyfile = c.keyfile := by
  rcases setDefault_shape W path k f c n c1 n1 h with h | ⟨slot, h⟩ <;> subst h <;> rfl

theorem setDefault_get_other (W : World) (path k : String) (f : SField) (c : Cfg) (n : Nat) (c1 : Cfg) (n1 : Nat)
    (h : setDefault W path k f c n = .ok (c1, n1)) {k' : String} (hk : k' ≠ k) : c1.get k' = c.get k' := by
  rcases setDefault_shape W path k f c n c1 n1 h with h | ⟨slot, h⟩ <;> subst h
  · rfl
  · exact Cfg.get_setDefault_other c hk _

/-- filling in the fields never changes the key file of the configuration being filled -/
theorem buildFields_keyfile (W : World) (path : String) :
    ∀ (fs : List (String × SField)) (c : Cfg) (n : Nat) (c' : Cfg) (n' : Nat),
      buildFields W path fs c n = .ok (c', n') → c'.keyfile = c.keyfile
  | [], c, n, c', n', h => by
    simp only [buildFields, Except.ok.injEq, Prod.mk.injEq] at h
    rw [h.1]
  | (k, f) :: rest, c, n, c', n', h => by
    simp only [buildFields] at h
    cases hs : setDefault W path k f c n with
    | error e => simp [hs] at h
    | ok r =>
      obtain ⟨c1, n1⟩ := r
      simp only [hs] at h
      rw [buildFields_keyfile W path rest c1 n1 c' n' h, setDefault_keyfile W path k f c n c1 n1 hs]

/-- **(a) A newly built configuration carries exactly the key file it was built with** (`none` for a `.sub` field and for
    list items, the declared one for a `.ctype` field). -/
theorem build_keyfile (W : World) (path : String) (linked : Bool) (kf : Option String) (s : Schema) (n : Nat)
    (c : Cfg) (n' : Nat) (h : build W path linked kf s n = .ok (c, n')) : c.keyfile = kf := by
  cases s with
  | mk fields dyn vs =>
    simp only [build] at h
    rw [buildFields_keyfile W path fields _ _ c n' h]
    rfl

/-! ## (b) the owner's own key file never changes through assignment and loading, whatever the outcome -/

theorem setSub_cfg_cases (W : World) (fuel : Nat) (s' : Schema) (kf : Option String) (path : String) (c : Cfg) (k : String)
    (a : Arg) (n : Nat) :
    (setSub W fuel s' kf path c k a n).cfg = c ∨ ∃ slot, (setSub W fuel s' kf path c k a n).cfg = c.setUser k slot := by
  unfold setSub
  cases a with
  | cfg sub same =>
    cases same
    · exact Or.inl rfl
    · exact Or.inr ⟨_, rfl⟩
  | val v =>
    cases v
    case dict kvs =>
      simp only
      cases hb : build W (joinPath path k) true kf s' n with
      | error e => exact Or.inl rfl
      | ok r =>
        obtain ⟨fresh, n1⟩ := r
        simp only
        cases he : (loadTree W fuel s' (joinPath path k) fresh kvs true n1).err with
        | some e => exact Or.inl rfl
        | none => exact Or.inr ⟨_, rfl⟩
    all_goals exact Or.inl rfl

/-- what `_set_value` can do to the configuration it is called on: nothing, or store one slot under `k` (after registering a
    dynamic field) -/
theorem setValue_cfg_cases (W : World) (fuel : Nat) (s : Schema) (path : String) (c : Cfg) (k : String) (a : Arg) (n : Nat) :
    (setValue W fuel s path c k a n).cfg = c ∨
    ∃ (l : List String) (slot : Slot), (setValue W fuel s path c k a n).cfg = (c.withDyn l).setUser k slot := by
  have hdyn : c.withDyn c.dyn = c := by cases c; rfl
  cases fuel with
  | zero => unfold setValue; exact Or.inl rfl
  | succ fuel =>
    unfold setValue
    cases hg : getField s c k with
    | missing =>
      simp only
      by_cases hd : s.dynamic = true
      · simp only [hd, Bool.not_true, Bool.false_eq_true, if_false]
        cases a with
        | val v => exact Or.inr ⟨_, _, rfl⟩
        | cfg sub same => exact Or.inr ⟨_, _, rfl⟩
      · simp only [hd, Bool.not_false, if_true]
        first | exact Or.inl rfl | exact Or.inl trivial
    | dynamic =>
      simp only
      cases a with
      | val v => exact Or.inr ⟨c.dyn, _, by rw [hdyn]⟩
      | cfg sub same => exact Or.inr ⟨c.dyn, _, by rw [hdyn]⟩
    | declared f =>
      cases f with
      | leaf fs m =>
        cases a with
        | val v =>
          simp only
          cases hv : validate W.fe.toEnv fs v with
          | error e => exact Or.inl rfl
          | ok v' => exact Or.inr ⟨c.dyn, _, by rw [hdyn]⟩
        | cfg sub same =>
          simp only
          cases hv : validate W.fe.toEnv fs (.opaque "Config") with
          | error e => exact Or.inl rfl
          | ok v' => exact Or.inr ⟨c.dyn, _, by rw [hdyn]⟩
      | virtual cst hst => cases hst <;> exact Or.inl rfl
      | method => exact Or.inl rfl
      | sub s' =>
        simp only
        rcases setSub_cfg_cases W fuel s' none path c k a n with h | ⟨slot, h⟩
        · exact Or.inl h
        · exact Or.inr ⟨c.dyn, slot, by rw [hdyn]; exact h⟩
      | ctype s' kf =>
        simp only
        rcases setSub_cfg_cases W fuel s' kf path c k a n with h | ⟨slot, h⟩
        · exact Or.inl h
        · exact Or.inr ⟨c.dyn, slot, by rw [hdyn]; exact h⟩
      | cfgList s' it req m =>
        cases a with
        | cfg sub same => exact Or.inl rfl
        | val v =>
          cases v
          case none =>
            simp only
            cases req
            · simp only [Bool.false_eq_true, if_false]
              exact Or.inr ⟨c.dyn, _, by rw [hdyn]⟩
            · exact Or.inl rfl
          case list items =>
            simp only
            cases hl : loadItems W fuel s' path k 0 items [] n with
            | mk r n' =>
              cases r with
              | error e => exact Or.inl rfl
              | ok cs =>
                simp only
                by_cases hr : (req && cs.isEmpty) = true
                · simp only [hr, if_true]; first | exact Or.inl rfl | exact Or.inl trivial
                · simp only [hr, Bool.false_eq_true, if_false]
                  exact Or.inr ⟨c.dyn, _, by rw [hdyn]⟩
          all_goals exact Or.inl rfl

/-- **(b)** `_set_value` never changes the key file of the configuration it is called on — for every argument and outcome -/
theorem setValue_keyfile (W : World) (fuel : Nat) (s : Schema) (path : String) (c : Cfg) (k : String) (a : Arg) (n : Nat) :
    (setValue W fuel s path c k a n).cfg.keyfile = c.keyfile := by
  rcases setValue_cfg_cases W fuel s path c k a n with h | ⟨l, slot, h⟩ <;> rw [h] <;> rfl

/-- `_set_value(k, …)` touches no other slot -/
theorem setValue_get_other (W : World) (fuel : Nat) (s : Schema) (path : String) (c : Cfg) (k : String) (a : Arg) (n : Nat)
    {k' : String} (hk : k' ≠ k) : (setValue W fuel s path c k a n).cfg.get k' = c.get k' := by
  rcases setValue_cfg_cases W fuel s path c k a n with h | ⟨l, slot, h⟩ <;> rw [h]
  rw [Cfg.get_setUser_other _ hk, Cfg.get_withDyn]

/-- **(b)** the same for the sub-configuration branch (`setSub`): the OWNER's key file is untouched whether the argument is a
    configuration object, a map (which builds a new sub-configuration) or anything else -/
theorem setSub_keyfile (W : World) (fuel : Nat) (s' : Schema) (kf : Option String) (path : String) (c : Cfg) (k : String)
    (a : Arg) (n : Nat) : (setSub W fuel s' kf path c k a n).cfg.keyfile = c.keyfile := by
  rcases setSub_cfg_cases W fuel s' kf path c k a n with h | ⟨slot, h⟩ <;> rw [h] <;> rfl

theorem setSub_get_other (W : World) (fuel : Nat) (s' : Schema) (kf : Option String) (path : String) (c : Cfg) (k : String)
    (a : Arg) (n : Nat) {k' : String} (hk : k' ≠ k) : (setSub W fuel s' kf path c k a n).cfg.get k' = c.get k' := by
  rcases setSub_cfg_cases W fuel s' kf path c k a n with h | ⟨slot, h⟩ <;> rw [h]
  exact Cfg.get_setUser_other _ hk _

/-- one step of `load_tree` on a string key, with the decoding step named -/
theorem loadTree_cons_str' (W : World) (fuel : Nat) (s : Schema) (path : String) (c : Cfg) (ks : List Char) (value : Val)
    (rest : List (Val × Val)) (dv : Bool) (n : Nat) :
    loadTree W fuel s path c ((.str ks, value) :: rest) dv n =
      (match decodeEntry W s path c (String.ofList ks) value with
       | none => loadTree W fuel s path c rest dv n
       | some (.error e) => { cfg := c, err := some e, next := n }
       | some (.ok a) =>
         let o := setValue W fuel s path c (String.ofList ks) a n
         (match o.err with
          | some e => { cfg := o.cfg, err := some e, next := o.next }
          | none => loadTree W fuel s path o.cfg rest dv o.next)) := by
  conv => lhs; unfold loadTree
  rfl

theorem loadTree_nil_cfg (W : World) (fuel : Nat) (s : Schema) (path : String) (c : Cfg) (dv : Bool) (n : Nat) :
    (loadTree W fuel s path c [] dv n).cfg = c := by
  unfold loadTree
  split <;> rfl

/-- a key that is not a string stops the load at once (the model covers string keys only) -/
theorem loadTree_cons_nonstr (W : World) (fuel : Nat) (s : Schema) (path : String) (c : Cfg) (key value : Val)
    (rest : List (Val × Val)) (dv : Bool) (n : Nat) (hk : ∀ ks, key ≠ .str ks) :
    loadTree W fuel s path c ((key, value) :: rest) dv n = { cfg := c, err := some (.raw "unmodelled-key"), next := n } := by
  cases key
  case str ks => exact absurd rfl (hk ks)
  all_goals (unfold loadTree; rfl)

/-- **(b) `load_tree` never changes the key file of the configuration it is called on**, whether it returns or raises
    (at any entry). -/
theorem loadTree_keyfile (W : World) (fuel : Nat) (s : Schema) (path : String) :
    ∀ (t : List (Val × Val)) (c : Cfg) (dv : Bool) (n : Nat), (loadTree W fuel s path c t dv n).cfg.keyfile = c.keyfile
  | [], c, dv, n => by rw [loadTree_nil_cfg]
  | (key, value) :: rest, c, dv, n => by
    by_cases hk : ∃ ks, key = .str ks
    · obtain ⟨ks, rfl⟩ := hk
      rw [loadTree_cons_str']
      cases hdec : decodeEntry W s path c (String.ofList ks) value with
      | none => exact loadTree_keyfile W fuel s path rest c dv n
      | some r =>
        cases r with
        | error e => rfl
        | ok a =>
          have h1 := setValue_keyfile W fuel s path c (String.ofList ks) a n
          simp only
          cases he : (setValue W fuel s path c (String.ofList ks) a n).err with
          | some e => exact h1
          | none => simp only; rw [loadTree_keyfile W fuel s path rest _ dv _, h1]
    · rw [loadTree_cons_nonstr W fuel s path c key value rest dv n (fun ks e => hk ⟨ks, e⟩)]

/-- **(b)** dotted item assignment never changes the key file of the configuration it is called on -/
theorem setItem_keyfile (W : World) : ∀ (fuel : Nat) (s : Schema) (path : String) (c : Cfg) (dotted : List Char) (a : Arg) (n : Nat),
    (setItem W fuel s path c dotted a n).cfg.keyfile = c.keyfile
  | 0, s, path, c, dotted, a, n => by unfold setItem; rfl
  | fuel + 1, s, path, c, dotted, a, n => by
    unfold setItem
    cases hp : partitionDot dotted with
    | mk k rest =>
      cases rest with
      | none => exact setValue_keyfile W _ s path c _ a n
      | some rest =>
        simp only
        by_cases hre : rest.isEmpty = true
        · simp only [hre, if_true]
          exact setValue_keyfile W _ s path c _ a n
        · simp only [hre, Bool.false_eq_true, if_false]
          cases hg : getField s c (String.ofList k) with
          | missing => rfl
          | dynamic => rfl
          | declared f =>
            simp only
            cases hss : subSchema f with
            | none => rfl
            | some ss =>
              obtain ⟨s', kf⟩ := ss
              cases hget : c.get (String.ofList k) with
              | none => rfl
              | some sl => cases sl <;> rfl

/-! ## (c) which key file the nested configurations have: the schema decides, not the history

`SchemaKeys d s c`: every configuration nested in `c` (through `.sub` / `.ctype` fields and as an item of a `.cfgList`, to
depth `d`) carries the key file its schema position prescribes — `none` under a `.sub` field and for list items, the declared
one under a `.ctype s' kf` field.  (Nothing is said of `c`'s own key file: that one is the caller's, see (b).) -/

def SchemaKeys : Nat → Schema → Cfg → Prop
  | 0, _, _ => True
  | d + 1, s, c => ∀ k f, s.get k = some f →
      match f, c.get k with
      | .sub s', some (.node sub) => sub.keyfile = none ∧ SchemaKeys d s' sub
      | .ctype s' kf, some (.node sub) => sub.keyfile = kf ∧ SchemaKeys d s' sub
      | .cfgList s' _ _ _, some (.nodes cs) => ∀ x ∈ cs, x.keyfile = none ∧ SchemaKeys d s' x
      | _, _ => True

/-- the clause of `SchemaKeys` for one declared field and the slot stored under its key -/
def SlotKeys (d : Nat) : SField → Option Slot → Prop
  | .sub s', some (.node sub) => sub.keyfile = none ∧ SchemaKeys d s' sub
  | .ctype s' kf, some (.node sub) => sub.keyfile = kf ∧ SchemaKeys d s' sub
  | .cfgList s' _ _ _, some (.nodes cs) => ∀ x ∈ cs, x.keyfile = none ∧ SchemaKeys d s' x
  | _, _ => True

theorem schemaKeys_succ_iff {d : Nat} {s : Schema} {c : Cfg} :
    SchemaKeys (d + 1) s c ↔ ∀ k f, s.get k = some f → SlotKeys d f (c.get k) := Iff.rfl

theorem schemaKeys_zero (s : Schema) (c : Cfg) : SchemaKeys 0 s c := by
  unfold SchemaKeys; trivial

/-- a slot that is not a (list of) configuration(s) satisfies every clause -/
theorem slotKeys_val (d : Nat) (f : SField) (v : Val) : SlotKeys d f (some (.val v)) := by
  cases f <;> trivial

theorem slotKeys_none (d : Nat) (f : SField) : SlotKeys d f none := by
  cases f <;> trivial

theorem slotKeys_nodes_nil (d : Nat) (f : SField) : SlotKeys d f (some (.nodes [])) := by
  cases f <;> first | trivial | (intro x hx; cases hx)

theorem slotKeys_leaf (d : Nat) (fs : FieldSpec) (m : LeafMeta) (sl : Option Slot) : SlotKeys d (.leaf fs m) sl := by
  cases sl with
  | none => trivial
  | some x => cases x <;> trivial

theorem slotKeys_virtual (d : Nat) (v : Val) (b : Bool) (sl : Option Slot) : SlotKeys d (.virtual v b) sl := by
  cases sl with
  | none => trivial
  | some x => cases x <;> trivial

theorem slotKeys_method (d : Nat) (sl : Option Slot) : SlotKeys d .method sl := by
  cases sl with
  | none => trivial
  | some x => cases x <;> trivial

/-- `SchemaKeys` only looks at the slots (not at the configuration's own key file, identity, defaults, …) -/
theorem schemaKeys_congr_get {s : Schema} {c c' : Cfg} (h : ∀ k, c'.get k = c.get k) :
    ∀ {d : Nat}, SchemaKeys d s c → SchemaKeys d s c'
  | 0, _ => schemaKeys_zero s c'
  | d + 1, hi => by
    rw [schemaKeys_succ_iff] at hi ⊢
    intro k f hf
    rw [h k]
    exact hi k f hf

theorem schemaKeys_withLinked {d : Nat} {s : Schema} {c : Cfg} (l : Bool) (h : SchemaKeys d s c) :
    SchemaKeys d s (c.withLinked l) := schemaKeys_congr_get (c := c) (c' := c.withLinked l) (fun _ => by simp) h

theorem schemaKeys_withDyn {d : Nat} {s : Schema} {c : Cfg} (l : List String) (h : SchemaKeys d s c) :
    SchemaKeys d s (c.withDyn l) := schemaKeys_congr_get (c := c) (c' := c.withDyn l) (fun _ => by simp) h

/-- assigning a key file to the configuration itself does not disturb `SchemaKeys` of that configuration
    (it breaks the clause of the PARENT, see `setKeyAt_breaks`) -/
theorem schemaKeys_withKeyfile {d : Nat} {s : Schema} {c : Cfg} (l : Option String) (h : SchemaKeys d s c) :
    SchemaKeys d s (c.withKeyfile l) := schemaKeys_congr_get (c := c) (c' := c.withKeyfile l) (fun _ => rfl) h

theorem schemaKeys_of_write {d : Nat} {s : Schema} {c c' : Cfg} {k : String} {slot : Slot}
    (hsame : c'.get k = some slot) (hother : ∀ k', k' ≠ k → c'.get k' = c.get k')
    (hi : SchemaKeys (d + 1) s c) (hs : ∀ f, s.get k = some f → SlotKeys d f (some slot)) : SchemaKeys (d + 1) s c' := by
  rw [schemaKeys_succ_iff] at hi ⊢
  intro k' f hf
  by_cases hk : k' = k
  · subst hk; rw [hsame]; exact hs f hf
  · rw [hother k' hk]; exact hi k' f hf

theorem schemaKeys_setUser {d : Nat} {s : Schema} {c : Cfg} {k : String} {slot : Slot}
    (hi : SchemaKeys (d + 1) s c) (hs : ∀ f, s.get k = some f → SlotKeys d f (some slot)) :
    SchemaKeys (d + 1) s (c.setUser k slot) :=
  schemaKeys_of_write (Cfg.get_setUser_same c k slot) (fun _ h => Cfg.get_setUser_other c h slot) hi hs

theorem schemaKeys_set {d : Nat} {s : Schema} {c : Cfg} {k : String} {slot : Slot}
    (hi : SchemaKeys (d + 1) s c) (hs : ∀ f, s.get k = some f → SlotKeys d f (some slot)) :
    SchemaKeys (d + 1) s (c.set k slot) :=
  schemaKeys_of_write (Cfg.get_set_same c k slot) (fun _ h => Cfg.get_set_other c h slot) hi hs

theorem schemaKeys_setUser_undeclared {d : Nat} {s : Schema} {c : Cfg} {k : String} (slot : Slot)
    (hk : s.get k = none) (hi : SchemaKeys (d + 1) s c) : SchemaKeys (d + 1) s (c.setUser k slot) :=
  schemaKeys_setUser hi (fun f hf => by rw [hk] at hf; cases hf)

/-- monotonicity in the depth -/
theorem schemaKeys_mono : ∀ {d : Nat} {s : Schema} {c : Cfg}, SchemaKeys (d + 1) s c → SchemaKeys d s c
  | 0, s, c, _ => schemaKeys_zero s c
  | d + 1, s, c, h => by
    rw [schemaKeys_succ_iff] at h ⊢
    intro k f hf
    have := h k f hf
    cases f <;> cases hg : c.get k <;> try trivial
    all_goals rename_i sl; cases sl <;> try trivial
    all_goals simp only [hg, SlotKeys] at this ⊢
    · exact ⟨this.1, schemaKeys_mono this.2⟩
    · exact ⟨this.1, schemaKeys_mono this.2⟩
    · exact fun x hx => ⟨(this x hx).1, schemaKeys_mono (this x hx).2⟩

/-! ### schemas with pairwise distinct keys (the hypothesis of `inv_build`, needed here for the same reason: `Schema.get`
reads the FIRST declaration of a key, `buildFields` leaves the LAST one's default in the slot) -/

theorem keysNodup_fields {s : Schema} (h : s.keysNodup = true) : nodupKeys s.fields = true := by
  cases s with
  | mk fields dyn vs =>
    simp only [Schema.keysNodup, Schema.every, Bool.and_eq_true] at h
    exact h.1

theorem keysNodup_get {s : Schema} {k : String} {f : SField} (h : s.keysNodup = true) (hf : s.get k = some f) :
    f.every nodupKeys = true := by
  cases s with
  | mk fields dyn vs =>
    simp only [Schema.keysNodup, Schema.every, Bool.and_eq_true] at h
    exact everyFields_lookup h.2 hf

theorem keysNodup_sub {s s' : Schema} {k : String} (h : s.keysNodup = true) (hf : s.get k = some (.sub s')) :
    s'.keysNodup = true := by
  have := keysNodup_get h hf
  simpa [SField.every, Schema.keysNodup] using this

theorem keysNodup_ctype {s s' : Schema} {k : String} {kf : Option String} (h : s.keysNodup = true)
    (hf : s.get k = some (.ctype s' kf)) : s'.keysNodup = true := by
  have := keysNodup_get h hf
  simpa [SField.every, Schema.keysNodup] using this

theorem keysNodup_cfgList {s s' : Schema} {k : String} {it req : Bool} {m : LeafMeta} (h : s.keysNodup = true)
    (hf : s.get k = some (.cfgList s' it req m)) : s'.keysNodup = true := by
  have := keysNodup_get h hf
  simpa [SField.every, Schema.keysNodup] using this

/-! ### `build` establishes `SchemaKeys` -/

def BuildKeys (W : World) (d : Nat) : Prop :=
  ∀ (path : String) (linked : Bool) (kf : Option String) (s : Schema) (n : Nat) (c : Cfg) (n' : Nat),
    s.keysNodup = true → build W path linked kf s n = .ok (c, n') → SchemaKeys d s c

theorem setDefault_keys_spec (W : World) (d : Nat) (hb : BuildKeys W d)
    (path k : String) (f : SField) (c : Cfg) (n : Nat) (c1 : Cfg) (n1 : Nat)
    (hf : f.every nodupKeys = true) (h : setDefault W path k f c n = .ok (c1, n1)) : SlotKeys d f (c1.get k) := by
  cases f with
  | leaf fs m => exact slotKeys_leaf d fs m _
  | virtual v b => exact slotKeys_virtual d v b _
  | method => exact slotKeys_method d _
  | sub s' =>
    simp only [setDefault] at h
    cases hbd : build W (joinPath path k) true none s' n with
    | error e => simp [hbd] at h
    | ok r =>
      obtain ⟨sub, n'⟩ := r
      simp only [hbd] at h
      cases h
      rw [Cfg.get_setDefault_same]
      exact ⟨build_keyfile W _ _ _ _ _ _ _ hbd, hb _ _ _ _ _ _ _ (by simpa [SField.every, Schema.keysNodup] using hf) hbd⟩
  | ctype s' kf =>
    simp only [setDefault] at h
    cases hbd : build W (joinPath path k) true kf s' n with
    | error e => simp [hbd] at h
    | ok r =>
      obtain ⟨sub, n'⟩ := r
      simp only [hbd] at h
      cases h
      rw [Cfg.get_setDefault_same]
      exact ⟨build_keyfile W _ _ _ _ _ _ _ hbd, hb _ _ _ _ _ _ _ (by simpa [SField.every, Schema.keysNodup] using hf) hbd⟩
  | cfgList s' it req m =>
    simp only [setDefault] at h
    repeat' split at h
    all_goals first
      | (cases h; done)
      | (simp only [Except.ok.injEq, Prod.mk.injEq] at h
         rw [← h.1, Cfg.get_setDefault_same]
         first | exact slotKeys_nodes_nil d _ | exact slotKeys_val d _ _)

theorem buildFields_keys_spec (W : World) (d : Nat) (hb : BuildKeys W d) (path : String) :
    ∀ (fs : List (String × SField)) (c : Cfg) (n : Nat) (c' : Cfg) (n' : Nat),
      nodupKeys fs = true → (∀ k f, lookupField k fs = some f → f.every nodupKeys = true) →
      buildFields W path fs c n = .ok (c', n') →
      (∀ k, lookupField k fs = none → c'.get k = c.get k) ∧
      (∀ k f, lookupField k fs = some f → SlotKeys d f (c'.get k))
  | [], c, n, c', n', _, _, h => by
    simp only [buildFields] at h
    cases h
    exact ⟨fun _ _ => rfl, fun k f hf => by simp [lookupField] at hf⟩
  | (k, f) :: rest, c, n, c', n', hnd, hok, h => by
    simp only [buildFields] at h
    cases hs : setDefault W path k f c n with
    | error e => simp [hs] at h
    | ok r =>
      obtain ⟨c1, n1⟩ := r
      simp only [hs] at h
      simp only [nodupKeys, Bool.and_eq_true, Option.isNone_iff_eq_none] at hnd
      have hfk : f.every nodupKeys = true := hok k f (by simp [lookupField])
      have hsl := setDefault_keys_spec W d hb path k f c n c1 n1 hfk hs
      have ho : ∀ k', k' ≠ k → c1.get k' = c.get k' := fun k' hk' => setDefault_get_other W path k f c n c1 n1 hs hk'
      have hne : ∀ k' f', lookupField k' rest = some f' → ¬ k = k' := by
        intro k' f' hl e
        subst e
        rw [hnd.1] at hl
        cases hl
      obtain ⟨ih1, ih2⟩ := buildFields_keys_spec W d hb path rest c1 n1 c' n' hnd.2
        (fun k' f' hl => hok k' f' (by simp [lookupField, hne k' f' hl, hl])) h
      constructor
      · intro k' hl
        simp only [lookupField] at hl
        split at hl
        · cases hl
        · rename_i hkk
          rw [ih1 k' hl, ho k' (fun e => hkk e.symm)]
      · intro k' f' hl
        simp only [lookupField] at hl
        split at hl
        · rename_i hkk
          cases hl
          subst hkk
          rw [ih1 k hnd.1]
          exact hsl
        · exact ih2 k' f' hl

theorem buildKeys_all (W : World) : ∀ (d : Nat), BuildKeys W d
  | 0 => fun _ _ _ s _ c _ _ _ => schemaKeys_zero s c
  | d + 1 => by
    intro path linked kf s n c n' hs h
    cases s with
    | mk fields dyn vs =>
      simp only [build] at h
      have hs' := hs
      simp only [Schema.keysNodup, Schema.every, Bool.and_eq_true] at hs'
      have hsp := buildFields_keys_spec W d (buildKeys_all W d) path fields _ _ _ _ hs'.1
        (fun k f hl => everyFields_lookup hs'.2 hl) h
      rw [schemaKeys_succ_iff]
      intro k f hf
      exact hsp.2 k f hf

/-- **(c) `Config(schema)` establishes `SchemaKeys`, to every depth**: in a newly built configuration every nested
    configuration has the key file its schema position prescribes.  `hnd` (pairwise distinct keys at every level) is needed
    for the reason given at `inv_build`: with a duplicate key the slot holds the LAST declaration's default while
    `Schema.get` reads the FIRST (e.g. `[("a", .ctype s₁ (some "K")), ("a", .sub s₂)]` leaves a node with key file `none`
    under `a`).  See `build_schemaKeys_needs_nodup`. -/
theorem build_schemaKeys (W : World) (d : Nat) (path : String) (linked : Bool) (kf : Option String) (s : Schema) (n : Nat)
    (c : Cfg) (n' : Nat) (hnd : s.keysNodup = true) (h : build W path linked kf s n = .ok (c, n')) : SchemaKeys d s c :=
  buildKeys_all W d path linked kf s n c n' hnd h

/-! ### `_set_value` / `load_tree` keep `SchemaKeys`, whether they return or raise -/

/-- an argument of an assignment respects `SchemaKeys`: plain values (all that `load_tree` passes) always do; a
    configuration OBJECT must carry the key file the slot prescribes — exactly what fails after
    `sub._key_filename = …; cfg.sub = sub` -/
def ArgKeys (d : Nat) (s : Schema) (k : String) : Arg → Prop
  | .val _ => True
  | .cfg sub _ => ∀ f, s.get k = some f → SlotKeys d f (some (.node sub))

theorem slotKeys_node_withLinked {d : Nat} {f : SField} {sub : Cfg} (l : Bool) (h : SlotKeys d f (some (.node sub))) :
    SlotKeys d f (some (.node (sub.withLinked l))) := by
  cases f <;> try trivial
  · exact ⟨h.1, schemaKeys_withLinked l h.2⟩
  · exact ⟨h.1, schemaKeys_withLinked l h.2⟩

def SetValueKeys (W : World) (fuel : Nat) : Prop :=
  ∀ (d : Nat) (s : Schema) (path : String) (c : Cfg) (k : String) (a : Arg) (n : Nat),
    s.keysNodup = true → ArgKeys d s k a → SchemaKeys (d + 1) s c → SchemaKeys (d + 1) s (setValue W fuel s path c k a n).cfg

def LoadTreeKeys (W : World) (fuel : Nat) : Prop :=
  ∀ (d : Nat) (s : Schema) (path : String) (c : Cfg) (entries : List (Val × Val)) (dv : Bool) (n : Nat),
    s.keysNodup = true → SchemaKeys d s c → SchemaKeys d s (loadTree W fuel s path c entries dv n).cfg

def LoadItemsKeys (W : World) (fuel : Nat) : Prop :=
  ∀ (d : Nat) (s' : Schema) (path k : String) (items : List Val) (pos : Nat) (acc : List Cfg) (n : Nat) (cs : List Cfg) (n' : Nat),
    s'.keysNodup = true → (∀ x ∈ acc, x.keyfile = none ∧ SchemaKeys d s' x) →
    loadItems W fuel s' path k pos items acc n = (.ok cs, n') → ∀ x ∈ cs, x.keyfile = none ∧ SchemaKeys d s' x

/-- the schema position of a sub-configuration slot, with the key file `_set_value` hands to `setSub` for it -/
def SubAt (s : Schema) (k : String) (s' : Schema) (kf : Option String) : Prop :=
  (s.get k = some (.sub s') ∧ kf = none) ∨ s.get k = some (.ctype s' kf)

theorem subAt_nodup {s s' : Schema} {k : String} {kf : Option String} (h : SubAt s k s' kf) (hnd : s.keysNodup = true) :
    s'.keysNodup = true := by
  rcases h with ⟨h, _⟩ | h
  · exact keysNodup_sub hnd h
  · exact keysNodup_ctype hnd h

theorem subAt_slot {s s' : Schema} {k : String} {kf : Option String} (h : SubAt s k s' kf) {d : Nat} {x : Cfg}
    (hx : x.keyfile = kf ∧ SchemaKeys d s' x) : ∀ f, s.get k = some f → SlotKeys d f (some (.node x)) := by
  intro f hf
  rcases h with ⟨h, hkf⟩ | h
  · rw [h] at hf; cases hf; subst hkf; exact hx
  · rw [h] at hf; cases hf; exact hx

def SetSubKeys (W : World) (fuel : Nat) : Prop :=
  ∀ (d : Nat) (s s' : Schema) (kf : Option String) (path : String) (c : Cfg) (k : String) (a : Arg) (n : Nat),
    s.keysNodup = true → SubAt s k s' kf → ArgKeys d s k a → SchemaKeys (d + 1) s c →
    SchemaKeys (d + 1) s (setSub W fuel s' kf path c k a n).cfg

theorem decodeEntry_val {W : World} {s : Schema} {path : String} {c : Cfg} {k : String} {value : Val} {a : Arg}
    (h : decodeEntry W s path c k value = some (.ok a)) : ∃ v, a = .val v := by
  unfold decodeEntry at h
  repeat' split at h
  all_goals first | (cases h; done) | (simp only [Option.some.injEq, Except.ok.injEq] at h; exact ⟨_, h.symm⟩)

theorem loadTreeKeys_of_setValueKeys {W : World} {fuel : Nat} (hsv : SetValueKeys W fuel) : LoadTreeKeys W fuel := by
  intro d s path c entries dv n hs
  cases d with
  | zero => exact fun _ => schemaKeys_zero s _
  | succ d =>
    induction entries generalizing c n with
    | nil =>
      intro hi
      rw [loadTree_nil_cfg]; exact hi
    | cons e rest ih =>
      intro hi
      obtain ⟨key, value⟩ := e
      by_cases hk : ∃ ks, key = .str ks
      · obtain ⟨ks, rfl⟩ := hk
        rw [loadTree_cons_str']
        cases hdec : decodeEntry W s path c (String.ofList ks) value with
        | none => exact ih c n hi
        | some r =>
          cases r with
          | error e => exact hi
          | ok a =>
            obtain ⟨v, rfl⟩ := decodeEntry_val hdec
            have h1 : SchemaKeys (d + 1) s (setValue W fuel s path c (String.ofList ks) (.val v) n).cfg :=
              hsv d s path c _ _ n hs trivial hi
            simp only
            cases he : (setValue W fuel s path c (String.ofList ks) (.val v) n).err with
            | some e => exact h1
            | none => exact ih _ _ h1
      · rw [loadTree_cons_nonstr W fuel s path c key value rest dv n (fun ks e => hk ⟨ks, e⟩)]
        exact hi

theorem loadItemsKeys_of_loadTreeKeys {W : World} {fuel : Nat} (hlt : LoadTreeKeys W fuel) : LoadItemsKeys W fuel := by
  intro d s' path k items
  induction items with
  | nil =>
    intro pos acc n cs n' _ hacc h
    unfold loadItems at h
    cases h
    intro x hx
    exact hacc x (List.mem_reverse.mp hx)
  | cons item rest ih =>
    intro pos acc n cs n' hs hacc h
    unfold loadItems at h
    cases item
    case dict kvs =>
      simp only at h
      cases hb : build W (itemPath path k pos) true none s' n with
      | error e => simp [hb] at h
      | ok r =>
        obtain ⟨fresh, n1⟩ := r
        simp only [hb] at h
        have hfresh : SchemaKeys d s' fresh := buildKeys_all W d _ _ _ _ _ _ _ hs hb
        have ho : SchemaKeys d s' (loadTree W fuel s' (itemPath path k pos) fresh kvs true n1).cfg :=
          hlt d s' _ fresh kvs true n1 hs hfresh
        have hkf : (loadTree W fuel s' (itemPath path k pos) fresh kvs true n1).cfg.keyfile = none := by
          rw [loadTree_keyfile, build_keyfile W _ _ _ _ _ _ _ hb]
        cases he : (loadTree W fuel s' (itemPath path k pos) fresh kvs true n1).err with
        | some e => simp [he] at h
        | none =>
          simp only [he] at h
          refine ih (pos + 1) _ _ cs n' hs ?_ h
          intro x hx
          rcases List.mem_cons.mp hx with hx | hx
          · subst hx; exact ⟨hkf, ho⟩
          · exact hacc x hx
    all_goals
      simp only at h
      cases h

theorem setSubKeys_of_loadTreeKeys {W : World} {fuel : Nat} (hlt : LoadTreeKeys W fuel) : SetSubKeys W fuel := by
  intro d s s' kf path c k a n hs hk ha hi
  have hs' : s'.keysNodup = true := subAt_nodup hk hs
  have hslot : ∀ x, x.keyfile = kf ∧ SchemaKeys d s' x → SchemaKeys (d + 1) s (c.setUser k (.node x)) :=
    fun x hx => schemaKeys_setUser hi (subAt_slot hk hx)
  unfold setSub
  cases a with
  | cfg sub same =>
    cases same
    · exact hi
    · simp only [if_true]
      exact schemaKeys_setUser hi (fun f hf => slotKeys_node_withLinked true (ha f hf))
  | val v =>
    cases v
    case dict kvs =>
      simp only
      cases hb : build W (joinPath path k) true kf s' n with
      | error e => exact hi
      | ok r =>
        obtain ⟨fresh, n1⟩ := r
        simp only
        have hfresh : SchemaKeys d s' fresh := buildKeys_all W d _ _ _ _ _ _ _ hs' hb
        have ho : SchemaKeys d s' (loadTree W fuel s' (joinPath path k) fresh kvs true n1).cfg :=
          hlt d s' _ fresh kvs true n1 hs' hfresh
        have hkf : (loadTree W fuel s' (joinPath path k) fresh kvs true n1).cfg.keyfile = kf := by
          rw [loadTree_keyfile, build_keyfile W _ _ _ _ _ _ _ hb]
        cases he : (loadTree W fuel s' (joinPath path k) fresh kvs true n1).err with
        | some e => exact hi
        | none => exact hslot _ ⟨hkf, ho⟩
    all_goals exact hi

theorem setValueKeys_succ {W : World} {fuel : Nat} (hss : SetSubKeys W fuel) (hli : LoadItemsKeys W fuel) :
    SetValueKeys W (fuel + 1) := by
  intro d s path c k a n hs ha hi
  unfold setValue
  cases hg : getField s c k with
  | missing =>
    have hk : s.get k = none := getField_not_declared (fun f h => by rw [hg] at h; cases h)
    simp only
    by_cases hd : s.dynamic = true
    · simp only [hd, Bool.not_true, Bool.false_eq_true, if_false]
      cases a with
      | val v => exact schemaKeys_setUser_undeclared _ hk (schemaKeys_withDyn _ hi)
      | cfg sub same => exact schemaKeys_setUser_undeclared _ hk (schemaKeys_withDyn _ hi)
    · simp only [hd, Bool.not_false, if_true]
      exact hi
  | dynamic =>
    have hk : s.get k = none := getField_not_declared (fun f h => by rw [hg] at h; cases h)
    simp only
    cases a with
    | val v => exact schemaKeys_setUser_undeclared _ hk hi
    | cfg sub same => exact schemaKeys_setUser_undeclared _ hk hi
  | declared f =>
    have hk : s.get k = some f := getField_declared hg
    cases f with
    | leaf fs m =>
      have hheld : ∀ v', SchemaKeys (d + 1) s (c.setUser k (.val v')) := by
        intro v'
        exact schemaKeys_setUser hi (fun f _ => slotKeys_val d f v')
      cases a with
      | val v =>
        simp only
        cases hv : validate W.fe.toEnv fs v with
        | error e => exact hi
        | ok v' => exact hheld _
      | cfg sub same =>
        simp only
        cases hv : validate W.fe.toEnv fs (.opaque "Config") with
        | error e => exact hi
        | ok v' => exact hheld _
    | virtual cst hst => cases hst <;> exact hi
    | method => exact hi
    | sub s' => exact hss d s s' none path c k a n hs (Or.inl ⟨hk, rfl⟩) ha hi
    | ctype s' kf => exact hss d s s' kf path c k a n hs (Or.inr hk) ha hi
    | cfgList s' it req m =>
      have hs' : s'.keysNodup = true := keysNodup_cfgList hs hk
      cases a with
      | cfg sub same => exact hi
      | val v =>
        cases v
        case none =>
          simp only
          cases req
          · simp only [Bool.false_eq_true, if_false]
            exact schemaKeys_setUser hi (fun f _ => slotKeys_val d f _)
          · exact hi
        case list items =>
          simp only
          cases hl : loadItems W fuel s' path k 0 items [] n with
          | mk r n' =>
            cases r with
            | error e => exact hi
            | ok cs =>
              simp only
              by_cases hr : (req && cs.isEmpty) = true
              · simp only [hr, if_true]; exact hi
              · simp only [hr]
                refine schemaKeys_setUser hi ?_
                intro f hf
                rw [hk] at hf; cases hf
                exact hli d s' path k items 0 [] n cs n' hs' (fun x hx => by cases hx) hl
        all_goals exact hi

theorem setValueKeys_all (W : World) : ∀ fuel, SetValueKeys W fuel
  | 0 => by
    intro d s path c k a n _ _ hi
    unfold setValue
    exact hi
  | fuel + 1 =>
    have hlt := loadTreeKeys_of_setValueKeys (setValueKeys_all W fuel)
    setValueKeys_succ (setSubKeys_of_loadTreeKeys hlt) (loadItemsKeys_of_loadTreeKeys hlt)

theorem loadTreeKeys_all (W : World) (fuel : Nat) : LoadTreeKeys W fuel :=
  loadTreeKeys_of_setValueKeys (setValueKeys_all W fuel)

/-- **`_set_value` keeps `SchemaKeys`** for plain values and for configuration objects that carry the prescribed key file
    (`ArgKeys`), whether it returns or raises. -/
theorem setValue_schemaKeys (W : World) (d fuel : Nat) (s : Schema) (path : String) (c : Cfg) (k : String) (a : Arg) (n : Nat)
    (hnd : s.keysNodup = true) (ha : ArgKeys d s k a) (hi : SchemaKeys (d + 1) s c) :
    SchemaKeys (d + 1) s (setValue W fuel s path c k a n).cfg :=
  setValueKeys_all W fuel d s path c k a n hnd ha hi

/-- **`load_tree` keeps `SchemaKeys`**, whether it returns or raises (at any entry). -/
theorem loadTree_schemaKeys (W : World) (d fuel : Nat) (s : Schema) (path : String) (c : Cfg) (t : List (Val × Val))
    (dv : Bool) (n : Nat) (hnd : s.keysNodup = true) (hi : SchemaKeys d s c) :
    SchemaKeys d s (loadTree W fuel s path c t dv n).cfg :=
  loadTreeKeys_all W fuel d s path c t dv n hnd hi

/-- a freshly built and then loaded configuration: its own key file is the one it was built with, and every nested
    configuration has the key file of its schema position -/
theorem build_load_schemaKeys (W : World) (d fuel : Nat) (s : Schema) (path : String) (linked : Bool) (kf : Option String)
    (n0 n1 : Nat) (c0 : Cfg) (t : List (Val × Val)) (dv : Bool) (hnd : s.keysNodup = true)
    (hb : build W path linked kf s n0 = .ok (c0, n1)) :
    (loadTree W fuel s path c0 t dv n1).cfg.keyfile = kf ∧ SchemaKeys d s (loadTree W fuel s path c0 t dv n1).cfg :=
  ⟨by rw [loadTree_keyfile, build_keyfile W _ _ _ _ _ _ _ hb],
   loadTree_schemaKeys W d fuel s path c0 t dv n1 hnd (build_schemaKeys W d path linked kf s n0 c0 n1 hnd hb)⟩

/-- **dotted item assignment of a plain value keeps `SchemaKeys`**, whether it returns or raises: the configurations walked
    through are kept (with their key files, `setItem_keyfile`); only the last step can rebuild one. -/
theorem setItem_schemaKeys (W : World) :
    ∀ (fuel d : Nat) (s : Schema) (path : String) (c : Cfg) (dotted : List Char) (v : Val) (n : Nat),
      s.keysNodup = true → SchemaKeys d s c → SchemaKeys d s (setItem W fuel s path c dotted (.val v) n).cfg
  | 0, d, s, path, c, dotted, v, n, _, hi => by
    unfold setItem
    exact hi
  | fuel + 1, 0, s, path, c, dotted, v, n, _, _ => schemaKeys_zero s _
  | fuel + 1, d + 1, s, path, c, dotted, v, n, hs, hi => by
    have hsv : ∀ k, SchemaKeys (d + 1) s (setValue W (fuel + 1) s path c k (.val v) n).cfg :=
      fun k => setValueKeys_all W (fuel + 1) d s path c k _ n hs trivial hi
    unfold setItem
    cases hp : partitionDot dotted with
    | mk k rest =>
      cases rest with
      | none => exact hsv _
      | some rest =>
        simp only
        by_cases hre : rest.isEmpty = true
        · simp only [hre, if_true]
          exact hsv _
        · simp only [hre, Bool.false_eq_true, if_false]
          cases hg : getField s c (String.ofList k) with
          | missing => exact hi
          | dynamic => exact hi
          | declared f =>
            simp only
            cases hss : subSchema f with
            | none => exact hi
            | some ss =>
              obtain ⟨s', kf⟩ := ss
              cases hget : c.get (String.ofList k) with
              | none => exact hi
              | some sl =>
                cases sl with
                | val v0 => exact hi
                | nodes cs => exact hi
                | node sub =>
                  simp only
                  have hk := getField_declared hg
                  rcases subSchema_some hss with rfl | rfl
                  · have hslot := hi _ _ hk
                    rw [hget] at hslot
                    have ih := setItem_schemaKeys W fuel d s' (joinPath path (String.ofList k)) sub rest v n
                      (keysNodup_sub hs hk) hslot.2
                    refine schemaKeys_set hi ?_
                    intro f' hf'
                    rw [hk] at hf'; cases hf'
                    exact ⟨by rw [setItem_keyfile]; exact hslot.1, ih⟩
                  · have hslot := hi _ _ hk
                    rw [hget] at hslot
                    have ih := setItem_schemaKeys W fuel d s' (joinPath path (String.ofList k)) sub rest v n
                      (keysNodup_ctype hs hk) hslot.2
                    refine schemaKeys_set hi ?_
                    intro f' hf'
                    rw [hk] at hf'; cases hf'
                    exact ⟨by rw [setItem_keyfile]; exact hslot.1, ih⟩

/-! ### a map assigned to a sub-configuration slot: the stored node is NEW and carries the schema's key file -/

/-- the slot holds a configuration with property `P` -/
def NodeAt (P : Cfg → Prop) (slot : Option Slot) : Prop := ∃ node, slot = some (.node node) ∧ P node

/-- generic form: whatever holds of every "built with `kf` from `s'`, then loaded" configuration holds of the node stored
    by a successful `setSub` with a map -/
theorem setSub_map_node (W : World) (P : Cfg → Prop) (fuel : Nat) (s' : Schema) (kf : Option String) (path : String)
    (c : Cfg) (k : String) (kvs : List (Val × Val)) (n : Nat)
    (hP : ∀ (fresh : Cfg) (n1 : Nat), build W (joinPath path k) true kf s' n = .ok (fresh, n1) →
      P (loadTree W fuel s' (joinPath path k) fresh kvs true n1).cfg)
    (h : (setSub W fuel s' kf path c k (.val (.dict kvs)) n).err = none) :
    NodeAt P ((setSub W fuel s' kf path c k (.val (.dict kvs)) n).cfg.get k) := by
  unfold setSub at h ⊢
  simp only at h ⊢
  cases hb : build W (joinPath path k) true kf s' n with
  | error e => simp [hb] at h
  | ok r =>
    obtain ⟨fresh, n1⟩ := r
    simp only [hb] at h ⊢
    cases he : (loadTree W fuel s' (joinPath path k) fresh kvs true n1).err with
    | some e => simp [he] at h
    | none =>
      simp only
      exact ⟨_, Cfg.get_setUser_same _ _ _, hP fresh n1 hb⟩

/-- **(c) F19, the rebuilt node — key file only, no hypothesis on the schema**: after a successful assignment of a map to a
    sub-configuration slot the node stored there has key file `kf` (`none` for `.sub`, the declared one for `.ctype`),
    whatever was stored there before. -/
theorem rebuilt_keyfile (W : World) (fuel : Nat) (s' : Schema) (kf : Option String) (path : String)
    (c : Cfg) (k : String) (kvs : List (Val × Val)) (n : Nat)
    (h : (setSub W fuel s' kf path c k (.val (.dict kvs)) n).err = none) :
    ∃ node, (setSub W fuel s' kf path c k (.val (.dict kvs)) n).cfg.get k = some (.node node) ∧ node.keyfile = kf :=
  setSub_map_node W (fun x => x.keyfile = kf) fuel s' kf path c k kvs n
    (fun fresh n1 hb => by rw [loadTree_keyfile, build_keyfile W _ _ _ _ _ _ _ hb]) h

/-- **(c) `rebuilt_has_schema_keys`**: …and everything below it has the key file of its schema position, to every depth. -/
theorem rebuilt_has_schema_keys (W : World) (d fuel : Nat) (s' : Schema) (kf : Option String) (path : String)
    (c : Cfg) (k : String) (kvs : List (Val × Val)) (n : Nat) (hnd : s'.keysNodup = true)
    (h : (setSub W fuel s' kf path c k (.val (.dict kvs)) n).err = none) :
    ∃ node, (setSub W fuel s' kf path c k (.val (.dict kvs)) n).cfg.get k = some (.node node) ∧
      node.keyfile = kf ∧ SchemaKeys d s' node :=
  setSub_map_node W (fun x => x.keyfile = kf ∧ SchemaKeys d s' x) fuel s' kf path c k kvs n
    (fun fresh n1 hb => ⟨by rw [loadTree_keyfile, build_keyfile W _ _ _ _ _ _ _ hb],
      loadTree_schemaKeys W d fuel s' _ fresh kvs true n1 hnd (build_schemaKeys W d _ _ _ s' n fresh n1 hnd hb)⟩) h

/-- by contrast, assigning a configuration OBJECT (of the right schema) stores that object: its key file — assigned or not —
    is kept.  (This is how an application can re-attach a key file after a load.) -/
theorem assigned_object_keeps_keyfile (W : World) (fuel : Nat) (s' : Schema) (kf : Option String) (path : String)
    (c : Cfg) (k : String) (sub : Cfg) (n : Nat) :
    (setSub W fuel s' kf path c k (.cfg sub true) n).err = none ∧
    (setSub W fuel s' kf path c k (.cfg sub true) n).cfg.get k = some (.node (sub.withLinked true)) ∧
    (sub.withLinked true).keyfile = sub.keyfile := by
  unfold setSub
  exact ⟨rfl, Cfg.get_setUser_same _ _ _, rfl⟩

/-- anything that is neither a configuration nor a map is rejected and nothing is stored -/
theorem setSub_other_rejected (W : World) (fuel : Nat) (s' : Schema) (kf : Option String) (path : String)
    (c : Cfg) (k : String) (v : Val) (n : Nat) (hv : ∀ kvs, v ≠ .dict kvs) :
    (setSub W fuel s' kf path c k (.val v) n).err = some (.validation (joinPath path k)) ∧
    (setSub W fuel s' kf path c k (.val v) n).cfg = c := by
  unfold setSub
  cases v
  case dict kvs => exact absurd rfl (hv kvs)
  all_goals exact ⟨rfl, rfl⟩

/-! ### `load_tree`: mentioned sub-configurations are rebuilt, unmentioned slots are untouched -/

def keyName : Val → Option String
  | .str ks => some (String.ofList ks)
  | _ => none

/-- the (string) keys of a map, as `load_tree` reads them: LITERALLY — a dotted key `"a.b"` is the one key `"a.b"`, not a
    path (an undeclared one raises `AttributeError`, or on a dynamic schema becomes a new field of that name) -/
def treeKeys (t : List (Val × Val)) : List String := t.filterMap (fun kv => keyName kv.1)

theorem treeKeys_cons_str (ks : List Char) (v : Val) (t : List (Val × Val)) :
    treeKeys ((.str ks, v) :: t) = String.ofList ks :: treeKeys t := by
  simp [treeKeys, keyName]

theorem mem_treeKeys_of_mem {ks : List Char} {v : Val} {t : List (Val × Val)} (h : (Val.str ks, v) ∈ t) :
    String.ofList ks ∈ treeKeys t := by
  unfold treeKeys
  rw [List.mem_filterMap]
  exact ⟨_, h, rfl⟩

/-- **(c) `loadTree_untouched`**: a slot whose key does not occur (literally) among the keys of the loaded map keeps exactly
    what it held — node, key file and all — whether the load returns or raises.  There is no other way for `load_tree` to
    reach a slot of this configuration: dotted keys are not split, unknown keys raise or create a NEW slot of that name. -/
theorem loadTree_untouched (W : World) (fuel : Nat) (s : Schema) (path : String) (k : String) :
    ∀ (t : List (Val × Val)) (c : Cfg) (dv : Bool) (n : Nat), k ∉ treeKeys t →
      (loadTree W fuel s path c t dv n).cfg.get k = c.get k
  | [], c, dv, n, _ => by rw [loadTree_nil_cfg]
  | (key, value) :: rest, c, dv, n, hk => by
    by_cases hks : ∃ ks, key = .str ks
    · obtain ⟨ks, rfl⟩ := hks
      rw [treeKeys_cons_str, List.mem_cons, not_or] at hk
      rw [loadTree_cons_str']
      cases hdec : decodeEntry W s path c (String.ofList ks) value with
      | none => exact loadTree_untouched W fuel s path k rest c dv n hk.2
      | some r =>
        cases r with
        | error e => rfl
        | ok a =>
          have h1 := setValue_get_other W fuel s path c (String.ofList ks) a n hk.1
          simp only
          cases he : (setValue W fuel s path c (String.ofList ks) a n).err with
          | some e => exact h1
          | none => simp only; rw [loadTree_untouched W fuel s path k rest _ dv _ hk.2, h1]
    · rw [loadTree_cons_nonstr W fuel s path c key value rest dv n (fun ks e => hks ⟨ks, e⟩)]

/-- a sub-configuration entry is passed on undecoded (the environment is consulted for leaf and list fields only) -/
theorem decodeEntry_subAt {W : World} {s s' : Schema} {path : String} {c : Cfg} {k : String} {kf : Option String}
    (hk : SubAt s k s' kf) (value : Val) : decodeEntry W s path c k value = some (.ok (.val value)) := by
  unfold decodeEntry
  rcases hk with ⟨hk, _⟩ | hk <;> simp [getField, hk]

/-- a successful `_set_value` of a plain value on a sub-configuration slot stores a rebuilt node -/
theorem setValue_subAt_node (W : World) (P : Cfg → Prop) (s s' : Schema) (kf : Option String) (k : String) (hk : SubAt s k s' kf)
    (hP : ∀ (fuel : Nat) (p : String) (n : Nat) (kvs : List (Val × Val)) (fresh : Cfg) (n1 : Nat),
      build W p true kf s' n = .ok (fresh, n1) → P (loadTree W fuel s' p fresh kvs true n1).cfg)
    (fuel : Nat) (path : String) (c : Cfg) (v : Val) (n : Nat)
    (h : (setValue W fuel s path c k (.val v) n).err = none) :
    NodeAt P ((setValue W fuel s path c k (.val v) n).cfg.get k) ∧ ∃ kvs, v = .dict kvs := by
  cases fuel with
  | zero => unfold setValue at h; cases h
  | succ fuel =>
    have hsub : setValue W (fuel + 1) s path c k (.val v) n = setSub W fuel s' kf path c k (.val v) n := by
      unfold setValue
      rcases hk with ⟨hk, hkf⟩ | hk
      · subst hkf; simp [getField, hk]
      · simp [getField, hk]
    rw [hsub] at h ⊢
    by_cases hv : ∃ kvs, v = .dict kvs
    · obtain ⟨kvs, rfl⟩ := hv
      exact ⟨setSub_map_node W P fuel s' kf path c k kvs n (fun fresh n1 hb => hP fuel _ n kvs fresh n1 hb) h, kvs, rfl⟩
    · have := (setSub_other_rejected W fuel s' kf path c k v n (fun kvs e => hv ⟨kvs, e⟩)).1
      rw [this] at h; cases h

/-- generic form of the next two theorems: after a SUCCESSFUL load, a sub-configuration slot that is mentioned in the map
    holds a rebuilt node; one that is not mentioned keeps `P` if it had it -/
theorem loadTree_node_at (W : World) (P : Cfg → Prop) (s s' : Schema) (kf : Option String) (k : String) (hk : SubAt s k s' kf)
    (hP : ∀ (fuel : Nat) (p : String) (n : Nat) (kvs : List (Val × Val)) (fresh : Cfg) (n1 : Nat),
      build W p true kf s' n = .ok (fresh, n1) → P (loadTree W fuel s' p fresh kvs true n1).cfg)
    (fuel : Nat) (path : String) :
    ∀ (t : List (Val × Val)) (c : Cfg) (dv : Bool) (n : Nat), (loadTree W fuel s path c t dv n).err = none →
      (k ∈ treeKeys t ∨ NodeAt P (c.get k)) → NodeAt P ((loadTree W fuel s path c t dv n).cfg.get k)
  | [], c, dv, n, _, hor => by
    rw [loadTree_nil_cfg]
    rcases hor with h | h
    · simp [treeKeys] at h
    · exact h
  | (key, value) :: rest, c, dv, n, hok, hor => by
    by_cases hks : ∃ ks, key = .str ks
    · obtain ⟨ks, rfl⟩ := hks
      rw [treeKeys_cons_str, List.mem_cons] at hor
      rw [loadTree_cons_str'] at hok ⊢
      by_cases hkk : k = String.ofList ks
      · subst hkk
        rw [decodeEntry_subAt hk value] at hok ⊢
        simp only at hok ⊢
        cases he : (setValue W fuel s path c (String.ofList ks) (.val value) n).err with
        | some e => simp [he] at hok
        | none =>
          simp only [he] at hok ⊢
          exact loadTree_node_at W P s s' kf _ hk hP fuel path rest _ dv _ hok
            (Or.inr (setValue_subAt_node W P s s' kf _ hk hP fuel path c value n he).1)
      · have hor' : k ∈ treeKeys rest ∨ NodeAt P (c.get k) := by
          rcases hor with (h | h) | h
          · exact absurd h hkk
          · exact Or.inl h
          · exact Or.inr h
        cases hdec : decodeEntry W s path c (String.ofList ks) value with
        | none =>
          rw [hdec] at hok
          exact loadTree_node_at W P s s' kf k hk hP fuel path rest c dv n hok hor'
        | some r =>
          cases r with
          | error e => rw [hdec] at hok; cases hok
          | ok a =>
            rw [hdec] at hok
            simp only at hok ⊢
            have h1 := setValue_get_other W fuel s path c (String.ofList ks) a n hkk
            cases he : (setValue W fuel s path c (String.ofList ks) a n).err with
            | some e => simp [he] at hok
            | none =>
              simp only [he] at hok ⊢
              refine loadTree_node_at W P s s' kf k hk hP fuel path rest _ dv _ hok ?_
              rw [h1]; exact hor'
    · rw [loadTree_cons_nonstr W fuel s path c key value rest dv n (fun ks e => hks ⟨ks, e⟩)] at hok
      cases hok

/-- **(c) F19 in general (`loadTree_schema_keys_at`, key file only; no hypothesis on the schema or on what was there)**:
    if a load succeeds, then for every key `k` of the loaded map that names a `.sub s'` field (`kf = none`) or a
    `.ctype s' kf` field, the slot `k` afterwards holds a configuration whose key file is `kf` — whatever `c` held under
    `k` before, in particular whatever key file had been assigned to that sub-configuration.
    (A successful load forces the value under such a key to be a map: `loadTree_sub_value_is_map`.) -/
theorem loadTree_schema_keys_at (W : World) (fuel : Nat) (s : Schema) (path : String) (c : Cfg) (t : List (Val × Val))
    (dv : Bool) (n : Nat) (k : String) (s' : Schema) (kf : Option String) (hk : SubAt s k s' kf) (hmem : k ∈ treeKeys t)
    (hok : (loadTree W fuel s path c t dv n).err = none) :
    ∃ node, (loadTree W fuel s path c t dv n).cfg.get k = some (.node node) ∧ node.keyfile = kf :=
  loadTree_node_at W (fun x => x.keyfile = kf) s s' kf k hk
    (fun fuel p n kvs fresh n1 hb => by rw [loadTree_keyfile, build_keyfile W _ _ _ _ _ _ _ hb])
    fuel path t c dv n hok (Or.inl hmem)

/-- the statement as asked: the entry's value is a map -/
theorem loadTree_schema_keys_at_map (W : World) (fuel : Nat) (s : Schema) (path : String) (c : Cfg) (t : List (Val × Val))
    (dv : Bool) (n : Nat) (ks : List Char) (kvs : List (Val × Val)) (s' : Schema) (kf : Option String)
    (hk : SubAt s (String.ofList ks) s' kf) (hmem : (Val.str ks, Val.dict kvs) ∈ t)
    (hok : (loadTree W fuel s path c t dv n).err = none) :
    ∃ node, (loadTree W fuel s path c t dv n).cfg.get (String.ofList ks) = some (.node node) ∧ node.keyfile = kf :=
  loadTree_schema_keys_at W fuel s path c t dv n _ s' kf hk (mem_treeKeys_of_mem hmem) hok

/-- …and, with pairwise distinct keys in `s'`, the whole rebuilt subtree has the key files of its schema positions -/
theorem loadTree_schema_keys_at_deep (W : World) (d fuel : Nat) (s : Schema) (path : String) (c : Cfg) (t : List (Val × Val))
    (dv : Bool) (n : Nat) (k : String) (s' : Schema) (kf : Option String) (hk : SubAt s k s' kf) (hnd : s'.keysNodup = true)
    (hmem : k ∈ treeKeys t) (hok : (loadTree W fuel s path c t dv n).err = none) :
    ∃ node, (loadTree W fuel s path c t dv n).cfg.get k = some (.node node) ∧ node.keyfile = kf ∧ SchemaKeys d s' node :=
  loadTree_node_at W (fun x => x.keyfile = kf ∧ SchemaKeys d s' x) s s' kf k hk
    (fun fuel p n kvs fresh n1 hb => ⟨by rw [loadTree_keyfile, build_keyfile W _ _ _ _ _ _ _ hb],
      loadTree_schemaKeys W d fuel s' p fresh kvs true n1 hnd (build_schemaKeys W d p true kf s' n fresh n1 hnd hb)⟩)
    fuel path t c dv n hok (Or.inl hmem)

/-- **F19 as a theorem**: a key file name assigned to a `.sub` sub-configuration does not survive a successful load of any
    map that mentions that sub-configuration… -/
theorem assigned_key_lost (W : World) (fuel : Nat) (s : Schema) (path : String) (c : Cfg) (t : List (Val × Val))
    (dv : Bool) (n : Nat) (k : String) (s' : Schema) (old : Cfg) (name : String)
    (hf : s.get k = some (.sub s')) (_hold : c.get k = some (.node old)) (_hname : old.keyfile = some name)
    (hmem : k ∈ treeKeys t) (hok : (loadTree W fuel s path c t dv n).err = none) :
    ∃ node, (loadTree W fuel s path c t dv n).cfg.get k = some (.node node) ∧ node.keyfile = none :=
  loadTree_schema_keys_at W fuel s path c t dv n k s' none (Or.inl ⟨hf, rfl⟩) hmem hok

/-- …while a DECLARED one (`.ctype s' kf`) comes back, replacing whatever had been assigned -/
theorem declared_key_restored (W : World) (fuel : Nat) (s : Schema) (path : String) (c : Cfg) (t : List (Val × Val))
    (dv : Bool) (n : Nat) (k : String) (s' : Schema) (kf : Option String)
    (hf : s.get k = some (.ctype s' kf)) (hmem : k ∈ treeKeys t) (hok : (loadTree W fuel s path c t dv n).err = none) :
    ∃ node, (loadTree W fuel s path c t dv n).cfg.get k = some (.node node) ∧ node.keyfile = kf :=
  loadTree_schema_keys_at W fuel s path c t dv n k s' kf (Or.inr hf) hmem hok

/-- …and one assigned to a sub-configuration the map does NOT mention stays (with the node itself) -/
theorem unmentioned_key_kept (W : World) (fuel : Nat) (s : Schema) (path : String) (c : Cfg) (t : List (Val × Val))
    (dv : Bool) (n : Nat) (k : String) (old : Cfg) (hold : c.get k = some (.node old)) (hmem : k ∉ treeKeys t) :
    (loadTree W fuel s path c t dv n).cfg.get k = some (.node old) := by
  rw [loadTree_untouched W fuel s path k t c dv n hmem, hold]

/-- a successful load has a map under every key that names a sub-configuration field -/
theorem loadTree_sub_value_is_map (W : World) (fuel : Nat) (s s' : Schema) (kf : Option String) (path : String) :
    ∀ (t : List (Val × Val)) (c : Cfg) (dv : Bool) (n : Nat), (loadTree W fuel s path c t dv n).err = none →
      ∀ ks v, (Val.str ks, v) ∈ t → SubAt s (String.ofList ks) s' kf → ∃ kvs, v = .dict kvs
  | [], _, _, _, _, _, _, hm, _ => by cases hm
  | (key, value) :: rest, c, dv, n, hok, ks, v, hm, hk => by
    by_cases hks : ∃ ks', key = .str ks'
    · obtain ⟨ks', rfl⟩ := hks
      rw [loadTree_cons_str'] at hok
      cases hdec : decodeEntry W s path c (String.ofList ks') value with
      | none =>
        rw [hdec] at hok
        rcases List.mem_cons.mp hm with hm | hm
        · cases hm
          rw [decodeEntry_subAt hk] at hdec; cases hdec
        · exact loadTree_sub_value_is_map W fuel s s' kf path rest c dv n hok ks v hm hk
      | some r =>
        cases r with
        | error e => rw [hdec] at hok; cases hok
        | ok a =>
          rw [hdec] at hok
          simp only at hok
          cases he : (setValue W fuel s path c (String.ofList ks') a n).err with
          | some e => simp [he] at hok
          | none =>
            simp only [he] at hok
            rcases List.mem_cons.mp hm with hm | hm
            · cases hm
              rw [decodeEntry_subAt hk] at hdec
              cases hdec
              exact (setValue_subAt_node W (fun _ => True) s s' kf _ hk (fun _ _ _ _ _ _ _ => trivial) fuel path c _ n he).2
            · exact loadTree_sub_value_is_map W fuel s s' kf path rest _ dv _ hok ks v hm hk
    · rw [loadTree_cons_nonstr W fuel s path c key value rest dv n (fun ks e => hks ⟨ks, e⟩)] at hok
      cases hok

/-! ### how `SchemaKeys` gets broken: assigning a key file to a sub-configuration -/

/-- `cfg.k._key_filename = name` on a `.sub` slot breaks the parent's `SchemaKeys` (that is the state F19 is about);
    by `loadTree_schemaKeys` / `loadTree_schema_keys_at` a load of a map mentioning `k` silently undoes it -/
theorem setKeyAt_breaks (d : Nat) (s s' : Schema) (c sub : Cfg) (k name : String)
    (hf : s.get k = some (.sub s')) (hg : c.get k = some (.node sub)) :
    ∃ c', setKeyAt c [k] (some name) = some c' ∧ ¬ SchemaKeys (d + 1) s c' := by
  refine ⟨c.set k (.node (sub.withKeyfile (some name))), by simp [setKeyAt, hg], ?_⟩
  intro h
  have := h k _ hf
  rw [Cfg.get_set_same] at this
  exact absurd this.1 (by simp)

/-- the `keysNodup` hypothesis of `build_schemaKeys` cannot be dropped -/
theorem build_schemaKeys_needs_nodup (W : World) :
    let s : Schema := .mk [("a", .ctype (.mk [] false []) (some "K")), ("a", .sub (.mk [] false []))] false []
    ∃ c n', build W "" false none s 0 = .ok (c, n') ∧ ¬ SchemaKeys 1 s c := by
  refine ⟨_, _, rfl, ?_⟩
  intro h
  have := h "a" _ rfl
  simp [Cfg.get, Cfg.slots, Cfg.setDefault, Cfg.set, Cfg.withSlots, Cfg.withDefaults, setSlot, getSlot, Cfg.keyfile] at this

/-! ## (d) one key file per tree, derived

If no `.ctype` field of the schema (at any depth) declares a key file, a configuration satisfying `SchemaKeys` names a key
file at most at its root, so the whole tree uses the root's effective key file: the premise `huni` of
`C03.reload_same_key_partial`. -/

def _root_.Cinco.Config.SField.noKey : SField → Bool
  | .ctype _ kf => kf.isNone
  | _ => true

def noCtypeKey (fs : List (String × SField)) : Bool := fs.all (fun kf => kf.2.noKey)

/-- no `ConfigTypeField` of the schema, at any depth (also inside lists of configurations), declares a key file (decidable) -/
def _root_.Cinco.Config.Schema.noDeclaredKey (s : Schema) : Bool := s.every noCtypeKey

theorem everyFields_mem {P : List (String × SField) → Bool} :
    ∀ {fs : List (String × SField)} {k : String} {f : SField}, everyFields P fs = true → (k, f) ∈ fs → f.every P = true
  | [], _, _, _, h => by cases h
  | (k', f') :: rest, k, f, he, h => by
    simp only [everyFields, Bool.and_eq_true] at he
    rcases List.mem_cons.mp h with h | h
    · cases h; exact he.1
    · exact everyFields_mem he.2 h

theorem lookupField_of_mem : ∀ {fs : List (String × SField)} {k : String} {f : SField},
    nodupKeys fs = true → (k, f) ∈ fs → lookupField k fs = some f
  | [], _, _, _, h => by cases h
  | (k', f') :: rest, k, f, hnd, h => by
    simp only [nodupKeys, Bool.and_eq_true, Option.isNone_iff_eq_none] at hnd
    rcases List.mem_cons.mp h with h | h
    · cases h; simp [lookupField]
    · have ih := lookupField_of_mem hnd.2 h
      have hne : ¬ k' = k := by
        intro e; subst e
        rw [hnd.1] at ih; cases ih
      simp [lookupField, hne, ih]

theorem itemNamed_empty (d : Nat) (s' : Schema)
    (ih : ∀ (c : Cfg), c.keyfile = none → SchemaKeys d s' c → ∀ x, x ∉ namedKeys d s' c) :
    ∀ (cs : List Cfg), (∀ y ∈ cs, y.keyfile = none ∧ SchemaKeys d s' y) → ∀ x, x ∉ itemNamed d s' cs
  | [], _, x => by simp [itemNamed]
  | y :: rest, h, x => by
    simp only [itemNamed, List.mem_append, not_or]
    exact ⟨ih y (h y (by simp)).1 (h y (by simp)).2 x,
      itemNamed_empty d s' ih rest (fun z hz => h z (by simp [hz])) x⟩

/-- the names assigned in the tree: at most the root's -/
theorem namedKeys_root_only : ∀ (d : Nat) (s : Schema) (c : Cfg),
    s.keysNodup = true → s.noDeclaredKey = true → SchemaKeys d s c → ∀ x ∈ namedKeys d s c, c.keyfile = some x
  | 0, s, c, _, _, _, x, hx => by simp [namedKeys] at hx
  | d + 1, s, c, hnd, hno, hsk, x, hx => by
    have below : ∀ (s' : Schema) (sub : Cfg), s'.keysNodup = true → s'.noDeclaredKey = true → sub.keyfile = none →
        SchemaKeys d s' sub → ∀ y, y ∉ namedKeys d s' sub := by
      intro s' sub h1 h2 h3 h4 y hy
      have := namedKeys_root_only d s' sub h1 h2 h4 y hy
      rw [h3] at this; cases this
    have hfields : ∀ (fs : List (String × SField)), (∀ kf ∈ fs, kf ∈ s.fields) → ∀ y, y ∉ fieldNamed d c fs := by
      intro fs
      induction fs with
      | nil => intro _ y; simp [fieldNamed]
      | cons kf rest ihr =>
        obtain ⟨k, f⟩ := kf
        intro hsub y
        rw [fieldNamed_cons, List.mem_append, not_or]
        refine ⟨?_, ihr (fun z hz => hsub z (List.mem_cons_of_mem _ hz)) y⟩
        have hmem : (k, f) ∈ s.fields := hsub _ List.mem_cons_self
        have hget : s.get k = some f := lookupField_of_mem (keysNodup_fields hnd) hmem
        have hslot := hsk k f hget
        have hfn : f.every nodupKeys = true := keysNodup_get hnd hget
        have hfk : f.every noCtypeKey = true := by
          cases s with
          | mk fields dyn vs =>
            simp only [Schema.noDeclaredKey, Schema.every, Bool.and_eq_true] at hno
            exact everyFields_mem hno.2 hmem
        have hnk : f.noKey = true := by
          cases s with
          | mk fields dyn vs =>
            simp only [Schema.noDeclaredKey, Schema.every, Bool.and_eq_true, noCtypeKey, List.all_eq_true] at hno
            exact hno.1 _ hmem
        cases f with
        | leaf fs m => simp
        | virtual v b => simp
        | method => simp
        | sub s' =>
          cases hg : c.get k with
          | none => simp
          | some sl =>
            cases sl with
            | node sub =>
              rw [hg] at hslot
              simp only
              exact below s' sub (by simpa [SField.every, Schema.keysNodup] using hfn)
                (by simpa [SField.every, Schema.noDeclaredKey] using hfk) hslot.1 hslot.2 y
            | _ => simp
        | ctype s' kf =>
          have hkf : kf = none := by simpa [SField.noKey] using hnk
          cases hg : c.get k with
          | none => simp
          | some sl =>
            cases sl with
            | node sub =>
              rw [hg] at hslot
              simp only
              exact below s' sub (by simpa [SField.every, Schema.keysNodup] using hfn)
                (by simpa [SField.every, Schema.noDeclaredKey] using hfk) (hslot.1.trans hkf) hslot.2 y
            | _ => simp
        | cfgList s' it req m =>
          cases hg : c.get k with
          | none => simp
          | some sl =>
            cases sl with
            | nodes cs =>
              rw [hg] at hslot
              simp only
              exact itemNamed_empty d s'
                (fun c0 h3 h4 => below s' c0 (by simpa [SField.every, Schema.keysNodup] using hfn)
                  (by simpa [SField.every, Schema.noDeclaredKey] using hfk) h3 h4) cs hslot y
            | _ => simp
    simp only [namedKeys, List.mem_append] at hx
    rcases hx with hx | hx
    · cases hkf : c.keyfile with
      | none => simp [hkf] at hx
      | some k0 => simp [hkf] at hx; rw [hx]
    · exact absurd hx (hfields s.fields (fun _ h => h) x)

/-- **(d)** `namedKeys d s c ⊆ (c.keyfile).toList` -/
theorem namedKeys_subset_root (d : Nat) (s : Schema) (c : Cfg) (hnd : s.keysNodup = true) (hno : s.noDeclaredKey = true)
    (hsk : SchemaKeys d s c) : ∀ x ∈ namedKeys d s c, x ∈ c.keyfile.toList := by
  intro x hx
  rw [namedKeys_root_only d s c hnd hno hsk x hx]
  simp

/-- **(d) One key file per tree**: every configuration of the tree uses the root's key file (the root's own if it names
    one, else the inherited/default one).  This is the premise `huni` of `C03.reload_same_key_partial`, with
    `k0 = effKey inh c`. -/
theorem one_key_per_tree (d : Nat) (inh : String) (s : Schema) (c : Cfg) (hnd : s.keysNodup = true)
    (hno : s.noDeclaredKey = true) (hsk : SchemaKeys d s c) : ∀ x ∈ nodeKeys d inh s c, x = effKey inh c := by
  intro x hx
  cases hkf : c.keyfile with
  | none =>
    have he : effKey inh c = inh := by simp [effKey, hkf]
    rcases nodeKeys_subset d inh s c x hx with h | h
    · rw [he]; exact h
    · have := namedKeys_root_only d s c hnd hno hsk x h
      rw [hkf] at this; cases this
  | some k0 =>
    have := namedKeys_root_only d s c hnd hno hsk x (nodeKeys_named_root d inh s c k0 hkf x hx)
    simp [effKey, this]

/-- …for a freshly built configuration -/
theorem built_one_key (W : World) (d : Nat) (inh path : String) (linked : Bool) (kf : Option String) (s : Schema)
    (n n' : Nat) (c : Cfg) (hnd : s.keysNodup = true) (hno : s.noDeclaredKey = true)
    (hb : build W path linked kf s n = .ok (c, n')) : ∀ x ∈ nodeKeys d inh s c, x = kf.getD inh := by
  intro x hx
  rw [one_key_per_tree d inh s c hnd hno (build_schemaKeys W d path linked kf s n c n' hnd hb) x hx]
  simp only [effKey, build_keyfile W path linked kf s n c n' hb]
  cases kf <;> rfl

/-- …and for a freshly built and then loaded one (whether the load returned or raised) -/
theorem loaded_one_key (W : World) (d fuel : Nat) (inh path : String) (linked : Bool) (kf : Option String) (s : Schema)
    (n0 n1 : Nat) (c0 : Cfg) (t : List (Val × Val)) (dv : Bool) (hnd : s.keysNodup = true) (hno : s.noDeclaredKey = true)
    (hb : build W path linked kf s n0 = .ok (c0, n1)) :
    ∀ x ∈ nodeKeys d inh s (loadTree W fuel s path c0 t dv n1).cfg, x = kf.getD inh := by
  intro x hx
  obtain ⟨h1, h2⟩ := build_load_schemaKeys W d fuel s path linked kf n0 n1 c0 t dv hnd hb
  rw [one_key_per_tree d inh s _ hnd hno h2 x hx]
  simp only [effKey, h1]
  cases kf <;> rfl

/-- the hypothesis `noDeclaredKey` is needed: a `.ctype` that declares a key file makes a second key file in a built tree -/
theorem one_key_needs_noDeclaredKey (W : World) :
    let s : Schema := .mk [("a", .ctype (.mk [] false []) (some "K"))] false []
    s.keysNodup = true ∧ ∃ c n', build W "" false none s 0 = .ok (c, n') ∧ nodeKeys 2 "D" s c = ["D", "K"] := by
  refine ⟨by decide, _, _, rfl, ?_⟩
  simp [nodeKeys, fieldKeys, effKey, Schema.fields, Cfg.get, Cfg.slots, Cfg.setDefault, Cfg.set, Cfg.withSlots,
    Cfg.withDefaults, setSlot, getSlot, Cfg.keyfile]

/-! ## the premise of `C03.reload_same_key_partial`, discharged -/

/-- **Reload under the same key file, with the "one key file per tree" premise derived**: for a configuration in which every
    nested configuration has the key file of its schema position (`SchemaKeys` — true of every freshly built configuration,
    kept by `load_tree` and by assignment of plain values: `build_schemaKeys`, `loadTree_schemaKeys`, `setValue_schemaKeys`)
    over a schema without declared key files, what `to_tree` writes reloads to the same values under the root's key file. -/
theorem reload_same_key_of_schemaKeys (WK : String → World) (fuel : Nat) (dflt : String) (s : Schema) (c : Cfg)
    (hno : s.noDeclaredKey = true) (hsk : SchemaKeys fuel s c)
    (t : List (Val × Val)) (c0 : Cfg) (n0 n1 : Nat)
    (hnd : s.keysNodup = true) (hsr : SchemaLoadable (WK (effKey dflt c)) fuel s) (hsh : Shaped fuel s c)
    (hco : CodecOkAll (WK (effKey dflt c)) fuel s c) (hst : StableAll (WK (effKey dflt c)) fuel s c)
    (hvd : ValidDeep (WK (effKey dflt c)) fuel s c)
    (hv : ∃ p, validateCfg (WK (effKey dflt c)) (fuel + 1) s p c = none)
    (ht : toTreeK WK fuel dflt s c = some t) (hb : build (WK (effKey dflt c)) "" false none s n0 = .ok (c0, n1)) :
    (loadTree (WK (effKey dflt c)) fuel s "" c0 t true n1).err = none ∧
    SameValues (WK (effKey dflt c)) fuel s c (loadTree (WK (effKey dflt c)) fuel s "" c0 t true n1).cfg :=
  C03.reload_same_key_partial WK fuel dflt s c (effKey dflt c) (one_key_per_tree fuel dflt s c hnd hno hsk)
    t c0 n0 n1 hnd hsr hsh hco hst hvd hv ht hb

/-! ## non-vacuity: the witness of `C03.f19_sub_key_lost` is an instance of the general theorem -/

theorem f19_load_succeeds :
    (loadTree rtWorld 2 C03.f19Schema "" C03.f19Cfg
        [(.str "sub".toList, .dict [(.str "x".toList, .bool false)])] true 5).err = none := by
  simp [loadTree, decodeEntry, getField, setValue, setSub, build, buildFields, setDefault, C03.f19Schema, C03.f19Cfg, rtBool,
    rtWorld, Schema.get, Schema.fields, lookupField, Cfg.get, Cfg.slots, getSlot, envValue, FieldSpec.kind, Default.value,
    validateCfg, featureEnabled, validateFields, fieldProblem, Schema.validators, validate, validateKind, boolRule,
    toPython, toPythonKind, joinPath, Cfg.setUser, Cfg.set, Cfg.setDefault, Cfg.withSlots, Cfg.withDefaults, setSlot,
    Cfg.keyfile, Cfg.oid, Cfg.defaults, Cfg.dyn, Cfg.linked]

/-- the sub-configuration of the witness had `K2` assigned; after the (successful) load the general theorem gives `none` -/
example : ∃ node, (loadTree rtWorld 2 C03.f19Schema "" C03.f19Cfg
      [(.str "sub".toList, .dict [(.str "x".toList, .bool false)])] true 5).cfg.get "sub" = some (.node node) ∧
    node.keyfile = none :=
  assigned_key_lost rtWorld 2 C03.f19Schema "" C03.f19Cfg _ true 5 "sub" _ _ "K2" rfl rfl rfl
    (by simp [treeKeys, keyName]) f19_load_succeeds

end Cinco.Config.KeyfileLoad
