import Cinco.Proofs.Heap
import Cinco.Heap.Transfer
/-
  Helper lemmas for C13b (transfer of a typed container between configurations).
-/
namespace Cinco.Heap

/-! ### A. the result of a transfer -/

theorem navCfg_ne_ok (h : Heap) : ∀ (p : List PStep) (c : Nat), navCfg h c p ≠ .error .ok
  | [], c => by
    simp only [navCfg]
    split <;> simp
  | .fld name :: rest, c => by
    simp only [navCfg]
    split
    · split
      · exact navCfg_ne_ok h rest _
      · simp
      · simp
    · simp
  | .item name n :: rest, c => by
    simp only [navCfg]
    split
    · split
      · split
        · split
          · exact navCfg_ne_ok h rest _
          · simp
          · simp
        · simp
      · simp
      · simp
    · simp

theorem heldValue_ok {h : Heap} {r : Nat} {key : String} {v : HVal} (e : heldValue h r key = .ok v) :
    ∃ k sl dy, h.cell? r = some (.cfg k sl dy) ∧ lookup key sl = some v := by
  simp only [heldValue] at e
  cases hc : h.cell? r with
  | none => simp [hc] at e
  | some c =>
    cases c with
    | cfg k sl dy =>
      simp only [hc] at e
      cases hl : lookup key sl with
      | none => simp [hl] at e
      | some w => simp [hl] at e; subst e; exact ⟨k, sl, dy, rfl, hl⟩
    | list _ => simp [hc] at e
    | dict _ => simp [hc] at e

theorem heldValue_of {h : Heap} {r : Nat} {key : String} {v : HVal} {k : Nat} {sl : Slots} {dy : List String}
    (hc : h.cell? r = some (.cfg k sl dy)) (hl : lookup key sl = some v) : heldValue h r key = .ok v := by
  simp [heldValue, hc, hl]

theorem heldValue_ne_ok (h : Heap) (r : Nat) (key : String) : heldValue h r key ≠ .error .ok := by
  simp only [heldValue]
  split
  · split <;> simp
  · simp

theorem execTransfer_ok {S : Schemas} {o : Owner} {h h' : Heap} {c : Nat} {key : String} {mode : TransferMode} {v : HVal}
    (e : execTransfer S o h c key mode v = .ok h') :
    ∃ k sl dy disc dv, h.cell? c = some (.cfg k sl dy) ∧ declOf S k key = some (.leaf disc dv) ∧
      h' = (transferValue o mode v h).2.write c (.cfg k (put key (transferValue o mode v h).1 sl) dy) := by
  simp only [execTransfer] at e
  cases hc : h.cell? c with
  | none => simp [hc] at e
  | some cc =>
    cases cc with
    | cfg k sl dy =>
      simp only [hc] at e
      cases hd : declOf S k key with
      | none => simp [hd] at e
      | some d =>
        cases d with
        | leaf disc dv => simp [hd] at e; exact ⟨k, sl, dy, disc, dv, rfl, hd, e.symm⟩
        | sub _ => simp [hd] at e
        | cfgList _ => simp [hd] at e
    | list _ => simp [hc] at e
    | dict _ => simp [hc] at e

theorem execTransfer_ne_ok (S : Schemas) (o : Owner) (h : Heap) (c : Nat) (key : String) (mode : TransferMode) (v : HVal) :
    execTransfer S o h c key mode v ≠ .error .ok := by
  simp only [execTransfer]
  split
  · split <;> simp
  · simp

/-- what `transfer` returns: the unchanged state with an error outcome, or — exactly when the outcome is `ok` — the state
    after one `execTransfer` on the configuration cell at the end of the path -/
inductive TransferRes (S : Schemas) (s : State) (i j : Nat) (path : List PStep) (key : String) (mode : TransferMode)
    (r : State × Outcome) : Prop where
  | failed : r.1 = s → r.2 ≠ .ok → TransferRes S s i j path key mode r
  | done (ri rj c : Nat) (v : HVal) (h' : Heap) : s.roots[i]? = some ri → s.roots[j]? = some rj →
      heldValue s.heap rj key = .ok v → navCfg s.heap ri path = .ok c →
      execTransfer S (.cfg i) s.heap c key mode v = .ok h' → r = ({ s with heap := h' }, .ok) →
      TransferRes S s i j path key mode r

theorem transfer_res (S : Schemas) (s : State) (i j : Nat) (path : List PStep) (key : String) (mode : TransferMode) :
    TransferRes S s i j path key mode (transfer S s i j path key mode) := by
  simp only [transfer]
  cases hi : s.roots[i]? with
  | none => exact .failed rfl (by simp)
  | some ri =>
    simp only
    cases hj : s.roots[j]? with
    | none => exact .failed rfl (by simp)
    | some rj =>
      simp only
      cases hv : heldValue s.heap rj key with
      | error e => exact .failed rfl (fun he => heldValue_ne_ok _ _ _ (by rw [hv]; simp at he; rw [he]))
      | ok v =>
        simp only
        cases hn : navCfg s.heap ri path with
        | error e => exact .failed rfl (fun he => navCfg_ne_ok _ _ _ (by rw [hn]; simp at he; rw [he]))
        | ok c =>
          simp only
          cases hx : execTransfer S (.cfg i) s.heap c key mode v with
          | error e => exact .failed rfl (fun he => execTransfer_ne_ok _ _ _ _ _ _ _ (by rw [hx]; simp at he; rw [he]))
          | ok h' => exact .done ri rj c v h' hi hj hv hn hx rfl

/-- the roots never change (whatever the mode and the outcome) -/
theorem transfer_roots (S : Schemas) (s : State) (i j : Nat) (path : List PStep) (key : String) (mode : TransferMode) :
    (transfer S s i j path key mode).1.roots = s.roots := by
  cases transfer_res S s i j path key mode with
  | failed e _ => rw [e]
  | done ri rj c v h' _ _ _ _ _ e => rw [e]

/-- a successful transfer, spelled out -/
theorem transfer_ok {S : Schemas} {s : State} {i j : Nat} {path : List PStep} {key : String} {mode : TransferMode}
    (ok : (transfer S s i j path key mode).2 = .ok) :
    ∃ ri rj c v h', s.roots[i]? = some ri ∧ s.roots[j]? = some rj ∧ heldValue s.heap rj key = .ok v ∧
      navCfg s.heap ri path = .ok c ∧ execTransfer S (.cfg i) s.heap c key mode v = .ok h' ∧
      transfer S s i j path key mode = ({ s with heap := h' }, .ok) := by
  cases transfer_res S s i j path key mode with
  | failed _ ne => exact absurd ok ne
  | done ri rj c v h' hi hj hv hn hx e => exact ⟨ri, rj, c, v, h', hi, hj, hv, hn, hx, e⟩

/-! ### B. a guarded transfer has the shape of a step -/

theorem transferValue_allocates (o : Owner) (v : HVal) : Allocates o (transferValue o .revalidate v) :=
  fun h => copyV_fresh o h.next v h

theorem execTransfer_shape {S : Schemas} {i : Nat} {h h' : Heap} {c : Nat} {cc : Cell} {key : String} {v : HVal}
    (e : h.get? c = some (.cfg i, cc)) (hr : execTransfer S (.cfg i) h c key .revalidate v = .ok h') :
    Shape (fun a => a = c) i h h' := by
  obtain ⟨k, sl, dy, disc, dv, hc, _, eq⟩ := execTransfer_ok hr
  rw [Heap.cell?_eq e] at hc
  simp at hc; subst hc
  rw [eq]
  exact shape_of_alloc_write (transferValue_allocates _ v) e (fun w hw => put_mem (by simpa [Cell.kids] using hw))
    (fun h1 h2 => nodup_put h1 h2) rfl

/-- the only cell a transfer into root `i` at `path` may write: the configuration cell at the end of the path -/
def TransferTarget (s : State) (i : Nat) (path : List PStep) (a : Nat) : Prop :=
  ∃ r, s.roots[i]? = some r ∧ navCfg s.heap r path = .ok a

theorem transfer_shape {S : Schemas} {s : State} (hs : Sep S s) (i j : Nat) (path : List PStep) (key : String) :
    Shape (TransferTarget s i path) i s.heap (transfer S s i j path key .revalidate).1.heap := by
  cases transfer_res S s i j path key .revalidate with
  | failed e _ => rw [e]; exact Shape.refl _ i _
  | done ri rj c v h' hi hj hv hn hx e =>
    rw [e]
    obtain ⟨cr, er⟩ := hs.roots i ri hi
    obtain ⟨k, sl, dy, ec⟩ := navCfg_owned hs.closed _ ri cr c er hn
    exact (execTransfer_shape ec hx).weaken (fun a ha => ⟨ri, hi, by rw [ha]; exact hn⟩)

/-! ### C. consequences of the shape, for any state transformer that keeps the roots -/

section
variable {T : Nat → Prop} {S : Schemas} {s s' : State} {i : Nat}

theorem Shape.sep (sh : Shape T i s.heap s'.heap) (hr : s'.roots = s.roots) (hs : Sep S s) : Sep S s' := by
  refine ⟨sh.closed hs.closed, ?_, fun sd hsd p hp => sh.ownedBy (hs.defaults sd hsd p hp), sh.ordered hs.ordered⟩
  intro k r hk
  rw [hr] at hk
  obtain ⟨c0, e0⟩ := hs.roots k r hk
  exact sh.owner e0

theorem Shape.inv (sh : Shape T i s.heap s'.heap) (hr : s'.roots = s.roots) (inv : Inv S s) : Inv S s' :=
  ⟨sh.sep hr inv.sep, sh.bounded inv.bounded, sh.noShare inv.sep.closed inv.noShare⟩

/-- read of a value owned by somebody else, with the built-in fuels -/
theorem Shape.read_builtin {h h' : Heap} (sh : Shape T i h h') (hc : Closed h) (hb : Bounded h) {o : Owner} (ho : o ≠ .cfg i)
    {v : HVal} (ov : OwnedBy h o v) : readV (h'.next + 1) h' v = readV (h.next + 1) h v := by
  rw [sh.read hc ho _ v ov]
  exact read_fuel2 hb ov (by have := sh.next_le; omega) (by omega)

theorem Shape.cfgN_other (sh : Shape T i s.heap s'.heap) (hr : s'.roots = s.roots) (hs : Sep S s) {k : Nat} (hik : i ≠ k)
    (n : Nat) : s'.cfgN n k = s.cfgN n k := by
  simp only [State.cfgN, hr]
  cases hk : s.roots[k]? with
  | none => rfl
  | some r =>
    simp only [Option.map_some, Option.some.injEq, obsCfgN]
    exact sh.read hs.closed (o := .cfg k) (by simp; omega) n _ (hs.roots k r hk)

theorem Shape.cfg_other (sh : Shape T i s.heap s'.heap) (hr : s'.roots = s.roots) (hs : Sep S s) (hb : Bounded s.heap)
    {k : Nat} (hik : i ≠ k) : s'.cfg k = s.cfg k := by
  simp only [State.cfg, hr]
  cases hk : s.roots[k]? with
  | none => rfl
  | some r =>
    simp only [Option.map_some, Option.some.injEq, obsCfg, obsCfgN]
    exact sh.read_builtin hs.closed hb (o := .cfg k) (by simp; omega) (hs.roots k r hk)

theorem Shape.dyn_other (sh : Shape T i s.heap s'.heap) (hr : s'.roots = s.roots) (hs : Sep S s) {k : Nat} (hik : i ≠ k) :
    s'.dyn k = s.dyn k := by
  simp only [State.dyn, hr]
  cases hk : s.roots[k]? with
  | none => rfl
  | some r =>
    obtain ⟨c, e⟩ := hs.roots k r hk
    have e' := sh.frame e (by simp; omega)
    simp [obsDyn, Heap.cell?_eq e, Heap.cell?_eq e']

theorem Shape.defaultsN (sh : Shape T i s.heap s'.heap) (hs : Sep S s) (n : Nat) :
    obsDefaultsN n s'.heap S = obsDefaultsN n s.heap S := by
  simp only [obsDefaultsN]
  apply List.map_congr_left
  intro sd hsd
  apply List.map_congr_left
  intro p hp
  rw [sh.read hs.closed (o := .schema) (by simp) n p.2 (hs.defaults sd hsd p hp)]

theorem Shape.defaults (sh : Shape T i s.heap s'.heap) (hs : Sep S s) (hb : Bounded s.heap) :
    obsDefaults s'.heap S = obsDefaults s.heap S := by
  simp only [obsDefaults, obsDefaultsN]
  apply List.map_congr_left
  intro sd hsd
  apply List.map_congr_left
  intro p hp
  rw [sh.read_builtin hs.closed hb (o := .schema) (by simp) (hs.defaults sd hsd p hp)]

/-- a configuration at any path below another root neither moves nor changes -/
theorem Shape.at_other (sh : Shape T i s.heap s'.heap) (hr : s'.roots = s.roots) (inv : Inv S s) {k : Nat} (hik : i ≠ k)
    {pB : List PStep} {B : Nat} (hB : s.at k pB = some B) :
    s'.at k pB = some B ∧ obsCfg s'.heap B = obsCfg s.heap B := by
  obtain ⟨r, hk, eB⟩ := State.at_some hB
  obtain ⟨cr, er⟩ := inv.sep.roots k r hk
  obtain ⟨kk, sl, dy, e⟩ := navCfg_owned inv.sep.closed pB r cr B er eB
  have hne : Owner.cfg k ≠ Owner.cfg i := by simp; omega
  refine ⟨State.at_of (by rw [hr]; exact hk) (navCfg_stable pB eB ?_), ?_⟩
  · intro z cz rz hz
    obtain ⟨o, ez⟩ := Heap.cell?_some hz
    obtain ⟨cB, eB'⟩ := reach_owned inv.sep.closed rz (o := o) ⟨cz, ez⟩
    rw [e] at eB'; simp at eB'
    have : o = .cfg k := eB'.1.symm
    subst this
    exact Heap.cell?_eq (sh.frame ez hne)
  · simp only [obsCfg, obsCfgN]
    exact sh.read_builtin inv.sep.closed inv.bounded (o := .cfg k) hne ⟨_, e⟩

end

/-- a configuration of the *receiving* root at a path that is not a prefix of the transfer's path is not changed -/
theorem transfer_obs_path {S : Schemas} {s : State} (inv : Inv S s) (i j : Nat) (path : List PStep) (key : String)
    {pB : List PStep} (hp : ¬ pB <+: path) {B : Nat} (hB : s.at i pB = some B) :
    obsCfg (transfer S s i j path key .revalidate).1.heap B = obsCfg s.heap B := by
  obtain ⟨r, hr, eB⟩ := State.at_some hB
  have sh := transfer_shape (S := S) inv.sep i j path key
  obtain ⟨cr, er⟩ := inv.sep.roots i r hr
  obtain ⟨k, sl, dy, e⟩ := navCfg_owned inv.sep.closed pB r cr B er eB
  simp only [obsCfg, obsCfgN]
  have hread : ∀ n, readV n (transfer S s i j path key .revalidate).1.heap (.ref B) = readV n s.heap (.ref B) := by
    intro n
    refine read_unreached inv.sep.closed (o := .cfg i) ⟨_, e⟩ ?_ n
    intro x o' c rx ex
    refine sh.frame_addr ex ?_
    intro ⟨r', hr', hC⟩
    rw [hr] at hr'; simp at hr'; subst hr'
    exact sep_target inv.noShare inv.bounded eB hC hp (Or.inl rfl) rx
  rw [hread]
  exact read_fuel2 inv.bounded (o := .cfg i) (v := .ref B) ⟨_, e⟩ (by have := sh.next_le; omega) (by omega)

/-! ### D. a deep copy of any bounded value reads exactly like its original

  `copy_read` (Proofs/Heap.lean, section J) is about schema-owned sources, whose depth is bounded by their address.  The value
  given away by a configuration is bounded by `Dep` instead. -/

theorem Dep.lt {h : Heap} {v : HVal} {d : Nat} (hd : Dep h v d) : ∀ b, v = .ref b → b < h.next := by
  intro b hb; subst hb
  cases hd with
  | ref _ o c d e _ => exact Heap.get?_lt e

theorem threadL_read_dep {o : Owner} {f : HVal → Heap → HVal × Heap} (hf : ∀ v, Allocates o (f v)) (d : Nat)
    (hread : ∀ v h, Dep h v d → Closed h → ∀ n, readV n (f v h).2 (f v h).1 = readV n h v) :
    ∀ (items : List HVal) (h : Heap), (∀ w ∈ items, Dep h w d) → Closed h →
      ∀ n, (threadL f items h).1.map (fun w => readV n (threadL f items h).2 w) = items.map (fun w => readV n h w)
  | [], h, _, _, n => by simp [threadL]
  | x :: vs, h, hD, hc, n => by
    have a1 := hf x h
    have hc1 := a1.1.closed hc
    have t2 := threadL_fresh hf vs (f x h).2
    have ih := threadL_read_dep hf d hread vs (f x h).2 (fun w hw => a1.1.dep (hD w (List.mem_cons_of_mem _ hw))) hc1 n
    simp only [threadL, List.map_cons, List.cons.injEq]
    constructor
    · rw [t2.1.read hc1 n _ a1.2.val.lt]
      exact hread x h (hD x List.mem_cons_self) hc n
    · rw [ih]
      apply List.map_congr_left
      intro w hw
      exact a1.1.read hc n w (hD w (List.mem_cons_of_mem _ hw)).lt

theorem threadK_read_dep {o : Owner} {f : HVal → Heap → HVal × Heap} (hf : ∀ v, Allocates o (f v)) (d : Nat)
    (hread : ∀ v h, Dep h v d → Closed h → ∀ n, readV n (f v h).2 (f v h).1 = readV n h v) :
    ∀ (kvs : Slots) (h : Heap), (∀ w ∈ kvs, Dep h w.2 d) → Closed h →
      ∀ n, (threadK f kvs h).1.map (fun w => (w.1, readV n (threadK f kvs h).2 w.2)) = kvs.map (fun w => (w.1, readV n h w.2))
  | [], h, _, _, n => by simp [threadK]
  | (k, x) :: vs, h, hD, hc, n => by
    have a1 := hf x h
    have hc1 := a1.1.closed hc
    have t2 := threadK_fresh hf vs (f x h).2
    have ih := threadK_read_dep hf d hread vs (f x h).2 (fun w hw => a1.1.dep (hD w (List.mem_cons_of_mem _ hw))) hc1 n
    simp only [threadK, List.map_cons, List.cons.injEq]
    constructor
    · rw [t2.1.read hc1 n _ a1.2.val.lt]
      rw [hread x h (hD (k, x) List.mem_cons_self) hc n]
    · rw [ih]
      apply List.map_congr_left
      intro w hw
      rw [a1.1.read hc n w.2 (hD w (List.mem_cons_of_mem _ hw)).lt]

/-- **a deep copy with fuel at least the depth of the source reads, at every fuel, exactly like the source** -/
theorem copy_read_dep (o : Owner) : ∀ (fuel : Nat) (v : HVal) (h : Heap), Dep h v fuel → Closed h →
    ∀ n, readV n (copyV o fuel v h).2 (copyV o fuel v h).1 = readV n h v
  | _, .null, h, _, _, n => by simp [copyV, readV]
  | _, .atom s, h, _, _, n => by simp [copyV, readV]
  | 0, .ref a, h, hd, _, n => by cases hd
  | fuel + 1, .ref a, h, hd, hc, n => by
    cases hd with
    | ref _ o' c _ e hk =>
      have hrec := fun v h hd' hc' => copy_read_dep o fuel v h hd' hc'
      simp only [copyV, Heap.cell?_eq e]
      cases n with
      | zero => cases c <;> simp [readV]
      | succ m =>
        rw [readV_ref_succ m h a e]
        cases c with
        | list items =>
          have t := threadL_fresh (copyV_fresh o fuel) items h
          have tr := threadL_read_dep (copyV_fresh o fuel) fuel hrec items h (fun w hw => hk w hw) hc m
          simp only
          rw [read_alloc_new (t.1.closed hc) o _ m (fun w hw => (t.2.nb w hw).lt)]
          simp only [tr]
        | dict kvs =>
          have t := threadK_fresh (copyV_fresh o fuel) kvs h
          have tr := threadK_read_dep (copyV_fresh o fuel) fuel hrec kvs h
            (fun w hw => hk w.2 (List.mem_map_of_mem hw)) hc m
          simp only
          rw [read_alloc_new (t.1.closed hc) o _ m (fun w hw => (t.2.nb w hw).lt)]
          simp only [tr]
        | cfg k sl dy =>
          have t := threadK_fresh (copyV_fresh o fuel) sl h
          have tr := threadK_read_dep (copyV_fresh o fuel) fuel hrec sl h
            (fun w hw => hk w.2 (List.mem_map_of_mem hw)) hc m
          simp only
          rw [read_alloc_new (t.1.closed hc) o _ m (fun w hw => (t.2.nb w (by simpa [Cell.kids] using hw)).lt)]
          simp only [tr]

/-- in a bounded heap every owned value has depth at most `next`: the fuel convention `h.next` is enough -/
theorem Bounded.dep_owned {h : Heap} (hb : Bounded h) {o : Owner} {v : HVal} (ov : OwnedBy h o v) : Dep h v h.next := by
  cases v with
  | null => exact .null _
  | atom s => exact .atom s _
  | ref a => obtain ⟨c, e⟩ := ov; exact hb a o c e

/-- the copy made by a guarded transfer, read after the store into an *old* cell `c`, reads like the original -/
theorem transfer_read_back {h : Heap} (hc : Closed h) (hb : Bounded h) {o o' : Owner} {v : HVal} (ov : OwnedBy h o' v)
    {c : Nat} (hcl : c < h.next) (cell : Cell) (n : Nat) :
    readV n ((transferValue o .revalidate v h).2.write c cell) (transferValue o .revalidate v h).1 = readV n h v := by
  have fr := transferValue_allocates o v h
  have step1 : readV n ((transferValue o .revalidate v h).2.write c cell) (transferValue o .revalidate v h).1 =
      readV n (transferValue o .revalidate v h).2 (transferValue o .revalidate v h).1 := by
    refine read_agree (fun a => h.next ≤ a ∧ a < (transferValue o .revalidate v h).2.next) ?_ n _ ?_
    · intro a ha
      obtain ⟨⟨o2, c2⟩, e⟩ := Heap.get?_of_lt ha.2
      refine ⟨o2, c2, e, ?_, ?_⟩
      · rw [Heap.get?_write]
        have : c ≠ a := by omega
        simp [this, e]
      · intro b hb'
        have nb := fr.1.ord a o2 c2 ha.1 e _ hb'
        exact ⟨nb.1, Nat.lt_trans nb.2 ha.2⟩
    · intro b hb'
      have nb := fr.2.val
      rw [hb'] at nb
      exact nb
  rw [step1]
  exact copy_read_dep o h.next v h (hb.dep_owned ov) hc n

/-! ### E. the receiver does not move: navigation to the written configuration cell is unchanged -/

theorem PMove.stable' {h h' : Heap} {c b : Nat} {s : PStep} (m : PMove h c s b)
    (agree : ∀ z cz, (∃ y, Kid h z y ∧ Reach h (.ref y) b) → h.cell? z = some cz → h'.cell? z = some cz) : PMove h' c s b := by
  cases m with
  | fld name k sl dy b hc hl =>
    exact .fld name k sl dy b (agree c _ ⟨b, kid_of_cell hc (lookup_mem hl), .here b⟩ hc) hl
  | item name n k sl dy l items b hc hl hcl hi =>
    have kl := kid_of_cell hcl (List.mem_of_getElem? hi)
    exact .item name n k sl dy l items b (agree c _ ⟨l, kid_of_cell hc (lookup_mem hl), kl.reach⟩ hc) hl
      (agree l _ ⟨b, kl, .here b⟩ hcl) hi

/-- navigation only looks at the contents of cells *strictly above* its result, and at the kind of the result -/
theorem navCfg_stable' {h h' : Heap} : ∀ (p : List PStep) {c X : Nat}, navCfg h c p = .ok X →
    (∀ z cz, (∃ y, Kid h z y ∧ Reach h (.ref y) X) → h.cell? z = some cz → h'.cell? z = some cz) → IsCfg h' X →
    navCfg h' c p = .ok X
  | [], c, X, e, _, ic => by
    obtain ⟨hX, _⟩ := navCfg_nil e
    subst hX
    obtain ⟨k, sl, dy, hc⟩ := ic
    simp [navCfg, hc]
  | s :: rest, c, X, e, agree, ic => by
    obtain ⟨b, m, e'⟩ := navCfg_cons e
    obtain ⟨_, _, rbX⟩ := navCfg_reach rest e'
    have m' := m.stable' (h' := h') (fun z cz hz hcz => by
      obtain ⟨y, ky, ry⟩ := hz
      exact agree z cz ⟨y, ky, reach_trans ry rbX⟩ hcz)
    exact m'.nav (navCfg_stable' rest e' agree ic)

theorem navCfg_write_end {o : Owner} {h h1 : Heap} (f : Fresh o h h1) (hb : Bounded h) {r c : Nat} {p : List PStep}
    (e : navCfg h r p = .ok c) (k : Nat) (sl : Slots) (dy : List String) :
    navCfg (h1.write c (.cfg k sl dy)) r p = .ok c := by
  obtain ⟨_, ic, _⟩ := navCfg_reach p e
  obtain ⟨k0, sl0, dy0, hc0⟩ := ic
  obtain ⟨o0, e0⟩ := Heap.cell?_some hc0
  refine navCfg_stable' p e ?_ ?_
  · intro z cz hz hcz
    obtain ⟨y, ky, ry⟩ := hz
    have hne : c ≠ z := by
      intro hcz'; subst hcz'
      exact no_cycle hb ky ry
    obtain ⟨oz, ez⟩ := Heap.cell?_some hcz
    apply Heap.cell?_eq (o := oz)
    rw [Heap.get?_write]
    simp [hne, f.get?_of ez]
  · refine ⟨k, sl, dy, Heap.cell?_eq (o := o0) ?_⟩
    rw [Heap.get?_write]
    simp [f.get?_of e0]

theorem lookup_put_self {α : Type} (k : String) (v : α) : ∀ (l : List (String × α)), lookup k (put k v l) = some v
  | [] => by simp [put, lookup]
  | (k', v') :: r => by
    simp only [put]
    split
    · simp [lookup]
    · rename_i hne
      simp [lookup, hne, lookup_put_self k v r]

/-! ### F. read-back at state level -/

theorem State.valN_of {s : State} {i : Nat} {p : List PStep} {key : String} {r c k : Nat} {sl : Slots} {dy : List String}
    {v : HVal} (hr : s.roots[i]? = some r) (hn : navCfg s.heap r p = .ok c) (hc : s.heap.cell? c = some (.cfg k sl dy))
    (hl : lookup key sl = some v) (n : Nat) : s.valN n i p key = some (readV n s.heap v) := by
  simp [State.valN, State.at_of hr hn, obsKeyN, hc, hl]

theorem State.val_eq_valN (s : State) (i : Nat) (p : List PStep) (key : String) :
    s.val i p key = s.valN (s.heap.next + 1) i p key := rfl

/-- **read-back**: after a successful guarded transfer the receiver is where it was, and the value it holds under `key`
    reads, at every fuel, exactly as the value the giver held under `key` before; that value exists -/
theorem transfer_read {S : Schemas} {s : State} (inv : Inv S s) {i j : Nat} {path : List PStep} {key : String}
    (ok : (transfer S s i j path key .revalidate).2 = .ok) :
    (transfer S s i j path key .revalidate).1.at i path = s.at i path ∧
    ∃ v, (∀ n, s.valN n j [] key = some (readV n s.heap v)) ∧
      (∀ n, (transfer S s i j path key .revalidate).1.valN n i path key = some (readV n s.heap v)) ∧
      OwnedBy s.heap (.cfg j) v := by
  obtain ⟨ri, rj, c, v, h', hi, hj, hv, hn, hx, e⟩ := transfer_ok ok
  obtain ⟨kj, slj, dyj, hcj, hlj⟩ := heldValue_ok hv
  obtain ⟨k, sl, dy, disc, dv, hcc, _, eh⟩ := execTransfer_ok hx
  obtain ⟨oc, ec⟩ := Heap.cell?_some hcc
  have fr := transferValue_allocates (.cfg i) v s.heap
  -- the giver's value is owned by the giver
  obtain ⟨crj, erj⟩ := inv.sep.roots j rj hj
  have hcrj : crj = .cfg kj slj dyj := by rw [Heap.cell?_eq erj] at hcj; simpa using hcj
  subst hcrj
  have ov : OwnedBy s.heap (.cfg j) v := inv.sep.closed rj _ _ erj v (lookup_mem hlj)
  -- the state after
  have hroots : (transfer S s i j path key .revalidate).1.roots[i]? = some ri := by rw [transfer_roots]; exact hi
  have hheap : (transfer S s i j path key .revalidate).1.heap = h' := by rw [e]
  have hnav : navCfg h' ri path = .ok c := by
    rw [eh]; exact navCfg_write_end fr.1 inv.bounded hn _ _ _
  have hcell : h'.cell? c = some (.cfg k (put key (transferValue (.cfg i) .revalidate v s.heap).1 sl) dy) := by
    rw [eh]
    apply Heap.cell?_eq (o := oc)
    rw [Heap.get?_write]
    simp [fr.1.get?_of ec]
  refine ⟨?_, v, ?_, ?_, ov⟩
  · rw [State.at_of hi hn]
    exact State.at_of hroots (by rw [hheap]; exact hnav)
  · intro n
    exact State.valN_of hj (by simp [navCfg, hcj]) hcj hlj n
  · intro n
    rw [State.valN_of hroots (by rw [hheap]; exact hnav) (by rw [hheap]; exact hcell) (lookup_put_self _ _ _) n, hheap]
    rw [eh, transfer_read_back inv.sep.closed inv.bounded ov (Heap.get?_lt ec) _ n]

/-! ### G. the executable `NoShare` check is complete: a `false` answer certifies a violation -/

theorem Heap.mem_refsAt {h : Heap} {a b : Nat} (hm : b ∈ h.refsAt a) : ∃ o c, h.get? a = some (o, c) ∧ HVal.ref b ∈ c.kids := by
  simp only [Heap.refsAt] at hm
  cases hc : h.cell? a with
  | none => simp [hc] at hm
  | some c =>
    simp only [hc] at hm
    obtain ⟨o, e⟩ := Heap.cell?_some hc
    exact ⟨o, c, e, mem_refsOf.mp hm⟩

theorem noShareB_of_noShare {h : Heap} (ns : NoShare h) : noShareB h = true := by
  simp only [noShareB, decide_eq_true_eq, Heap.childRefs, List.Nodup, List.pairwise_flatMap]
  refine ⟨?_, ?_⟩
  · intro a _
    simp only [Heap.refsAt]
    cases hc : h.cell? a with
    | none => exact List.Pairwise.nil
    | some c => exact nodup_of_cell ns hc
  · refine List.Pairwise.imp ?_ (List.nodup_range (n := h.next))
    intro a1 a2 hne x hx y hy hxy
    subst hxy
    obtain ⟨o1, c1, e1, m1⟩ := Heap.mem_refsAt hx
    obtain ⟨o2, c2, e2, m2⟩ := Heap.mem_refsAt hy
    exact hne (ns.uniq a1 o1 c1 a2 o2 c2 x e1 e2 m1 m2)

theorem not_noShare_of_check {h : Heap} (e : noShareB h = false) : ¬ NoShare h := by
  intro ns; rw [noShareB_of_noShare ns] at e; cases e

end Cinco.Heap
