import Cinco.Proofs.Cfg
import Cinco.Proofs.Inv
/-
  Helper lemmas for C12b (defaults and the user-defined status over whole histories):
  * how `_default_value_keys` (`Cfg.defaults`) moves under `setDefault` / `setUser`;
  * the shape of `field.__setdefault__` for every field class (`setDefault_shape`), with the leaf case factored through
    `leafDefault`, the value a leaf's `__setdefault__` stores (it depends on the world and the declaration only, not on the
    configuration);
  * what `build` leaves under every declared key (`buildFields_get`, `buildFields_marks`);
  * the three root-level operations on a declared leaf key as closed equations (`setValue_leaf_eq`, `resetValue_leaf_eq`,
    `loadTree_cons_leaf`).
-/
namespace Cinco.Config.Defined
open Cinco Cinco.Field Cinco.Config

/-! ## 1. `_default_value_keys` under the two writes -/

theorem defaults_contains_setDefault (c : Cfg) (k k' : String) (sl : Slot) :
    (c.setDefault k sl).defaults.contains k' = (c.defaults.contains k' || k' == k) := by
  cases c with
  | mk o s d dy kf li =>
    simp only [Cfg.setDefault, Cfg.withDefaults, Cfg.defaults, Cfg.set, Cfg.withSlots]
    by_cases hm : k ∈ d
    · by_cases hk : k' = k
      · subst hk; simp [hm]
      · simp [hm, hk]
    · by_cases hk : k' = k
      · subst hk; simp [hm]
      · simp [hm, hk]

theorem defaults_contains_setUser (c : Cfg) (k k' : String) (sl : Slot) :
    (c.setUser k sl).defaults.contains k' = (c.defaults.contains k' && k' != k) := by
  rw [Cfg.defaults_setUser]
  by_cases hk : k' = k
  · subst hk; simp
  · simp [hk]

/-! ## 2. The value a leaf's `__setdefault__` stores -/

/-- what `field.__setdefault__` stores for a leaf field (or the exception it raises): the body of `setDefault` for `.leaf`
    with the configuration abstracted away.  `setDefault_leaf_eq` ties it to the model. -/
def leafDefault (W : World) (path k : String) (f : FieldSpec) (m : LeafMeta) : Except CErr Val :=
  match f.kind with
  | .list item =>
      match m.default.value with
      | .list xs =>
        (match validateItems W.fe.toEnv item xs with
         | none => .ok (.list xs)
         | some (.ok ys) => .ok (.list ys)
         | some (.error e) => .error (.raw (match e with | .value => "ValueError" | .type => "TypeError" | .overflow => "OverflowError" | .entry _ => "ValidationError")))
      | d => .ok d
  | .dict kf vf =>
      match m.default.value with
      | .dict kvs =>
        if kf.isNone && vf.isNone then .ok (.dict kvs) else
        (match mapEntries (fun x => validateOpt W.fe.toEnv kf x) (fun x => validateOpt W.fe.toEnv vf x) kvs with
         | .ok es => .ok (.dict (buildDict es))
         | .error e => .error (fieldErr path k e))
      | d => .ok d
  | .challenge alg =>
      match envValue W m, m.default.value with
      | some s, _ => (match validate W.fe.toEnv f (.str s) with
           | .ok v => .ok v
           | .error e => .error (fieldErr path k e))
      | none, .none => .ok .none
      | none, .str p => let salt := W.fe.salt alg; .ok (.digest salt (W.fe.hash alg (salt ++ W.fe.utf8 p)) alg)
      | none, .digest s d a => .ok (.digest s d a)
      | none, _ => .error (.raw "TypeError")
  | _ =>
      match envValue W m with
      | some s => (match validate W.fe.toEnv f (.str s) with
          | .ok v => (match v with
              | .none => .ok m.default.value
              | v => .ok v)
          | .error e => .error (fieldErr path k e))
      | none => .ok m.default.value

/-- a plain field class (`Field.__setdefault__`) whose environment variable is unset or empty stores the declared default -/
theorem leafDefault_plain (W : World) (path k : String) (fs : FieldSpec) (m : LeafMeta)
    (hk : match fs.kind with | .list _ => False | .dict _ _ => False | .challenge _ => False | _ => True)
    (henv : envValue W m = none) : leafDefault W path k fs m = .ok m.default.value := by
  unfold leafDefault
  cases hkind : fs.kind <;> simp [hkind] at hk <;> simp [henv]

theorem envValue_of_env_none (W : World) (m : LeafMeta) (h : m.env = none) : envValue W m = none := by
  simp [envValue, h]

/-- did it return? -/
def okB {ε α : Type} : Except ε α → Bool
  | .ok _ => true
  | .error _ => false

/-- store a computed default (or pass the exception on) -/
def storeDefault (c : Cfg) (k : String) (n : Nat) : Except CErr Val → Except CErr (Cfg × Nat)
  | .ok v => .ok (c.setDefault k (.val v), n)
  | .error e => .error e

theorem setDefault_leaf_eq (W : World) (path k : String) (fs : FieldSpec) (m : LeafMeta) (c : Cfg) (n : Nat) :
    setDefault W path k (.leaf fs m) c n = storeDefault c k n (leafDefault W path k fs m) := by
  unfold setDefault leafDefault
  cases hk : fs.kind <;> simp only [] <;> (repeat' split) <;> simp_all [storeDefault]

/-! ## 3. The shape of `__setdefault__`, by field class -/

/-- field classes whose `__setdefault__` stores a value: everything but virtual and instance-method fields
    (the same function as `C12.stores`, written without a catch-all; Proofs/Roundtrip.lean has a third copy, `SField.stores`) -/
def storesD : SField → Bool
  | .leaf _ _ => true
  | .sub _ => true
  | .ctype _ _ => true
  | .cfgList _ _ _ _ => true
  | .virtual _ _ => false
  | .method => false

/-- what a returning `field.__setdefault__(cfg)` did, by field class -/
def DefaultShape (W : World) (path k : String) (c : Cfg) (n : Nat) (c' : Cfg) (n' : Nat) : SField → Prop
  | .leaf fs m => ∃ v, leafDefault W path k fs m = .ok v ∧ c' = c.setDefault k (.val v) ∧ n' = n
  | .sub s' => ∃ sub, build W (joinPath path k) true none s' n = .ok (sub, n') ∧ c' = c.setDefault k (.node sub)
  | .ctype s' kf => ∃ sub, build W (joinPath path k) true kf s' n = .ok (sub, n') ∧ c' = c.setDefault k (.node sub)
  | .cfgList _ _ _ m => n' = n ∧ ((m.default.value = .list [] ∧ c' = c.setDefault k (.nodes [])) ∨
                                   (m.default.value = .none ∧ c' = c.setDefault k (.val .none)))
  | .virtual _ _ => c' = c ∧ n' = n
  | .method => c' = c ∧ n' = n

theorem setDefault_shape {W : World} {path k : String} {f : SField} {c c' : Cfg} {n n' : Nat}
    (h : setDefault W path k f c n = .ok (c', n')) : DefaultShape W path k c n c' n' f := by
  cases f with
  | leaf fs m =>
    rw [setDefault_leaf_eq] at h
    cases hl : leafDefault W path k fs m with
    | error e => simp [hl, storeDefault] at h
    | ok v =>
      simp only [hl, storeDefault, Except.ok.injEq, Prod.mk.injEq] at h
      exact ⟨v, hl, h.1.symm, h.2.symm⟩
  | sub s' =>
    unfold setDefault at h
    cases hb : build W (joinPath path k) true none s' n with
    | error e => simp [hb] at h
    | ok r =>
      obtain ⟨sub, n1⟩ := r
      simp only [hb, Except.ok.injEq, Prod.mk.injEq] at h
      obtain ⟨h1, h2⟩ := h
      subst h1 h2
      exact ⟨sub, hb, rfl⟩
  | ctype s' kf =>
    unfold setDefault at h
    cases hb : build W (joinPath path k) true kf s' n with
    | error e => simp [hb] at h
    | ok r =>
      obtain ⟨sub, n1⟩ := r
      simp only [hb, Except.ok.injEq, Prod.mk.injEq] at h
      obtain ⟨h1, h2⟩ := h
      subst h1 h2
      exact ⟨sub, hb, rfl⟩
  | cfgList s' it req m =>
    unfold setDefault at h
    split at h
    · rename_i hd
      simp only [Except.ok.injEq, Prod.mk.injEq] at h
      exact ⟨h.2.symm, Or.inl ⟨hd, h.1.symm⟩⟩
    · rename_i hd
      simp only [Except.ok.injEq, Prod.mk.injEq] at h
      exact ⟨h.2.symm, Or.inr ⟨hd, h.1.symm⟩⟩
    · cases h
  | virtual cst hs =>
    unfold setDefault at h
    simp only [Except.ok.injEq, Prod.mk.injEq] at h
    exact ⟨h.1.symm, h.2.symm⟩
  | method =>
    unfold setDefault at h
    simp only [Except.ok.injEq, Prod.mk.injEq] at h
    exact ⟨h.1.symm, h.2.symm⟩

/-- the coarse form: a storing field writes one slot under its own key with `_set_default_value`; the others do nothing -/
theorem setDefault_write {W : World} {path k : String} {f : SField} {c c' : Cfg} {n n' : Nat}
    (h : setDefault W path k f c n = .ok (c', n')) :
    if storesD f then ∃ sl, c' = c.setDefault k sl else c' = c := by
  have hs := setDefault_shape h
  cases f with
  | leaf fs m => obtain ⟨v, _, h1, _⟩ := hs; exact ⟨_, h1⟩
  | sub s' => obtain ⟨sub, _, h1⟩ := hs; exact ⟨_, h1⟩
  | ctype s' kf => obtain ⟨sub, _, h1⟩ := hs; exact ⟨_, h1⟩
  | cfgList s' it req m =>
    obtain ⟨_, h1 | h1⟩ := hs
    · exact ⟨_, h1.2⟩
    · exact ⟨_, h1.2⟩
  | virtual cst hsr => exact hs.1
  | method => exact hs.1

theorem setDefault_get_other {W : World} {path k k' : String} {f : SField} {c c' : Cfg} {n n' : Nat}
    (h : setDefault W path k f c n = .ok (c', n')) (hne : k' ≠ k) : c'.get k' = c.get k' := by
  have hw := setDefault_write h
  cases hs : storesD f with
  | false => simp only [hs, Bool.false_eq_true, if_false] at hw; rw [hw]
  | true =>
    simp only [hs, if_true] at hw
    obtain ⟨sl, rfl⟩ := hw
    exact Cfg.get_setDefault_other c hne sl

theorem setDefault_defaults {W : World} {path k : String} {f : SField} {c c' : Cfg} {n n' : Nat}
    (h : setDefault W path k f c n = .ok (c', n')) (k' : String) :
    c'.defaults.contains k' = (c.defaults.contains k' || (storesD f && k' == k)) := by
  have hw := setDefault_write h
  cases hs : storesD f with
  | false => simp only [hs, Bool.false_eq_true, if_false] at hw; rw [hw]; simp
  | true =>
    simp only [hs, if_true] at hw
    obtain ⟨sl, rfl⟩ := hw
    rw [defaults_contains_setDefault]; simp

theorem setDefault_isSome {W : World} {path k : String} {f : SField} {c c' : Cfg} {n n' : Nat}
    (h : setDefault W path k f c n = .ok (c', n')) (k' : String) :
    ((c.get k').isSome = true → (c'.get k').isSome = true) ∧ (storesD f = true → (c'.get k).isSome = true) := by
  have hw := setDefault_write h
  cases hs : storesD f with
  | false => simp only [hs, Bool.false_eq_true, if_false] at hw; rw [hw]; simp
  | true =>
    simp only [hs, if_true] at hw
    obtain ⟨sl, rfl⟩ := hw
    refine ⟨fun h1 => ?_, fun _ => by rw [Cfg.get_setDefault_same]; rfl⟩
    by_cases hk : k' = k
    · subst hk; rw [Cfg.get_setDefault_same]; rfl
    · rw [Cfg.get_setDefault_other c hk]; exact h1

/-! ## 4. What `build` leaves under the declared keys -/

/-- is `k` the key of a storing field of the list? -/
def storesKey (k : String) (fs : List (String × SField)) : Bool := fs.any (fun p => storesD p.2 && k == p.1)

theorem storesKey_of_lookup : ∀ {fs : List (String × SField)} {k : String} {f : SField},
    lookupField k fs = some f → storesD f = true → storesKey k fs = true
  | [], _, _, h, _ => by simp [lookupField] at h
  | (k', f') :: rest, k, f, h, hs => by
    simp only [lookupField] at h
    by_cases hk : k' = k
    · simp only [hk, if_true, Option.some.injEq] at h
      subst h; subst hk
      simp [storesKey, hs]
    · simp only [hk, if_false] at h
      have := storesKey_of_lookup h hs
      simp only [storesKey, List.any_cons] at this ⊢
      simp [this]

/-- **Which keys a run of `__setdefault__`s marks**: exactly the keys of the storing fields, on top of what was marked. -/
theorem buildFields_marks (W : World) (path : String) :
    ∀ (fs : List (String × SField)) (c : Cfg) (n : Nat) (c' : Cfg) (n' : Nat),
      buildFields W path fs c n = .ok (c', n') →
      ∀ k, c'.defaults.contains k = (c.defaults.contains k || storesKey k fs)
  | [], c, n, c', n', h, k => by
    simp only [buildFields, Except.ok.injEq, Prod.mk.injEq] at h
    rw [← h.1]; simp [storesKey]
  | (k0, f) :: rest, c, n, c', n', h, k => by
    simp only [buildFields] at h
    cases hs : setDefault W path k0 f c n with
    | error e => simp [hs] at h
    | ok r =>
      obtain ⟨c1, n1⟩ := r
      simp only [hs] at h
      rw [buildFields_marks W path rest c1 n1 c' n' h k, setDefault_defaults hs k]
      simp [storesKey, Bool.or_assoc]

/-- every storing key holds a slot after the run, and no slot is ever removed -/
theorem buildFields_isSome (W : World) (path : String) :
    ∀ (fs : List (String × SField)) (c : Cfg) (n : Nat) (c' : Cfg) (n' : Nat),
      buildFields W path fs c n = .ok (c', n') →
      ∀ k, ((c.get k).isSome = true → (c'.get k).isSome = true) ∧ (storesKey k fs = true → (c'.get k).isSome = true)
  | [], c, n, c', n', h, k => by
    simp only [buildFields, Except.ok.injEq, Prod.mk.injEq] at h
    rw [← h.1]; simp [storesKey]
  | (k0, f) :: rest, c, n, c', n', h, k => by
    simp only [buildFields] at h
    cases hs : setDefault W path k0 f c n with
    | error e => simp [hs] at h
    | ok r =>
      obtain ⟨c1, n1⟩ := r
      simp only [hs] at h
      obtain ⟨ih1, ih2⟩ := buildFields_isSome W path rest c1 n1 c' n' h k
      have hk0 := setDefault_isSome hs k
      refine ⟨fun h1 => ih1 (hk0.1 h1), fun h1 => ?_⟩
      simp only [storesKey, List.any_cons, Bool.or_eq_true, Bool.and_eq_true, beq_iff_eq] at h1
      rcases h1 with ⟨hst, hk⟩ | h1
      · subst hk; exact ih1 ((setDefault_isSome hs k).2 hst)
      · exact ih2 h1

/-- **With distinct keys, the slot under a declared key is the one its own `__setdefault__` wrote** (later fields do not
    touch it); undeclared keys are untouched. -/
theorem buildFields_get (W : World) (path : String) :
    ∀ (fs : List (String × SField)) (c : Cfg) (n : Nat) (c' : Cfg) (n' : Nat),
      nodupKeys fs = true → buildFields W path fs c n = .ok (c', n') →
      (∀ k, lookupField k fs = none → c'.get k = c.get k) ∧
      (∀ k f, lookupField k fs = some f →
        ∃ c1 n1 c2 n2, setDefault W path k f c1 n1 = .ok (c2, n2) ∧ c'.get k = c2.get k)
  | [], c, n, c', n', _, h => by
    simp only [buildFields, Except.ok.injEq, Prod.mk.injEq] at h
    rw [← h.1]
    exact ⟨fun _ _ => rfl, fun k f hf => by simp [lookupField] at hf⟩
  | (k0, f0) :: rest, c, n, c', n', hnd, h => by
    simp only [buildFields] at h
    cases hs : setDefault W path k0 f0 c n with
    | error e => simp [hs] at h
    | ok r =>
      obtain ⟨c1, n1⟩ := r
      simp only [hs] at h
      simp only [nodupKeys, Bool.and_eq_true, Option.isNone_iff_eq_none] at hnd
      obtain ⟨ih1, ih2⟩ := buildFields_get W path rest c1 n1 c' n' hnd.2 h
      constructor
      · intro k hl
        simp only [lookupField] at hl
        by_cases hk : k0 = k
        · simp [hk] at hl
        · simp only [hk, if_false] at hl
          rw [ih1 k hl, setDefault_get_other hs (fun e => hk e.symm)]
      · intro k f hl
        simp only [lookupField] at hl
        by_cases hk : k0 = k
        · simp only [hk, if_true, Option.some.injEq] at hl
          subst hl; subst hk
          exact ⟨c, n, c1, n1, hs, ih1 k0 hnd.1⟩
        · simp only [hk, if_false] at hl
          exact ih2 k f hl

theorem build_eq (W : World) (path : String) (linked : Bool) (kf : Option String) (s : Schema) (n : Nat) :
    build W path linked kf s n = buildFields W path s.fields (Cfg.mk n [] [] [] kf linked) (n + 1) := by
  cases s with
  | mk fields dyn vs => simp only [build, Schema.fields]

/-! ## 5. The root-level operations on a declared leaf key, as equations -/

theorem getField_leaf {s : Schema} {c : Cfg} {k : String} {fs : FieldSpec} {m : LeafMeta}
    (hf : s.get k = some (.leaf fs m)) : getField s c k = .declared (.leaf fs m) := by
  simp [getField, hf]

/-- `_set_value` of a plain value on a declared leaf: validate, then one `setUser`; a rejection returns the state and the
    identity counter as they were -/
theorem setValue_leaf_eq (W : World) (fuel : Nat) (s : Schema) (path : String) (c : Cfg) (k : String) (v : Val) (n : Nat)
    {fs : FieldSpec} {m : LeafMeta} (hf : s.get k = some (.leaf fs m)) :
    setValue W (fuel + 1) s path c k (.val v) n =
      (match validate W.fe.toEnv fs v with
       | .ok v' => { cfg := c.setUser k (.val v'), next := n }
       | .error e => { cfg := c, err := some (fieldErr path k e), next := n }) := by
  unfold setValue
  simp only [getField_leaf hf]
  rfl

/-- `reset_value` on a declared leaf key of the configuration itself -/
theorem resetValue_leaf_eq (W : World) (fuel : Nat) (s : Schema) (c : Cfg) (k : String) (n : Nat)
    {fs : FieldSpec} {m : LeafMeta} (hk : '.' ∉ k.toList) (hf : s.get k = some (.leaf fs m)) :
    resetValue W (fuel + 1) s c k.toList n =
      (match leafDefault W "" k fs m with
       | .ok v => { cfg := c.setDefault k (.val v), next := n }
       | .error e => { cfg := c, err := some e, next := n }) := by
  have hpart : partitionDot k.toList = (k.toList, none) := partitionDot_no_dot _ hk
  have hw : walk (fuel + 1) s "" c k.toList = some (s, "", c, k) := by
    unfold walk; simp [hpart]
  unfold resetValue
  simp only [hw, getField_leaf hf, setDefault_leaf_eq]
  cases hl : leafDefault W "" k fs m with
  | error e => simp [storeDefault]
  | ok v =>
    have hrep : ∀ c1, replaceAt (fuel + 1) c k.toList (fun _ => c1) = c1 := by intro c1; unfold replaceAt; simp [hpart]
    simp [storeDefault, hrep]

/-- one entry of `load_tree` whose key is a declared leaf -/
theorem loadTree_cons_leaf (W : World) (fuel : Nat) (s : Schema) (path : String) (c : Cfg) (ks : List Char) (value : Val)
    (rest : List (Val × Val)) (dv : Bool) (n : Nat) {fs : FieldSpec} {m : LeafMeta}
    (hf : s.get (String.ofList ks) = some (.leaf fs m)) :
    loadTree W (fuel + 1) s path c ((.str ks, value) :: rest) dv n =
      (if (envValue W m).isSome then loadTree W (fuel + 1) s path c rest dv n
       else match toPython W.fe fs value with
         | .error e => { cfg := c, err := some (fieldErr path (String.ofList ks) e), next := n }
         | .ok v =>
           (match validate W.fe.toEnv fs v with
            | .error e => { cfg := c, err := some (fieldErr path (String.ofList ks) e), next := n }
            | .ok v' => loadTree W (fuel + 1) s path (c.setUser (String.ofList ks) (.val v')) rest dv n)) := by
  rw [loadTree_cons_str]
  unfold decodeArg
  simp only [getField_leaf hf]
  by_cases he : (envValue W m).isSome = true
  · simp [he]
  · simp only [he, Bool.false_eq_true, if_false]
    cases hp : toPython W.fe fs value with
    | error e => rfl
    | ok v =>
      simp only [setValue_leaf_eq W fuel s path c _ v n hf]
      cases hv : validate W.fe.toEnv fs v with
      | error e => rfl
      | ok v' => rfl

theorem loadTree_cons_nonstr (W : World) (fuel : Nat) (s : Schema) (path : String) (c : Cfg) (key value : Val)
    (rest : List (Val × Val)) (dv : Bool) (n : Nat) (hk : ∀ ks, key ≠ .str ks) :
    loadTree W fuel s path c ((key, value) :: rest) dv n = { cfg := c, err := some (.raw "unmodelled-key"), next := n } := by
  unfold loadTree
  cases key <;> first | rfl | exact absurd rfl (hk _)

theorem loadTree_nil_cfg (W : World) (fuel : Nat) (s : Schema) (path : String) (c : Cfg) (dv : Bool) (n : Nat) :
    (loadTree W fuel s path c [] dv n).cfg = c ∧ (loadTree W fuel s path c [] dv n).next = n := by
  unfold loadTree
  cases dv <;> exact ⟨rfl, rfl⟩

end Cinco.Config.Defined
