import Cinco.Field.Validate
import Cinco.Proofs.Str

namespace Cinco.Str

theorem toNat_ofNat_small (n : Nat) (h : n < 0xd800) : (Char.ofNat n).toNat = n := by
  have hv : n.isValidChar := Or.inl h
  simp [Char.ofNat, hv, Char.ofNatAux, Char.toNat]

/-- `lowerChar` on code points -/
def lowerNat (n : Nat) : Nat :=
  if 65 ≤ n ∧ n ≤ 90 then n + 32 else if 0xc0 ≤ n ∧ n ≤ 0xde ∧ n ≠ 0xd7 then n + 32 else n

/-- `upperChar` on code points -/
def upperNat (n : Nat) : Nat :=
  if 97 ≤ n ∧ n ≤ 122 then n - 32 else if 0xe0 ≤ n ∧ n ≤ 0xfe ∧ n ≠ 0xf7 then n - 32 else n

theorem toNat_lowerChar (c : Char) : (lowerChar c).toNat = lowerNat c.toNat := by
  unfold lowerChar lowerNat isLatin1Upper
  simp only [Bool.and_eq_true, decide_eq_true_eq, bne_iff_ne, ne_eq, and_assoc]
  split
  · rw [toNat_ofNat_small _ (by omega)]
  · split
    · rw [toNat_ofNat_small _ (by omega)]
    · rfl

theorem toNat_upperChar (c : Char) : (upperChar c).toNat = upperNat c.toNat := by
  unfold upperChar upperNat isLatin1Lower
  simp only [Bool.and_eq_true, decide_eq_true_eq, bne_iff_ne, ne_eq, and_assoc]
  split
  · rw [toNat_ofNat_small _ (by omega)]
  · split
    · rw [toNat_ofNat_small _ (by omega)]
    · rfl

theorem lowerNat_idem (n : Nat) : lowerNat (lowerNat n) = lowerNat n := by
  unfold lowerNat; (repeat' split) <;> omega

theorem upperNat_idem (n : Nat) : upperNat (upperNat n) = upperNat n := by
  unfold upperNat; (repeat' split) <;> omega

theorem lowerChar_idem (c : Char) : lowerChar (lowerChar c) = lowerChar c := by
  apply Char.toNat_inj.1
  rw [toNat_lowerChar, toNat_lowerChar, lowerNat_idem]

theorem upperChar_idem (c : Char) : upperChar (upperChar c) = upperChar c := by
  apply Char.toNat_inj.1
  rw [toNat_upperChar, toNat_upperChar, upperNat_idem]

/-- `isSpace` on code points -/
def isSpaceNat (n : Nat) : Bool :=
  (9 ≤ n && n ≤ 13) || (28 ≤ n && n ≤ 32) || n == 0x85 || n == 0xa0 || n == 0x1680 ||
  (0x2000 ≤ n && n ≤ 0x200a) || n == 0x2028 || n == 0x2029 || n == 0x202f || n == 0x205f || n == 0x3000

theorem isSpace_eq (c : Char) : isSpace c = isSpaceNat c.toNat := rfl

theorem isSpaceNat_lowerNat (n : Nat) : isSpaceNat (lowerNat n) = isSpaceNat n := by
  unfold lowerNat
  split
  · rw [Bool.eq_iff_iff]; simp [isSpaceNat]; omega
  · split
    · rw [Bool.eq_iff_iff]; simp [isSpaceNat]; omega
    · rfl

theorem isSpaceNat_upperNat (n : Nat) : isSpaceNat (upperNat n) = isSpaceNat n := by
  unfold upperNat
  split
  · rw [Bool.eq_iff_iff]; simp [isSpaceNat]; omega
  · split
    · rw [Bool.eq_iff_iff]; simp [isSpaceNat]; omega
    · rfl

theorem isSpace_lowerChar (c : Char) : isSpace (lowerChar c) = isSpace c := by
  rw [isSpace_eq, isSpace_eq, toNat_lowerChar, isSpaceNat_lowerNat]

theorem isSpace_upperChar (c : Char) : isSpace (upperChar c) = isSpace c := by
  rw [isSpace_eq, isSpace_eq, toNat_upperChar, isSpaceNat_upperNat]


/-! ### list level -/

theorem dropWhile_idem (p : Char → Bool) (s : Str) : (s.dropWhile p).dropWhile p = s.dropWhile p := by
  induction s with
  | nil => rfl
  | cons a t ih =>
    by_cases h : p a = true
    · simp [h, ih]
    · simp [h]

def HeadNot (p : Char → Bool) (s : Str) : Prop := ∀ c, s.head? = some c → p c = false

theorem headNot_dropWhile (p : Char → Bool) (s : Str) : HeadNot p (s.dropWhile p) := by
  induction s with
  | nil => intro c h; simp at h
  | cons a t ih =>
    by_cases h : p a = true
    · simpa [List.dropWhile_cons, h] using ih
    · intro c hc
      simp [h] at hc
      subst hc; simpa using h

theorem dropWhile_eq_self_of_headNot {p : Char → Bool} {s : Str} (h : HeadNot p s) : s.dropWhile p = s :=
  dropWhile_eq_self_of_head s h

theorem headNot_of_prefix {p : Char → Bool} {a b : Str} (hp : b <+: a) (h : HeadNot p a) : HeadNot p b := by
  obtain ⟨t, rfl⟩ := hp
  intro c hc
  cases b with
  | nil => simp at hc
  | cons x r => exact h c (by simpa using hc)

theorem dropWhileEnd_prefix (p : Char → Bool) (s : Str) : dropWhileEnd p s <+: s := by
  unfold dropWhileEnd
  have : s.reverse.dropWhile p <:+ s.reverse := List.dropWhile_suffix p
  have h2 := List.reverse_prefix.2 this
  simpa using h2

theorem reverse_dropWhileEnd (p : Char → Bool) (s : Str) : (dropWhileEnd p s).reverse = s.reverse.dropWhile p := by
  simp [dropWhileEnd]

theorem dropWhileEnd_idem (p : Char → Bool) (s : Str) : dropWhileEnd p (dropWhileEnd p s) = dropWhileEnd p s := by
  show ((dropWhileEnd p s).reverse.dropWhile p).reverse = _
  rw [reverse_dropWhileEnd, dropWhile_idem]; rfl

/-- the shape shared by `strip` and `stripChars` -/
def trim (p : Char → Bool) (s : Str) : Str := dropWhileEnd p (s.dropWhile p)

theorem strip_eq_trim (s : Str) : strip s = trim isSpace s := rfl
theorem stripChars_eq_trim (cs s : Str) : stripChars cs s = trim (fun c => cs.contains c) s := rfl

theorem dropWhile_trim (p : Char → Bool) (s : Str) : (trim p s).dropWhile p = trim p s :=
  dropWhile_eq_self_of_headNot (headNot_of_prefix (dropWhileEnd_prefix p _) (headNot_dropWhile p s))

theorem trim_idem (p : Char → Bool) (s : Str) : trim p (trim p s) = trim p s := by
  show dropWhileEnd p ((trim p s).dropWhile p) = trim p s
  rw [dropWhile_trim]
  exact dropWhileEnd_idem p _

theorem strip_idem (s : Str) : strip (strip s) = strip s := trim_idem _ s
theorem stripChars_idem (cs s : Str) : stripChars cs (stripChars cs s) = stripChars cs s := trim_idem _ s

theorem trim_subset (p : Char → Bool) (s : Str) : ∀ c ∈ trim p s, c ∈ s := by
  intro c hc
  have h1 : c ∈ s.dropWhile p := (dropWhileEnd_prefix p _).subset hc
  exact (List.dropWhile_suffix p).subset h1

theorem dropWhile_map_of_inv {p : Char → Bool} {f : Char → Char} (h : ∀ c, p (f c) = p c) (s : Str) :
    (s.map f).dropWhile p = (s.dropWhile p).map f := by
  induction s with
  | nil => rfl
  | cons a t ih =>
    by_cases ha : p a = true
    · simp [h, ha, ih]
    · simp [h, ha]

theorem dropWhileEnd_map_of_inv {p : Char → Bool} {f : Char → Char} (h : ∀ c, p (f c) = p c) (s : Str) :
    dropWhileEnd p (s.map f) = (dropWhileEnd p s).map f := by
  unfold dropWhileEnd
  rw [← List.map_reverse, dropWhile_map_of_inv h, List.map_reverse]

theorem trim_map_of_inv {p : Char → Bool} {f : Char → Char} (h : ∀ c, p (f c) = p c) (s : Str) :
    trim p (s.map f) = (trim p s).map f := by
  unfold trim
  rw [dropWhile_map_of_inv h, dropWhileEnd_map_of_inv h]

theorem map_idem {f : Char → Char} (h : ∀ c, f (f c) = f c) (s : Str) : (s.map f).map f = s.map f := by
  simp [List.map_map, Function.comp_def, h]

theorem lower_idem (s : Str) : lower (lower s) = lower s := map_idem lowerChar_idem s
theorem upper_idem (s : Str) : upper (upper s) = upper s := map_idem upperChar_idem s

theorem strip_lower (s : Str) : strip (lower s) = lower (strip s) := trim_map_of_inv isSpace_lowerChar s
theorem strip_upper (s : Str) : strip (upper s) = upper (strip s) := trim_map_of_inv isSpace_upperChar s

theorem map_eq_self {f : Char → Char} : ∀ (s : Str), (∀ c ∈ s, f c = c) → s.map f = s
  | [], _ => rfl
  | a :: t, h => by
    simp only [List.map_cons, h a (by simp)]
    rw [map_eq_self t (fun c hc => h c (by simp [hc]))]

theorem fix_of_mem_trim_map {p : Char → Bool} {f : Char → Char} (h : ∀ c, f (f c) = f c) (s : Str) :
    ∀ c ∈ trim p (s.map f), f c = c := by
  intro c hc
  obtain ⟨d, _, rfl⟩ := List.mem_map.1 (trim_subset p _ c hc)
  exact h d

theorem map_trim_map {p : Char → Bool} {f : Char → Char} (h : ∀ c, f (f c) = f c) (s : Str) :
    (trim p (s.map f)).map f = trim p (s.map f) :=
  map_eq_self _ (fix_of_mem_trim_map h s)

theorem lowerChar_of_mem_stripChars_lower (cs u : Str) : ∀ c ∈ stripChars cs (lower u), lowerChar c = c :=
  fix_of_mem_trim_map lowerChar_idem u
theorem upperChar_of_mem_stripChars_upper (cs u : Str) : ∀ c ∈ stripChars cs (upper u), upperChar c = c :=
  fix_of_mem_trim_map upperChar_idem u

theorem lower_stripChars_lower (cs u : Str) : lower (stripChars cs (lower u)) = stripChars cs (lower u) :=
  map_trim_map lowerChar_idem u
theorem upper_stripChars_upper (cs u : Str) : upper (stripChars cs (upper u)) = stripChars cs (upper u) :=
  map_trim_map upperChar_idem u

end Cinco.Str

namespace Cinco.Field
open Cinco Cinco.Str

/-- **The string transforms are idempotent**: validating an already transformed text changes nothing. -/
theorem transform_idem (o : StrOpts) (s : Str) : transform o (transform o s) = transform o s := by
  obtain ⟨minLen, maxLen, regex, choices, case, strp⟩ := o
  cases case with
  | none =>
    cases strp with
    | off => rfl
    | ws => exact strip_idem s
    | chars cs => exact stripChars_idem cs s
  | some c =>
    cases strp with
    | off =>
      cases c with
      | lower => exact lower_idem s
      | upper => exact upper_idem s
    | ws =>
      cases c with
      | lower =>
        show lower (strip (lower (strip s))) = lower (strip s)
        rw [strip_lower, strip_idem, lower_idem]
      | upper =>
        show upper (strip (upper (strip s))) = upper (strip s)
        rw [strip_upper, strip_idem, upper_idem]
    | chars cs =>
      cases c with
      | lower =>
        show stripChars cs (lower (stripChars cs (stripChars cs (lower (stripChars cs s))))) =
          stripChars cs (lower (stripChars cs s))
        rw [stripChars_idem, lower_stripChars_lower, stripChars_idem]
      | upper =>
        show stripChars cs (upper (stripChars cs (stripChars cs (upper (stripChars cs s))))) =
          stripChars cs (upper (stripChars cs s))
        rw [stripChars_idem, upper_stripChars_upper, stripChars_idem]

/-- **`StringField._validate` is idempotent**: an accepted result is accepted again, unchanged. -/
theorem strRule_idem (o : StrOpts) (req : Bool) (v : Val) (t : Str) (h : strRule o req v = .ok t) :
    strRule o req (.str t) = .ok t := by
  cases v with
  | str s =>
    simp only [strRule] at h
    split at h
    · next hc =>
      have ht : transform o s = t := by simpa using h
      subst ht
      simp only [strRule, transform_idem, hc, if_true]
    · simp at h
  | _ => simp [strRule] at h

end Cinco.Field
