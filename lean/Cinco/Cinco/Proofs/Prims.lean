import Cinco.Proofs.ValidateIdem
import Cinco.Proofs.StrIdem
import Cinco.Proofs.NetRoundtrip
namespace Cinco.Field
open Cinco

theorem prefixFromInt_le (m p : Nat) (h : Net.prefixFromInt m = some p) : p ≤ 32 := by
  unfold Net.prefixFromInt at h
  simp only at h
  generalize (if (m == 0) = true then 32 else Net.trailingZeros 32 m) = tz at h
  by_cases hc : (m / 2 ^ tz == 2 ^ (32 - tz) - 1) = true
  · rw [if_pos hc] at h; cases h; omega
  · rw [if_neg hc] at h; cases h

theorem parsePrefix_le (s : Str) (p : Nat) (h : Net.parsePrefix s = some p) : p ≤ 32 := by
  unfold Net.parsePrefix at h
  split at h
  · simp only at h
    split at h
    · cases h; assumption
    · cases h
  · cases ha : Net.parseAddr s with
    | none => simp [ha] at h
    | some m =>
      simp only [ha] at h
      cases hp : Net.prefixFromInt m with
      | some q => simp only [hp] at h; cases h; exact prefixFromInt_le m _ hp
      | none => simp only [hp] at h; exact prefixFromInt_le _ _ h

theorem parseNet_canonical (s : Str) (n p : Nat) (h : Net.parseNet s = some (n, p)) :
    Net.parseNet (Net.printNet n p) = some (n, p) := by
  unfold Net.parseNet at h
  split at h
  · rename_i a _
    cases ha : Net.parseAddr a with
    | none => simp [ha] at h
    | some m =>
      simp [ha] at h
      obtain ⟨h1, h2⟩ := h
      subst h1; subst h2
      exact Net.parseNet_printNet m 32 (Net.printAddr_of_parseAddr a m ha).2 (Nat.le_refl _) (by simp [Nat.mod_one])
  · rename_i a m _
    cases ha : Net.parseAddr a with
    | none => simp [ha] at h
    | some x =>
      cases hm : Net.parsePrefix m with
      | none => simp [ha, hm] at h
      | some q =>
        simp only [ha, hm] at h
        split at h
        · cases h
          rename_i hb
          exact Net.parseNet_printNet n p (Net.printAddr_of_parseAddr a n ha).2 (parsePrefix_le m p hm) (by simpa using hb)
        · cases h
  · cases h

/-- the facts about the modelled string and network primitives, all proved -/
theorem prims : Prims :=
  ⟨strRule_idem, fun s n h => (Net.printAddr_of_parseAddr s n h).1, parseNet_canonical⟩

end Cinco.Field
