/-
AES-256 (`Cinco/Crypto/Aes256.lean`) is a lawful block cipher: for EVERY key (any length; `keyExpansion`
normalises it with `padTo 32`) and every 16-byte block, `decryptBlock key (encryptBlock key block) = block`
and the ciphertext has 16 bytes.

Route: the four layer inverses on 16-byte states
  * `invSubBytes ∘ subBytes = id`        from the table check `sbox_inv`,
  * `invShiftRows ∘ shiftRows = id`      a permutation of 16 explicit bytes,
  * `addRoundKey (addRoundKey s k) k = s`  XOR involution,
  * `invMixColumns ∘ mixColumns = id`    `xtime` is XOR-linear; after distributing, the column identity
                                         `InvM · M = I` already holds in GF(2)[x] (all degrees stay below 8,
                                         so no reduction modulo the AES polynomial is involved) and is closed
                                         by AC-normalisation of XOR with `a ^^^ a = 0`,
then an induction over the round keys (any number of round keys, each of 16 bytes), and shape facts about
`keyExpansion` (15 round keys of 16 bytes each, whatever the key).
No enumeration beyond one 256-case check (`x &&& 0x80 ∈ {0, 0x80}`).
-/
import Cinco.Crypto.Aes256
import Cinco.Crypto.Cipher

set_option linter.unusedSimpArgs false
set_option linter.unusedVariables false

namespace Cinco.Aes

/-! ## XOR algebra on bytes -/

theorem forall_u8 {P : UInt8 → Prop} (h : ∀ n, n < 256 → P (UInt8.ofNat n)) : ∀ x, P x := by
  intro x
  have := h x.toNat (UInt8.toNat_lt x)
  simpa using this

theorem xor_xor_cancel_right (a b : UInt8) : (a ^^^ b) ^^^ b = a := by
  rw [UInt8.xor_assoc, UInt8.xor_self, UInt8.xor_zero]

theorem xor_xor_cancel_left (a b : UInt8) : a ^^^ (a ^^^ b) = b := by
  rw [← UInt8.xor_assoc, UInt8.xor_self, UInt8.zero_xor]

theorem xor_left_comm (a b c : UInt8) : a ^^^ (b ^^^ c) = b ^^^ (a ^^^ c) := by
  rw [← UInt8.xor_assoc, ← UInt8.xor_assoc, UInt8.xor_comm a b]

theorem xor_and (a b c : UInt8) : (a ^^^ b) &&& c = (a &&& c) ^^^ (b &&& c) := by
  rw [← UInt8.toBitVec_inj]
  simp only [UInt8.toBitVec_and, UInt8.toBitVec_xor]
  ext i hi
  simp [Bool.and_xor_distrib_right]

/-- the only exhaustive check: 256 cases of one byte -/
theorem msb_cases : ∀ x : UInt8, x &&& 0x80 = 0 ∨ x &&& 0x80 = 0x80 := by
  apply forall_u8
  decide +kernel

/-! ## `xtime` and the constant multiplications are GF(2)-linear -/

theorem xtime_xor (a b : UInt8) : xtime (a ^^^ b) = xtime a ^^^ xtime b := by
  unfold xtime
  rw [UInt8.shiftLeft_xor, xor_and]
  have h1 : ((0:UInt8) ^^^ 0 = 0) = True := by decide
  have h2 : ((0:UInt8) ^^^ 0x80 = 0) = False := by decide
  have h3 : ((0x80:UInt8) ^^^ 0 = 0) = False := by decide
  have h4 : ((0x80:UInt8) ^^^ 0x80 = 0) = True := by decide
  have h5 : ((0x80:UInt8) = 0) = False := by decide
  rcases msb_cases a with ha | ha <;> rcases msb_cases b with hb | hb <;> rw [ha, hb] <;>
    simp only [h1, h2, h3, h4, h5, if_true, if_false, UInt8.xor_zero, UInt8.zero_xor, UInt8.xor_assoc,
      UInt8.xor_comm, xor_left_comm, xor_xor_cancel_left, UInt8.xor_self]

theorem mul2_xor (a b : UInt8) : mul2 (a ^^^ b) = mul2 a ^^^ mul2 b := xtime_xor a b

set_option hygiene false in
/-- expand the column product, name the `xtime`-powers of the four bytes, AC-normalise XOR and cancel -/
macro "mixcol_cancel" : tactic => `(tactic| (
  simp only [mul2, mul3, mul9, mul11, mul13, mul14, xtime_xor]
  generalize xtime a = a1
  generalize xtime a1 = a2
  generalize xtime a2 = a3
  generalize xtime a3 = a4
  generalize xtime b = b1
  generalize xtime b1 = b2
  generalize xtime b2 = b3
  generalize xtime b3 = b4
  generalize xtime c = c1
  generalize xtime c1 = c2
  generalize xtime c2 = c3
  generalize xtime c3 = c4
  generalize xtime d = d1
  generalize xtime d1 = d2
  generalize xtime d2 = d3
  generalize xtime d3 = d4
  simp only [UInt8.xor_zero, UInt8.zero_xor, UInt8.xor_assoc,
      UInt8.xor_comm, xor_left_comm, xor_xor_cancel_left, UInt8.xor_self]))

/-- row 0 of `InvM · M = I` -/
theorem invMix_mix_col0 (a b c d : UInt8) :
    mul14 (mul2 a ^^^ mul3 b ^^^ c ^^^ d) ^^^ mul11 (a ^^^ mul2 b ^^^ mul3 c ^^^ d) ^^^
      mul13 (a ^^^ b ^^^ mul2 c ^^^ mul3 d) ^^^ mul9 (mul3 a ^^^ b ^^^ c ^^^ mul2 d) = a := by
  mixcol_cancel

/-- row 1 -/
theorem invMix_mix_col1 (a b c d : UInt8) :
    mul9 (mul2 a ^^^ mul3 b ^^^ c ^^^ d) ^^^ mul14 (a ^^^ mul2 b ^^^ mul3 c ^^^ d) ^^^
      mul11 (a ^^^ b ^^^ mul2 c ^^^ mul3 d) ^^^ mul13 (mul3 a ^^^ b ^^^ c ^^^ mul2 d) = b := by
  mixcol_cancel

/-- row 2 -/
theorem invMix_mix_col2 (a b c d : UInt8) :
    mul13 (mul2 a ^^^ mul3 b ^^^ c ^^^ d) ^^^ mul9 (a ^^^ mul2 b ^^^ mul3 c ^^^ d) ^^^
      mul14 (a ^^^ b ^^^ mul2 c ^^^ mul3 d) ^^^ mul11 (mul3 a ^^^ b ^^^ c ^^^ mul2 d) = c := by
  mixcol_cancel

/-- row 3 -/
theorem invMix_mix_col3 (a b c d : UInt8) :
    mul11 (mul2 a ^^^ mul3 b ^^^ c ^^^ d) ^^^ mul13 (a ^^^ mul2 b ^^^ mul3 c ^^^ d) ^^^
      mul9 (a ^^^ b ^^^ mul2 c ^^^ mul3 d) ^^^ mul14 (mul3 a ^^^ b ^^^ c ^^^ mul2 d) = d := by
  mixcol_cancel

/-! ## The four layers -/

/-- `InvMixColumns` undoes `MixColumns` on any whole number of columns -/
theorem invMixColumns_mixColumns : ∀ (s : List UInt8), s.length % 4 = 0 → invMixColumns (mixColumns s) = s
  | [], _ => by simp [mixColumns, invMixColumns]
  | [_], h => by simp at h
  | [_, _], h => by simp at h
  | [_, _, _], h => by simp at h
  | a :: b :: c :: d :: rest, h => by
    have hr : rest.length % 4 = 0 := by
      simp only [List.length_cons] at h; omega
    simp only [mixColumns, invMixColumns, invMix_mix_col0, invMix_mix_col1, invMix_mix_col2,
      invMix_mix_col3, invMixColumns_mixColumns rest hr]

theorem mixColumns_length : ∀ (s : List UInt8), s.length % 4 = 0 → (mixColumns s).length = s.length
  | [], _ => by simp [mixColumns]
  | [_], h => by simp at h
  | [_, _], h => by simp at h
  | [_, _, _], h => by simp at h
  | a :: b :: c :: d :: rest, h => by
    have hr : rest.length % 4 = 0 := by
      simp only [List.length_cons] at h; omega
    simp only [mixColumns, List.length_cons, mixColumns_length rest hr]

theorem invMixColumns_length : ∀ (s : List UInt8), s.length % 4 = 0 → (invMixColumns s).length = s.length
  | [], _ => by simp [invMixColumns]
  | [_], h => by simp at h
  | [_, _], h => by simp at h
  | [_, _, _], h => by simp at h
  | a :: b :: c :: d :: rest, h => by
    have hr : rest.length % 4 = 0 := by
      simp only [List.length_cons] at h; omega
    simp only [invMixColumns, List.length_cons, invMixColumns_length rest hr]

theorem invSubByte_subByte (b : UInt8) : invSubByte (subByte b) = b := sbox_inv b

theorem invSubBytes_subBytes (s : List UInt8) : invSubBytes (subBytes s) = s := by
  simp [invSubBytes, subBytes, List.map_map, Function.comp_def, invSubByte_subByte]

theorem subBytes_length (s : List UInt8) : (subBytes s).length = s.length := by simp [subBytes]
theorem invSubBytes_length (s : List UInt8) : (invSubBytes s).length = s.length := by simp [invSubBytes]

/-- a 16-byte state is sixteen explicit bytes -/
theorem exists_of_length_16 {s : List UInt8} (h : s.length = 16) :
    ∃ s0 s1 s2 s3 s4 s5 s6 s7 s8 s9 s10 s11 s12 s13 s14 s15 : UInt8, s = [s0, s1, s2, s3, s4, s5, s6, s7, s8, s9, s10, s11, s12, s13, s14, s15] := by
  rcases s with _ | ⟨s0, _ | ⟨s1, _ | ⟨s2, _ | ⟨s3, _ | ⟨s4, _ | ⟨s5, _ | ⟨s6, _ | ⟨s7, _ | ⟨s8, _ | ⟨s9, _ | ⟨s10, _ | ⟨s11, _ | ⟨s12, _ | ⟨s13, _ | ⟨s14, _ | ⟨s15, s⟩⟩⟩⟩⟩⟩⟩⟩⟩⟩⟩⟩⟩⟩⟩⟩
  all_goals first
    | (exfalso; simp at h; done)
    | (simp only [List.length_cons] at h
       have hs : s = [] := List.eq_nil_of_length_eq_zero (by omega)
       subst hs
       exact ⟨s0, s1, s2, s3, s4, s5, s6, s7, s8, s9, s10, s11, s12, s13, s14, s15, rfl⟩)

theorem invShiftRows_shiftRows (s : List UInt8) (h : s.length = 16) : invShiftRows (shiftRows s) = s := by
  obtain ⟨s0, s1, s2, s3, s4, s5, s6, s7, s8, s9, s10, s11, s12, s13, s14, s15, rfl⟩ := exists_of_length_16 h
  rfl

theorem shiftRows_length (s : List UInt8) (h : s.length = 16) : (shiftRows s).length = 16 := by
  obtain ⟨s0, s1, s2, s3, s4, s5, s6, s7, s8, s9, s10, s11, s12, s13, s14, s15, rfl⟩ := exists_of_length_16 h
  rfl

theorem invShiftRows_length (s : List UInt8) (h : s.length = 16) : (invShiftRows s).length = 16 := by
  obtain ⟨s0, s1, s2, s3, s4, s5, s6, s7, s8, s9, s10, s11, s12, s13, s14, s15, rfl⟩ := exists_of_length_16 h
  rfl

theorem xorBytes_cancel : ∀ (s k : List UInt8), s.length ≤ k.length → xorBytes (xorBytes s k) k = s
  | [], _, _ => by simp [xorBytes]
  | _ :: _, [], h => by simp at h
  | x :: xs, y :: ys, h => by
    have ih := xorBytes_cancel xs ys (by simpa using h)
    simp only [xorBytes, List.zipWith_cons_cons, List.cons.injEq] at ih ⊢
    exact ⟨xor_xor_cancel_right x y, ih⟩

theorem addRoundKey_addRoundKey (s k : List UInt8) (h : s.length ≤ k.length) :
    addRoundKey (addRoundKey s k) k = s := xorBytes_cancel s k h

theorem addRoundKey_length (s k : List UInt8) : (addRoundKey s k).length = min s.length k.length := by
  simp [addRoundKey, xorBytes]

theorem addRoundKey_length16 (s k : List UInt8) (hs : s.length = 16) (hk : k.length = 16) :
    (addRoundKey s k).length = 16 := by
  rw [addRoundKey_length, hs, hk]; rfl

theorem padTo_length (n : Nat) (l : List UInt8) : (padTo n l).length = n := by
  simp only [padTo, List.length_take, List.length_append, List.length_replicate]; omega

theorem padTo_of_length (n : Nat) (l : List UInt8) (h : l.length = n) : padTo n l = l := by
  subst h
  simp [padTo]

/-! ## Rounds -/

theorem encRounds_cons_of_ne_nil (rk : List UInt8) (rks : List (List UInt8)) (s : List UInt8)
    (h : rks ≠ []) :
    encRounds (rk :: rks) s = encRounds rks (addRoundKey (mixColumns (shiftRows (subBytes s))) rk) := by
  cases rks with
  | nil => exact absurd rfl h
  | cons _ _ => rfl

theorem decRounds_cons_cons (rk rk' : List UInt8) (rks : List (List UInt8)) (s : List UInt8) :
    decRounds (rk :: rk' :: rks) s =
      decRounds (rk' :: rks) (invMixColumns (addRoundKey (invSubBytes (invShiftRows s)) rk)) := rfl

/-- one full round keeps a 16-byte state -/
theorem round_length (s rk : List UInt8) (hs : s.length = 16) (hk : rk.length = 16) :
    (addRoundKey (mixColumns (shiftRows (subBytes s))) rk).length = 16 := by
  have h1 : (shiftRows (subBytes s)).length = 16 := shiftRows_length _ (by rw [subBytes_length, hs])
  have h2 : (mixColumns (shiftRows (subBytes s))).length = 16 := by
    rw [mixColumns_length _ (by rw [h1]), h1]
  exact addRoundKey_length16 _ _ h2 hk

theorem finalRound_length (s rk : List UInt8) (hs : s.length = 16) (hk : rk.length = 16) :
    (addRoundKey (shiftRows (subBytes s)) rk).length = 16 :=
  addRoundKey_length16 _ _ (shiftRows_length _ (by rw [subBytes_length, hs])) hk

theorem encRounds_length : ∀ (rks : List (List UInt8)) (s : List UInt8),
    (∀ rk ∈ rks, rk.length = 16) → s.length = 16 → (encRounds rks s).length = 16
  | [], s, _, hs => by simpa [encRounds] using hs
  | [rk], s, hk, hs => by
    simpa [encRounds] using finalRound_length s rk hs (hk rk (by simp))
  | rk :: rk' :: rks, s, hk, hs => by
    rw [encRounds_cons_of_ne_nil _ _ _ (by simp)]
    exact encRounds_length (rk' :: rks) _ (fun k hk' => hk k (List.mem_cons_of_mem _ hk'))
      (round_length s rk hs (hk rk (by simp)))

/-- the inverse rounds peel the forward rounds off one by one -/
theorem decRounds_encRounds : ∀ (mid : List (List UInt8)) (t : List UInt8) (ts : List (List UInt8))
    (rkN s : List UInt8), (∀ rk ∈ mid, rk.length = 16) → rkN.length = 16 → s.length = 16 →
    decRounds (mid.reverse ++ t :: ts) (addRoundKey (encRounds (mid ++ [rkN]) s) rkN)
      = decRounds (t :: ts) (shiftRows (subBytes s))
  | [], t, ts, rkN, s, _, hN, hs => by
    have hl : (shiftRows (subBytes s)).length = 16 := shiftRows_length _ (by rw [subBytes_length, hs])
    simp only [List.reverse_nil, List.nil_append, encRounds]
    rw [addRoundKey_addRoundKey _ _ (by rw [hl, hN]; exact Nat.le_refl _)]
  | m :: mid, t, ts, rkN, s, hmid, hN, hs => by
    have hm : m.length = 16 := hmid m (by simp)
    have hmid' : ∀ rk ∈ mid, rk.length = 16 := fun k hk => hmid k (List.mem_cons_of_mem _ hk)
    have h1 : (shiftRows (subBytes s)).length = 16 := shiftRows_length _ (by rw [subBytes_length, hs])
    have h2 : (mixColumns (shiftRows (subBytes s))).length = 16 := by
      rw [mixColumns_length _ (by rw [h1]), h1]
    have hs1 : (addRoundKey (mixColumns (shiftRows (subBytes s))) m).length = 16 :=
      round_length s m hs hm
    have hsb : (subBytes (addRoundKey (mixColumns (shiftRows (subBytes s))) m)).length = 16 := by
      rw [subBytes_length, hs1]
    rw [List.reverse_cons, List.append_assoc, List.singleton_append, List.cons_append,
      encRounds_cons_of_ne_nil _ _ _ (by simp),
      decRounds_encRounds mid m (t :: ts) rkN _ hmid' hN hs1,
      decRounds_cons_cons, invShiftRows_shiftRows _ hsb, invSubBytes_subBytes,
      addRoundKey_addRoundKey _ _ (by rw [h2, hm]; exact Nat.le_refl _),
      invMixColumns_mixColumns _ (by rw [h1])]

theorem encryptBlockWith_length (rks : List (List UInt8)) (hk : ∀ rk ∈ rks, rk.length = 16)
    (block : List UInt8) : (encryptBlockWith rks block).length = 16 := by
  cases rks with
  | nil => simp [encryptBlockWith, padTo_length]
  | cons rk0 rest =>
    simp only [encryptBlockWith]
    exact encRounds_length rest _ (fun k hk' => hk k (List.mem_cons_of_mem _ hk'))
      (addRoundKey_length16 _ _ (padTo_length 16 block) (hk rk0 (by simp)))

/-- **Round trip for any expanded key**: any number of round keys, each of 16 bytes. -/
theorem decryptBlockWith_encryptBlockWith (rks : List (List UInt8)) (hk : ∀ rk ∈ rks, rk.length = 16)
    (block : List UInt8) (hb : block.length = 16) :
    decryptBlockWith rks (encryptBlockWith rks block) = block := by
  cases rks with
  | nil => simp [decryptBlockWith, encryptBlockWith, padTo_of_length 16 block hb]
  | cons rk0 rest =>
    have h0 : rk0.length = 16 := hk rk0 (by simp)
    have hrest : ∀ rk ∈ rest, rk.length = 16 := fun k hk' => hk k (List.mem_cons_of_mem _ hk')
    have hs0 : (addRoundKey block rk0).length = 16 := addRoundKey_length16 _ _ hb h0
    rcases List.eq_nil_or_concat rest with hnil | ⟨mid, rkN, hcat⟩
    · subst hnil
      simp only [decryptBlockWith, encryptBlockWith, List.reverse_cons, List.reverse_nil, List.nil_append,
        encRounds, decRounds, padTo_of_length 16 block hb, padTo_of_length 16 _ hs0]
      exact addRoundKey_addRoundKey _ _ (by rw [hb, h0]; exact Nat.le_refl _)
    · rw [List.concat_eq_append] at hcat
      subst hcat
      have hmid : ∀ rk ∈ mid, rk.length = 16 := fun k hk' => hrest k (by simp [hk'])
      have hN : rkN.length = 16 := hrest rkN (by simp)
      have hrev : (rk0 :: (mid ++ [rkN])).reverse = rkN :: (mid.reverse ++ [rk0]) := by simp
      have hE : (encRounds (mid ++ [rkN]) (addRoundKey block rk0)).length = 16 :=
        encRounds_length _ _ hrest hs0
      have hsb : (subBytes (addRoundKey block rk0)).length = 16 := by rw [subBytes_length, hs0]
      simp only [decryptBlockWith, encryptBlockWith, hrev, padTo_of_length 16 block hb,
        padTo_of_length 16 _ hE]
      rw [decRounds_encRounds mid rk0 [] rkN _ hmid hN hs0]
      simp only [decRounds]
      rw [invShiftRows_shiftRows _ hsb, invSubBytes_subBytes,
        addRoundKey_addRoundKey _ _ (by rw [hb, h0]; exact Nat.le_refl _)]

/-! ## Shape of the key schedule (no hypothesis on the key) -/

theorem nextKeyChunk_length (rcon : UInt8) (k : List UInt8) :
    (nextKeyChunk rcon k).length = k.length := by
  unfold nextKeyChunk
  split <;> rfl

theorem expandChunks_length : ∀ (n : Nat) (rcon : UInt8) (k : List UInt8),
    (expandChunks n rcon k).length = 2 * n + 2
  | 0, _, _ => by simp [expandChunks]
  | n + 1, rcon, k => by
    simp only [expandChunks, List.length_cons, expandChunks_length n]; omega

theorem expandChunks_mem_length : ∀ (n : Nat) (rcon : UInt8) (k : List UInt8), k.length = 32 →
    ∀ rk ∈ expandChunks n rcon k, rk.length = 16
  | 0, _, k, hk, rk, hmem => by
    simp only [expandChunks, List.mem_cons, List.not_mem_nil, or_false] at hmem
    rcases hmem with rfl | rfl
    · simp [List.length_take, hk]
    · simp [List.length_drop, hk]
  | n + 1, rcon, k, hk, rk, hmem => by
    simp only [expandChunks, List.mem_cons] at hmem
    rcases hmem with rfl | rfl | hmem
    · simp [List.length_take, hk]
    · simp [List.length_drop, hk]
    · exact expandChunks_mem_length n _ _ (by rw [nextKeyChunk_length, hk]) rk hmem

/-- fifteen round keys, whatever the key -/
theorem keyExpansion_length (key : List UInt8) : (keyExpansion key).length = 15 := by
  simp [keyExpansion, List.length_take, expandChunks_length]

/-- each round key has 16 bytes, whatever the key -/
theorem keyExpansion_mem_length (key : List UInt8) : ∀ rk ∈ keyExpansion key, rk.length = 16 := by
  intro rk hmem
  exact expandChunks_mem_length 7 _ _ (padTo_length 32 key) rk (List.mem_of_mem_take hmem)

end Cinco.Aes

namespace Cinco
open Crypto

/-- AES-256 decryption undoes encryption, for every key (any length) and every 16-byte block. -/
theorem aes_dec_enc (key block : List UInt8) (hb : block.length = 16) :
    Aes.decryptBlock key (Aes.encryptBlock key block) = block :=
  Aes.decryptBlockWith_encryptBlockWith _ (Aes.keyExpansion_mem_length key) block hb

/-- The ciphertext block has 16 bytes (for every key and, in fact, every input block). -/
theorem aes_enc_len' (key block : List UInt8) : (Aes.encryptBlock key block).length = 16 :=
  Aes.encryptBlockWith_length _ (Aes.keyExpansion_mem_length key) block

theorem aes_enc_len (key block : List UInt8) (hb : block.length = 16) :
    (Aes.encryptBlock key block).length = 16 := aes_enc_len' key block

/-- The executable AES as a `BlockCipher` (same argument order as `Driver.realCipher` and
`Drv/FieldWire.lean`: key first, then block). -/
def aesCipher : BlockCipher := ⟨Aes.encryptBlock, Aes.decryptBlock⟩

theorem aesCipher_lawful : aesCipher.Lawful where
  dec_enc := fun k b hb => by
    simp only [aesCipher]
    exact aes_dec_enc k b hb
  enc_len := fun k b hb => by
    simp only [aesCipher]
    exact aes_enc_len k b hb

end Cinco
