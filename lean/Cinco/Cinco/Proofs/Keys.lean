import Cinco.Config.Keys
/-
  Helper lemmas for C03 (key-file resolution): the keyed `toTreeK` against the plain `toTree`, its dependence on the key
  files of the tree only, and the nearest-named-ancestor rule.
-/
namespace Cinco.Config
open Cinco Cinco.Field

/-! ### `keyAlong`: the last name on the chain wins -/

theorem keyAlong_append (inh : String) (a b : List (Option String)) :
    keyAlong inh (a ++ b) = keyAlong (keyAlong inh a) b := by
  induction a generalizing inh with
  | nil => rfl
  | cons x r ih => cases x <;> simp [keyAlong, ih]

theorem keyAlong_all_none (inh : String) (ch : List (Option String)) (h : ∀ x ∈ ch, x = none) : keyAlong inh ch = inh := by
  induction ch with
  | nil => rfl
  | cons x r ih =>
    have hx : x = none := h x (by simp)
    subst hx
    simpa [keyAlong] using ih (fun y hy => h y (by simp [hy]))

/-- **Nearest named ancestor.**  If `k` is named somewhere on the chain and nothing after it names a key file, `k` is the key
    file in use at the end of the chain; if nothing on the chain names one, the inherited (default) one is. -/
theorem keyAlong_nearest (inh : String) (before after : List (Option String)) (k : String)
    (hafter : ∀ x ∈ after, x = none) : keyAlong inh (before ++ some k :: after) = k := by
  rw [keyAlong_append]
  simp only [keyAlong]
  exact keyAlong_all_none k after hafter

theorem effKey_eq_keyAlong (inh : String) (c : Cfg) : effKey inh c = keyAlong inh [c.keyfile] := by
  unfold effKey
  cases c.keyfile <;> rfl

/-! ### a constant choice of world is the unkeyed `toTree` -/

section const
variable (W : World)

theorem fieldsK_const (fuel : Nat)
    (ih : ∀ (inh : String) (s : Schema) (c : Cfg), toTreeK (fun _ => W) fuel inh s c = toTree W fuel s c false none)
    (key : String) (c : Cfg) :
    ∀ fs : List (String × SField), toTreeFieldsK (fun _ => W) fuel key c fs = toTreeFields W fuel c false none fs := by
  have items : ∀ (s' : Schema) (cs : List Cfg),
      toTreeItemsK (fun _ => W) fuel key s' cs = toTreeItems W fuel s' false none cs := by
    intro s' cs
    induction cs with
    | nil => simp [toTreeItemsK, toTreeItems]
    | cons x r ihr => rw [toTreeItemsK, toTreeItems, ih, ihr]; rfl
  intro fs
  induction fs with
  | nil => simp [toTreeFieldsK, toTreeFields]
  | cons kf rest ihr =>
    obtain ⟨k, f⟩ := kf
    rw [toTreeFieldsK, toTreeFields, ihr]
    have hr : renderFieldK (fun _ => W) fuel key c k f = renderField W fuel c false none k f := by
      cases f with
      | leaf fs m =>
        rw [renderFieldK, renderField]
        cases c.get k with
        | none => rfl
        | some sl => cases sl <;> first | rfl | (simp; rfl)
      | sub s' =>
        rw [renderFieldK, renderField]
        cases c.get k with
        | none => rfl
        | some sl => cases sl <;> simp [ih]
      | ctype s' kf' =>
        rw [renderFieldK, renderField]
        cases c.get k with
        | none => rfl
        | some sl => cases sl <;> simp [ih]
      | cfgList s' it req m =>
        rw [renderFieldK, renderField]
        cases c.get k with
        | none => rfl
        | some sl => cases sl <;> simp [items]
      | virtual v st => simp [renderFieldK, renderField]
      | method => simp [renderFieldK, renderField]
    rw [hr]; rfl

theorem toTreeK_const : ∀ (fuel : Nat) (inh : String) (s : Schema) (c : Cfg),
    toTreeK (fun _ => W) fuel inh s c = toTree W fuel s c false none := by
  intro fuel
  induction fuel with
  | zero => intro inh s c; simp [toTreeK, toTree]
  | succ n ih =>
    intro inh s c
    rw [toTreeK, toTree, fieldsK_const W n ih]; rfl

end const

/-! ### only the key files of the tree matter -/

theorem fieldKeys_cons (fuel : Nat) (key : String) (c : Cfg) (k : String) (f : SField) (rest : List (String × SField)) :
    fieldKeys fuel key c ((k, f) :: rest) =
      (match f with
       | .sub s' => (match c.get k with | some (.node sub) => nodeKeys fuel key s' sub | _ => [])
       | .ctype s' _ => (match c.get k with | some (.node sub) => nodeKeys fuel key s' sub | _ => [])
       | .cfgList s' _ _ _ => (match c.get k with | some (.nodes cs) => itemKeys fuel key s' cs | _ => [])
       | .leaf _ _ => []
       | .virtual _ _ => []
       | .method => []) ++ fieldKeys fuel key c rest := by
  cases f <;> rw [fieldKeys] <;> rfl

theorem fieldNamed_cons (fuel : Nat) (c : Cfg) (k : String) (f : SField) (rest : List (String × SField)) :
    fieldNamed fuel c ((k, f) :: rest) =
      (match f with
       | .sub s' => (match c.get k with | some (.node sub) => namedKeys fuel s' sub | _ => [])
       | .ctype s' _ => (match c.get k with | some (.node sub) => namedKeys fuel s' sub | _ => [])
       | .cfgList s' _ _ _ => (match c.get k with | some (.nodes cs) => itemNamed fuel s' cs | _ => [])
       | .leaf _ _ => []
       | .virtual _ _ => []
       | .method => []) ++ fieldNamed fuel c rest := by
  cases f <;> rw [fieldNamed] <;> rfl

theorem fieldsK_congr (WK WK' : String → World) (fuel : Nat)
    (ih : ∀ (inh : String) (s : Schema) (c : Cfg), (∀ x ∈ nodeKeys fuel inh s c, WK x = WK' x) →
      toTreeK WK fuel inh s c = toTreeK WK' fuel inh s c)
    (key : String) (c : Cfg) (hkey : WK key = WK' key) :
    ∀ fs : List (String × SField), (∀ x ∈ fieldKeys fuel key c fs, WK x = WK' x) →
      toTreeFieldsK WK fuel key c fs = toTreeFieldsK WK' fuel key c fs := by
  have items : ∀ (s' : Schema) (cs : List Cfg), (∀ x ∈ itemKeys fuel key s' cs, WK x = WK' x) →
      toTreeItemsK WK fuel key s' cs = toTreeItemsK WK' fuel key s' cs := by
    intro s' cs
    induction cs with
    | nil => intro _; simp [toTreeItemsK]
    | cons x r ihr =>
      intro h
      rw [toTreeItemsK, toTreeItemsK, ih key s' x (fun y hy => h y (by simp [itemKeys, hy])),
        ihr (fun y hy => h y (by simp [itemKeys, hy]))]
  intro fs
  induction fs with
  | nil => intro _; simp [toTreeFieldsK]
  | cons kf rest ihr =>
    obtain ⟨k, f⟩ := kf
    intro h
    rw [toTreeFieldsK, toTreeFieldsK, ihr (fun y hy => h y (by rw [fieldKeys_cons]; exact List.mem_append_right _ hy))]
    have hr : renderFieldK WK fuel key c k f = renderFieldK WK' fuel key c k f := by
      cases f with
      | leaf fs m => rw [renderFieldK, renderFieldK, hkey]
      | sub s' =>
        rw [renderFieldK, renderFieldK]
        cases hg : c.get k with
        | none => rfl
        | some sl =>
          cases sl with
          | node sub =>
            simp only []
            rw [ih key s' sub (fun y hy => h y (by rw [fieldKeys_cons, hg]; exact List.mem_append_left _ hy))]
          | _ => rfl
      | ctype s' kf' =>
        rw [renderFieldK, renderFieldK]
        cases hg : c.get k with
        | none => rfl
        | some sl =>
          cases sl with
          | node sub =>
            simp only []
            rw [ih key s' sub (fun y hy => h y (by rw [fieldKeys_cons, hg]; exact List.mem_append_left _ hy))]
          | _ => rfl
      | cfgList s' it req m =>
        rw [renderFieldK, renderFieldK]
        cases hg : c.get k with
        | none => rfl
        | some sl =>
          cases sl with
          | nodes cs =>
            simp only []
            rw [items s' cs (fun y hy => h y (by rw [fieldKeys_cons, hg]; exact List.mem_append_left _ hy))]
          | _ => rfl
      | virtual v st => simp [renderFieldK]
      | method => simp [renderFieldK]
    rw [hr]

theorem toTreeK_congr (WK WK' : String → World) : ∀ (fuel : Nat) (inh : String) (s : Schema) (c : Cfg),
    (∀ x ∈ nodeKeys fuel inh s c, WK x = WK' x) → toTreeK WK fuel inh s c = toTreeK WK' fuel inh s c := by
  intro fuel
  induction fuel with
  | zero => intro inh s c _; simp [toTreeK]
  | succ n ih =>
    intro inh s c h
    rw [toTreeK, toTreeK, fieldsK_congr WK WK' n ih (effKey inh c) c (h _ (by simp [nodeKeys]))
      s.fields (fun y hy => h y (by simp [nodeKeys, hy]))]

/-! ### which key files a tree can use -/

theorem fieldKeys_subset (fuel : Nat)
    (ih : ∀ (inh : String) (s : Schema) (c : Cfg), ∀ x ∈ nodeKeys fuel inh s c, x = inh ∨ x ∈ namedKeys fuel s c)
    (key : String) (c : Cfg) :
    ∀ fs : List (String × SField), ∀ x ∈ fieldKeys fuel key c fs, x = key ∨ x ∈ fieldNamed fuel c fs := by
  have items : ∀ (s' : Schema) (cs : List Cfg), ∀ x ∈ itemKeys fuel key s' cs, x = key ∨ x ∈ itemNamed fuel s' cs := by
    intro s' cs
    induction cs with
    | nil => intro x hx; simp [itemKeys] at hx
    | cons y r ihr =>
      intro x hx
      simp only [itemKeys, List.mem_append] at hx
      rcases hx with hx | hx
      · rcases ih key s' y x hx with h | h
        · exact .inl h
        · exact .inr (by simp [itemNamed, h])
      · rcases ihr x hx with h | h
        · exact .inl h
        · exact .inr (by simp [itemNamed, h])
  intro fs
  induction fs with
  | nil => intro x hx; simp [fieldKeys] at hx
  | cons kf rest ihr =>
    obtain ⟨k, f⟩ := kf
    intro x hx
    rw [fieldKeys_cons, List.mem_append] at hx
    rcases hx with hx | hx
    · cases f with
      | sub s' =>
        cases hg : c.get k with
        | none => simp [hg] at hx
        | some sl =>
          cases sl with
          | node sub =>
            simp only [hg] at hx
            rcases ih key s' sub x hx with h | h
            · exact .inl h
            · exact .inr (by rw [fieldNamed_cons, hg]; exact List.mem_append_left _ h)
          | _ => simp [hg] at hx
      | ctype s' kf' =>
        cases hg : c.get k with
        | none => simp [hg] at hx
        | some sl =>
          cases sl with
          | node sub =>
            simp only [hg] at hx
            rcases ih key s' sub x hx with h | h
            · exact .inl h
            · exact .inr (by rw [fieldNamed_cons, hg]; exact List.mem_append_left _ h)
          | _ => simp [hg] at hx
      | cfgList s' it req m =>
        cases hg : c.get k with
        | none => simp [hg] at hx
        | some sl =>
          cases sl with
          | nodes cs =>
            simp only [hg] at hx
            rcases items s' cs x hx with h | h
            · exact .inl h
            · exact .inr (by rw [fieldNamed_cons, hg]; exact List.mem_append_left _ h)
          | _ => simp [hg] at hx
      | leaf fs m => simp at hx
      | virtual v st => simp at hx
      | method => simp at hx
    · rcases ihr x hx with h | h
      · exact .inl h
      · exact .inr (by rw [fieldNamed_cons]; exact List.mem_append_right _ h)

/-- every key file in use in the tree is the inherited one or one that some configuration of the tree names -/
theorem nodeKeys_subset : ∀ (fuel : Nat) (inh : String) (s : Schema) (c : Cfg),
    ∀ x ∈ nodeKeys fuel inh s c, x = inh ∨ x ∈ namedKeys fuel s c := by
  intro fuel
  induction fuel with
  | zero => intro inh s c x hx; simp [nodeKeys] at hx
  | succ n ih =>
    intro inh s c x hx
    simp only [nodeKeys, List.mem_cons] at hx
    rcases hx with hx | hx
    · subst hx
      unfold effKey
      cases hk : c.keyfile with
      | none => exact .inl rfl
      | some k => exact .inr (by simp [namedKeys, hk])
    · rcases fieldKeys_subset n ih (effKey inh c) c s.fields x hx with h | h
      · subst h
        unfold effKey
        cases hk : c.keyfile with
        | none => exact .inl rfl
        | some k => exact .inr (by simp [namedKeys, hk])
      · exact .inr (by simp [namedKeys, h])

/-- when the root names a key file, every key file in use is a named one: the inherited (default) one is not used -/
theorem nodeKeys_named_root (fuel : Nat) (inh : String) (s : Schema) (c : Cfg) (k : String) (hk : c.keyfile = some k) :
    ∀ x ∈ nodeKeys fuel inh s c, x ∈ namedKeys fuel s c := by
  cases fuel with
  | zero => intro x hx; simp [nodeKeys] at hx
  | succ n =>
    intro x hx
    simp only [nodeKeys, List.mem_cons] at hx
    have hroot : effKey inh c = k := by simp [effKey, hk]
    rcases hx with hx | hx
    · subst hx; simp [namedKeys, hk, hroot]
    · rcases fieldKeys_subset n (nodeKeys_subset n) (effKey inh c) c s.fields x hx with h | h
      · subst h; simp [namedKeys, hk, hroot]
      · simp [namedKeys, h]

/-- no configuration below or at the root names a key file: the whole tree uses the inherited one -/
theorem nodeKeys_unnamed (fuel : Nat) (inh : String) (s : Schema) (c : Cfg) (h : namedKeys fuel s c = []) :
    ∀ x ∈ nodeKeys fuel inh s c, x = inh := by
  intro x hx
  rcases nodeKeys_subset fuel inh s c x hx with h' | h'
  · exact h'
  · rw [h] at h'; cases h'

/-- the key file in use at the end of a path of sub-configurations is the nearest one named on the path -/
theorem ownChain_key (inh : String) : ∀ (path : List String) (c : Cfg) (ch : List (Option String)),
    ownChain c path = some ch →
    keyAlong inh ch = (match path with
      | [] => effKey inh c
      | k :: rest => match c.get k with
        | some (.node sub) => (ownChain sub rest).elim inh (keyAlong (effKey inh c))
        | _ => inh) := by
  intro path c ch h
  cases path with
  | nil =>
    simp only [ownChain, Option.some.injEq] at h
    subst h
    exact (effKey_eq_keyAlong inh c).symm
  | cons k rest =>
    simp only [ownChain] at h
    cases hg : c.get k with
    | none => simp [hg] at h
    | some sl =>
      cases sl with
      | node sub =>
        simp only [hg] at h
        cases hs : ownChain sub rest with
        | none => simp [hs] at h
        | some ch' =>
          simp only [hs, Option.map_some, Option.some.injEq] at h
          subst h
          simp only [hg, hs, Option.elim]
          unfold effKey
          cases c.keyfile <;> simp [keyAlong]
      | _ => simp [hg] at h

end Cinco.Config
